#!/venv/bin/python
"""Development QA: per-function coverage of the repository's anchored code by one property's check (after tools/covrun.sh).
  tools/covreport.py C13   -> for every function named in the property's anchors (and every function partially executed),
  the executable lines the correspondence + search never reached."""
import ast, json, os, re, sys
P = sys.argv[1]
OUT = os.environ.get("COV_OUT", "/tmp/cov")
REPO = os.environ.get("VERIF_REPO", "/repo")
prop = [json.loads(l) for l in open(os.path.join(os.path.dirname(__file__), "..", "properties.jsonl")) if json.loads(l)["id"] == P][0]
anch_names = set()
for m in prop["anchors"].get("mechanism", []):
  for w in re.findall(r"[A-Za-z_][A-Za-z_0-9]*", m.get("where", "")):
    anch_names.add(w)
cov = json.load(open(f"{OUT}/{P}/cov.json"))["files"]
tot_a = [0, 0]
for f in sorted(cov):
  v = cov[f]
  rel = os.path.relpath(f, REPO)
  ex, miss = set(v["executed_lines"]), set(v["missing_lines"])
  mb = {}
  for a, b in v.get("missing_branches", []):
    mb.setdefault(a, []).append(b)
  try:
    tree = ast.parse(open(f).read())
  except Exception:
    continue
  for node in ast.walk(tree):
    if isinstance(node, (ast.FunctionDef, ast.AsyncFunctionDef)):
      body_lines = set(range(node.body[0].lineno, node.end_lineno + 1))
      e, m = ex & body_lines, miss & body_lines
      anchored = node.name in anch_names and rel in prop["anchors"]["files"]
      if anchored:
        tot_a[0] += len(e); tot_a[1] += len(e) + len(m)
      if (anchored and (m or not e)) or (e and m and rel in prop["anchors"]["files"]):
        br = {k: mb[k] for k in sorted(mb) if k in body_lines and k in ex}
        print(f"{'*' if anchored else ' '} {rel}:{node.lineno} {node.name}: executed {len(e)}/{len(e)+len(m)}  missing {sorted(m)}  untaken-branches {br}")
print(f"== {P}: anchored-function lines executed {tot_a[0]}/{tot_a[1]}")
