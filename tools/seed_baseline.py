#!/venv/bin/python
"""Development QA helper handed to the sub-agents that write seeded changes (copied to /tmp/seed/tools/baseline.py):
   baseline.py WORKTREE  -- runs the pinned suite in WORKTREE and prints the stable-pass tests of /root/.vp/BASELINE.json that no longer pass."""
import json, os, subprocess, sys, tempfile
import xml.etree.ElementTree as ET
wt = os.path.abspath(sys.argv[1])
stable = set(json.load(open("/root/.vp/BASELINE.json"))["stable_pass"])
env = dict(os.environ, OMP_NUM_THREADS="1", OPENBLAS_NUM_THREADS="1", MKL_NUM_THREADS="1", PYTHONDONTWRITEBYTECODE="1", PYTHONHASHSEED="0")
env.pop("PYTHONPATH", None)
def run():
  with tempfile.TemporaryDirectory() as d:
    x = os.path.join(d, "junit.xml")
    subprocess.run(["/venv/bin/python", "-m", "pytest", "-q", "-p", "no:cacheprovider", "--timeout=900", "--continue-on-collection-errors", f"--junitxml={x}"],
                   cwd=wt, env=env, stdout=subprocess.DEVNULL, stderr=subprocess.DEVNULL)
    passed = set()
    for tc in ET.parse(x).getroot().iter("testcase"):
      if not any(c.tag in ("failure", "error", "skipped") for c in tc):
        passed.add(f"{tc.get('classname')}::{tc.get('name')}")
  return sorted(stable - passed)
miss = run()
if miss:  # some tests are random: one retry, only tests failing twice count
  miss = sorted(set(miss) & set(run()))
print(f"stable tests: {len(stable)}; passing now: {len(stable) - len(miss)}; no longer passing: {len(miss)}")
for m in miss[:20]:
  print("  ", m)
sys.exit(1 if miss else 0)
