#!/bin/bash
# development QA: prepare /tmp/seed/Cxx (detached worktree of /repo + PROPERTY.json + already_tried/) for a fresh sub-agent
cd "$(dirname "$0")/.."
mkdir -p /tmp/seed/tools; cp tools/seed_baseline.py /tmp/seed/tools/baseline.py
for p in "$@"; do
  d=/tmp/seed/$p
  git -C /repo worktree add --detach $d HEAD >/dev/null 2>&1
  mkdir -p $d/out $d/already_tried
  /venv/bin/python -c "
import json,sys
for l in open('properties.jsonl'):
  r=json.loads(l)
  if r['id']=='$p': json.dump(r, open('$d/PROPERTY.json','w'), indent=1)
"
  for m in seeded/${p}_m*; do [ -d $m ] && cp $m/patch.diff $d/already_tried/$(basename $m | sed 's/.*_//').diff; done
  echo "$d: $(ls $d/already_tried | wc -l) earlier diffs"
done
