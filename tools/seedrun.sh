#!/bin/bash
# Development QA: re-run checks against filed seeded changes (scratch copies only) and refresh seeded/<name>/meta.json.
#   tools/seedrun.sh C07_m3 C08_m1 ...        (no arguments: all of seeded/)      env: P=<parallel jobs, default 4>  SUITE=1 to re-run the baseline suite too
cd "$(dirname "$0")/.."
names="$@"; [ -z "$names" ] && names=$(cd seeded && ls -d C*_m*)
for n in $names; do echo "${n%%_*} $n seeded/$n/patch.diff seeded/$n/demo.py $([ -z "$SUITE" ] && echo --skip-suite)"; done | xargs -P ${P:-4} -L 1 tools/seedtest.py > /tmp/mut/seedrun_$$.log 2>&1
for n in $names; do tools/seedimport.py $n; done
