#!/bin/bash
# development helper: a private workspace for a builder sub-agent -- /tmp/work/NAME/verif (copy of /verif with its .git and build
# output) and /tmp/work/NAME/repo (detached worktree of /repo).  The agent commits in its verif copy; the coordinator fetches.
set -e
n="$1"; w=/tmp/work/$n
mkdir -p $w
rsync -a --exclude replays --exclude soak-out /verif/ $w/verif/
git -C /repo worktree add --detach $w/repo HEAD >/dev/null 2>&1 || true
echo $w
