#!/venv/bin/python
"""Development QA: markdown table of the seeded changes and what catches them (from seeded/*/meta.json)."""
import glob, json, os, re
root = os.path.join(os.path.dirname(os.path.abspath(__file__)), "..", "seeded")
print("| change | file : site | needs | first run | now caught by (signature of the replay) |")
print("|---|---|---|---|---|")
for f in sorted(glob.glob(os.path.join(root, "C*_m*", "meta.json"))):
  m = json.load(open(f))
  if m.get("superseded"):
    print(f"| {m['name']} | - | - | - | superseded: no longer breaks the property on the repaired tree ({m['superseded'][:90]}...) |")
    continue
  cr = m["check_result"]
  hist = m.get("history", [])
  first = hist[0] if hist else cr
  first_txt = "caught" if first.get("detected") and not first.get("no_failing_input_found") else ("caught, no failing input" if first.get("detected") else "MISSED")
  sigs = [r.get("signature") or r.get("kind") for r in (cr.get("replays") or [])]
  now = ("; ".join(dict.fromkeys(s for s in sigs if s)) or ("no-failing-input-found" if cr.get("detected") else "MISSED"))[:160]
  diff = open(os.path.join(os.path.dirname(f), "patch.diff")).read()
  site = re.findall(r"^@@.*@@\s*(?:def |class )?(\w+)", diff, re.M)
  files = ", ".join(os.path.basename(x) for x in m["files_changed"])
  notes = m["needs_to_manifest"]
  need = ""
  mm = re.search(r"(?:needs?|manifest)[^\n:]*:\s*(.+)", notes, re.I)
  need = (mm.group(1) if mm else notes.split("\n")[0])[:140].replace("|", "/")
  print(f"| {m['name']} | {files}: {', '.join(dict.fromkeys(site))[:60]} | {need} | {first_txt} | {now} |")
