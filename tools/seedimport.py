#!/venv/bin/python
"""Development QA: file a confirmed seeded change under /verif/seeded/<name>/ (patch.diff, demo.py, notes.md, meta.json).
  tools/seedimport.py NAME   -- reads /tmp/seed/<Cxx>/out/m<i>.* and /tmp/mut/results/NAME.json (written by tools/seedtest.py)"""
import json, os, re, shutil, subprocess, sys
name = sys.argv[1]
prop, m = name.split("_")[0], name.split("_")[1]
src = f"/tmp/seed/{prop}/out"
res = json.load(open(f"/tmp/mut/results/{name}.json"))
d0 = os.path.join(os.path.dirname(os.path.abspath(__file__)), "..", "seeded", name, "meta.json")
if "suite_not_passing" not in res and os.path.exists(d0):   # re-run with --skip-suite: the suite result of the confirmed run stands
  res["suite_not_passing"] = json.load(open(d0))["confirmed"]["baseline_suite_stable_tests_no_longer_passing"]
valid = res.get("demo_clean_rc") == 0 and res.get("demo_mutant_rc") not in (0, None) and res.get("suite_not_passing") == []
if not valid:
  sys.exit(f"{name}: not confirmed (demo/suite), not filed: {res}")
d = os.path.join(os.path.dirname(os.path.abspath(__file__)), "..", "seeded", name)
os.makedirs(d, exist_ok=True)
if not os.path.exists(f"{d}/patch.diff"):
  shutil.copy(f"{src}/{m}.diff", f"{d}/patch.diff")
  shutil.copy(f"{src}/{m}_demo.py", f"{d}/demo.py")
  open(f"{d}/notes.md", "w").write(open(f"{src}/{m}.md").read() if os.path.exists(f"{src}/{m}.md") else "")
notes = open(f"{d}/notes.md").read()
files = re.findall(r"^\+\+\+ b/(\S+)", open(f"{d}/patch.diff").read(), re.M)
head = subprocess.run(["git", "-C", "/repo", "rev-parse", "--short", "HEAD"], capture_output=True, text=True).stdout.strip()
vhead = subprocess.run(["git", "-C", "/verif", "rev-parse", "--short", "HEAD"], capture_output=True, text=True).stdout.strip()
meta = dict(
  name=name, property=prop, files_changed=files, author="independent sub-agent given only the property text and a scratch worktree",
  needs_to_manifest=notes.strip()[:1500],
  confirmed=dict(repo_commit=head, demo_exit_clean_tree=res["demo_clean_rc"], demo_exit_with_change=res["demo_mutant_rc"],
                 baseline_suite_stable_tests_no_longer_passing=res["suite_not_passing"],
                 how="tools/seedtest.py on a scratch git worktree of /repo and a scratch copy of /verif (never /repo itself)"),
  check_result=dict(verif_commit=vhead, tier="quick", detected=res.get("detected"), exit_code=res.get("check_rc"),
                    no_failing_input_found=res.get("no_failing_input"), replays=res.get("replays"), lines=[l[:300] for l in res.get("check_lines", []) if not l.startswith("KNOWN")]),
)
old = os.path.join(d, "meta.json")
if os.path.exists(old):
  prev = json.load(open(old))
  hist = prev.get("history", [])
  if prev.get("check_result") and prev["check_result"] != meta["check_result"]:
    hist.append(prev["check_result"])
  meta["history"] = hist
json.dump(meta, open(old, "w"), indent=1)
print(f"{name}: filed; detected={res.get('detected')}")
