#!/bin/bash
# development QA (not a registered check): run every property's check for several seeds / a tier and list alarms.
#   tools/soak.sh quick 1 2 3        tools/soak.sh thorough 12345
# VIOLATION / non-zero exits on the unchanged tree are false alarms (or findings) to be worked out before anything else.
cd "$(dirname "$0")/.."
tier="$1"; shift
par="${SOAK_PAR:-3}"
out="${SOAK_OUT:-soak-out}"
mkdir -p "$out"
for seed in "$@"; do
  for p in $(seq -w 1 20); do echo "C$p $seed"; done
done | xargs -P"$par" -L1 bash -c 'p=$0; s=$1; o='"$out"'/$p.$s.'"$tier"'.log; /usr/bin/time -f "%e" ./check $p --tier '"$tier"' --seed $s > $o 2>&1; rc=$?; v=$(grep -c "^VIOLATION" $o); echo "$p seed=$s tier='"$tier"' exit=$rc violations=$v time=$(tail -1 $o)"; if [ $rc -ne 0 ] || [ $v -ne 0 ]; then grep -n "VIOLATION\|Traceback\|Error" $o | head -5; fi'
