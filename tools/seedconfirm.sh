#!/bin/bash
# development QA: confirm freshly delivered seeded changes of one property (demo clean/changed, suite, check) and file them.
#   tools/seedconfirm.sh C05 m10 m11
cd "$(dirname "$0")/.."
p=$1; shift
mkdir -p /tmp/mut/results
for m in "$@"; do
  [ -f /tmp/seed/$p/out/$m.diff ] || { echo "$p $m: no diff delivered"; continue; }
  tools/seedtest.py $p ${p}_$m /tmp/seed/$p/out/$m.diff /tmp/seed/$p/out/${m}_demo.py > /tmp/mut/results/${p}_$m.stdout 2>&1
  tools/seedimport.py ${p}_$m
done
