"""Regenerate MANIFEST.json from the plug-ins in tools/props (run by hand after adding a property)."""
import importlib
import json
import os
import sys

sys.path.insert(0, os.path.dirname(os.path.abspath(__file__)))
V = os.path.dirname(os.path.dirname(os.path.abspath(__file__)))
ids = [json.loads(l)["id"] for l in open(os.path.join(V, "properties.jsonl"))]
checks, na, served = [], [], []
ready = set(open(os.path.join(V, "tools", "READY")).read().split())
for pid in ids:
  if pid not in ready or not os.path.exists(os.path.join(V, "tools", "props", f"{pid}.py")):
    na.append(dict(property_id=pid, reason="check not built yet in this round (planned, see DESIGN.md section 7); not a claim that the technique cannot apply"))
    continue
  m = importlib.import_module(f"props.{pid}")
  served.append(pid)
  checks.append(dict(
    property_id=pid, quick_cmd=f"./check {pid} --tier quick", thorough_cmd=f"./check {pid} --tier thorough",
    evidence_file=f"/verif/evidence/{pid}.json", replay_cmd_template=f"./check {pid} --replay {{path}}", engine="coq-proof",
    level_claimed=dict(category="proof", text=m.LEVEL_TEXT, design_ref=m.DESIGN_REF), level_note=m.LEVEL_NOTE, technique=m.TECHNIQUE))
hooks_commits = [l.strip() for l in open(os.path.join(V, "HOOK_COMMITS")).read().split()] if os.path.exists(os.path.join(V, "HOOK_COMMITS")) else []
man = dict(
  version=1, setup_cmd="./tools/setup.sh",
  hooks=dict(guard="SIGOPT_LIBSIGOPT_VERIF",
             enable="./check exports SIGOPT_LIBSIGOPT_VERIF=1; no source hook exists in /repo — all instrumentation is monkeypatching inside the harness process",
             baseline_off_cmd="cd /repo && /venv/bin/python -m pytest -ra -q -p no:cacheprovider --timeout=900 --continue-on-collection-errors",
             source_commits=hooks_commits, add_only=True),
  engines=[
    dict(name="coq-proof", path="coq/", serves_properties=served,
         kind_free_text="Coq 8.16 theorems over hand-written executable Gallina models (coq/Model) and over definitions regenerated from /repo by tools/py2v (coq/Gen); proofs in coq/Proofs, property statements in coq/Props"),
    dict(name="py2v", path="tools/py2v/", serves_properties=[p for p in served if hasattr(importlib.import_module(f"props.{p}"), "generate")],
         kind_free_text="fail-closed Python-ast to Coq translator with dual-rendering self-check"),
    dict(name="corr", path="tools/props/", serves_properties=served,
         kind_free_text="model/implementation correspondence: generated cases, scripted randomness, comparison evaluated inside Coq by vm_compute; independent-oracle searchers"),
  ],
  checks=checks,
  notes="Every check: corpus replay, regenerate Gen from /repo, full .vo build of the property's cone with Print Assumptions, forbidden-construct scan, in-Coq correspondence, independent-oracle search; see DESIGN.md section 2.2",
  not_applicable=na)
json.dump(man, open(os.path.join(V, "MANIFEST.json"), "w"), indent=1)
print(f"{len(checks)} checks, {len(na)} not yet claimed")
