"""Harness helpers of property C11 (owned by tools/props/C11.py): request builder for GpHyperOptMultimetricView, an endpoint
runner with the SLSQP runs scripted and the constructed likelihood objects / search boxes introspected, Coq printers, and
the plain-Python independent oracles (search box, metric scaling, slogdet likelihood)."""
import copy
import math
import types

import numpy

from lib import common as C

# ------------------------------------------------------------------------------------------ requests


def build_request(inp):
  """A request (dict of dataclasses) for GpHyperOptMultimetricView from a JSON-able description."""
  from libsigopt.aux.adapter_info_containers import DomainInfo, GPModelInfo, MetricsInfo, PointsContainer
  comps = copy.deepcopy(inp["components"])
  n = len(inp["points"])
  vals = numpy.array(inp["values"], dtype=float).reshape(n, -1)
  nm = vals.shape[1]
  tasks = numpy.array(inp.get("task_options") or [], dtype=float)
  mi = MetricsInfo(requires_pareto_frontier_optimization=(len(inp["optimized"]) == 2), observation_budget=100,
                   user_specified_thresholds=[None] * nm, objectives=list(inp["objectives"]),
                   optimized_metrics_index=list(inp["optimized"]), constraint_metrics_index=list(inp["constraint"]))
  ps = PointsContainer(points=numpy.array(inp["points"], dtype=float).reshape(n, len(comps)), values=vals,
                       value_vars=numpy.array(inp["value_vars"], dtype=float).reshape(n, nm),
                       failures=numpy.array(inp["failures"], dtype=bool),
                       task_costs=numpy.array(inp["task_costs"], dtype=float) if tasks.size else None)
  return {
    "domain_info": DomainInfo(constraint_list=[], domain_components=comps, force_hitandrun_sampling=False, priors=None),
    "points_sampled": ps, "tag": {"experiment_id": 1}, "metrics_info": mi, "task_options": tasks,
    "model_info": GPModelInfo(hyperparameters=copy.deepcopy(inp["hps"]), max_simultaneous_af_points=100,
                              nonzero_mean_info={"mean_type": inp.get("mean_type", "constant"), "poly_indices": None},
                              task_selection_strategy="a_priori" if tasks.size else None),
  }


def resolve_end(spec, start, bounds):
  """A scripted end point, relative to the box the optimiser was given: ("start",) | ("in", ts) | ("corner", bits) |
  ("out", j, side, ts)."""
  lo, hi = bounds[:, 0], bounds[:, 1]
  kind = spec[0]
  if kind == "start":
    return numpy.array(start, dtype=float)
  if kind == "corner":
    return numpy.array([hi[i] if spec[1][i] else lo[i] for i in range(len(lo))], dtype=float)
  ts = numpy.array(spec[-1], dtype=float)[:len(lo)]
  x = numpy.clip(lo + ts * (hi - lo), lo, hi)
  if kind == "out":
    j = spec[1] % len(lo)
    x[j] = lo[j] * 0.5 if spec[2] == "below" else hi[j] * 1.5
  return x


class _Fake:
  current_point = None


class _Live:
  """the stub optimiser's objective: the scripted runs decide the outcomes, but every point the real MultistartOptimizer loop assigns is ALSO handed - the
  same array object, as in the real flow - to the real likelihood object, whose setter must leave the caller's row as it is (a setter writing into it
  changes the start the loop falls back to: C11_m14)"""
  def __init__(self, real):
    self._real, self._p = real, None

  def _get(self):
    return self._p

  def _set(self, p):
    self._p = p
    try:
      self._real.current_point = p
    except Exception:  # noqa: BLE001 - whether the real object can be fitted there is not what the scripts are about
      pass
  current_point = property(_get, _set)


def run_endpoint(inp, scripts=None):
  """One GpHyperOptMultimetricView(params).view() call.  scripts = None: the real SLSQP; otherwise scripts[k][j] describes
  what the j-th inner run of the k-th fit leaves behind (dict raised/success/fun/end) and the real MultistartOptimizer loop
  runs over a stub.  Returns dict(error, out, fits): fits[k] = what call_hyperopt_per_metric constructed for its k-th call
  (metric index, rows / values / variances of the likelihood's data, nugget flag, box, start vector, starts and resolved
  outcomes of the inner runs)."""
  import libsigopt.views.rest.gp_hyper_opt_multimetric as M
  from libsigopt.compute.optimization_auxiliary import OptimizerInfo
  params = build_request(inp)
  log, calls = [], []

  def record(domain, ll):
    hd = ll.historical_data
    rec = dict(rows=numpy.array(hd.points_sampled, dtype=float).tolist(), vals=[float(x) for x in hd.points_sampled_value],
               vars=[float(x) for x in hd.points_sampled_noise_variance], auto=bool(ll.use_auto_noise),
               box=numpy.array(domain.domain_bounds, dtype=float).tolist(), x0=[float(x) for x in ll.current_point],
               log_domain=bool(ll.log_domain), cov_class=type(ll.covariance).__name__,
               mean=None if ll.mean_poly_indices is None else numpy.array(ll.mean_poly_indices).tolist(),
               starts=[], outcomes=[])
    log.append(rec)
    return rec

  class Stub:
    def __init__(self, domain, optimizable, parameters):
      k = len(log)
      self.rec = record(domain, optimizable)
      self.domain, self.objective_function, self.optimization_results = domain, _Live(optimizable), None
      self.script, self.j = (scripts[k] if k < len(scripts) else []), 0

    @property
    def dim(self):
      return self.domain.dim

    def optimize(self, **kwargs):
      start = numpy.array(self.objective_function.current_point, dtype=float)
      spec = self.script[self.j] if self.j < len(self.script) else dict(raised=True)
      self.j += 1
      self.rec["starts"].append(start.tolist())
      if spec.get("raised"):
        self.rec["outcomes"].append(dict(raised=True, success=False, end=start.tolist(), fun=None))
        raise numpy.linalg.LinAlgError("scripted")
      end = resolve_end(spec["end"], start, self.domain.domain_bounds)
      fun = spec.get("fun")
      self.rec["outcomes"].append(dict(raised=False, success=bool(spec["success"]), end=end.tolist(), fun=fun))
      self.optimization_results = types.SimpleNamespace(x=end, fun=float("nan") if fun is None else -float(fun), success=bool(spec["success"]))
      self.objective_function.current_point = end

  class RecSLSQP(M.SLSQPOptimizer):
    def __init__(self, domain, optimizable, parameters=None):
      record(domain, optimizable)
      super().__init__(domain, optimizable, parameters)

  class V(M.GpHyperOptMultimetricView):
    def call_hyperopt_per_metric(self, pts, vals, vars_, hd):
      ix = [i for i, h in enumerate(self.params["model_info"].hyperparameters) if h is hd]
      calls.append(ix[0] if len(ix) == 1 else -1)
      return super().call_hyperopt_per_metric(pts, vals, vars_, hd)

  old = M.DEFAULT_HYPER_OPT_OPTIMIZER_INFO
  M.DEFAULT_HYPER_OPT_OPTIMIZER_INFO = OptimizerInfo(optimizer=Stub if scripts is not None else RecSLSQP, parameters=old.parameters,
                                                      num_multistarts=old.num_multistarts, num_random_samples=old.num_random_samples)
  try:
    before = copy.deepcopy(params["model_info"].hyperparameters)
    resp = V(params).view()
    out = resp["hyperparameter_dict"]
    err = None
    if params["model_info"].hyperparameters != before:
      err = "request-modified"
  except Exception as e:  # noqa: BLE001 - reported to the caller as the observable
    out, err = None, f"{type(e).__name__}: {e}"
  finally:
    M.DEFAULT_HYPER_OPT_OPTIMIZER_INFO = old
  for k, rec in enumerate(log):
    rec["metric"] = calls[k] if k < len(calls) else -1
  return dict(error=err, out=out, fits=log)


# ------------------------------------------------------------------------------------------ Coq printers

q = C.qlit


def comp_lit(c):
  e = c["elements"]
  t = c["var_type"]
  if t == "double":
    return f"(Double {q(e[0])} {q(e[1])})"
  if t == "int":
    return f"(Int {C.zlit(e[0])}%Z {C.zlit(e[1])}%Z)"
  if t == "categorical":
    return "(Cat [" + "; ".join(f"{C.zlit(x)}%Z" for x in e) + "])"
  return "(Grid " + C.listlit(e, q) + ")"


def qrows(rows):
  return C.listlit([C.listlit(r, q) for r in rows])


def hp_lit(h):
  ls = C.listlit([C.listlit(l, lambda x: C.optlit(x, q)) for l in h["length_scales"]])
  return f"(mkhp {q(h['alpha'])} {ls} {C.optlit(h['task_length'], q)} {C.optlit(h['tikhonov'], q)})"


def outcome_lit(o):
  return f"(Multistart.mkoc {C.blit(o['raised'])} {C.blit(o['success'])} {C.listlit(o['end'], q)} {C.optlit(o['fun'], q)})"


def box_lit(b):
  return C.listlit([f"({q(lo)}, {q(hi)})" for lo, hi in b])


def fit_lit(f):
  return (f"(mkfit {C.nlit(f['metric'])} {qrows(f['rows'])} {C.listlit(f['vals'], q)} {C.listlit(f['vars'], q)} "
          f"{C.blit(f['auto'])} {box_lit(f['box'])} {C.listlit(f['x0'], q)})")


def obj_lit(o):
  return "Midpoint.Maximize" if o == "maximize" else "Midpoint.Minimize"


def endpoint_case(inp, res):
  tasks = "None" if not inp.get("task_options") else "(Some " + C.listlit(inp["task_costs"], q) + ")"
  scripts = C.listlit([C.listlit(f["outcomes"], outcome_lit) for f in res["fits"]])
  gens = C.listlit([qrows(f["starts"][1:]) for f in res["fits"]])
  return (f"CEndpoint {C.listlit(inp['components'], comp_lit)} {qrows(inp['points'])} {tasks} {qrows(inp['values'])} "
          f"{qrows(inp['value_vars'])} {C.listlit(inp['failures'], C.blit)} {C.listlit(inp['objectives'], obj_lit)} "
          f"{C.listlit(inp['optimized'], C.nlit)} {C.listlit(inp['constraint'], C.nlit)} {C.listlit(inp['hps'], hp_lit)} "
          f"{scripts} {gens} {C.listlit(res['fits'], fit_lit)} {C.listlit(res['out'], hp_lit)}")


# ------------------------------------------------------------------------------------------ independent oracles (plain Python)


def own_one_hot_dim(comps):
  return sum(len(c["elements"]) if c["var_type"] == "categorical" else 1 for c in comps)


def own_scaled(col, fails, objective):
  """The documented normalisation of one metric (C12), written from its description: successful values mapped affinely onto
  [-0.1, 0.1] (smaller = better); degenerate width: divide by the magnitude (when all |v| > 1) or leave alone.  Returns the
  scaled values at the successful observations."""
  succ = [v for v, f in zip(col, fails) if not f]
  sign = 1.0 if objective == "minimize" else -1.0
  mx, mn = max(succ), min(succ)
  if (mx - mn) / 2 < 1e-8:
    if min(abs(mx), abs(mn)) > 1:
      mid, scale = mn, 1.0 / max(abs(mx), abs(mn))
    else:
      mid, scale = 0.0, 1.0
  else:
    mid, scale = (mx + mn) / 2, 0.2 / (mx - mn)
  return [sign * scale * (v - mid) for v in succ]


def own_box(comps, scaled, auto, multitask):
  """The search box as the property describes it, from the sample variance of the fitted values and the parameter widths."""
  m = sum(scaled) / len(scaled)
  var = max(sum((x - m) ** 2 for x in scaled) / len(scaled), 1e-10)
  box = [[0.001 * var, 10 * var]]
  for c in comps:
    e = c["elements"]
    if c["var_type"] == "categorical":
      box += [[0.14, 1.01] for _ in e]
      continue
    w = max(e) - min(e)
    lo = 0.001 * w
    if c["var_type"] == "int":
      lo = max(0.14, lo)
    elif c["var_type"] == "quantized":
      s = sorted(e)
      lo = max(0.25 * min(b - a for a, b in zip(s, s[1:])), lo)
    box.append([lo, w])
  if multitask:
    box.append([0.43, 1.01])
  if auto:
    box.append([0.0001 * var, 100 * var])
  return box


def flatten_dict(comps, d):
  """(vector, problem) of a returned dictionary against the supplied structure."""
  if not isinstance(d, dict) or set(d.keys()) != {"alpha", "length_scales", "task_length", "tikhonov"}:
    return None, "keys"
  ls = d["length_scales"]
  if not isinstance(ls, list) or len(ls) != len(comps):
    return None, "one length-scale entry per parameter"
  v = [d["alpha"]]
  for c, l in zip(comps, ls):
    want = len(c["elements"]) if c["var_type"] == "categorical" else 1
    if not isinstance(l, list) or len(l) != want:
      return None, "one length scale per numeric parameter and per category"
    v += l
  if d["task_length"] is not None:
    v.append(d["task_length"])
  if d["tikhonov"] is not None:
    v.append(d["tikhonov"])
  if not all(isinstance(x, float) and math.isfinite(x) and x > 0 for x in v):
    return v, "finite positive"
  return v, None


KERNELS = {
  "SquareExponential": lambda d2: numpy.exp(-0.5 * d2),
  "C2RadialMatern": lambda d2: (1 + numpy.sqrt(d2)) * numpy.exp(-numpy.sqrt(d2)),
  "C4RadialMatern": lambda d2: (1 + numpy.sqrt(d2) + d2 / 3.0) * numpy.exp(-numpy.sqrt(d2)),
}


def own_loglik(kernel, hp, x, y, noise, tik, mean, scale):
  """-scale * (r' K^-1 r + log det K) with K from the kernel formula and the noise or the nugget, r the GLS-demeaned residual;
  numpy.linalg.solve / slogdet only.  Returns (value, condition number of K)."""
  x = numpy.asarray(x, dtype=float)
  y = numpy.asarray(y, dtype=float)
  n, d = x.shape
  alpha, ls = hp[0], numpy.asarray(hp[1:1 + d], dtype=float)
  z = x / ls
  d2 = numpy.maximum(((z[:, None, :] - z[None, :, :]) ** 2).sum(axis=2), 0.0)
  K = alpha * KERNELS[kernel](d2) + (numpy.eye(n) * tik if tik is not None else numpy.diag(numpy.asarray(noise, dtype=float)))
  if mean == "zero":
    r = y
  else:
    P = numpy.ones((n, 1)) if mean == "constant" else numpy.hstack([numpy.ones((n, 1)), x])
    KiP = numpy.linalg.solve(K, P)
    b = numpy.linalg.solve(P.T @ KiP, KiP.T @ y)
    r = y - P @ b
  sgn, logdet = numpy.linalg.slogdet(K)
  return -scale * (float(r @ numpy.linalg.solve(K, r)) + float(logdet)), float(numpy.linalg.cond(K)), sgn
