"""C01 helpers: request generator for the five next-points endpoints, an endpoint runner that can be called in a
multiprocessing pool, and the independent membership oracle (plain Python, shares no code with libsigopt or the Coq model)."""
import copy
import math

import numpy


# ------------------------------------------------------------------------------------------ independent oracle


def member(comps, cons, p, tol=1e-9):
  """None when p is a configuration of the domain, else a short reason.  Doubles within bounds (1e-9 slack for the float
  rounding of the restriction step), ints integral and within bounds, categorical / grid values exact members, every linear
  constraint satisfied within 1e-9 * max(1, |rhs|)."""
  if len(p) != len(comps):
    return "length"
  for x, c in zip(p, comps):
    e = c["elements"]
    x = float(x)
    if not math.isfinite(x):
      return "non-finite"
    if c["var_type"] == "double":
      slack = tol * max(1.0, abs(e[0]), abs(e[1]))
      if not (e[0] - slack <= x <= e[1] + slack):
        return "double-out-of-bounds"
    elif c["var_type"] == "int":
      if x != math.floor(x):
        return "int-not-integral"
      if not (e[0] <= x <= e[1]):
        return "int-out-of-bounds"
    elif c["var_type"] == "categorical":
      if not any(x == v for v in e):
        return "categorical-not-an-element"
    else:
      if not any(x == v for v in e):
        return "grid-not-an-element"
  for k in cons or []:
    s = math.fsum(float(w) * float(x) for w, x in zip(k["weights"], p))
    if s < k["rhs"] - tol * max(1.0, abs(k["rhs"])):
      return "constraint-violated"
  return None


def check_response(req, resp):
  """The property as stated, on one response.  Returns (signature-suffix, detail) or None."""
  comps, cons = req["comps"], req["cons"]
  pts = [list(map(float, p)) for p in resp["points"]]
  for p in pts:
    why = member(comps, cons, p)
    if why:
      return why, dict(point=p)
  n = req["num_to_sample"]
  discrete = all(c["var_type"] != "double" for c in comps)
  int_con = any(k["var_type"] == "int" for k in cons or [])
  if len(pts) > n or (len(pts) < n and not (discrete or int_con)):
    return "count", dict(returned=len(pts), requested=n)
  if len(pts) < n and discrete and not cons and not (req.get("task_options") or []) and resp.get("distinct_seen") is not None:
    # "fewer only when the discrete domain cannot supply them": an unconstrained lattice with at least n configurations that are neither
    # observed nor pending can
    total = 1
    for c in comps:
      total *= (int(c["elements"][1]) - int(c["elements"][0]) + 1) if c["var_type"] == "int" else len(c["elements"])
    if total - resp["distinct_seen"] >= n:
      return "short-although-unobserved-configurations-remain", dict(returned=len(pts), requested=n, configurations=total, observed_or_pending=resp["distinct_seen"])
  opts = req.get("task_options") or []
  costs = resp.get("task_costs")
  if opts and req["endpoint"] in ("gp", "spe", "random"):
    if costs is None or len(costs) != len(pts):
      return "task-cost-count", dict(costs=costs, points=len(pts))
    if any(not any(float(c) == float(o) for o in opts) for c in costs):
      return "task-cost-not-an-option", dict(costs=costs, options=opts)
  if not opts and costs is not None:
    return "task-costs-without-options", dict(costs=costs)
  return None


# ------------------------------------------------------------------------------------------ request generator


def thin_domain(rng):
  """2-4 double parameters (sometimes an int / categorical / grid parameter as well) between two OPPOSING double-typed constraints
  r <= w . x <= r + delta, delta a 3e-7 ... 3e-6 fraction of the range of w . x over the box (a mixture / budget equality given with a
  tolerance): the inscribed radius stays above the library's 1e-8, but a million rejection trials find at most a point or two, so the one-hot
  sampler falls back on hit-and-run padding (and switches to hit-and-run for the rest of the domain object's life)."""
  comps = []
  for _ in range(rng.randint(2, 4)):
    lo = rng.choice([-3.5, 0.0, 1e-3, -100.0, 2.0])
    comps.append(dict(var_type="double", elements=[lo, lo + rng.choice([0.5, 1.0, 7.25, 1000.0])]))
  if rng.random() < 0.5:
    extra = rng.choice([dict(var_type="int", elements=[-2, 3]), dict(var_type="categorical", elements=[1, 3, 5]), dict(var_type="quantized", elements=[-2.0, 0.125, 3.5])])
    comps.insert(rng.randint(0, len(comps)), extra)
  dbl = [i for i, c in enumerate(comps) if c["var_type"] == "double"]
  w = [0.0] * len(comps)
  for i in rng.sample(dbl, rng.randint(2, len(dbl))):
    w[i] = rng.choice([-1.0, 1.0, 0.5, 2.0])
  low = sum(min(w[i] * comps[i]["elements"][0], w[i] * comps[i]["elements"][1]) for i in dbl)
  span = sum(abs(w[i]) * (comps[i]["elements"][1] - comps[i]["elements"][0]) for i in dbl)
  r = low + span * rng.uniform(0.3, 0.7)
  delta = span * rng.choice([3e-7, 1e-6, 3e-6])
  cons = [dict(weights=list(w), rhs=r, var_type="double"), dict(weights=[-x for x in w], rhs=-(r + delta), var_type="double")]
  rng.shuffle(cons)
  return comps, cons, None


def gen_domain(rng, discrete_only=False, constraints="maybe", priors="maybe", max_dim=4):
  if constraints == "thin":
    return thin_domain(rng)
  comps = []
  dim = rng.randint(1, max_dim)
  for _ in range(dim):
    t = rng.choices(["double", "int", "categorical", "quantized"], [0.0, 0.4, 0.3, 0.3] if discrete_only else [0.4, 0.25, 0.2, 0.15])[0]
    if t == "double":
      lo = rng.choice([-3.5, 0.0, 1e-3, -100.0, 2.0])
      comps.append(dict(var_type="double", elements=[lo, lo + rng.choice([0.5, 1.0, 7.25, 1000.0])]))
    elif t == "int":
      lo = rng.randint(-6, 3)
      comps.append(dict(var_type="int", elements=[lo, lo + rng.randint(1, 6)]))
    elif t == "categorical":
      comps.append(dict(var_type="categorical", elements=sorted(rng.sample(range(12), rng.randint(2, 4)))))
    else:
      comps.append(dict(var_type="quantized", elements=sorted(rng.sample([-7.5, -2.0, -0.25, 0.0, 0.125, 1.0, 3.5, 10.0, 40.0], rng.randint(2, 4)))))
  cons = []
  if constraints != "no":
    force = constraints in ("yes", "both")
    dbl = [i for i, c in enumerate(comps) if c["var_type"] == "double"]
    ints = [i for i, c in enumerate(comps) if c["var_type"] == "int"]
    if constraints == "both" and not discrete_only:
      comps += [dict(var_type="double", elements=[0.0, 1.0]), dict(var_type="double", elements=[0.0, 7.25]), dict(var_type="int", elements=[0, 4]),
                dict(var_type="int", elements=[-2, 3])]
      dbl = [i for i, c in enumerate(comps) if c["var_type"] == "double"]
      ints = [i for i, c in enumerate(comps) if c["var_type"] == "int"]
      force = True
    if force and len(dbl) < 2 and len(ints) < 2 and not discrete_only:
      lo = rng.choice([-3.5, 0.0])
      comps += [dict(var_type="double", elements=[lo, lo + 1.0]), dict(var_type="double", elements=[0.0, 7.25])]
      dbl = [i for i, c in enumerate(comps) if c["var_type"] == "double"]
    if force and discrete_only and len(ints) < 2:
      comps += [dict(var_type="int", elements=[0, 4]), dict(var_type="int", elements=[-2, 3])]
      ints = [i for i, c in enumerate(comps) if c["var_type"] == "int"]
    dim = len(comps)
    if len(dbl) >= 2 and (force or rng.random() < 0.6):
      w = [0.0] * dim
      i, j = rng.sample(dbl, 2)
      w[i], w[j] = rng.choice([-1.0, 1.0, 0.5, 2.0]), rng.choice([-1.0, 1.0, 0.5])
      mid = sum(w[k] * (comps[k]["elements"][0] + comps[k]["elements"][1]) / 2 for k in (i, j))
      span = sum(abs(w[k]) * (comps[k]["elements"][1] - comps[k]["elements"][0]) / 2 for k in (i, j))
      cons.append(dict(weights=w, rhs=mid - 0.5 * span, var_type="double"))
    if len(ints) >= 2 and (force or rng.random() < 0.6):
      w = [0] * dim
      i, j = rng.sample(ints, 2)
      w[i], w[j] = rng.choice([-1, 1]), rng.choice([-1, 1, 2])
      mid = sum(w[k] * (comps[k]["elements"][0] + comps[k]["elements"][1]) / 2 for k in (i, j))
      cons.append(dict(weights=w, rhs=float(math.floor(mid)) - 1, var_type="int"))
  rng.shuffle(cons)   # double- and int-typed constraints in any order (positions in the list index the half-space rows)
  pri = None
  if priors != "no" and (priors == "yes" or rng.random() < 0.4) and (not cons or priors == "yes" or rng.random() < 0.5):
    pri = []
    for c in comps:
      if c["var_type"] == "double" and rng.random() < 0.8:
        lo, hi = c["elements"]
        if rng.random() < 0.5:
          pri.append(dict(name="normal", params=dict(mean=lo + (hi - lo) * rng.random(), scale=(hi - lo) * rng.choice([0.05, 0.5, 3.0]))))
        else:
          pri.append(dict(name="beta", params=dict(shape_a=rng.choice([0.5, 1, 2, 5]), shape_b=rng.choice([0.5, 1, 3]))))
      else:
        pri.append(dict(name=None, params=None))
  return comps, cons, pri


def gen_request(rng, endpoint, **kw):
  """A JSON-able description of one valid request (DESIGN 7 C01).  Everything random inside the endpoint is seeded by `seed`."""
  search = endpoint in ("search", "spe_search")
  ntask = 0 if search else kw.get("ntask", rng.choice([0, 0, 2, 3]))
  discrete_only = kw.get("discrete_only", rng.random() < 0.25)
  comps, cons, pri = gen_domain(rng, discrete_only, kw.get("constraints", "maybe"), kw.get("priors", "maybe"),
                                max_dim=kw.get("max_dim", 3 if endpoint in ("gp", "search") else 4))
  n = kw.get("n_obs", rng.randint(6, 14))
  budget = kw.get("budget", rng.choice([None, n, 2 * n, 5 * n, 20 * n]) if not search else rng.choice([n, 2 * n, 4 * n, 12 * n]))
  if search:
    nopt, ncon = 0, kw.get("ncon", rng.choice([1, 2]))
  else:
    nopt, ncon = kw.get("nopt", rng.choice([1, 1, 2])), kw.get("ncon", rng.choice([0, 0, 1]))
  if nopt == 2 and budget is None:
    budget = 3 * n
  npend = kw.get("npend", rng.choice([0, 0, 1, 2]))
  parallelism = kw.get("parallelism", rng.choice(["constant_liar", "qei"]))
  num = kw.get("num_to_sample", rng.choice([1, 1, 2, 3]))
  if parallelism == "qei" and npend > 0 and endpoint in ("gp", "search") and not ntask:
    num = 1
  return dict(endpoint=endpoint, comps=comps, cons=cons, priors=pri, n_obs=n, nopt=nopt, ncon=ncon, ntask=ntask, npend=npend,
              num_to_sample=num, budget=budget, failp=kw.get("failp", rng.choice([0.0, 0.2, 0.6])), noise=rng.choice([0.0, 1e-3]),
              parallelism=parallelism, dup_heavy=kw.get("dup_heavy", rng.random() < 0.2), thresholds_opt=rng.random() < 0.3,
              violators=kw.get("violators", True), seed=rng.randint(0, 2 ** 31 - 1), cluster=kw.get("cluster"))


def build_params(req):
  """Materialise the request with a numpy Generator seeded by req['seed'] (deterministic)."""
  from libsigopt.aux.adapter_info_containers import DomainInfo, GPModelInfo, MetricsInfo, PointsContainer
  from libsigopt.compute.domain import CategoricalDomain
  rng = numpy.random.default_rng(req["seed"])
  numpy.random.seed(req["seed"] % (2 ** 32))
  comps, cons, priors = copy.deepcopy(req["comps"]), copy.deepcopy(req["cons"]), copy.deepcopy(req["priors"])
  dom = CategoricalDomain(comps, cons or None, priors=priors)
  n = req["n_obs"]
  pts = dom.generate_quasi_random_points_in_domain(n)
  if req["dup_heavy"] and len(pts) > 3:
    pts = pts[rng.integers(0, 3, len(pts))]
  n = len(pts)
  nm = req["nopt"] + req["ncon"]
  vals = rng.choice([1.0, 1e3, 1e-3]) * rng.normal(size=(n, nm)) + rng.choice([0, 50.0])
  cluster = req.get("cluster")
  if cluster and n >= 8:
    # the best observations are near-repeats of one location (a converged experiment): the Parzen lower density becomes a needle and the
    # rejection sampler of the SPE endpoints can exhaust its budget
    k = 4
    for r in range(1, k):
      pts[r] = pts[0]
      for j, c in enumerate(comps):
        if c["var_type"] == "double":
          lo, hi = c["elements"]
          pts[r, j] = min(hi, max(lo, pts[0, j] + cluster * (hi - lo) * rng.normal()))
  fails = rng.random(n) < req["failp"]
  if fails.all():
    fails[0] = False
  ntask = req["ntask"]
  tasks = numpy.sort(numpy.round(rng.random(ntask), 3) + numpy.arange(ntask) * 1e-3) if ntask else numpy.array([])
  if ntask and len({float(t) for t in tasks}) < ntask:
    # 0.648 and 0.647 + 0.001 collide: not a valid request (>= 2 DISTINCT task options; the task column [t, t] is refused by the domain) - skipped
    raise RuntimeError("generated task options are not distinct")
  perm = rng.permutation(nm)
  oi = [int(x) for x in perm[:req["nopt"]]]
  ci = [int(x) for x in perm[req["nopt"]:]]
  objs = [str(rng.choice(["maximize", "minimize"])) for _ in range(nm)]
  thr = numpy.full(nm, numpy.nan)
  for c in ci:
    q = float(rng.choice([0.3, 0.5, 0.7]))
    thr[c] = float(numpy.quantile(vals[:, c], q))
    if not req["violators"]:
      thr[c] = float(vals[:, c].min() - 100.0) if objs[c] == "maximize" else float(vals[:, c].max() + 100.0)
  if req["thresholds_opt"] and req["nopt"] == 2:
    for o in oi:
      thr[o] = float(numpy.quantile(vals[:, o], 0.3))
  if cluster and n >= 8:
    for col in range(nm):   # ... and they carry the best values of every metric, in the sense of its objective
      sgn = 1.0 if objs[col] == "maximize" else -1.0
      spread = float(numpy.abs(vals[:, col]).max()) + 1.0
      vals[:4, col] = sgn * (spread * 3.0 + 0.01 * spread * numpy.arange(4))
    fails[:4] = False
  mi = MetricsInfo(requires_pareto_frontier_optimization=(req["nopt"] == 2), observation_budget=req["budget"],
                   user_specified_thresholds=thr, objectives=objs, optimized_metrics_index=oi, constraint_metrics_index=ci)
  ps = PointsContainer(points=pts, values=vals, value_vars=numpy.full_like(vals, req["noise"]), failures=fails,
                       task_costs=rng.choice(tasks, size=n) if ntask else None)
  pend = dom.generate_quasi_random_points_in_domain(req["npend"])
  pb = PointsContainer(points=pend, task_costs=rng.choice(tasks, size=len(pend)) if ntask else None)
  params = dict(domain_info=DomainInfo(constraint_list=cons, domain_components=comps, force_hitandrun_sampling=False, priors=priors),
                num_to_sample=req["num_to_sample"], points_sampled=ps, points_being_sampled=pb, tag={"e": 1}, metrics_info=mi,
                task_options=tasks, parallelism=req["parallelism"], max_simultaneous_af_points=1000)
  if req["endpoint"] in ("gp", "search"):
    def hyper():
      ls = []
      for c in comps:
        if c["var_type"] == "categorical":
          ls.append([float(rng.uniform(0.5, 2)) for _ in c["elements"]])
        else:
          e = c["elements"]
          ls.append([float(rng.gamma(1, 0.3) + 0.05) * (max(e) - min(e))])
      return dict(alpha=float(rng.gamma(1, 0.1) + 1e-3), length_scales=ls, tikhonov=None, task_length=0.3 if ntask else None)
    params["model_info"] = GPModelInfo(hyperparameters=[hyper() for _ in range(nm)], max_simultaneous_af_points=777,
                                       nonzero_mean_info=dict(mean_type="constant", poly_indices=None),
                                       task_selection_strategy="a_priori" if ntask else None)
  return params, [float(t) for t in tasks]


VIEWS = dict(gp=("libsigopt.views.rest.gp_next_points_categorical", "GpNextPointsCategorical"),
             spe=("libsigopt.views.rest.spe_next_points", "SPENextPoints"),
             search=("libsigopt.views.rest.search_next_points", "SearchNextPoints"),
             spe_search=("libsigopt.views.rest.spe_search_next_points", "SPESearchNextPoints"),
             random=("libsigopt.views.rest.random_search_next_points", "RandomSearchNextPoints"))


def shrink_optimisers():
  """Smaller optimiser budgets so that a real endpoint call takes seconds (the tail under test is unchanged)."""
  import dataclasses
  from libsigopt.compute import acquisition_function_optimization as A
  from libsigopt.views.rest import search_next_points as S
  from libsigopt.views.rest import spe_next_points as P
  def rep(info, ms, rs):
    return info._replace(num_multistarts=ms, num_random_samples=rs) if hasattr(info, "_replace") else dataclasses.replace(info, num_multistarts=ms, num_random_samples=rs)
  # constraints of vectorized_acquisition_optimization: GB.num_random_samples <= ES.num_multistarts, 2 * GB.num_random_samples <= GB.num_multistarts
  A.DEFAULT_NEXT_POINTS_ES_OPTIMIZER_INFO = rep(A.DEFAULT_NEXT_POINTS_ES_OPTIMIZER_INFO, 40, 200)
  A.DEFAULT_NEXT_POINTS_GB_OPTIMIZER_INFO = rep(A.DEFAULT_NEXT_POINTS_GB_OPTIMIZER_INFO, 30, 12)
  A.VECTORIZED_NEXT_POINTS_QEI_OPTIMIZER_INFO = rep(A.VECTORIZED_NEXT_POINTS_QEI_OPTIMIZER_INFO, 30, 0)
  A.VECTORIZED_NEXT_POINTS_QEI_FIXED_MAXITER = 15
  info = S.DEFAULT_SEARCH_OPTIMIZER_INFO
  S.DEFAULT_SEARCH_OPTIMIZER_INFO = (info._replace(num_multistarts=12, num_random_samples=60) if hasattr(info, "_replace")
                                     else dataclasses.replace(info, num_multistarts=12, num_random_samples=60))
  S.SEARCH_OPTIMIZER_MAXITER = 15
  P.SPE_NUM_MULTISTARTS = 4


def run_endpoint(req):
  """Run one request through its endpoint.  Returns dict(points, task_costs, task_options) or dict(error=class, message)."""
  import importlib
  try:
    if req.get("shrink", True):
      shrink_optimisers()
    params, tasks = build_params(req)
  except Exception as e:  # the request could not be built: not a statement about the endpoint
    return dict(skip=f"{type(e).__name__}: {e}")
  req = dict(req, task_options=tasks)
  mod, cls = VIEWS[req["endpoint"]]
  view = None
  # record the weighted draws (numpy.random.choice(options, p=...)) the endpoint makes: the parameters of the task draw are part of C01
  weighted, real_choice = [], numpy.random.choice

  def spy_choice(a, size=None, replace=True, p=None):
    if p is not None:
      weighted.append((numpy.asarray(a, dtype=float).ravel().tolist(), numpy.asarray(p, dtype=float).ravel().tolist()))
    return real_choice(a, size=size, replace=replace, p=p)
  numpy.random.choice = spy_choice
  try:
    view = getattr(importlib.import_module(mod), cls)(params)
    resp = view.view()
  except Exception as e:
    numpy.random.choice = real_choice
    import traceback
    out = dict(error=type(e).__name__, message=str(e)[:300], where=traceback.format_exc()[-600:], task_options=tasks)
    if req["endpoint"] == "spe_search":
      # diagnostics for the report: how many observations violate a threshold (0 violators with satisfiers > one-hot dim was the defect
      # repaired by 'fix: SPE search forces the threshold split only when some observation violates a threshold')
      try:
        from libsigopt.views.view import identify_scaled_values_exceeding_scaled_upper_thresholds as ident
        viol = ident(view.points_sampled_for_pf_values, view.constraint_thresholds)
        out["diag"] = dict(violators=int(viol.sum()), observations=int(len(viol)), one_hot_dim=int(view.domain.one_hot_dim))
      except Exception:
        pass
    return out
  finally:
    numpy.random.choice = real_choice
  pts = numpy.asarray(resp["points_to_sample"], dtype=float)
  seen_cfg = set()
  try:   # distinct configurations already observed or pending (for the count rule on fully discrete domains)
    for cont in (params["points_sampled"], params["points_being_sampled"]):
      for row in numpy.asarray(cont.points, dtype=float).reshape(-1, len(req["comps"]) + (1 if len(tasks) else 0)):
        seen_cfg.add(tuple(float(v) for v in row[: len(req["comps"])]))
  except Exception:
    seen_cfg = None
  return dict(points=pts.tolist(), task_costs=resp.get("task_costs"), task_options=tasks, weighted_draws=weighted,
              distinct_seen=None if seen_cfg is None else len(seen_cfg))
