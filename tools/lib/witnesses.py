"""Concrete failing inputs of the genuine defects found on the pinned tree (DESIGN.md section 9), each as a function that
runs the implementation and returns a failure dict (still failing) or None (behaves).  They are replayed through the
corpus of the properties they belong to, so a regression of any repair is reported again with this input as the replay."""
import numpy


def _f(sig, what, inp, observed, expected):
  return dict(signature=sig, what=what, input=inp, observed=observed, expected=expected, oracle="direct statement of the property")


def c17_rank_deficient():
  from libsigopt.compute.python_utils import compute_cholesky_for_gp_sampling
  rng = numpy.random.RandomState(7)
  worst = 0.0
  for order in ("C", "F"):
    for n, r in ((4, 2), (6, 3), (5, 1)):
      B = rng.normal(size=(n, r))
      A = numpy.array(B @ B.T, order=order)
      L = compute_cholesky_for_gp_sampling(A.copy(order=order))
      worst = max(worst, float(numpy.abs(L @ L.T - A).max() / max(1.0, numpy.abs(A).max())))
  if worst > 1e-8:
    return _f("C17:rank-deficient-psd", "sampling factor of a rank-deficient PSD matrix does not reproduce it",
              dict(kind="witness", name="c17_rank_deficient"), worst, "max|LL'-A| <= 1e-8")
  return None


def c15_gpsum_stale_cache():
  from libsigopt.compute.covariance import SquareExponential
  from libsigopt.compute.gaussian_process import GaussianProcess
  from libsigopt.compute.gaussian_process_sum import GaussianProcessSum
  from libsigopt.compute.misc.data_containers import HistoricalData
  gps = []
  for k in range(2):
    hd = HistoricalData(1)
    hd.append_historical_data(numpy.array([[0.0], [1.0]]), numpy.array([1.0 + k, 2.0 + k]), numpy.array([1e-3, 1e-3]))
    gps.append(GaussianProcess(SquareExponential([1.0, 0.5]), hd))
  s = GaussianProcessSum(gps, [0.5, 0.5])
  _ = s.points_sampled_value, s.points_sampled_noise_variance, s.best_observed_value
  s.append_lie_data(numpy.array([[0.5]]))
  lens = (s.num_sampled, len(s.points_sampled), len(s.points_sampled_value), len(s.points_sampled_noise_variance))
  if len(set(lens)) != 1:
    return _f("C15:gpsum-stale-cache", "GaussianProcessSum accessors disagree in length after append_lie_data",
              dict(kind="witness", name="c15_gpsum_stale_cache"), lens, "equal lengths")
  return None


def _disc_domain():
  from libsigopt.compute.domain import CategoricalDomain
  return CategoricalDomain([
    {"var_type": "int", "elements": [0, 4]},
    {"var_type": "categorical", "elements": [1, 2, 5]},
  ])


def c10_distinct_repeated_history():
  d = _disc_domain()
  numpy.random.seed(3)
  hist = numpy.array([[2.0, 5.0]] * 14)
  out = d.generate_distinct_random_points(5, hist, duplicate_prob=0)
  rows = {tuple(r) for r in numpy.asarray(out).tolist()}
  if len(out) != 5 or len(rows) != 5 or (2.0, 5.0) in rows:
    return _f("C10:distinct-repeated-history", "distinct sampling short-changes a history that repeats one configuration",
              dict(kind="witness", name="c10_distinct_repeated_history"), numpy.asarray(out).tolist(), "5 distinct unobserved rows (14 unobserved exist)")
  return None


def c10_unique_tolerance_mask():
  from libsigopt.compute.domain import find_indexes_of_unique_points
  pts = numpy.array([[0.0] * 5, [10.0] * 5, [20.0] * 5])
  ix = find_indexes_of_unique_points(pts, None, [1.0] * 5, 1.0)
  ix = [bool(i) for i in numpy.atleast_1d(ix)]
  if ix != [True, True, True]:
    return _f("C10:unique-self-distance", "de-duplication drops members that are far from everything (tolerance 1, 5 dims)",
              dict(kind="witness", name="c10_unique_tolerance_mask"), ix, [True, True, True])
  return None


def c05_product_of_failures():
  from libsigopt.compute.probabilistic_failures import ProductOfListOfProbabilisticFailures, ProbabilisticFailures
  from libsigopt.compute.covariance import SquareExponential
  from libsigopt.compute.gaussian_process import GaussianProcess
  from libsigopt.compute.misc.data_containers import HistoricalData
  hd = HistoricalData(1)
  hd.append_historical_data(numpy.array([[0.0], [1.0], [2.0]]), numpy.array([0.1, -0.2, 0.3]), numpy.array([1e-3] * 3))
  gp = GaussianProcess(SquareExponential([1.0, 0.5]), hd)
  pf = ProductOfListOfProbabilisticFailures([ProbabilisticFailures(gp, 0.0), ProbabilisticFailures(gp, 0.2)])
  try:
    v = pf.compute_probability_of_success(numpy.array([[0.3], [1.5]]))
    g = pf.compute_grad_probability_of_success(numpy.array([[0.3], [1.5]]))
  except AttributeError as e:
    return _f("C05:numpy-product", "product of failure models raises AttributeError", dict(kind="witness", name="c05_product_of_failures"),
              repr(e), "product of the component probabilities")
  a = ProbabilisticFailures(gp, 0.0).compute_probability_of_success(numpy.array([[0.3], [1.5]]))
  b = ProbabilisticFailures(gp, 0.2).compute_probability_of_success(numpy.array([[0.3], [1.5]]))
  if not numpy.allclose(v, a * b, rtol=1e-12, atol=0) or g.shape != (2, 1):
    return _f("C05:product-value", "product model is not the product", dict(kind="witness", name="c05_product_of_failures"), v.tolist(), (a * b).tolist())
  return None


def c08_halton():
  from libsigopt.aux.samplers import generate_halton_points
  try:
    p = generate_halton_points(7, numpy.array([[0.0, 1.0], [-2.0, 3.0]]), skip=1)
  except TypeError as e:
    return _f("C08:halton-typeerror", "Halton sampler raises TypeError", dict(kind="witness", name="c08_halton"), repr(e), "7 points in the box")
  if p.shape != (7, 2) or (p[:, 0] < 0).any() or (p[:, 0] > 1).any() or (p[:, 1] < -2).any() or (p[:, 1] > 3).any():
    return _f("C08:halton-range", "Halton points leave the box", dict(kind="witness", name="c08_halton"), p.tolist(), "7 points in the box")
  return None


def c08_sampler_opts_without_skip():
  from libsigopt.compute.domain import ContinuousDomain
  bad = []
  for sampler in ("sobol", "halton"):
    d = ContinuousDomain([[0.0, 1.0], [1.0, 2.0]])
    d.set_quasi_random_sampler_opts({"sampler": sampler})
    try:
      p = d.generate_quasi_random_points_in_domain(5)
      if not all(d.check_point_acceptable(x) for x in p):
        bad.append((sampler, "outside"))
    except TypeError as e:
      bad.append((sampler, repr(e)))
  if bad:
    return _f("C08:sampler-opts-skip-none", "quasi-random sampler options without a skip key crash", dict(kind="witness", name="c08_sampler_opts_without_skip"),
              bad, "5 in-domain points per sampler")
  return None


def c14_random_spread_weights():
  from libsigopt.compute.misc import multimetric as mm
  try:
    w = mm.form_convex_combination_weights(mm.CONVEX_COMBINATION_RANDOM_SPREAD, 0.37)
  except TypeError as e:
    return _f("C14:random-spread-typeerror", "random-spread weight table raises TypeError", dict(kind="witness", name="c14_random_spread_weights"), repr(e),
              "two weights in [0.1, 0.9] summing to 1")
  if not (len(w) == 2 and 0.1 - 1e-12 <= w[0] <= 0.9 + 1e-12 and abs(w[0] + w[1] - 1) < 1e-12):
    return _f("C14:random-spread-range", "random-spread weights out of range", dict(kind="witness", name="c14_random_spread_weights"), list(map(float, w)),
              "two weights in [0.1, 0.9] summing to 1")
  return None


ALL = dict(
  c17_rank_deficient=c17_rank_deficient, c15_gpsum_stale_cache=c15_gpsum_stale_cache,
  c10_distinct_repeated_history=c10_distinct_repeated_history, c10_unique_tolerance_mask=c10_unique_tolerance_mask,
  c05_product_of_failures=c05_product_of_failures, c08_halton=c08_halton,
  c08_sampler_opts_without_skip=c08_sampler_opts_without_skip, c14_random_spread_weights=c14_random_spread_weights,
)


def run(name):
  return ALL[name]()


if __name__ == "__main__":
  import sys
  for k, f in ALL.items():
    try:
      r = f()
    except Exception as e:  # noqa
      r = dict(what=f"raised {type(e).__name__}: {e}")
    print(f"{k:36s} {'FAILS: ' + r['what'] if r else 'ok'}")
