"""Tie of the glue model coq/Model/Compose01.v (C01 composed with C07 / C08) to the code.

The real CategoricalDomain(...).one_hot_domain, ContinuousDomain.generate_quasi_random_points_in_domain,
vectorized_acquisition_optimization, constant_liar_acquisition_function_optimization and
CategoricalDomain.generate_quasi_random_points_in_domain are run with a scripted acquisition function (C07's recorded
integer-coefficient quadratic of the point snapped to a power-of-two grid, a real AcquisitionFunction subclass) and scripted
numpy.random draws; one Coq term per run (Model/Compose01Corr.v `ccase`) carries the inputs, the draws and the
implementation's output, and `ccheck` compares it with the glue model exactly and evaluates the specification on it.

What the harness replaces (configuration, not code under test): the module constants that fix optimiser sizes
(DEFAULT_NEXT_POINTS_ES/GB_OPTIMIZER_INFO: multistarts, pretest / near-best sample counts, DE parameters set to dyadic
values), the iteration-table lookup find_optimizer_maxiter, the block size REJECTION_SAMPLING_BLOCK_SIZE, and the domain
object's quasi-random generator (a cyclic pool, as in C07's harness).  Exact runs use unconstrained domains (the constrained
restriction divides); constrained domains are run unscripted and decided by the specification with tolerance 1e-9.

The scripted acquisition function is PARTIAL, as in C07's model (Model/Optim.v, point -> option Q): on one or two half-spaces it has no
value and returns NaN.  numpy.argmax over the pretest values then picks the first NaN, the optimisers' numpy.nanargmax skips NaNs and
raises ValueError on a batch without any value; a run that raises (that ValueError, or the assertion on the number of gradient starts)
is compared with the model's error value by class, its draws up to the exception being replayed."""
import contextlib
import math
import types
from fractions import Fraction as Fr

import numpy

from lib import common as C
from props import C09 as N

HEADER = ("From Coq Require Import List QArith ZArith Bool.\nFrom LV Require Import Model.Domain Model.Decode Model.EndpointTail "
          "Model.Compose01 Model.Compose01Corr.\nFrom LV Require Model.OptimCorr.\nOpen Scope Q_scope.")

REC = dict()


def _lib():
  from libsigopt.aux import samplers as S
  from libsigopt.compute import acquisition_function_optimization as AFO
  from libsigopt.compute import domain as D
  from libsigopt.compute import vectorized_optimizers as VO
  from libsigopt.compute.acquisition_function import AcquisitionFunction
  from libsigopt.compute.optimization_auxiliary import AdamParameters, DEParameters, OptimizerInfo
  from libsigopt.views.rest import gp_next_points_categorical as G
  return types.SimpleNamespace(S=S, AFO=AFO, D=D, VO=VO, AF=AcquisitionFunction, AdamP=AdamParameters, DEP=DEParameters, Info=OptimizerInfo, G=G)


# ------------------------------------------------------------------------------------------ literals


def q(x):
  return C.qlit(float(x)) if not isinstance(x, Fr) else C.qlit(x)


def row_lit(r):
  return C.listlit(list(r), q)


def rows_lit(rs):
  return C.listlit([row_lit(r) for r in rs])


def opt_lit(x, f):
  return "None" if x is None else f"(Some {f(x)})"


def af_lit(spec):
  und = C.listlit(spec.get("und") or [], lambda u: f"({C.nlit(u[0])}, {C.qlit(float(u[1]))}, {C.blit(u[2])})")
  return (f"(OC.mkaf {C.listlit(spec['a'], C.qlit)} {C.listlit(spec['b'], C.qlit)} {C.qlit(spec['cc'])} {C.qlit(spec['snap'])} {und})")


def eobs_lit(err):
  return dict(AssertionError="EAssert", ValueError="EValue").get(err, "ENone")


def ds_lit(sel, us):
  gens = []
  for s, u in zip(sel, us):
    sl = C.listlit([f"({int(a)}, {int(b)}, {int(c)})" for a, b, c in s]) + "%nat"
    gens.append(f"({sl}, {rows_lit(u)})")
  return C.listlit(gens)


def fixed_lit(fx):
  return C.listlit([f"({int(k)}%nat, {q(v)})" for k, v in fx])


def vorc_lit(l):
  return (f"{{| l_pool := {rows_lit(l['pool'])}; l_ds := {ds_lit(l['sel'], l['us'])}; l_zs := {rows_lit(l['zs'])}; "
          f"l_fallback := {rows_lit(l['fallback'])}; l_choice := {C.listlit(l['choice'], C.nlit)}; "
          f"l_ups := {C.listlit([rows_lit(u) for u in l['ups']])} |}}")


def vpar_lit(p):
  return (f"{{| p_de := OP.mkde {C.nlit(p['n_es'])} {C.nlit(p['dim'])} {C.blit(p['best1'])} {C.qlit(p['F'])} {C.qlit(p['CR'])}; "
          f"p_es_maxiter := {C.nlit(p['es_maxiter'])}; p_gd_n := {C.nlit(p['gd_n'])}; p_gd_maxiter := {C.nlit(p['gd_maxiter'])} |}}")


def samp_lit(o):
  if o["kind"] == "lhs":
    return f"(SLhs {rows_lit(o['U'])} {C.listlit([C.listlit(p, C.nlit) for p in o['perms']])})"
  if o["kind"] == "unit":
    return f"(SUnit {rows_lit(o['rows'])})"
  return f"(SRej {C.listlit([rows_lit(b) for b in o['blocks']])} [])"


# ------------------------------------------------------------------------------------------ domains


def oh_dim(dom):
  return sum(len(c["elements"]) if c["var_type"] == "categorical" else 1 for c in dom["comps"])


def gen_cons(rng, comps, kinds, n):
  """n constraints with two or more non-zero weights on components of the given kinds, strictly satisfied at the box midpoint."""
  cons = []
  mid = [(c["elements"][0] + c["elements"][1]) / 2 if c["var_type"] in ("double", "int") else 0 for c in comps]
  for _ in range(n):
    ty = rng.choice(kinds)
    idx = [i for i, c in enumerate(comps) if c["var_type"] == ty]
    if len(idx) < 2:
      continue
    w = [0] * len(comps)
    for i in rng.sample(idx, rng.randint(2, min(3, len(idx)))):
      w[i] = rng.choice([-2, -1, 1, 1, 2])
    cons.append(dict(weights=w, rhs=sum(a * b for a, b in zip(w, mid)) - rng.choice([0.5, 1, 1.5, 3]), var_type=ty))
  return cons


def gen_dom(rng, constrained=False, kinds=("double",), max_comps=4, need=()):
  dom = N.gen_domain(rng, 0, 0, need=need, max_comps=max_comps)
  if constrained:
    dom["cons"] = gen_cons(rng, dom["comps"], list(kinds), rng.randint(1, 2))
  return dom


def box_of(dom):
  b = []
  for c in dom["comps"]:
    e = c["elements"]
    if c["var_type"] == "categorical":
      b += [[0.0, 1.0]] * len(e)
    elif c["var_type"] == "quantized":
      b.append([float(min(e)), float(max(e))])
    else:
      b.append([float(e[0]), float(e[1])])
  return b


def dy_in(rng, lo, hi, den=16, outside=0.0):
  if rng.random() < outside:
    return rng.choice([lo - rng.randint(1, 8) / 4, hi + rng.randint(1, 8) / 4])
  return lo + (hi - lo) * rng.randint(0, den) / den


def gen_row(rng, box, outside=0.0):
  return [dy_in(rng, lo, hi, 16, outside) for lo, hi in box]


# ------------------------------------------------------------------------------------------ scripted acquisition function


def af_undefined(spec, p):
  """the acquisition function has no value (the harness returns NaN) on the half-spaces und = [[k, t, above], ...]: x_k > t / x_k < t"""
  return any((float(p[k]) > t) if above else (float(p[k]) < t) for k, t, above in spec.get("und") or [])


def af_exact(spec, p, nlies=0, lw=None):
  s = spec["snap"]
  y = [Fr(math.floor(Fr(float(c)) * s), s) if s else Fr(float(c)) for c in p]
  v = sum(a * yi * yi + b * yi for a, b, yi in zip(spec["a"], spec["b"], y)) + spec["cc"] * y[0] * y[-1]
  if nlies and lw is not None:
    v -= nlies * sum(w * yi for w, yi in zip(lw, y))
  g = [2 * a * yi + b for a, b, yi in zip(spec["a"], spec["b"], y)]
  g[0] += spec["cc"] * y[-1]
  g[-1] += spec["cc"] * y[0]
  return v, g


def make_af(L, spec, dim, best_obs, lw=None):
  class ScriptedAF(L.AF):
    def __init__(self):
      self.predictor = types.SimpleNamespace(dim=dim, differentiable=True, points_sampled=numpy.zeros((1, dim)))
      self.num_points_to_sample = 1
      self.best_value = None
      self.best_location = numpy.array(best_obs, dtype=float)
      self.nlies = 0

    def _vals(self, pts):
      out = []
      for p in pts:
        v, _ = af_exact(spec, p, self.nlies, lw)
        if af_undefined(spec, p):
          out.append(float("nan"))
          continue
        if Fr(float(v)) != v:
          REC["inexact"] = True
        out.append(float(v))
      return numpy.array(out)

    def _evaluate_at_point_list(self, pts):
      return self._vals(pts)

    def joint_function_gradient_eval(self, pts):
      REC["joint"].append(numpy.array(pts, dtype=float).copy())
      g = numpy.array([[float(x) for x in af_exact(spec, p, self.nlies, lw)[1]] for p in pts])
      return self._vals(pts), g

    def _append_lie_locations(self, lies):
      REC["lies"].append(numpy.array(lies, dtype=float).copy())
      self.nlies += len(lies)
  return ScriptedAF()


def gen_af(rng, dim, box=None):
  spec = dict(a=[rng.randint(-3, 1) for _ in range(dim)], b=[rng.randint(-4, 4) for _ in range(dim)], cc=rng.randint(-1, 1), snap=8, und=[])
  if box is not None and rng.random() < 0.55:   # undefined (NaN) on one or two half-spaces cutting through (or just touching) the box
    for _ in range(rng.choice([1, 1, 2])):
      k = rng.randrange(dim)
      lo, hi = box[k]
      t = rng.choice([lo, hi, dy_in(rng, lo, hi, 8), dy_in(rng, lo, hi, 8)])
      spec["und"].append([k, float(t), rng.random() < 0.5])
  return spec


# ------------------------------------------------------------------------------------------ scripting numpy.random and the domain


@contextlib.contextmanager
def scripted(L, rng, pool, dom_obj, blocks=None):
  """numpy.random.{randint, random, normal, choice, uniform, shuffle} scripted with dyadic values drawn from rng and logged in REC;
  the domain object's quasi-random generator replaced by the cyclic pool; every ContinuousDomain restriction call recorded."""
  old = (numpy.random.randint, numpy.random.random, numpy.random.normal, numpy.random.choice, numpy.random.uniform, numpy.random.shuffle)
  old_restrict = L.D.ContinuousDomain.restrict_points_to_domain

  def randint(low, high=None, size=None):
    if low >= high:
      raise ValueError("low >= high")
    out = numpy.array([[rng.randrange(int(low), int(high)) for _ in range(size[1])] for _ in range(size[0])], dtype=int)
    REC["sel"].append(out.tolist())
    return out

  def random(size=None):
    if isinstance(size, tuple):
      out = numpy.array([[rng.randint(0, 15) / 16.0 for _ in range(size[1])] for _ in range(size[0])], dtype=float)
      REC["us2"].append(out.tolist())
      REC["events"].append(("unit", out.tolist()))
      return out
    if REC.get("u1_ok"):                                     # draw_samples' test_probs
      out = [rng.randint(0, 15) / 16.0 for _ in range(int(size))]
      REC["events"].append(("u1", out))
      return numpy.array(out)
    REC["restrict_draws"] += int(size)
    return numpy.array([rng.randint(0, 15) / 16.0 for _ in range(int(size))])

  def normal(loc, scale, size):
    out = numpy.array([[rng.randint(-8, 8) / 64.0 for _ in range(size[1])] for _ in range(size[0])], dtype=float)
    REC["zs"].append(out.tolist())
    REC["events"].append(("normal", out.tolist()))
    return out

  def choice(a, size=None, replace=True, p=None):
    if p is not None and size is None:                      # the decoder: one category
      c = rng.choice(list(a))
      REC["cats"].append(int(c))
      return c
    assert replace is False
    got = rng.sample(range(int(a)) if isinstance(a, (int, numpy.integer)) else list(a), int(size))
    REC["choice"].append(got)
    return numpy.array(got, dtype=int)

  def uniform(lo, hi, size=None):
    n = size[0]
    out = numpy.array([[rng.randint(0, 15) / 16.0 / n for _ in range(size[1])] for _ in range(size[0])], dtype=float)
    REC["lhs_u"].append(out.tolist())
    return out

  def shuffle(x):
    perm = list(range(len(x)))
    rng.shuffle(perm)
    REC["perms"].append(perm)
    x[:] = x[perm]

  def restrict(self, points, *a, **k):
    out = old_restrict(self, points, *a, **k)
    REC["rins"].append(numpy.array(points, dtype=float).copy())
    REC["routs"].append(numpy.array(out, dtype=float).copy())
    return out

  numpy.random.randint, numpy.random.random, numpy.random.normal = randint, random, normal
  numpy.random.choice, numpy.random.uniform, numpy.random.shuffle = choice, uniform, shuffle
  L.D.ContinuousDomain.restrict_points_to_domain = restrict
  if pool is not None:
    arr = numpy.array(pool, dtype=float)

    def gen(num_points, log_sample=False):
      REC["gen_calls"].append(int(num_points))
      return numpy.array([arr[i % len(arr)] for i in range(num_points)], dtype=float).reshape(num_points, arr.shape[1])
    dom_obj.generate_quasi_random_points_in_domain = gen
  try:
    yield
  finally:
    (numpy.random.randint, numpy.random.random, numpy.random.normal, numpy.random.choice, numpy.random.uniform, numpy.random.shuffle) = old
    L.D.ContinuousDomain.restrict_points_to_domain = old_restrict


def reset():
  REC.clear()
  REC.update(sel=[], us2=[], zs=[], choice=[], cats=[], lhs_u=[], perms=[], rins=[], routs=[], joint=[], lies=[], gen_calls=[],
             restrict_draws=0, inexact=False, events=[], u1_ok=False, ei_calls=[])


@contextlib.contextmanager
def patched_constants(L, p, nrs, npre=None):
  """The size / parameter constants of compute/acquisition_function_optimization.py set to the case's (small, dyadic) values."""
  AFO = L.AFO
  saved = (AFO.DEFAULT_NEXT_POINTS_ES_OPTIMIZER_INFO, AFO.DEFAULT_NEXT_POINTS_GB_OPTIMIZER_INFO, AFO.find_optimizer_maxiter)
  dep = L.DEP(crossover_probability=p["CR"], mutation=p["F"], strategy="best1bin" if p["best1"] else "rand1bin")
  AFO.DEFAULT_NEXT_POINTS_ES_OPTIMIZER_INFO = L.Info(optimizer=L.VO.DEOptimizer, parameters=dep, num_multistarts=p["n_es"],
                                                     num_random_samples=npre or 1)
  AFO.DEFAULT_NEXT_POINTS_GB_OPTIMIZER_INFO = L.Info(optimizer=L.VO.AdamOptimizer, parameters=L.AdamP(), num_multistarts=p["gd_n"],
                                                     num_random_samples=nrs)

  def maxiter(domain, acquisition_function, num_multistarts, optimizer_name):
    return p["gd_maxiter"] if optimizer_name == L.VO.AdamOptimizer.optimizer_name else p["es_maxiter"]
  AFO.find_optimizer_maxiter = maxiter
  try:
    yield dep
  finally:
    AFO.DEFAULT_NEXT_POINTS_ES_OPTIMIZER_INFO, AFO.DEFAULT_NEXT_POINTS_GB_OPTIMIZER_INFO, AFO.find_optimizer_maxiter = saved


def split_calls(p, n_calls, fixed, rins, joint, sel, us2, zs, choice, pool):
  """Cut the flat logs of n_calls calls of vectorized_acquisition_optimization into one oracle record per call."""
  upd = max(p["gd_maxiter"] - 1, 0)
  per_r = (1 + p["es_maxiter"]) + 1 + 1 + upd
  per_j = upd + 1
  if len(rins) != n_calls * per_r or len(joint) != n_calls * per_j or len(zs) != n_calls or len(choice) != n_calls:
    return None
  out = []
  for k in range(n_calls):
    r = rins[k * per_r:(k + 1) * per_r]
    j = joint[k * per_j:(k + 1) * per_j]
    ups = []
    for i in range(upd):
      nxt, pts = r[len(r) - upd + i], j[i]
      ups.append([[Fr(float(a)) - Fr(float(b)) for a, b in zip(rn, rp)] for rn, rp in zip(nxt, pts)])
    out.append(dict(pool=pool, sel=sel[k * p["es_maxiter"]:(k + 1) * p["es_maxiter"]], us=us2[k * p["es_maxiter"]:(k + 1) * p["es_maxiter"]],
                    zs=zs[k], fallback=[], choice=choice[k], ups=ups))
  return out


def partial_calls(p, n_calls, done, pool):
  """Oracle records when a call raised: `done` calls completed (full logs), the next one drew what is left in the logs (padded with
  empty entries up to the lengths the optimisers check up front: the model stops at the same place before reading them), the calls
  after it are never reached."""
  E, upd = p["es_maxiter"], max(p["gd_maxiter"] - 1, 0)
  per_r, per_j = E + 3 + upd, upd + 1
  full = split_calls(p, done, None, REC["rins"][:done * per_r], REC["joint"][:done * per_j], REC["sel"][:done * E], REC["us2"][:done * E],
                     REC["zs"][:done], REC["choice"][:done], pool) if done else []
  if full is None:
    return None
  sel, us2 = REC["sel"][done * E:], REC["us2"][done * E:]
  r, j = REC["rins"][done * per_r:], REC["joint"][done * per_j:]
  ups = []
  for i, nxt in enumerate(r[E + 3:]):
    ups.append([[Fr(float(a)) - Fr(float(b)) for a, b in zip(rn, rp)] for rn, rp in zip(nxt, j[i])])
  last = dict(pool=pool, sel=(sel + [[]] * E)[:E], us=(us2 + [[]] * E)[:E], zs=REC["zs"][done] if len(REC["zs"]) > done else [], fallback=[],
              choice=REC["choice"][done] if len(REC["choice"]) > done else [], ups=(ups + [[]] * upd)[:upd])
  blank = dict(pool=pool, sel=[[]] * E, us=[[]] * E, zs=[], fallback=[], choice=[], ups=[[]] * upd)
  return full + [last] + [blank] * (n_calls - done - 1)


# ------------------------------------------------------------------------------------------ cases


def dom_case(rng):
  dom = N.gen_domain(rng, rng.choice([0, 0, 1, 2]), rng.choice([0, 1, 2]), max_comps=5)
  D = N.make_domain(dom)
  oh = D.one_hot_domain
  bounds = [(float(a), float(b)) for a, b in oh.domain_bounds]
  cs = [([float(w) for w in k["weights"]], float(k["rhs"])) for k in D.one_hot_constraint_list]
  uncon = [int(i) for i in oh.one_hot_unconstrained_indices]
  bl = C.listlit([f"({q(a)}, {q(b)})" for a, b in bounds])
  cl = C.listlit([f"({row_lit(w)}, {q(r)})" for w, r in cs])
  return f"KDom {N.dom_lit(dom)} {bl} {cl} {C.listlit(uncon, C.nlit)}", dict(kind="dom", dom=dom)


def sample_case(rng):
  L = _lib()
  constrained = rng.random() < 0.5
  dom = gen_dom(rng, constrained, kinds=("double", "int"), need=("double", "double") if constrained else ())
  if constrained and not dom["cons"]:
    constrained = False
  D = N.make_domain(dom)
  oh = D.one_hot_domain
  dim = oh.dim
  reset()
  saved_block = L.S.REJECTION_SAMPLING_BLOCK_SIZE
  try:
    if constrained:
      n = rng.choice([0, 1, 2, 3, 5])
      L.S.REJECTION_SAMPLING_BLOCK_SIZE = rng.choice([3, 6])
      with scripted(L, rng, None, None):
        out = oh.generate_quasi_random_points_in_domain(n)
      orc = dict(kind="rej", blocks=REC["us2"])
      c = [float(v) for v in oh._cheby_center]
      if oh.force_hitandrun_sampling and n > 0:
        return None
    else:
      n = rng.choice([0, 1, 2, 4, 8])
      c = []
      if rng.random() < 0.5:
        oh.set_quasi_random_sampler_opts(dict(sampler="uniform"))
        with scripted(L, rng, None, None):
          out = oh.generate_quasi_random_points_in_domain(n)
        orc = dict(kind="unit", rows=REC["us2"][0] if REC["us2"] else [])
      else:
        with scripted(L, rng, None, None):
          out = oh.generate_quasi_random_points_in_domain(n)
        if n == 0:
          return None     # the decorator returns before any draw: nothing to compare beyond the empty array
        orc = dict(kind="lhs", U=REC["lhs_u"][0], perms=REC["perms"])
  finally:
    L.S.REJECTION_SAMPLING_BLOCK_SIZE = saved_block
  out = numpy.asarray(out, dtype=float).reshape(-1, dim).tolist()
  term = f"KSample {N.dom_lit(dom)} {row_lit(c)} {C.nlit(n)} {samp_lit(orc)} (Some {rows_lit(out)})"
  return term, dict(kind="sample:" + orc["kind"], dom=dom, n=n, out=out)


def sample_call_case(rng):
  """The constrained branches of one_hot_domain.generate_quasi_random_points_in_domain at the call into aux/samplers.py: what is handed to the
  sampler (half-space rows, start point, box), what comes back and what the entry point makes of it (NumPy's own generator, seeded)."""
  L = _lib()
  dom = gen_dom(rng, True, kinds=("double", "int"), need=("double", "double"))
  if not dom["cons"]:
    return None
  D = N.make_domain(dom)
  oh = D.one_hot_domain
  forced = rng.random() < 0.5
  oh.force_hitandrun_sampling = forced
  n = rng.choice([1, 2, 3, 5])
  rec = {}
  real = (L.D.generate_hitandrun_random_points, L.D.generate_uniform_random_points_rejection_sampling_with_hitandrun_padding, L.D.generate_uniform_random_points)

  def lst(a):
    return numpy.array(a, dtype=float).tolist()

  def spy_hit(num, x0, A, b):
    out = real[0](num, x0, A, b)
    rec.update(kind="hit", A=lst(A), b=lst(b), x0=lst(x0), raw=lst(out))
    return out

  def spy_pad(num, bounds, A, b, x0=None):
    out, ok = real[1](num, bounds, A, b, x0)
    rec.update(kind="pad", A=lst(A), b=lst(b), x0=[] if x0 is None else lst(x0), box=lst(bounds), raw=lst(out))
    return out, ok

  def spy_unif(num, bounds, *a, **k):
    out = real[2](num, bounds, *a, **k)
    rec.update(vals=numpy.array(out, dtype=float).reshape(num, -1).tolist(), box=numpy.array(bounds, dtype=float).reshape(-1, 2).tolist())
    return out
  state = numpy.random.get_state()
  numpy.random.seed(rng.randrange(2 ** 31))
  L.D.generate_hitandrun_random_points, L.D.generate_uniform_random_points_rejection_sampling_with_hitandrun_padding, L.D.generate_uniform_random_points = spy_hit, spy_pad, spy_unif
  try:
    out = oh.generate_quasi_random_points_in_domain(n)
  finally:
    L.D.generate_hitandrun_random_points, L.D.generate_uniform_random_points_rejection_sampling_with_hitandrun_padding, L.D.generate_uniform_random_points = real
    numpy.random.set_state(state)
  if "kind" not in rec:
    raise C.TieBroken("the constrained branch of generate_quasi_random_points_in_domain called neither hit-and-run nor rejection sampling with padding")
  if (rec["kind"] == "hit") != forced:
    raise C.TieBroken("generate_quasi_random_points_in_domain took the other constrained branch than force_hitandrun_sampling says")
  out = numpy.asarray(out, dtype=float).reshape(-1, oh.dim).tolist()
  hs = C.listlit([f"({row_lit(a)}, {q(b)})" for a, b in zip(rec["A"], rec["b"])])
  box = C.listlit([f"({q(a)}, {q(b)})" for a, b in rec.get("box", [])])
  vals = rec.get("vals", [[] for _ in rec["raw"]])
  c = [float(v) for v in oh._cheby_center]
  term = (f"KSampleCall {N.dom_lit(dom)} {row_lit(c)} {C.blit(rec['kind'] == 'hit')} {hs} {row_lit(rec['x0'])} {box} {rows_lit(rec['raw'])} "
          f"{rows_lit(vals)} {rows_lit(out)}")
  return term, dict(kind="sample-call:" + rec["kind"], dom=dom, n=n, forced=forced, out=out)


def gen_vpar(rng, dim):
  n_es = rng.randint(2, 5)
  nrs = rng.randint(1, n_es)
  return dict(n_es=n_es, dim=dim, best1=rng.random() < 0.6, F=rng.choice([0.25, 0.5, 0.75, 1.0]), CR=rng.choice([0.25, 0.5, 0.75, 1.0]),
              es_maxiter=rng.randint(0, 3), gd_n=rng.choice([2 * nrs, 2 * nrs + rng.randint(0, 2), 2 * nrs, max(1, 2 * nrs - 1)]),
              gd_maxiter=rng.randint(0, 4)), nrs


def search_domain(L, rng, dom, with_task):
  """The acquisition-optimisation domain of GpNextPointsCategorical.form_af_optimization_domain, its Coq literal and fixed indices."""
  D = N.make_domain(dom)
  if not with_task:
    return D.one_hot_domain, N.dom_lit(dom), [], box_of(dom)
  opts = sorted(set(rng.choice([0.125, 0.25, 0.5, 1.0, 2.0]) for _ in range(3)))
  if len(opts) < 2:
    opts = [0.25, 1.0]
  Dt = L.G._form_domain_with_task_dimension(D, None, numpy.array(opts))
  t = rng.choice(opts)
  k = Dt.one_hot_domain.dim - 1
  fd = L.D.FixedIndicesOnContinuousDomain(Dt.one_hot_domain, {k: t})
  lit = f"(with_task {N.dom_lit(dom)} {C.listlit(opts, C.qlit)})"
  return fd, lit, [(k, t)], box_of(dom) + [[min(opts), max(opts)]]


def vec_case(rng, whole_loop):
  """vectorized_acquisition_optimization (whole_loop: constant_liar_acquisition_function_optimization) on an unconstrained domain."""
  L = _lib()
  dom = gen_dom(rng, False, max_comps=3)
  dom_obj, dlit, fixed, box = search_domain(L, rng, dom, rng.random() < 0.35)
  dim = len(box)
  p, nrs = gen_vpar(rng, dim)
  spec = gen_af(rng, dim, box)
  lw = [rng.randint(-2, 2) for _ in range(dim)]
  best_obs = gen_row(rng, box, 0.2)
  pool = [gen_row(rng, box, 0.2) for _ in range(rng.randint(1, 4))]
  npre = rng.randint(1, 4)
  n = rng.randint(1, 3) if whole_loop else 1
  af = make_af(L, spec, dim, best_obs, lw if whole_loop else None)
  reset()
  out = None
  with patched_constants(L, p, nrs, npre) as dep, scripted(L, rng, pool, dom_obj):
    try:
      if whole_loop:
        pts, _ = L.AFO.constant_liar_acquisition_function_optimization(dom_obj, af, n)
        out = numpy.asarray(pts, dtype=float).tolist()
      else:
        es = L.VO.DEOptimizer(dom_obj, af, p["n_es"], optimizer_parameters=dep, maxiter=p["es_maxiter"])
        gd = L.VO.AdamOptimizer(dom_obj, af, p["gd_n"], optimizer_parameters=L.AdamP(learning_rate=rng.choice([0.01, 0.125, 0.5])),
                                maxiter=p["gd_maxiter"])
        pretest_arr = numpy.array([pool[i % len(pool)] for i in range(npre)], dtype=float)
        out = numpy.asarray(L.AFO.vectorized_acquisition_optimization(es, gd, pretest_arr), dtype=float).tolist()
    except (AssertionError, ValueError) as e:
      # AssertionError: len(gd_starting_points) <= num_multistarts; ValueError: numpy.nanargmax on a batch without any defined value
      out, err = None, type(e).__name__
  if REC["inexact"] or REC["restrict_draws"]:
    return None
  pretest = [pool[i % len(pool)] for i in range(npre)]
  if out is None:
    ls = partial_calls(p, n, len(REC["lies"]), pool)     # the calls completed before the one that raised, then what that one drew
    if ls is None:
      return None
  else:
    err = None
    ls = split_calls(p, n, fixed, REC["rins"], REC["joint"], REC["sel"], REC["us2"], REC["zs"], REC["choice"], pool)
    if ls is None:
      return None
  meta = dict(kind="cl" if whole_loop else "vec", dom=dom, fixed=fixed, p=p, n=n, out=out, raised=err, und=bool(spec["und"]))
  if whole_loop:
    term = (f"KCl {dlit} {fixed_lit(fixed)} {af_lit(spec)} {C.listlit(lw, C.qlit)} {row_lit(best_obs)} {vpar_lit(p)} {rows_lit(pretest)} "
            f"{C.nlit(n)} {C.listlit([vorc_lit(l) for l in ls])} {opt_lit(out, rows_lit)} {eobs_lit(err)}")
  else:
    term = (f"KVec {dlit} {fixed_lit(fixed)} {af_lit(spec)} {row_lit(best_obs)} {vpar_lit(p)} {rows_lit(pretest)} {vorc_lit(ls[0])} "
            f"{opt_lit(out, row_lit)} {eobs_lit(err)}")
  return term, meta


def spec_case(rng, seed):
  """The constant-liar loop on a CONSTRAINED search domain with NumPy's own draws (the restriction divides and draws: no exact
  comparison): the returned points must pass C07's domain test on the derived representation, constraints within 1e-9."""
  L = _lib()
  dom = gen_dom(rng, True, kinds=("double", "int"), need=("double", "double"), max_comps=4)
  if not dom["cons"]:
    return None
  dom_obj, dlit, fixed, box = search_domain(L, rng, dom, rng.random() < 0.3)
  dim = len(box)
  p, nrs = gen_vpar(rng, dim)
  p["n_es"] = max(p["n_es"], 3)
  nrs = min(nrs, p["n_es"])
  p["gd_n"] = max(p["gd_n"], 2 * nrs)
  p["gd_maxiter"] = rng.randint(2, 6)
  p["es_maxiter"] = rng.randint(1, 5)
  spec = gen_af(rng, dim, box if rng.random() < 0.5 else None)
  spec["snap"] = 0
  af = make_af(L, spec, dim, gen_row(rng, box, 0.3), [rng.randint(-2, 2) for _ in range(dim)])
  n = rng.randint(1, 3)
  reset()
  state = numpy.random.get_state()
  numpy.random.seed(seed)
  try:
    with patched_constants(L, p, nrs, rng.randint(2, 6)):
      pts, _ = L.AFO.constant_liar_acquisition_function_optimization(dom_obj, af, n)
  except ValueError:     # a batch without any defined acquisition value: nothing is returned, nothing to decide
    return None
  finally:
    numpy.random.set_state(state)
  out = numpy.asarray(pts, dtype=float).tolist()
  return f"KSpec {dlit} {fixed_lit(fixed)} {rows_lit(out)}", dict(kind="spec", dom=dom, fixed=fixed, out=out, seed=seed)


def quasi_case(rng):
  """CategoricalDomain.generate_quasi_random_points_in_domain(n) on a domain with double-typed constraints: rejection sampling on the
  one-hot domain (scripted candidate blocks), then the decoder (scripted category choices)."""
  L = _lib()
  dom = gen_dom(rng, True, kinds=("double",), need=("double", "double"), max_comps=4)
  if not dom["cons"]:
    return None
  D = N.make_domain(dom)
  n = rng.choice([1, 2, 3, 4])
  ncat = sum(1 for c in dom["comps"] if c["var_type"] == "categorical")
  reset()
  saved_block = L.S.REJECTION_SAMPLING_BLOCK_SIZE
  L.S.REJECTION_SAMPLING_BLOCK_SIZE = rng.choice([3, 6])
  try:
    with scripted(L, rng, None, None):
      out = D.generate_quasi_random_points_in_domain(n)
  finally:
    L.S.REJECTION_SAMPLING_BLOCK_SIZE = saved_block
  if D.one_hot_domain.force_hitandrun_sampling:
    return None
  out = numpy.asarray(out, dtype=float).tolist()
  cats = [REC["cats"][i * ncat:(i + 1) * ncat] for i in range(n)] if ncat else [[] for _ in range(n)]
  dec = f"{{| o_rnds := []; o_perms := []; o_cats := {C.listlit([C.listlit(r, C.zlit) + '%Z' for r in cats])} |}}"
  c = [float(v) for v in D.one_hot_domain._cheby_center]
  term = (f"KQuasi {N.dom_lit(dom)} {row_lit(c)} {C.zlit(n)}%Z {samp_lit(dict(kind='rej', blocks=REC['us2']))} {dec} "
          f"(Some {C.listlit([row_lit(r) for r in out])})")
  return term, dict(kind="quasi", dom=dom, n=n, out=out)


def qei_case(rng):
  """qei_acquisition_function_optimization (one point to sample) on an unconstrained domain.  The function builds its DEOptimizer with the
  default DEParameters (0.7 / 0.8: not dyadic); the harness substitutes a parameter type whose defaults are dyadic."""
  import dataclasses
  L = _lib()
  dom = gen_dom(rng, False, max_comps=3)
  dom_obj, dlit, fixed, box = search_domain(L, rng, dom, False)
  dim = len(box)
  n_es, maxiter = rng.randint(2, 5), rng.randint(0, 4)
  F, CR = rng.choice([0.25, 0.5, 0.75, 1.0]), rng.choice([0.25, 0.5, 0.75, 1.0])
  spec = gen_af(rng, dim, box)
  pool = [gen_row(rng, box, 0.2) for _ in range(rng.randint(1, 4))]
  af = make_af(L, spec, dim, gen_row(rng, box))

  @dataclasses.dataclass(frozen=True)
  class DyadicDEP(L.DEP):
    crossover_probability: float = CR
    mutation: float = F
    strategy: str = "best1bin"
  AFO = L.AFO
  saved = (AFO.VECTORIZED_NEXT_POINTS_QEI_OPTIMIZER_INFO, AFO.VECTORIZED_NEXT_POINTS_QEI_FIXED_MAXITER, L.VO.DEOptimizer.optimizer_parameters_type)
  AFO.VECTORIZED_NEXT_POINTS_QEI_OPTIMIZER_INFO = L.Info(optimizer=L.VO.DEOptimizer, parameters=DyadicDEP(), num_multistarts=n_es, num_random_samples=0)
  AFO.VECTORIZED_NEXT_POINTS_QEI_FIXED_MAXITER = maxiter
  L.VO.DEOptimizer.optimizer_parameters_type = DyadicDEP
  reset()
  try:
    with scripted(L, rng, pool, dom_obj):
      try:
        pt, _ = AFO.qei_acquisition_function_optimization(dom_obj, af)
        err = None
      except ValueError:            # numpy.nanargmax on a batch without any defined value
        pt, err = None, "ValueError"
  finally:
    AFO.VECTORIZED_NEXT_POINTS_QEI_OPTIMIZER_INFO, AFO.VECTORIZED_NEXT_POINTS_QEI_FIXED_MAXITER, L.VO.DEOptimizer.optimizer_parameters_type = saved
  if REC["inexact"] or REC["restrict_draws"]:
    return None
  out = None if pt is None else numpy.reshape(numpy.asarray(pt, dtype=float), (1, dim)).tolist()
  sel, us2 = (REC["sel"] + [[]] * maxiter)[:maxiter], (REC["us2"] + [[]] * maxiter)[:maxiter]
  term = (f"KQei {dlit} {af_lit(spec)} (OP.mkde {C.nlit(n_es)} {C.nlit(dim)} true {C.qlit(F)} {C.qlit(CR)}) {C.nlit(maxiter)} {rows_lit(pool)} "
          f"{ds_lit(sel, us2)} {opt_lit(out, rows_lit)} {eobs_lit(err)}")
  return term, dict(kind="qei", dom=dom, n_es=n_es, maxiter=maxiter, out=out, raised=err, und=bool(spec["und"]))


def nearorc_lit(o):
  return f"{{| n_zs := {rows_lit(o['zs'])}; n_us := []; n_so := {samp_lit(dict(kind='unit', rows=o['rows']))} |}}"


def spe_case(rng):
  """SPENextPoints.draw_samples on an unconstrained domain with a stub estimator (lower points inside and outside the box, dyadic
  expected-improvement values) and the SciPy multistart replaced by a fixed maximiser: the proposed test points of every iteration."""
  from libsigopt.views.rest import spe_next_points as SP
  L = _lib()
  dom = gen_dom(rng, False, max_comps=3)
  D = N.make_domain(dom)
  box = box_of(dom)
  dim = len(box)
  lower = [gen_row(rng, box, 0.25) for _ in range(rng.randint(1, 4))]
  maxloc = gen_row(rng, box)
  bsz = rng.randint(2, 7)
  n = rng.randint(1, 6)
  limit = bsz * rng.randint(1, 3)
  pf = rng.choice([1.0, 1.0, 0.5, 0.3])

  class Stub:
    lower_points = numpy.array(lower, dtype=float)

    def evaluate_expected_improvement(self, pts):
      pts = numpy.atleast_2d(pts)
      if len(pts) == 1 and numpy.array_equal(pts[0], numpy.array(maxloc)):
        return None, None, numpy.array([1.0])
      REC["ei_calls"].append(numpy.array(pts, dtype=float).tolist())
      return None, None, numpy.array([(int(math.floor(8 * float(sum(p)))) % 12) / 8.0 for p in pts])
  saved = SP.SPENextPoints.suggest_next_points_constant_liar
  SP.SPENextPoints.suggest_next_points_constant_liar = staticmethod(lambda spe, k, domain, nm: numpy.array([maxloc], dtype=float))
  reset()
  REC["u1_ok"] = True
  try:
    with scripted(L, rng, None, None):
      samples, nrej, _, used = SP.SPENextPoints.draw_samples(Stub(), n, D, num_multistarts=1, batch_size=bsz, rejection_samples_limit=limit,
                                                             proposal_factor=pf, proposal_std=0.0625)
  finally:
    SP.SPENextPoints.suggest_next_points_constant_liar = saved
  ev = list(REC["events"])
  iters = []
  for _ in REC["ei_calls"]:
    os_ = []
    for _ in range(used):
      kind, rows = ev.pop(0)
      if kind not in ("normal", "unit"):
        return None
      os_.append(dict(zs=rows if kind == "normal" else [], rows=rows if kind == "unit" else []))
    if ev.pop(0)[0] != "u1":
      return None
    iters.append(os_)
  term = (f"KSpeBatches {N.dom_lit(dom)} [] {C.nlit(bsz)} {rows_lit(lower[:used])} "
          f"{C.listlit([C.listlit([nearorc_lit(o) for o in it]) for it in iters])} {C.listlit([rows_lit(t) for t in REC['ei_calls']])}")
  return term, dict(kind="spe-batches", dom=dom, lower=lower, bsz=bsz, n=n, used=int(used), out=REC["ei_calls"])


def compose_cases(ctx):
  """(terms, metas) of the glue correspondence; ctx.rng is the only randomness source."""
  rng = ctx.rng
  terms, metas = [], []
  plan = ([("dom", dom_case)] * ctx.n(40, 400) + [("sample", sample_case)] * ctx.n(60, 600) + [("sample-call", sample_call_case)] * ctx.n(40, 400) +
          [("vec", lambda r: vec_case(r, False))] * ctx.n(60, 800) + [("cl", lambda r: vec_case(r, True))] * ctx.n(50, 800) +
          [("quasi", quasi_case)] * ctx.n(30, 300) + [("qei", qei_case)] * ctx.n(25, 300) +
          [("spe", spe_case)] * ctx.n(40, 400))
  plan += [("spec", lambda r: spec_case(r, r.randint(0, 2 ** 31 - 1)))] * ctx.n(25, 300)
  crashed = []
  for name, fn in plan:
    try:
      got = fn(rng)
    except Exception as e:   # the implementation (or the harness) raised on a generated case: reported as a disagreement
      import traceback
      crashed.append(dict(what=f"C01 glue correspondence: {name} case raised {type(e).__name__}: {str(e)[:200]}", kind="compose:" + name,
                          input=dict(kind=name), observed=traceback.format_exc()[-600:]))
      continue
    if got:
      terms.append(got[0])
      metas.append(got[1])
  return terms, metas, crashed


def run(ctx):
  """Evaluate the cases in Coq; returns (number of cases, distribution, list of disagreement dicts)."""
  terms, metas, crashed = compose_cases(ctx)
  dist = {}
  for m in metas:
    k = "compose:" + m["kind"] + (":" + str(m["raised"]) if m.get("raised") else "") + (":nan" if m.get("und") else "")
    dist[k] = dist.get(k, 0) + 1
  bad = C.run_cases("C01compose", HEADER, "ccase", "ccheck", terms)
  dis = [dict(what=f"C01 glue correspondence case {i} ({metas[i]['kind']}): implementation output differs from Model.Compose01 or fails its "
                   "specification", kind="compose:" + metas[i]["kind"], input=metas[i], observed=metas[i].get("out")) for i in bad]
  return len(terms), dist, crashed[:5] + dis, metas
