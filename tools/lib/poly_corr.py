"""Correspondence for coq/Model/Poly.v (python_utils.build_polynomial_matrix / build_grad_polynomial_tensor), shared by the C02
and C04 plug-ins.  Dyadic points and small exponents: every product the code forms is exact in binary floating point."""
import numpy

from lib import common as C

HEADER = ("From Coq Require Import List QArith Bool.\nFrom LV Require Import Model.Poly Model.PolyCorr.\nOpen Scope Q_scope.")


def gen_case(rng):
  dim = rng.randint(1, 3)
  m = rng.choice([0, 1, 1, 2, 3, 5])
  style = rng.choice(["none", "empty", "const", "linear", "single", "single", "custom", "custom", "dupconst"])
  if style == "none":
    idx = None
  elif style == "empty":
    idx = []
  elif style == "const":
    idx = [[0] * dim]
  elif style == "linear":
    idx = [[0] * dim] + [[int(a == b) for a in range(dim)] for b in range(dim)]
  elif style == "single":      # one monomial that is not the constant
    e = [0] * dim
    for _ in range(rng.randint(1, 2)):
      e[rng.randrange(dim)] += rng.randint(1, 2)
    idx = [e]
  elif style == "dupconst":    # two all-zero rows: not the (1, dim) constant shortcut
    idx = [[0] * dim, [0] * dim]
  else:
    idx = [[rng.choice([0, 0, 1, 2, 3]) for _ in range(dim)] for _ in range(rng.randint(1, 4))]
  pts = [[rng.choice([0.0, 0.0, 1.0, -1.0] + [k / 4.0 for k in range(-20, 21)]) for _ in range(dim)] for _ in range(m)]
  return dict(dim=dim, idx=idx, pts=pts)


def run_impl(inp):
  from libsigopt.compute.python_utils import build_grad_polynomial_tensor, build_polynomial_matrix
  pts = numpy.array(inp["pts"], dtype=float).reshape(len(inp["pts"]), inp["dim"])
  p0 = pts.copy()
  mat = build_polynomial_matrix(inp["idx"], pts)
  ten = build_grad_polynomial_tensor(inp["idx"], pts)
  return dict(mat=numpy.asarray(mat, dtype=float).tolist(), ten=numpy.asarray(ten, dtype=float).tolist(), shape_mat=list(numpy.shape(mat)),
              shape_ten=list(numpy.shape(ten)), inputs_unchanged=bool((pts == p0).all()))


def coq_case(inp, out):
  nl = lambda r: C.listlit(r, C.nlit)
  ql = lambda r: C.listlit(r, C.qlit)
  ten = out["ten"]
  if out["shape_ten"][1] == 0:          # (m, 0, dim): m rows without columns
    ten = [[] for _ in range(out["shape_ten"][0])]
  return (f"mkcase {C.nlit(inp['dim'])} {C.listlit(inp['idx'] or [], nl)} {C.listlit(inp['pts'], ql)} {C.listlit(out['mat'], ql)} "
          f"{C.listlit(ten, lambda row: C.listlit(row, ql))}")


def correspondence(ctx, n_quick=250, n_thorough=4000):
  cases, meta, seen, dist, dis = [], [], set(), {}, []
  for _ in range(ctx.n(n_quick, n_thorough)):
    inp = gen_case(ctx.rng)
    try:
      out = run_impl(inp)
    except Exception as e:
      dis.append(dict(what=f"polynomial builders raised {type(e).__name__}: {e}", kind="poly", input=inp, observed=repr(e)))
      continue
    if not out["inputs_unchanged"]:
      dis.append(dict(what="polynomial builders modified their input points", kind="poly", input=inp, observed=out))
    cases.append(coq_case(inp, out))
    meta.append((inp, out))
    n = 0 if not inp["idx"] else len(inp["idx"])
    t = "zero-mean" if n == 0 else "constant" if inp["idx"] == [[0] * inp["dim"]] else "single-monomial" if n == 1 else "multi-term"
    dist["poly:" + t] = dist.get("poly:" + t, 0) + 1
    if inp["pts"] and n:
      seen.add(C.canon_hash(inp))
  bad = C.run_cases(f"{ctx.prop}poly", HEADER, "case", "check", cases, shard=125)
  for i in bad:
    inp, out = meta[i]
    dis.append(dict(what=f"polynomial builders case {i}: build_polynomial_matrix / build_grad_polynomial_tensor differ from Model.Poly",
                    kind="poly", input=inp, observed=out))
  return dict(evaluations=len(cases), distinct_nontrivial=len(seen), distribution=dist, disagreements=dis,
              rule="polynomial builders: index lists none / empty / constant / linear / one non-constant monomial / custom (exponents 0-3), 0-5 dyadic "
                   "points of dimension 1-3 (zeros and negatives included); non-trivial = at least one point and one term; distinct by hash",
              samples=[dict(kind="poly", input=i, impl_output=o) for i, o in meta[:2]])
