"""Random GP / kernel / acquisition-function constructions shared by the searchers of C02, C04, C05, C17 (plain inputs that
can be stored in a replay file and rebuilt exactly)."""
import math

import numpy

KERNELS = ["SquareExponential", "C0RadialMatern", "C2RadialMatern", "C4RadialMatern"]
DIFF = ["SquareExponential", "C2RadialMatern", "C4RadialMatern"]


def phi(cls, r):
  if cls == "SquareExponential":
    return math.exp(-0.5 * r * r)
  if cls == "C0RadialMatern":
    return math.exp(-r)
  if cls == "C2RadialMatern":
    return (1 + r) * math.exp(-r)
  return (1 + r + r * r / 3.0) * math.exp(-r)


def kern(spec, a, b):
  """independent scalar kernel: spec = dict(cls, hp) or multitask dict(cls='multitask', phys, task, hp)"""
  hp = spec["hp"]
  if spec["cls"] == "multitask":
    d = len(hp) - 2
    rp = math.sqrt(sum(((a[k] - b[k]) / hp[1 + k]) ** 2 for k in range(d)))
    rt = abs(a[d] - b[d]) / hp[-1]
    return hp[0] * phi(spec["phys"], rp) * phi(spec["task"], rt)
  r = math.sqrt(sum(((a[k] - b[k]) / hp[1 + k]) ** 2 for k in range(len(hp) - 1)))
  return hp[0] * phi(spec["cls"], r)


# Lives in which the array the hyperparameters were HANDED OVER in is written to afterwards by its owner (the caller): the usual
# `h[:] = ...; cov = Kernel(h)` loop over one re-used buffer, or an optimiser that keeps iterating on the vector it passed to the setter.
WRITTEN_LIVES = ("buffer_written", "assigned_written", "buffer_late")
_OTHER = [1.7, 0.6, 2.3, 0.45, 1.3, 0.8, 3.1, 0.7, 1.9, 0.5, 2.7, 0.9, 1.1]


def other_hp(hp):
  """different, valid (positive, finite) hyperparameters of the same length: what a kernel is first built with in the re-assigning lives, and
  what the caller writes into its own buffer in the WRITTEN_LIVES"""
  hp = numpy.array(hp, dtype=float)
  return hp * numpy.array(_OTHER[: len(hp)] + [1.5] * max(0, len(hp) - len(_OTHER)))


def write_caller_buffer(k):
  """the caller re-uses the array it handed the hyperparameters over in (life "buffer_late": make_gp does this once the GP is built)"""
  buf = getattr(k, "_verif_caller_buffer", None)
  if buf is not None:
    buf[:] = other_hp(k._verif_stated_hp)
    k._verif_caller_buffer = None


def make_cov(spec):
  """spec["life"]: how the kernel object came to carry spec["hp"] - "fresh" (constructed with them), "reassigned" (constructed with other
  values, then `.hyperparameters = hp`), "inplace" (constructed from an array that is then overwritten in place and assigned again - what an
  in-place optimiser or the likelihood's setter does), "readmod" (the caller scribbles on what the getter returned), and the WRITTEN_LIVES:
  "rejected" (constructed with them; then inadmissible vectors are offered to the live object and refused - HyperparameterInvalidError caught, what an optimiser
  stepping outside the admissible region causes; process variance, a length scale, the last entry - for the tensor kernel too, C03_hyper_live_multitask_*),
  "buffer_written" (constructed from a float64 ndarray that its owner overwrites right afterwards), "assigned_written" (the same through
  the setter), "buffer_late" (constructed from such an array, which is overwritten only after a GP has been built on the kernel: make_gp /
  write_caller_buffer).  Whatever the history, the object must be the kernel with hyperparameters hp."""
  import libsigopt.compute.covariance as cv
  hp = numpy.array(spec["hp"], dtype=float)
  life = spec.get("life", "fresh")
  first = hp if life in ("fresh", "readmod", "rejected", "buffer_written", "buffer_late") else other_hp(hp)
  arr = numpy.array(first, dtype=float)
  if spec["cls"] == "multitask":
    from libsigopt.compute.multitask_covariance import MultitaskTensorCovariance
    k = MultitaskTensorCovariance(arr, getattr(cv, spec["phys"]), getattr(cv, spec["task"]))
  else:
    k = getattr(cv, spec["cls"])(arr)
  if life == "reassigned":
    k.hyperparameters = numpy.array(hp, dtype=float)
  elif life == "inplace":
    arr[:] = hp
    k.hyperparameters = arr
  elif life == "readmod":       # a caller reads the hyperparameters and scribbles on the array it got: the kernel must not follow
    got = k.hyperparameters
    try:
      got *= 3.0
    except (TypeError, ValueError):
      pass
  elif life == "rejected":
    from libsigopt.compute.covariance_base import HyperparameterInvalidError
    offers = [other_hp(hp) * numpy.array([-1.0] + [1.0] * (len(hp) - 1)), numpy.concatenate([other_hp(hp)[:-1], [0.0]]),
              numpy.concatenate([[float("nan")], other_hp(hp)[1:]]), other_hp(hp) * numpy.array([1.0, -1.0] + [1.0] * (len(hp) - 2))]
    for bad in offers:
      try:
        k.hyperparameters = bad
      except HyperparameterInvalidError:
        pass
  elif life == "buffer_written":
    arr[:] = other_hp(hp)
  elif life == "assigned_written":
    buf = numpy.array(hp, dtype=float)
    k.hyperparameters = buf
    buf[:] = other_hp(hp)
  elif life == "buffer_late":
    k._verif_caller_buffer, k._verif_stated_hp = arr, hp.copy()
  return k


# The forms in which a caller may hand the SAME numbers over as an array: what an entry point returns must not depend on them.
#   int      integer dtype - what numpy.array() makes of lists of Python ints (one-hot points of an int / categorical domain) - when every entry is integral
#   float32  single precision, when every entry is exactly representable in it
#   fortran  column-major memory layout;  strided: a non-contiguous view into a larger buffer;  readonly: flags.writeable = False
HANDOVER_STYLES = ("float64", "int", "float32", "fortran", "strided", "readonly")


def handover(values, style):
  a = numpy.array(values, dtype=float)
  if style in (None, "float64") or a.size == 0 or a.ndim not in (1, 2):
    return a
  if style == "int":
    return a.astype(numpy.int64) if bool(numpy.all(a == numpy.round(a))) and float(numpy.abs(a).max()) < 2.0 ** 53 else a
  if style == "float32":
    b = a.astype(numpy.float32)
    return b if numpy.array_equal(b.astype(float), a) else a
  if style == "fortran":
    return numpy.asfortranarray(a)
  if style == "strided":
    big = numpy.full(tuple(2 * n + 1 for n in a.shape), -12345.678)
    view = big[tuple(slice(1, 2 * n, 2) for n in a.shape)]
    view[...] = a
    return view
  if style == "readonly":
    a.flags.writeable = False
    return a
  raise ValueError(style)


def make_gp(inp):
  from libsigopt.compute.gaussian_process import GaussianProcess
  from libsigopt.compute.misc.data_containers import HistoricalData
  style = inp.get("data_style")      # the form the caller's data arrays are handed over in (HANDOVER_STYLES; None: fresh float64 arrays)
  pts = handover(inp["points"], style)
  hd = HistoricalData(pts.shape[1])
  vals, noise = handover(inp["values"], style), handover(inp["noise"], style)
  hd.append_historical_data(pts, vals, noise)
  cov = make_cov(inp["cov"])
  gp = GaussianProcess(cov, hd, mean_poly_indices=inp.get("mean_idx"), tikhonov_param=inp.get("tikhonov"))
  write_caller_buffer(cov)   # life "buffer_late": the hyperparameter array is the caller's too
  # the caller's buffers are the caller's: re-using them afterwards must not reach the model (it matters at the next re-factorisation)
  if style != "readonly":     # (nobody can write to a read-only array: handing one over is its own test - the library must not write to it either)
    pts[...] = pts * -3.0
    vals[...] = vals + 1e3
    noise[...] = noise * 0.0
  return gp


def gen_gp_input(rng, differentiable=False, well_conditioned=False, allow_multitask=True, max_n=9, max_dim=3, caller_writes=False):
  """caller_writes: also draw the kernel lives in which the caller re-uses the array it handed the hyperparameters over in (WRITTEN_LIVES).  Opt-in:
  on the unchanged library the kernel keeps computing with the values handed over, but its `hyperparameters` getter then reports the array's NEW
  content (RadialCovariance keeps a reference in _hyperparameters) - an oracle that reads the hyperparameters back from the object instead of
  taking them from the input must not use these lives."""
  dim = rng.randint(1, max_dim)
  n = rng.randint(dim + 2, max_n)
  pool = DIFF if differentiable else KERNELS
  if allow_multitask and rng.random() < 0.25 and dim >= 2:
    ls = [rng.uniform(0.15, 0.5) if well_conditioned else 10 ** rng.uniform(-1, 0.5) for _ in range(dim)]
    cov = dict(cls="multitask", phys=rng.choice(DIFF), task=rng.choice(DIFF), hp=[10 ** rng.uniform(-0.5, 0.5)] + ls)
  else:
    ls = [rng.uniform(0.15, 0.5) if well_conditioned else 10 ** rng.uniform(-1, 0.5) for _ in range(dim)]
    cov = dict(cls=rng.choice(pool), hp=[10 ** rng.uniform(-0.5, 0.5)] + ls)
  cov["life"] = rng.choice(["fresh", "fresh", "reassigned", "inplace", "readmod", "rejected"] + (list(WRITTEN_LIVES) if caller_writes else []))
  pts = [[rng.uniform(0, 1) for _ in range(dim)] for _ in range(n)]
  if not well_conditioned:
    r = rng.random()
    if r < 0.2:
      pts[1] = list(pts[0])                                  # duplicated point
    elif r < 0.35:
      pts[1] = [v + 1e-7 for v in pts[0]]                    # nearly coincident
  noise_level = rng.choice([1e-3, 1e-2, 0.1]) if well_conditioned else rng.choice([1e-12, 1e-8, 1e-4, 1e-2, 1.0])
  noise = [noise_level * rng.uniform(0.5, 2) for _ in range(n)]
  vals = [rng.uniform(-1, 1) for _ in range(n)]
  mt = rng.random()
  if mt < 0.35:
    idx = None
  elif mt < 0.7:
    idx = [[0] * dim]
  elif mt < 0.85 or n < dim + 3:
    idx = [[0] * dim] + [[int(a == b) for a in range(dim)] for b in range(dim)] if n >= dim + 2 else [[0] * dim]
  elif mt < 0.95:
    idx = [[0] * dim, [2] + [0] * (dim - 1)]
  else:                                                      # custom monomials without the constant: one term, or two
    e = [0] * dim
    e[rng.randrange(dim)] = rng.choice([1, 2])
    if dim > 1 and rng.random() < 0.4:
      e[rng.randrange(dim)] += 1
    idx = [e] if rng.random() < 0.6 else [e, [int(k == 0) for k in range(dim)]]
    if len(idx) == 2 and idx[0] == idx[1]:
      idx = [e]
  tik = None if (well_conditioned or rng.random() < 0.7) else rng.choice([1e-6, 1e-3, 0.05])
  xs = [[rng.uniform(-0.2, 1.2) for _ in range(dim)] for _ in range(rng.randint(1, 4))]
  if not well_conditioned and rng.random() < 0.3:
    xs[0] = list(pts[0])                                     # query on a training point
  if not well_conditioned and rng.random() < 0.15:
    xs[-1] = [v + 30.0 for v in xs[-1]]                      # far away
  if idx is not None and len(idx) >= 2 and not well_conditioned and rng.random() < 0.15:
    # inputs far from the origin relative to their spread (a parameter living in [2000, 2020]): the columns of the polynomial matrix are
    # nearly collinear, the GLS coefficients are still determined (the saddle-point reference works in extended precision with refinement)
    off, k = rng.choice([400.0, 2000.0]), rng.randrange(dim)
    for row in pts + xs:
      row[k] = off + 20.0 * row[k]
    cov["hp"][1 + k] *= 20.0
  return dict(points=pts, values=vals, noise=noise, cov=cov, mean_idx=idx, tikhonov=tik, xs=xs)


def poly_row(idx, x):
  if not idx:
    return []
  return [math.prod(x[d] ** e for d, e in enumerate(term)) for term in idx]


def reference_posterior(inp):
  """Independent closed form: saddle-point system solved with numpy.linalg.solve + two steps of iterative refinement in
  extended precision (numpy.longdouble).  Returns mean, var (unfloored), cov, cond."""
  pts, xs = inp["points"], inp["xs"]
  n, m = len(pts), len(xs)
  idx = inp.get("mean_idx") or []
  p = len(idx)
  K = numpy.array([[kern(inp["cov"], pts[i], pts[j]) for j in range(n)] for i in range(n)], dtype=numpy.longdouble)
  diag = [inp["tikhonov"]] * n if inp.get("tikhonov") is not None else inp["noise"]
  for i in range(n):
    K[i, i] += diag[i]
  P = numpy.array([poly_row(idx, x) for x in pts], dtype=numpy.longdouble).reshape(n, p)
  y = numpy.array(inp["values"], dtype=numpy.longdouble)
  A = numpy.zeros((n + p, n + p), dtype=numpy.longdouble)
  A[:n, :n] = K
  A[:n, n:] = P
  A[n:, :n] = P.T
  rhs = numpy.concatenate([y, numpy.zeros(p, dtype=numpy.longdouble)])
  def solve(B):
    A64 = A.astype(float)
    X = numpy.linalg.solve(A64, B.astype(float)).astype(numpy.longdouble)
    for _ in range(3):
      R = B - A @ X
      X = X + numpy.linalg.solve(A64, R.astype(float)).astype(numpy.longdouble)
    return X
  sol = solve(rhs)
  a, b = sol[:n], sol[n:]
  Ks = numpy.array([[kern(inp["cov"], xs[i], pts[j]) for j in range(n)] for i in range(m)], dtype=numpy.longdouble)
  Ps = numpy.array([poly_row(idx, x) for x in xs], dtype=numpy.longdouble).reshape(m, p)
  mean = Ks @ a + (Ps @ b if p else 0)
  K64 = K.astype(float)
  KinvKs = numpy.linalg.solve(K64, Ks.T.astype(float)).astype(numpy.longdouble)
  for _ in range(3):
    R = Ks.T - K @ KinvKs
    KinvKs = KinvKs + numpy.linalg.solve(K64, R.astype(float)).astype(numpy.longdouble)
  Kss = numpy.array([[kern(inp["cov"], xs[i], xs[j]) for j in range(m)] for i in range(m)], dtype=numpy.longdouble)
  cov = Kss - Ks @ KinvKs
  # first-order sensitivity of mean / variance to an error dk in the cross-kernel entries: |a|_1 and max_i |card_i|_1
  extra = dict(a_l1=float(numpy.abs(a).sum()), card_l1=float(numpy.abs(KinvKs).sum(axis=0).max()) if m else 0.0, gls_cond=1.0, pb_l1=0.0)
  if p:
    # conditioning of the GLS step (P' K^-1 P) b = P' K^-1 y and the size of the polynomial part |P_eval| |b|: the library solves that system
    # with a Cholesky factorisation in double precision, forward error ~ eps * cond * |P_eval| |b|
    Mg = (P.T @ numpy.linalg.solve(K64, P.astype(float)).astype(numpy.longdouble)).astype(float)
    extra["gls_cond"] = float(numpy.linalg.cond(Mg))
    extra["pb_l1"] = float((numpy.abs(Ps) @ numpy.abs(b)).max()) if m else 0.0
  reference_posterior.extra = extra
  return numpy.array(mean, dtype=float), numpy.array(numpy.diag(cov), dtype=float), numpy.array(cov, dtype=float), float(numpy.linalg.cond(K64))


def kernel_entry_error(inp):
  """Bound on the rounding error of one cross-kernel entry of the library: the squared distance is formed as
  |x|^2 + |z|^2 - 2 x.z (error ~ 4 eps (|x|^2 + |z|^2) in scaled coordinates); kernels with phi'(0) != 0 (C0 Matern)
  turn that into sqrt(.) in r, the smooth ones into an eps-level error."""
  hp = inp["cov"]["hp"]
  alpha = hp[0]
  ls = hp[1:]
  S = 0.0
  for x in inp["points"] + inp["xs"]:
    S = max(S, sum((x[k] / ls[k]) ** 2 for k in range(len(x))))
  d2err = 8 * 2.3e-16 * 2 * S
  if inp["cov"]["cls"] == "C0RadialMatern":
    return alpha * (math.sqrt(d2err) + 4e-16)
  return alpha * (d2err + 4e-16)
