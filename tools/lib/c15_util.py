"""Harness helpers of property C15 (owned by tools/props/C15.py): builders of small real objects, runners that drive the
implementation through an input description and record what it shows, deep snapshots for the "caller's objects unchanged"
clauses, stub optimisers, and a small request builder for the endpoint clause."""
import copy
import dataclasses

import numpy

METHODS = {"LieMin": "constant_liar_min", "LieMax": "constant_liar_max", "LieMean": "constant_liar_mean"}


# ------------------------------------------------------------------------------------------ deep snapshots


def snap(obj, depth=0, seen=None):
  """Structural snapshot of an object graph (arrays by dtype/shape/bytes); equal snapshots <=> nothing observable changed."""
  if seen is None:
    seen = {}
  if depth > 12:
    return "<deep>"
  if obj is None or isinstance(obj, (bool, int, float, str, bytes, complex)):
    return obj if obj == obj else "nan"
  if isinstance(obj, numpy.ndarray):
    return ("nd", str(obj.dtype), obj.shape, obj.tobytes())
  if isinstance(obj, numpy.generic):
    return ("ng", str(obj.dtype), obj.tobytes())
  if id(obj) in seen:
    return ("ref", seen[id(obj)])
  seen[id(obj)] = len(seen)
  if isinstance(obj, dict):
    return ("dict", [(repr(k), snap(v, depth + 1, seen)) for k, v in obj.items()])
  if isinstance(obj, (list, tuple)):
    return (type(obj).__name__, [snap(v, depth + 1, seen) for v in obj])
  if isinstance(obj, (set, frozenset)):
    return ("set", sorted(repr(v) for v in obj))
  if isinstance(obj, type) or callable(obj) and not hasattr(obj, "__dict__"):
    return ("callable", getattr(obj, "__qualname__", repr(type(obj))))
  fields = {}
  if hasattr(obj, "__dict__"):
    fields.update(vars(obj))
  for klass in type(obj).__mro__:
    for s in getattr(klass, "__slots__", ()):
      if hasattr(obj, s):
        fields[s] = getattr(obj, s)
  if not fields and not hasattr(obj, "__dict__"):
    return ("opaque", repr(obj))
  return ("obj", type(obj).__name__, [(k, snap(v, depth + 1, seen)) for k, v in sorted(fields.items())])


def diff_snap(a, b, path=""):
  """First path at which two snapshots differ (for messages)."""
  if type(a) != type(b):
    return path or "<root>"
  if isinstance(a, (list, tuple)):
    if len(a) != len(b):
      return path + "/len"
    for i, (x, y) in enumerate(zip(a, b)):
      if x != y:
        label = x[0] if isinstance(x, tuple) and len(x) == 2 and isinstance(x[0], str) else str(i)
        return diff_snap(x, y, f"{path}/{label}")
    return None
  return None if a == b else (path or "<root>")


# ------------------------------------------------------------------------------------------ builders


def mk_gp(dim, pts, vals, noise, tik=None):
  """tik: the fitted nugget of an auto-noise model (tikhonov_param), or None; it replaces the noise on the kernel diagonal only -
  what the model REPORTS (points, values, noise, lies with the fixed lie noise) does not depend on it."""
  from libsigopt.compute.covariance import SquareExponential
  from libsigopt.compute.gaussian_process import GaussianProcess
  from libsigopt.compute.misc.data_containers import HistoricalData
  hd = HistoricalData(dim)
  hd.append_historical_data(numpy.array(pts, dtype=float).reshape(len(pts), dim), numpy.array(vals, dtype=float), numpy.array(noise, dtype=float))
  return GaussianProcess(SquareExponential([1.0] + [0.5] * dim), hd, tikhonov_param=tik)


def mk_sum(inp):
  from libsigopt.compute.gaussian_process_sum import GaussianProcessSum
  gps = [mk_gp(inp["dim"], inp["pts"], c["vals"], c["noise"], c.get("tik", inp.get("tik"))) for c in inp["comps"]]
  return GaussianProcessSum(gps, list(inp["weights"]))


def mk_parzen(inp):
  from libsigopt.compute.covariance import C4RadialMatern
  from libsigopt.compute.sigopt_parzen_estimator import SigOptParzenEstimator
  d = inp["dim"]
  return SigOptParzenEstimator(
    lower_covariance=C4RadialMatern([1.0] + [0.5] * d), greater_covariance=C4RadialMatern([1.0] + [0.7] * d),
    points_sampled_points=numpy.array(inp["pts"], dtype=float).reshape(len(inp["pts"]), d),
    points_sampled_values=numpy.array(inp["vals"], dtype=float), gamma=inp["gamma"])


def arr2(rows, dim):
  return numpy.array(rows, dtype=float).reshape(len(rows), dim)


def tolist2(a):
  a = numpy.asarray(a, dtype=float)
  return [] if a.size == 0 else numpy.atleast_2d(a).tolist()


# ------------------------------------------------------------------------------------------ op runners (implementation side)


def _err(e):
  return ("err", type(e).__name__)


def predictor_op(p, dim, op):
  """One op of the GP / GP-sum machines on a real predictor.  Returns the observable output."""
  k = op[0]
  try:
    if k == "append":
      locs = arr2(op[1], dim)
      before = locs.copy()
      p.append_lie_data(locs, METHODS[op[2]])
      assert (locs == before).all(), "lie locations modified"
      return ("none",)
    if k == "append_bad":                                  # rows of the wrong length
      p.append_lie_data(numpy.ones((op[1], dim + 1)), METHODS[op[2]])
      return ("none",)
    if k == "num":
      return ("nat", int(p.num_sampled))
    if k == "pts":
      return ("pts", tolist2(p.points_sampled))
    if k == "vals":
      return ("vec", [float(x) for x in p.points_sampled_value])
    if k == "noise":
      return ("vec", [float(x) for x in p.points_sampled_noise_variance])
    if k == "best":
      return ("val", float(p.best_observed_value))
    if k == "predict":
      m, v = p.compute_mean_and_variance_of_points(arr2([op[1]], dim))
      assert m.shape == (1,) and v.shape == (1,) and numpy.isfinite(m).all()
      return ("none",)
  except (AssertionError, ValueError, IndexError) as e:
    return _err(e)
  raise ValueError(k)


def parzen_state(pe):
  return dict(lower=tolist2(pe.lower_points), greater=tolist2(pe.greater_points),
              lower_lies=[numpy.asarray(x, dtype=float).tolist() for x in pe.lower_lies],
              greater_lies=[numpy.asarray(x, dtype=float).tolist() for x in pe.greater_lies])


def run_parzen(inp):
  """Drive a real estimator through the ops; returns (initial state, outputs, state after every op, resolved ops)."""
  pe = mk_parzen(inp)
  d = inp["dim"]
  init = parzen_state(pe)
  stashes = []    # (live object returned by the implementation, snapshot taken at stash time)
  outs, snaps, resolved = [], [], []
  for op in inp["ops"]:
    k = op[0]
    try:
      if k == "append":
        pe.append_lies([numpy.array(x, dtype=float) for x in op[1]], lower=bool(op[2]))
        out, r = ("none",), ["append", op[1], bool(op[2])]
      elif k == "append_bad":
        bad = [[1.0] * (d + 1) for _ in range(op[1])]
        r = ["append", bad, bool(op[2])]
        pe.append_lies([numpy.array(x, dtype=float) for x in bad], lower=bool(op[2]))
        out = ("none",)
      elif k == "clear":
        pe.clear_lies()
        out, r = ("none",), ["clear"]
      elif k == "stash":
        live = pe.stash_lies()
        shot = ([numpy.asarray(x, dtype=float).tolist() for x in live[0]], [numpy.asarray(x, dtype=float).tolist() for x in live[1]])
        stashes.append((live, shot))
        out, r = ("stash", shot[0], shot[1]), ["stash"]
      elif k == "recover":
        if stashes:
          live, shot = stashes[op[1] % len(stashes)]
        else:
          live = shot = ([], [])
        r = ["recover", shot[0], shot[1]]                 # the model gets what the stash held WHEN IT WAS TAKEN
        pe.recover_lies(live)
        out = ("none",)
      elif k == "recover_lists":
        r = ["recover", op[1], op[2]]
        pe.recover_lies(([numpy.array(x, dtype=float) for x in op[1]], [numpy.array(x, dtype=float) for x in op[2]]))
        out = ("none",)
      else:
        raise KeyError(k)
    except (AssertionError, ValueError, IndexError) as e:
      out = _err(e)
    outs.append(out)
    resolved.append(r)
    snaps.append(parzen_state(pe))
  return init, outs, snaps, resolved


def stub_pz_formula(pe):
  """The deterministic stub optimiser of the Parzen constant liar, mirrored by LiesCorr.stub_pick_pz: half the last point of the
  greater set, shifted by a quarter of the number of greater points and an eighth of the number of lower points."""
  return numpy.array(pe.greater_points[-1], dtype=float) / 2.0 + len(pe.greater_points) / 4.0 + len(pe.lower_points) / 8.0


def run_pz_constant_liar(inp):
  """The real SPENextPoints.suggest_next_points_constant_liar on a real estimator that ALREADY HOLDS lies (inp["pre_lower"],
  inp["pre_greater"]: what pending points leave behind), the multistart optimiser replaced by a stub that records the estimator it
  is handed.  Returns dict(init, picks, seen, final, same_object)."""
  import libsigopt.views.rest.spe_next_points as spe
  from libsigopt.compute.domain import CategoricalDomain
  pe = mk_parzen(inp)
  d = inp["dim"]
  pe.append_lies([numpy.array(x, dtype=float) for x in inp["pre_lower"]], lower=True)
  pe.append_lies([numpy.array(x, dtype=float) for x in inp["pre_greater"]], lower=False)
  dom = CategoricalDomain([{"var_type": "double", "elements": [-1024.0, 1024.0]} for _ in range(d)])
  init = parzen_state(pe)
  seen, calls, handed = [], [0], []
  scripted = inp.get("picks")

  class StubMS:
    def __init__(self, optimizer, num_multistarts=0, log_sample=False):
      self.optimizer = optimizer

    def optimize(self, selected_starts=None, **kwargs):
      est = self.optimizer.objective_function
      handed.append(est is pe)
      seen.append(parzen_state(est))
      p = numpy.array(scripted[calls[0]], dtype=float) if scripted is not None else stub_pz_formula(est)
      calls[0] += 1
      return p, None

  orig = spe.MultistartOptimizer
  spe.MultistartOptimizer = StubMS
  try:
    out = spe.SPENextPoints.suggest_next_points_constant_liar(pe, inp["n"], dom, 5)
  finally:
    spe.MultistartOptimizer = orig
  return dict(init=init, picks=tolist2(out), seen=seen, final=parzen_state(pe), same_object=all(handed))


# ------------------------------------------------------------------------------------------ constant liar with a stub optimiser


def stub_formula(pred):
  """The deterministic stub optimiser mirrored by LiesCorr.stub_of: depends on the number of points, the last point
  and the last value the copied acquisition function's predictor reports."""
  return numpy.array(pred.points_sampled[-1], dtype=float) + float(pred.num_sampled) + float(pred.points_sampled_value[-1])


def run_constant_liar(inp):
  """constant_liar_acquisition_function_optimization on a real EI over a real GP / GP sum, the inner optimisation replaced
  by a stub that records what the acquisition function it is handed shows.  Returns dict(picks, seen, unchanged, detail)."""
  import libsigopt.compute.acquisition_function_optimization as afo
  from libsigopt.compute.domain import CategoricalDomain
  from libsigopt.compute.expected_improvement import ExpectedImprovement
  d = inp["dim"]
  pred = mk_sum(inp) if "comps" in inp else mk_gp(d, inp["pts"], inp["vals"], inp["noise"], inp.get("tik"))
  if inp.get("warm"):                                      # accessor reads before the call (fills the sum's caches)
    _ = pred.points_sampled_value, pred.points_sampled_noise_variance, pred.best_observed_value
  af = ExpectedImprovement(pred)
  if inp.get("af_kind") == "multitask":     # the cost-scaled wrapper forwards lies to the acquisition function it wraps
    from libsigopt.compute.multitask_acquisition_function import MultitaskAcquisitionFunction
    af = MultitaskAcquisitionFunction(af)
  elif inp.get("af_kind") == "aei":
    from libsigopt.compute.expected_improvement import AugmentedExpectedImprovement
    af = AugmentedExpectedImprovement(pred)
  dom = CategoricalDomain([{"var_type": "double", "elements": [-64.0, 64.0]} for _ in range(d)])
  seen, calls, shared = [], [0], [False]
  scripted = inp.get("picks")

  def stub(es_opt, gd_opt, pretest):
    a = es_opt.af
    if a is af or gd_opt.af is af:          # the optimisers were handed the caller's object instead of a copy
      shared[0] = True
    p = a.predictor
    seen.append(dict(num=int(p.num_sampled), pts=tolist2(p.points_sampled), vals=[float(x) for x in p.points_sampled_value],
                     noise=[float(x) for x in p.points_sampled_noise_variance]))
    out = numpy.array(scripted[calls[0]], dtype=float) if scripted is not None else stub_formula(p)
    calls[0] += 1
    return out

  before = snap(af)
  orig = afo.vectorized_acquisition_optimization
  afo.vectorized_acquisition_optimization = stub
  try:
    pts, _info = afo.constant_liar_acquisition_function_optimization(dom.one_hot_domain, af, inp["n"])
  finally:
    afo.vectorized_acquisition_optimization = orig
  after = snap(af)
  same = before == after and not shared[0]
  return dict(picks=tolist2(pts), seen=seen, unchanged=same,
              detail=None if same else ("optimisers were handed the caller's object" if shared[0] else diff_snap(before, after)))


def run_constant_liar_real(inp):
  """constant_liar_acquisition_function_optimization with its REAL optimisers (DE, then Adam) at reduced effort (60 DE multistarts, 300
  pretest locations, at most 10 DE iterations - the loop, the construction and the life of the optimiser objects are the library's).
  vectorized_acquisition_optimization is wrapped, not replaced: at every round the predictor of the acquisition function it is handed
  is recorded, and every point either optimiser evaluates in that round is logged (hooks on evaluate_and_monitor, installed once per
  optimiser object, so an object that lives across rounds logs into the round that is running).
  Returns dict(picks, rounds=[dict(num, pts, vals, noise, evaluated=set of rows, fresh_es, fresh_gd)], unchanged, detail)."""
  import libsigopt.compute.acquisition_function_optimization as afo
  from libsigopt.compute.domain import CategoricalDomain
  from libsigopt.compute.expected_improvement import ExpectedImprovement
  from libsigopt.compute.optimization_auxiliary import OptimizerInfo
  d = inp["dim"]
  numpy.random.seed(inp.get("seed", 0))
  pred = mk_sum(inp) if "comps" in inp else mk_gp(d, inp["pts"], inp["vals"], inp["noise"], inp.get("tik"))
  if inp.get("warm"):
    _ = pred.points_sampled_value, pred.points_sampled_noise_variance, pred.best_observed_value
  af = ExpectedImprovement(pred)
  lo = min(float(x) for p in inp["pts"] for x in p) - 2.0
  hi = max(float(x) for p in inp["pts"] for x in p) + 2.0
  dom = CategoricalDomain([{"var_type": "double", "elements": [lo, hi]} for _ in range(d)])
  rounds, hooked = [], {}

  def hook(opt):
    if id(opt) in hooked:
      return False
    real = opt.evaluate_and_monitor

    def logged(points):
      out = real(points)
      rounds[-1]["evaluated"].update(numpy.ascontiguousarray(row, dtype=float).tobytes() for row in numpy.asarray(points, dtype=float).reshape(len(points), -1))
      return out

    opt.evaluate_and_monitor = logged
    hooked[id(opt)] = opt          # keeps the object alive, so ids are not re-used
    return True

  orig_v, orig_find, orig_es = afo.vectorized_acquisition_optimization, afo.find_optimizer_maxiter, afo.DEFAULT_NEXT_POINTS_ES_OPTIMIZER_INFO

  def wrapped(es_opt, gd_opt, pretest):
    p = es_opt.af.predictor
    rounds.append(dict(num=int(p.num_sampled), pts=tolist2(p.points_sampled), vals=[float(x) for x in p.points_sampled_value],
                       noise=[float(x) for x in p.points_sampled_noise_variance], evaluated=set(),
                       shared_with_caller=(es_opt.af is af or gd_opt.af is af), one_af=(es_opt.af is gd_opt.af)))
    rounds[-1]["fresh_es"], rounds[-1]["fresh_gd"] = hook(es_opt), hook(gd_opt)
    return orig_v(es_opt, gd_opt, pretest)

  before = snap(af)
  afo.vectorized_acquisition_optimization = wrapped
  afo.find_optimizer_maxiter = lambda **kw: min(orig_find(**kw), 10)
  afo.DEFAULT_NEXT_POINTS_ES_OPTIMIZER_INFO = OptimizerInfo(optimizer=orig_es.optimizer, parameters=orig_es.parameters, num_multistarts=60,
                                                            num_random_samples=300)
  try:
    pts, _info = afo.constant_liar_acquisition_function_optimization(dom.one_hot_domain, af, inp["n"])
  finally:
    afo.vectorized_acquisition_optimization, afo.find_optimizer_maxiter, afo.DEFAULT_NEXT_POINTS_ES_OPTIMIZER_INFO = orig_v, orig_find, orig_es
  after = snap(af)
  shared = any(r["shared_with_caller"] for r in rounds)
  same = before == after and not shared
  return dict(picks=tolist2(pts), rounds=rounds, unchanged=same,
              detail=None if same else ("optimisers were handed the caller's object" if shared else diff_snap(before, after)))


# ------------------------------------------------------------------------------------------ search with a stub optimiser


def mk_search_af(inp):
  from libsigopt.compute.domain import CategoricalDomain
  from libsigopt.compute.probabilistic_failures import ProbabilisticFailuresCDF
  from libsigopt.compute.search import ProbabilityOfImprovementSearch
  d = inp["dim"]
  dom = CategoricalDomain([{"var_type": "double", "elements": [float(l), float(h)]} for l, h in zip(inp["lo"], inp["hi"])])
  gp = mk_gp(d, inp["pts"], inp["vals"], inp["noise"])
  fm = ProbabilisticFailuresCDF(gp, 0.5)
  rep = arr2(inp["repulsors"], d) if inp["repulsors"] else None
  return ProbabilityOfImprovementSearch(dom, fm, inp["dist0"], repulsor_points=rep), dom


def search_state(af):
  return dict(repulsors=tolist2(af.repulsor_points), dist=float(numpy.ravel(af.distance_parameter)[0]))


def run_search(inp):
  """search_strategy_optimization on a real ProbabilityOfImprovementSearch, DEOptimizer replaced by a recording stub and
  the drawn distance values recorded.  Returns dict(init, draws, picks, seen, final, unchanged_model)."""
  import libsigopt.views.rest.search_next_points as snp
  numpy.random.seed(inp["seed"])
  af, dom = mk_search_af(inp)
  lo, hi = numpy.array(inp["lo"], dtype=float), numpy.array(inp["hi"], dtype=float)
  init = search_state(af)
  seen, draws, calls = [], [], [0]
  scripted = inp.get("picks")

  class StubDE:
    def __init__(self, domain, acquisition_function, num_multistarts, optimizer_parameters=None, maxiter=None):
      assert acquisition_function is af
      self.af = acquisition_function

    def optimize(self, selected_starts=None):
      seen.append(search_state(self.af))
      if scripted is not None:
        p = numpy.array(scripted[calls[0]], dtype=float)
      else:
        r = self.af.repulsor_points[-1] if len(self.af.repulsor_points) else numpy.zeros(len(lo))
        p = lo + (hi - lo) * ((r + 1.0) / 2.0)
      calls[0] += 1
      return p, None

    def __repr__(self):
      return "StubDE"

  orig_de, orig_gd = snp.DEOptimizer, snp.get_distance_parameter

  def rec_gd(dim):
    v = orig_gd(dim)
    draws.append(float(numpy.ravel(v)[0]))
    return v

  fm_before = snap(af.failure_model)
  snp.DEOptimizer, snp.get_distance_parameter = StubDE, rec_gd
  try:
    pts, _info = snp.search_strategy_optimization(af, inp["n"])
  finally:
    snp.DEOptimizer, snp.get_distance_parameter = orig_de, orig_gd
  return dict(init=init, draws=draws, picks=tolist2(pts), seen=seen, final=search_state(af),
              unchanged_model=(snap(af.failure_model) == fm_before))


# ------------------------------------------------------------------------------------------ requests for the endpoint clause


def one_hot(components, point):
  """Own one-hot encoding of a categorical point (doubles / ints pass through, a category becomes an indicator block)."""
  out = []
  for c, x in zip(components, point):
    if c["var_type"] == "categorical":
      out.extend([1.0 if x == e else 0.0 for e in c["elements"]])
    else:
      out.append(float(x))
  return out


def build_request(inp):
  """A request (dict of dataclasses) for GpNextPointsCategorical / SearchNextPoints / SPENextPoints from a JSON-able
  description: components, points, values (n x m), value_vars, failures, pending, objectives, optimized/constraint
  indices, thresholds, tasks."""
  from libsigopt.aux.adapter_info_containers import DomainInfo, GPModelInfo, MetricsInfo, PointsContainer
  comps = inp["components"]
  n = len(inp["points"])
  vals = numpy.array(inp["values"], dtype=float).reshape(n, -1)
  nm = vals.shape[1]
  tasks = numpy.array(inp.get("task_options") or [], dtype=float)
  thr = [numpy.nan if t is None else float(t) for t in inp["thresholds"]]
  mi = MetricsInfo(requires_pareto_frontier_optimization=(len(inp["optimized"]) == 2), observation_budget=int(inp["budget"]),
                   user_specified_thresholds=thr, objectives=list(inp["objectives"]),
                   optimized_metrics_index=list(inp["optimized"]), constraint_metrics_index=list(inp["constraint"]))
  ps = PointsContainer(points=numpy.array(inp["points"], dtype=float).reshape(n, len(comps)), values=vals,
                       value_vars=numpy.array(inp["value_vars"], dtype=float).reshape(n, nm),
                       failures=numpy.array(inp["failures"], dtype=bool),
                       task_costs=numpy.array(inp["task_costs"], dtype=float) if tasks.size else None)
  pend = numpy.array(inp["pending"], dtype=float).reshape(len(inp["pending"]), len(comps))
  pb = PointsContainer(points=pend, task_costs=numpy.array(inp["pending_task_costs"], dtype=float) if tasks.size else None)
  params = {
    "domain_info": DomainInfo(constraint_list=[], domain_components=copy.deepcopy(comps), force_hitandrun_sampling=False, priors=None),
    "num_to_sample": int(inp["num_to_sample"]), "points_sampled": ps, "points_being_sampled": pb, "tag": {"experiment_id": 1},
    "metrics_info": mi, "task_options": tasks, "parallelism": inp["parallelism"], "max_simultaneous_af_points": 1000,
  }
  hp = []
  for _ in range(nm):
    # inp["cat_ls_default"]: the categorical parameters still carry the unfitted default (a list of None per category - the library reads it as 1.0)
    ls = [[None if inp.get("cat_ls_default") else 0.7] * len(c["elements"]) if c["var_type"] == "categorical" else [0.4 * (max(c["elements"]) - min(c["elements"]))]
          for c in comps]
    hp.append({"alpha": 1.0, "length_scales": ls, "tikhonov": None, "task_length": 0.3 if tasks.size else None})
  params["model_info"] = GPModelInfo(hyperparameters=hp, max_simultaneous_af_points=777,
                                     nonzero_mean_info={"mean_type": "zero", "poly_indices": None},
                                     task_selection_strategy="a_priori" if tasks.size else None)
  return params


def request_fields(params):
  """The request data the property names: points, values, variances, failures, hyperparameters, and everything else
  except the "tag" dictionary, which the views are designed to fill in and hand back in their response."""
  return snap({k: (dataclasses.asdict(v) if dataclasses.is_dataclass(v) else v) for k, v in params.items() if k != "tag"})


# ------------------------------------------------------------------------------------------ endpoint calls with recording stubs


def gp_data(gp):
  return dict(pts=tolist2(gp.points_sampled), vals=[float(x) for x in gp.points_sampled_value],
              noise=[float(x) for x in gp.points_sampled_noise_variance])


def expected_pending(inp, with_task=True):
  rows = [one_hot(inp["components"], p) for p in inp["pending"]]
  if with_task and inp.get("task_options"):
    rows = [r + [float(t)] for r, t in zip(rows, inp["pending_task_costs"])]
  return rows


def run_endpoint(inp):
  """One real endpoint call (GpNextPointsCategorical / SPENextPoints / SearchNextPoints .view()) on a request built from
  `inp`, with the expensive optimisation routines replaced by stubs that record the model objects they are handed.
  Returns what the models held, and whether the request data are bit-for-bit what they were before the call."""
  import libsigopt.views.rest.gp_next_points_categorical as gpn
  import libsigopt.views.rest.search_next_points as snp
  import libsigopt.views.rest.spe_next_points as spe
  import libsigopt.views.view as vv
  from libsigopt.compute.gaussian_process_sum import GaussianProcessSum
  numpy.random.seed(inp["seed"])
  params = build_request(inp)
  before = request_fields(params)
  rec = dict(gp_builds=[], af=None, parzen=None, search=None, error=None)

  orig_fsgp = vv.GPView.form_single_gaussian_process

  def rec_fsgp(self, p, v, nv, lie, *, hyperparameter_dict):
    lv = numpy.ravel(numpy.asarray(lie, dtype=float))
    h = dict(pts=tolist2(p), vals=[float(x) for x in v], noise=[float(x) for x in nv], lie=float(lv[0]) if lv.size == 1 else lv.tolist())
    gp = orig_fsgp(self, p, v, nv, lie, hyperparameter_dict=hyperparameter_dict)
    h["data"], h["id"] = gp_data(gp), id(gp)
    rec["gp_builds"].append(h)
    return gp

  def failure_gps(fm):
    """the GPs under a failure model (a product of failure models, possibly nested), in order"""
    if fm is None:
      return []
    if hasattr(fm, "list_of_probabilistic_failures"):
      return [g for f in fm.list_of_probabilistic_failures for g in failure_gps(f)]
    pred = fm.predictor
    return list(pred.gaussian_process_list) if isinstance(pred, GaussianProcessSum) else [pred]

  def describe_af(af, qei):
    """what the optimiser is handed, AT THE MOMENT IT IS CALLED: the data of every GP of the predictor and of every GP under the
    failure model (by object identity, so that they can be matched with the form_single_gaussian_process calls), the pending set"""
    inner = getattr(af, "underlying", af)
    pred = inner.predictor
    comps = pred.gaussian_process_list if isinstance(pred, GaussianProcessSum) else [pred]
    pend = getattr(inner, "points_being_sampled", None)
    fgps = failure_gps(getattr(inner, "failure_model", None))
    return dict(qei=qei, af_class=type(inner).__name__, multitask_wrapper=inner is not af, predictor_ids=[id(g) for g in comps],
                predictor_data=[gp_data(g) for g in comps], pending_set=None if pend is None else tolist2(pend),
                failure_ids=[id(g) for g in fgps], failure_data=[gp_data(g) for g in fgps],
                wrapper_sees_predictor=getattr(af, "predictor", None) is pred)

  def stub_cl(domain, af, num_to_sample):
    rec["af"] = describe_af(af, False)
    return domain.generate_quasi_random_points_in_domain(num_to_sample), {"stub": "constant_liar"}

  def stub_qei(domain, af):
    rec["af"] = describe_af(af, True)
    return domain.generate_quasi_random_points_in_domain(1)[0], {"stub": "qei"}

  def stub_search(af, num_to_sample):
    rec["search"] = dict(repulsors=tolist2(af.repulsor_points))
    return af.domain.one_hot_domain.generate_quasi_random_points_in_domain(num_to_sample), {"stub": "search"}

  orig_form = spe.SPENextPoints.form_sigopt_parzen_estimator

  def rec_form(self, *a, **k):
    pe = orig_form(self, *a, **k)
    rec["parzen"] = dict(formed=parzen_state(pe))
    return pe

  def stub_draw(pe, num_to_sample, domain, **k):
    """records the estimator on entry, then runs the REAL draw_samples (its constant-liar call included) for one batch of the
    rejection sampler; only the multistart optimiser inside is a stub (it returns its first start and records the estimator it is
    handed); the estimator is snapshotted at every expected-improvement evaluation and when draw_samples returns"""
    rec["parzen"]["at_sampling"] = parzen_state(pe)
    evals = []
    real_ei = pe.evaluate_expected_improvement

    def rec_ei(points):
      evals.append(parzen_state(pe))
      return real_ei(points)

    class StubMS:
      def __init__(self, optimizer, num_multistarts=0, log_sample=False):
        self.optimizer = optimizer

      def optimize(self, selected_starts=None, **kwargs):
        est = self.optimizer.objective_function
        rec["parzen"]["cl_same_object"] = est is pe
        rec["parzen"]["cl_seen"] = parzen_state(est)
        rec["parzen"]["cl_evals_before"] = len(evals)
        pick = numpy.array(selected_starts[0], dtype=float)
        rec["parzen"]["cl_pick"] = pick.tolist()
        return pick, None

    orig_ms = spe.MultistartOptimizer
    spe.MultistartOptimizer = StubMS
    pe.evaluate_expected_improvement = rec_ei
    try:
      out = saved[3](pe, num_to_sample, domain, rejection_samples_limit=1, **k)
    finally:
      spe.MultistartOptimizer = orig_ms
      del pe.evaluate_expected_improvement
    rec["parzen"]["after_sampling"] = parzen_state(pe)
    rec["parzen"]["evals_after_pick"] = evals[rec["parzen"].get("cl_evals_before", 0):]
    return out

  saved = (gpn.constant_liar_acquisition_function_optimization, gpn.qei_acquisition_function_optimization,
           snp.search_strategy_optimization, spe.SPENextPoints.draw_samples)
  vv.GPView.form_single_gaussian_process = rec_fsgp
  gpn.constant_liar_acquisition_function_optimization, gpn.qei_acquisition_function_optimization = stub_cl, stub_qei
  snp.search_strategy_optimization = stub_search
  spe.SPENextPoints.form_sigopt_parzen_estimator = rec_form
  spe.SPENextPoints.draw_samples = staticmethod(stub_draw)
  try:
    cls = {"gp": gpn.GpNextPointsCategorical, "search": snp.SearchNextPoints, "spe": spe.SPENextPoints}[inp["endpoint"]]
    view = cls(params)
    mid = request_fields(params)
    result = view.view()
    rec["n_returned"] = len(result["points_to_sample"])
  except Exception as e:  # reported by the caller
    import traceback
    rec["error"] = f"{type(e).__name__}: {e}"
    rec["trace"] = traceback.format_exc()[-1500:]
    mid = None
  finally:
    vv.GPView.form_single_gaussian_process = orig_fsgp
    (gpn.constant_liar_acquisition_function_optimization, gpn.qei_acquisition_function_optimization,
     snp.search_strategy_optimization) = saved[:3]
    spe.SPENextPoints.form_sigopt_parzen_estimator = orig_form
    spe.SPENextPoints.draw_samples = staticmethod(saved[3])
  after = request_fields(params)
  rec["request_unchanged"] = before == after and (mid is None or mid == before)
  if not rec["request_unchanged"]:
    rec["request_diff"] = diff_snap(before, after) or diff_snap(before, mid)
  return rec

def run_other_endpoint(inp, which):
  """The remaining model-based endpoints on the same request: "hyperopt" (GpHyperOptMultimetricView, real SLSQP with two multistarts),
  "ei" (GpEiCategoricalView at the pending points as evaluation points), "best" (MultisolutionBestAssignments).  Only the clause 'every
  endpoint call leaves the request data (points, values, variances, failures, hyperparameters) unchanged' is decided here."""
  import dataclasses as _dc
  numpy.random.seed(inp["seed"])
  params = build_request(inp)
  if which == "ei":
    from libsigopt.aux.adapter_info_containers import PointsContainer
    from libsigopt.views.rest.gp_ei_categorical import GpEiCategoricalView as cls
    pts = numpy.array(params["points_sampled"].points[:2], dtype=float)
    params["points_to_evaluate"] = PointsContainer(points=pts, task_costs=(numpy.array(params["points_sampled"].task_costs[:2], dtype=float)
                                                                            if params["points_sampled"].task_costs is not None else None))
  elif which == "hyperopt":
    import libsigopt.views.rest.gp_hyper_opt_multimetric as H
    cls = H.GpHyperOptMultimetricView
    saved = H.DEFAULT_HYPER_OPT_OPTIMIZER_INFO
    H.DEFAULT_HYPER_OPT_OPTIMIZER_INFO = saved._replace(num_multistarts=2) if hasattr(saved, "_replace") else _dc.replace(saved, num_multistarts=2)
  else:
    from libsigopt.views.rest.multisolution_best_assignments import MultisolutionBestAssignments as cls
    params["num_solutions"] = 2
  before = request_fields(params)
  err = None
  try:
    cls(params).view()
  except Exception as e:   # whether the call succeeds is other properties' business; the request must be untouched either way
    err = f"{type(e).__name__}: {e}"
  finally:
    if which == "hyperopt":
      H.DEFAULT_HYPER_OPT_OPTIMIZER_INFO = saved
  after = request_fields(params)
  return dict(error=err, request_unchanged=before == after, request_diff=None if before == after else diff_snap(before, after))
