"""Shared machinery of the /verif checks: Coq build driver, case-file evaluation, evidence and replay writers,
known-findings matcher.  Every property plug-in in tools/props/ goes through these."""
import fcntl
import fractions
import hashlib
import json
import os
import random
import re
import subprocess
import sys
import time

VERIF = os.path.dirname(os.path.dirname(os.path.dirname(os.path.abspath(__file__))))
COQ = os.path.join(VERIF, "coq")
REPO = os.environ.get("VERIF_REPO", "/repo")
FORBIDDEN = re.compile(
  r"\b(Admitted|admit|Axiom|Axioms|Parameter|Parameters|Conjecture|Conjectures|Admit Obligations|bypass_check)\b"
  r"|Unset\s+Guard|Unset\s+Positivity|Unset\s+Universe|type-in-type|impredicative-set"
)


class TieBroken(Exception):
  """The model/source tie could not be re-established (translator error, unit missing, API changed)."""


class Ctx:
  def __init__(self, prop, tier, seed):
    self.prop, self.tier, self.seed = prop, tier, seed
    self.rng = random.Random(f"{prop}:{seed}")
    self.t0 = time.time()
    self.notes = []

  def quick(self):
    return self.tier == "quick"

  def n(self, quick, thorough):
    return quick if self.tier == "quick" else thorough


# ------------------------------------------------------------------------------------------ Coq build


def _lock():
  f = open(os.path.join(COQ, ".lock"), "w")
  fcntl.flock(f, fcntl.LOCK_EX)
  return f


def mkproject():
  """(Re)write coq/_CoqProject from the .v files on disk and regenerate the Makefile when the list changed."""
  files = []
  for d in ("Lib", "Model", "Gen", "Proofs", "Props"):
    for root, _, names in os.walk(os.path.join(COQ, d)):
      for n in sorted(names):
        if n.endswith(".v"):
          files.append(os.path.relpath(os.path.join(root, n), COQ))
  files.sort()
  text = "-Q . LV\n-arg -w -arg -notation-overridden,-deprecated-hint-without-locality,-deprecated-instance-without-locality\n" + "\n".join(files) + "\n"
  path = os.path.join(COQ, "_CoqProject")
  old = open(path).read() if os.path.exists(path) else None
  if old != text or not os.path.exists(os.path.join(COQ, "Makefile")):
    open(path, "w").write(text)
    subprocess.run(["coq_makefile", "-f", "_CoqProject", "-o", "Makefile"], cwd=COQ, check=True, stdout=subprocess.DEVNULL)
  return files


def write_if_changed(path, text):
  if os.path.exists(path) and open(path).read() == text:
    return False
  os.makedirs(os.path.dirname(path), exist_ok=True)
  open(path, "w").write(text)
  return True


def coq_make(targets, timeout=1500, jobs=16):
  """Full .vo build of the given targets and their dependency cone.  Returns (ok, log)."""
  lk = _lock()
  try:
    mkproject()
    cmd = ["timeout", str(timeout), "make", "-j", str(jobs), "-Otarget"] + list(targets)
    p = subprocess.run(cmd, cwd=COQ, stdout=subprocess.PIPE, stderr=subprocess.STDOUT, text=True)
    return p.returncode == 0, p.stdout
  finally:
    lk.close()


def coq_props(prop_files, timeout=600, jobs=8):
  """Re-compile each Props file on its own (dependencies must be built) and collect Print Assumptions output - the files of one
  property in parallel.  Returns list of dict(file, ok, log, theorems:[(name, assumptions)])."""
  import shutil
  from concurrent.futures import ThreadPoolExecutor

  def one(kf):
    k, f = kf
    tmpdir = os.path.join(COQ, "Cases", f"props_{os.getpid()}_{k}")
    os.makedirs(tmpdir, exist_ok=True)
    tmp = os.path.join(tmpdir, os.path.basename(f)[:-2] + ".vo")
    cmd = ["timeout", str(timeout), "coqc", "-Q", ".", "LV", "-w", "-notation-overridden", f, "-o", tmp]
    p = subprocess.run(cmd, cwd=COQ, stdout=subprocess.PIPE, stderr=subprocess.STDOUT, text=True)
    shutil.rmtree(tmpdir, ignore_errors=True)
    src = open(os.path.join(COQ, f)).read()
    names = re.findall(r"^\s*(?:Theorem|Lemma|Corollary)\s+(\w+)", src, re.M)
    printed = re.findall(r"Print Assumptions\s+(\w+)", src)
    blocks = split_assumptions(p.stdout)
    return dict(file=f, ok=p.returncode == 0, log=p.stdout[-4000:], theorems=names, printed=printed, assumptions=blocks)
  with ThreadPoolExecutor(max_workers=max(1, min(jobs, len(prop_files) or 1))) as ex:
    return list(ex.map(one, enumerate(prop_files)))


def split_assumptions(log):
  """Parse coqc output of Print Assumptions into a list of axiom-name lists (one per Print)."""
  blocks, cur = [], None
  for line in log.splitlines():
    if line.startswith("Closed under the global context"):
      if cur is not None:
        blocks.append(cur)
        cur = None
      blocks.append([])
    elif line.startswith("Axioms:"):
      if cur is not None:
        blocks.append(cur)
      cur = []
    elif cur is not None:
      m = re.match(r"^([A-Za-z_][\w.']*)\s*(:|$)", line)
      if m and not line.startswith(" "):
        cur.append(m.group(1))
  if cur is not None:
    blocks.append(cur)
  return blocks


def coqchk(prop_files, timeout=2400):
  """Independent re-check of the compiled property files and everything they depend on (thorough tier).
  Returns (ok, axioms, summary)."""
  mods = ["LV." + f[:-2].replace("/", ".") for f in prop_files]
  p = subprocess.run(["timeout", str(timeout), "coqchk", "-silent", "-o", "-Q", ".", "LV"] + mods, cwd=COQ, stdout=subprocess.PIPE, stderr=subprocess.STDOUT, text=True)
  out = p.stdout
  axioms, sect = [], None
  flags = {}
  for line in out.splitlines():
    m = re.match(r"\* (.*?):\s*(.*)$", line.strip())
    if m:
      sect = m.group(1)
      if m.group(2):
        flags[sect] = m.group(2)
      continue
    if sect == "Axioms" and line.strip():
      axioms.append(line.strip())
  clean = all("<none>" in flags.get(k, "") for k in flags if k.startswith("Constants/Inductives relying") or k.startswith("Inductives whose positivity"))
  return p.returncode == 0 and clean, axioms, out[-1500:]


STDLIB_AXIOMS = {
  "ClassicalDedekindReals.sig_not_dec", "ClassicalDedekindReals.sig_forall_dec",
  "FunctionalExtensionality.functional_extensionality_dep", "Classical_Prop.classic",
  "functional_extensionality_dep", "classic", "sig_not_dec", "sig_forall_dec",
  "Eqdep.Eq_rect_eq.eq_rect_eq", "JMeq.JMeq_eq", "ProofIrrelevance.proof_irrelevance",
  "ClassicalEpsilon.constructive_indefinite_description", "PropExtensionality.propositional_extensionality",
  "constructive_indefinite_description", "proof_irrelevance", "propositional_extensionality",
}


def strip_comments(text):
  """Remove (possibly nested, multi-line) Coq comments, keeping line structure."""
  out, depth, i, n = [], 0, 0, len(text)
  while i < n:
    if text.startswith("(*", i):
      depth += 1
      i += 2
    elif depth and text.startswith("*)", i):
      depth -= 1
      i += 2
    else:
      if depth == 0 or text[i] == "\n":
        out.append(text[i])
      i += 1
  return "".join(out)


def forbidden_scan():
  """grep the development (not the generated Cases) for escape hatches.  Returns list of 'file:line: text'."""
  hits = []
  for d in ("Lib", "Model", "Gen", "Proofs", "Props"):
    for root, _, names in os.walk(os.path.join(COQ, d)):
      for n in names:
        if n.endswith(".v"):
          p = os.path.join(root, n)
          for i, line in enumerate(strip_comments(open(p).read()).splitlines(), 1):
            if FORBIDDEN.search(line):
              hits.append(f"{os.path.relpath(p, COQ)}:{i}: {line.strip()[:120]}")
            m = re.match(r"\s*(Variable|Variables|Hypothesis|Hypotheses|Context)\b", line)
            if m and not _in_section(p, i):
              hits.append(f"{os.path.relpath(p, COQ)}:{i}: {m.group(1)} outside a Section")
  return hits


def _in_section(path, lineno):
  depth = 0
  for i, line in enumerate(strip_comments(open(path).read()).splitlines(), 1):
    if i >= lineno:
      break
    if re.match(r"\s*Section\s+\w+", line):
      depth += 1
    elif re.match(r"\s*End\s+\w+\s*\.", line) and depth:
      depth -= 1
  return depth > 0


# ------------------------------------------------------------------------------------------ case files


def qlit(x):
  """Exact Coq Q literal of a Python int/float/Fraction."""
  if isinstance(x, bool):
    raise TypeError("bool is not a number here")
  if isinstance(x, float):
    if x != x or x in (float("inf"), float("-inf")):
      raise ValueError("non-finite float in a Q literal")
    x = fractions.Fraction(x)
  x = fractions.Fraction(x)
  n, d = x.numerator, x.denominator
  return f"({n}#{d})" if n >= 0 else f"((-{-n})#{d})"


def zlit(n):
  n = int(n)
  return f"{n}" if n >= 0 else f"(-{-n})"


def nlit(n):
  return f"{int(n)}%nat"


def blit(b):
  return "true" if b else "false"


def listlit(xs, f=str):
  return "[" + "; ".join(f(x) for x in xs) + "]"


def optlit(x, f=str):
  return "None" if x is None else f"(Some {f(x)})"


def ensure_header_built(header):
  """The modules a case file imports (Model/*Corr.vo and what they need) are not in the cone of any Props target: build them (full
  .vo, under the build lock) before the case files are compiled, so that an edited model never meets a stale Corr object file."""
  mods = set()
  for m in re.finditer(r"From\s+LV\s+Require\s+(?:Import\s+|Export\s+)?([^.]*(?:\.[A-Za-z_][^.]*)*)\.(?:\s|$)", header):
    for w in m.group(1).split():
      if re.fullmatch(r"[A-Za-z_][\w]*(\.[A-Za-z_][\w]*)+", w):
        mods.add(w)
  targets = [m.replace(".", "/") + ".vo" for m in sorted(mods) if os.path.exists(os.path.join(COQ, m.replace(".", "/") + ".v"))]
  if targets:
    ok, log = coq_make(targets)
    if not ok:
      raise TieBroken(f"the model files imported by the case files do not build: {log[-1500:]}")


def run_cases(name, header, case_type, check_fn, cases, shard=250, timeout=900, jobs=16):
  """Evaluate `check_fn : case_type -> bool` on every case (Coq terms, strings) inside Coq with vm_compute.
  Returns the indices of the cases on which it is false."""
  os.makedirs(os.path.join(COQ, "Cases"), exist_ok=True)
  ensure_header_built(header)
  shards = [cases[i:i + shard] for i in range(0, len(cases), shard)]
  procs = []
  tag = f"{name}_{os.getpid()}"
  for k, sh in enumerate(shards):
    path = os.path.join(COQ, "Cases", f"{tag}_{k}.v")
    body = [header, "Import ListNotations.", f"Definition cases : list ({case_type}) := ["]
    body.append(";\n".join("  " + c for c in sh))
    body.append("].")
    body.append("Fixpoint bad_ix {A} (f : A -> bool) (l : list A) (i : nat) : list nat := "
                "match l with [] => [] | x :: r => if f x then bad_ix f r (S i) else i :: bad_ix f r (S i) end.")
    body.append(f"Definition bad := Eval vm_compute in bad_ix ({check_fn}) cases 0.")
    body.append('Goal True. idtac "BADBEGIN". let b := eval cbv delta [bad] in bad in idtac b. idtac "BADEND". exact I. Qed.')
    open(path, "w").write("\n".join(body) + "\n")
    procs.append((k, path))
  results, running = {}, []
  def launch(k, path):
    cmd = ["timeout", str(timeout), "coqc", "-Q", ".", "LV", "-w", "-notation-overridden", os.path.relpath(path, COQ)]
    return k, path, subprocess.Popen(cmd, cwd=COQ, stdout=subprocess.PIPE, stderr=subprocess.STDOUT, text=True)
  pending = list(procs)
  while pending or running:
    while pending and len(running) < jobs:
      running.append(launch(*pending.pop(0)))
    k, path, p = running.pop(0)
    out, _ = p.communicate()
    results[k] = (p.returncode, out)
    for ext in (".v", ".vo", ".glob", ".vok", ".vos"):
      try:
        os.remove(path[:-2] + ext)
      except OSError:
        pass
    try:
      os.remove(os.path.join(os.path.dirname(path), "." + os.path.basename(path)[:-2] + ".aux"))
    except OSError:
      pass
  bad = []
  for k in range(len(shards)):
    rc, out = results[k]
    m = re.search(r"BADBEGIN\s*(.*?)\s*BADEND", out, re.S)
    if rc != 0 or not m:
      raise TieBroken(f"case file {name} shard {k} did not evaluate (rc={rc}): {out[-1500:]}")
    txt = re.sub(r"\s+", " ", m.group(1)).strip()
    ids = [int(t) for t in re.findall(r"\d+", txt.replace("%nat", ""))]
    bad.extend(k * shard + i for i in ids)
  return bad


def coq_eval(name, header, exprs, timeout=600):
  """Evaluate a list of closed Coq expressions with vm_compute and return their printed normal forms (strings)."""
  os.makedirs(os.path.join(COQ, "Cases"), exist_ok=True)
  ensure_header_built(header)
  path = os.path.join(COQ, "Cases", f"{name}_{os.getpid()}.v")
  body = [header, "Import ListNotations."]
  for i, e in enumerate(exprs):
    body.append(f'Definition e{i} := Eval vm_compute in ({e}).')
    body.append(f'Goal True. idtac "EVB{i}"; let b := eval cbv delta [e{i}] in e{i} in idtac b; idtac "EVE{i}". exact I. Qed.')
  open(path, "w").write("\n".join(body) + "\n")
  cmd = ["timeout", str(timeout), "coqc", "-Q", ".", "LV", "-w", "-notation-overridden", os.path.relpath(path, COQ)]
  p = subprocess.run(cmd, cwd=COQ, stdout=subprocess.PIPE, stderr=subprocess.STDOUT, text=True)
  for ext in (".v", ".vo", ".glob", ".vok", ".vos"):
    try:
      os.remove(path[:-2] + ext)
    except OSError:
      pass
  try:
    os.remove(os.path.join(os.path.dirname(path), "." + os.path.basename(path)[:-2] + ".aux"))
  except OSError:
    pass
  if p.returncode != 0:
    raise TieBroken(f"coq_eval {name} failed: {p.stdout[-1500:]}")
  res = []
  for i in range(len(exprs)):
    m = re.search(rf"EVB{i}\s*(.*?)\s*EVE{i}", p.stdout, re.S)
    res.append(re.sub(r"\s+", " ", m.group(1)).strip() if m else None)
  return res


# ------------------------------------------------------------------------------------------ results


def canon_hash(obj):
  return hashlib.sha1(json.dumps(obj, sort_keys=True, default=str).encode()).hexdigest()


def jsonable(x):
  import numpy
  if isinstance(x, dict):
    return {str(k): jsonable(v) for k, v in x.items()}
  if isinstance(x, (list, tuple)):
    return [jsonable(v) for v in x]
  if isinstance(x, numpy.ndarray):
    return jsonable(x.tolist())
  if isinstance(x, (numpy.integer,)):
    return int(x)
  if isinstance(x, (numpy.floating,)):
    return float(x)
  if isinstance(x, (numpy.bool_,)):
    return bool(x)
  if isinstance(x, fractions.Fraction):
    return f"{x.numerator}/{x.denominator}"
  if isinstance(x, float) and (x != x or x in (float("inf"), float("-inf"))):
    return repr(x)
  return x


def write_replay(prop, payload):
  d = os.path.join(VERIF, "replays")
  os.makedirs(d, exist_ok=True)
  k = 0
  while os.path.exists(os.path.join(d, f"{prop}-{k}.json")):
    k += 1
  path = os.path.join(d, f"{prop}-{k}.json")
  payload = dict(payload)
  payload.setdefault("property", prop)
  payload.setdefault("replay_cmd", f"./check {prop} --replay replays/{prop}-{k}.json")
  json.dump(jsonable(payload), open(path, "w"), indent=1, default=str)
  return path


def load_findings():
  p = os.path.join(VERIF, "KNOWN_FINDINGS.json")
  if not os.path.exists(p):
    return []
  return json.load(open(p)).get("findings", [])


def match_finding(prop, failure):
  """A failure (dict with 'signature': str and free fields) is a known finding iff an entry with status 'known' for
  this property lists exactly that signature.  'fixed' entries never match."""
  for f in load_findings():
    if f.get("property") == prop and f.get("status") == "known" and f.get("signature") == failure.get("signature"):
      return f
  return None


def write_evidence(ctx, coverage, assumptions, violations, level="proof"):
  path = os.path.join(VERIF, "evidence", f"{ctx.prop}.json")
  os.makedirs(os.path.dirname(path), exist_ok=True)
  ev = dict(
    property_id=ctx.prop, tier=ctx.tier, seed=int(ctx.seed), level=level, coverage=jsonable(coverage),
    assumptions=assumptions, wall_s=round(time.time() - ctx.t0, 2), violations=int(violations),
  )
  json.dump(ev, open(path, "w"), indent=1, default=str)
  return path
