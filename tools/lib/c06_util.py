"""Harness helpers of property C06 (owned by tools/props/C06.py).

Three independent parts:
  (1) gen_request      structured generator of raw EI-endpoint requests (plain JSON-able dicts, the replay format);
  (2) observe          builds GpEiCategoricalView(params) from a raw request, spies on the evaluator the endpoint really
                       used (AcquisitionFunction.evaluate_at_point_list is wrapped inside the harness process only), calls
                       view() and reads the constructed objects back (introspection);
  (3) ref_pipeline     a fully independent end-to-end reference of the documented pipeline (own scaling, own encoding, own
                       kernel closed form, numpy.linalg.solve posterior, own EI with math.erf); imports nothing from libsigopt.
"""
import math

import numpy

LIE_NOISE = 1e-12
AEI_THRESHOLD = 1e-7

# ====================================================================================================== (1) generator


def _dy(rng, lo, hi, den):
  """a dyadic rational k/den inside [lo, hi]"""
  return rng.randint(int(math.ceil(lo * den)), int(math.floor(hi * den))) / den


def gen_component(rng):
  t = rng.choice(["double", "double", "int", "cat", "cat", "grid"])
  if t == "double":
    lo = rng.choice([-2.0, 0.0, 1.5, -10.0])
    return dict(t="double", lo=lo, hi=lo + rng.choice([1.0, 2.5, 8.0]))
  if t == "int":
    lo = rng.randint(-5, 3)
    return dict(t="int", lo=lo, hi=lo + rng.randint(2, 8))
  if t == "cat":
    k = rng.randint(2, 4)
    return dict(t="cat", el=rng.sample([0, 1, 2, 3, 5, 7, 9], k))
  k = rng.randint(2, 4)
  return dict(t="grid", el=sorted(rng.sample([-1.5, -0.25, 0.0, 0.5, 1.25, 2.0, 3.5], k)))


def gen_coord(rng, c):
  if c["t"] == "double":
    return _dy(rng, c["lo"], c["hi"], rng.choice([4, 16, 64]))
  if c["t"] == "int":
    return float(rng.randint(c["lo"], c["hi"]))
  return float(rng.choice(c["el"]))


def gen_points(rng, comps, k, avoid=()):
  out, seen = [], {tuple(p) for p in avoid}
  tries = 0
  while len(out) < k:
    p = [gen_coord(rng, c) for c in comps]
    tries += 1
    if tuple(p) in seen and tries < 200:
      continue
    seen.add(tuple(p))
    out.append(p)
  return out


def gen_hyper(rng, comps, has_tasks):
  ls = []
  for c in comps:
    if c["t"] == "cat":
      if rng.random() < 0.2:
        ls.append([None] * len(c["el"]))
      else:
        ls.append([round(rng.uniform(0.5, 2.0), 3) for _ in c["el"]])
    else:
      width = (c["hi"] - c["lo"]) if c["t"] in ("double", "int") else (c["el"][-1] - c["el"][0])
      ls.append([round(rng.uniform(0.25, 1.5) * width, 3)])
  return dict(alpha=round(rng.uniform(0.05, 2.0), 4), ls=ls, task_len=round(rng.uniform(0.3, 1.2), 3) if has_tasks else None,
              tik=rng.choice([round(rng.uniform(1e-3, 0.1), 5)] * 6 + [0.0]) if rng.random() < 0.35 else None)   # a supplied nugget may be exactly 0


PHASE_TARGETS = ["init", "opt1", "random", "seq", "polish", "eps", "eps", "eps", "completion"]
_FRAC = dict(init=0.12, opt1=0.25, random=0.4, seq=0.5, polish=0.6, eps=0.8, completion=1.2)


def gen_request(rng, wide=False):
  """A structured raw request.  wide=True (searcher): real-valued data of several magnitudes; otherwise dyadic values."""
  comps = [gen_component(rng) for _ in range(rng.randint(1, 3))]
  kind = rng.choice(["single", "single", "single", "pareto", "pareto", "multi_nopareto"])
  n_opt = dict(single=1, pareto=2, multi_nopareto=rng.choice([2, 3]))[kind]
  n_con = rng.choice([0, 0, 0, 1, 1, 2])
  n_sto = rng.choice([0, 0, 1, 2])
  m = n_opt + n_con + n_sto
  layout = list(range(m))
  rng.shuffle(layout)
  opt_ix, con_ix = layout[:n_opt], layout[n_opt:n_opt + n_con]
  pareto = kind == "pareto"
  n = rng.randint(6, 9) if pareto else rng.randint(2, 8)
  has_tasks = rng.random() < (0.15 if pareto else 0.35)
  tasks = sorted(rng.sample([0.1, 0.25, 0.5, 0.75, 1.0], rng.randint(2, 3))) if has_tasks else []
  points = gen_points(rng, comps, n)
  if wide:
    mag = 10.0 ** rng.randint(-3, 4)
    off = rng.choice([0.0, 0.0, 17.25, -1234.5]) * mag
    values = [[round(rng.gauss(0, 1), rng.choice([1, 3, 6])) * mag + off for _ in range(m)] for _ in range(n)]
  else:
    off = rng.choice([0.0, 0.0, 3.0, -100.0])
    values = [[rng.randint(-32, 32) / 8.0 + off for _ in range(m)] for _ in range(n)]
  # ties / a constant column now and then
  if rng.random() < 0.25:
    c = rng.randrange(m)
    for _ in range(rng.randint(1, 2)):
      values[rng.randrange(n)][c] = values[rng.randrange(n)][c]
  if rng.random() < 0.06 and not pareto:
    c = rng.randrange(m)
    v0 = values[0][c]
    for r in range(n):
      values[r][c] = v0
  noise_mode = rng.choice(["tiny", "tiny", "mixed", "large", "zero"])
  def var():
    if noise_mode == "zero":
      return 0.0
    if noise_mode == "tiny":
      return rng.choice([0.0, 1e-12, 1e-9])
    if noise_mode == "large":
      return rng.choice([0.25, 0.5, 1.0, 4.0])
    return rng.choice([0.0, 1e-6, 1e-3, 0.5])
  scale2 = (mag * mag) if wide else 1.0
  vars_ = [[var() * scale2 for _ in range(m)] for _ in range(n)]
  pfail = rng.choice([0.0, 0.0, 0.2, 0.5])
  fails = [rng.random() < pfail for _ in range(n)]
  if rng.random() < 0.03 and not pareto:
    fails = [True] * n
  if pareto and all(fails):
    fails[rng.randrange(n)] = False
  objs = [rng.choice(["maximize", "minimize"]) for _ in range(m)]
  thr = [None] * m
  lo, hi = min(min(r) for r in values), max(max(r) for r in values)
  def a_thr():
    return lo + (hi - lo) * rng.choice([0.1, 0.3, 0.5, 0.7, 0.9, 1.3])
  for c in con_ix:
    thr[c] = a_thr()
  if pareto and rng.random() < 0.35:
    for c in opt_ix:
      thr[c] = a_thr()
  elif pareto and rng.random() < 0.15:
    thr[opt_ix[rng.randrange(2)]] = a_thr()
  for c in layout[n_opt + n_con:]:
    if rng.random() < 0.3:
      thr[c] = a_thr()
  hypers = [gen_hyper(rng, comps, has_tasks) for _ in range(m)]
  n_pend = rng.choice([0, 0, 1, 1, 2])
  pending = gen_points(rng, comps, n_pend, avoid=points)
  n_eval = rng.randint(1, 4)
  evalp = gen_points(rng, comps, n_eval, avoid=points + pending)
  if rng.random() < 0.15:
    evalp[0] = list(points[rng.randrange(n)])
  par = rng.choice(["constant_liar", "constant_liar", "qei"])
  has_cat = any(c["t"] == "cat" for c in comps)
  dimt = sum(len(c["el"]) if c["t"] == "cat" else 1 for c in comps) + (1 if has_tasks else 0)
  mean, poly = rng.choice(["constant", "constant", "constant", "zero"]), None
  if not has_cat and n >= dimt + 4 and not pareto and rng.random() < 0.4:
    mean = rng.choice(["linear", "custom"])
    if mean == "custom":
      poly = [[0] * dimt, [1] + [0] * (dimt - 1)]
  target = rng.choice(PHASE_TARGETS) if pareto else None
  budget = 50
  if pareto:
    nf = sum(fails)
    budget = max(1, int(round((n + n_pend) / _FRAC[target]))) + nf
  return dict(
    comps=comps, points=points, values=values, vars=vars_, fails=fails,
    costs=[rng.choice(tasks) for _ in range(n)] if has_tasks else None,
    objs=objs, opt_ix=opt_ix, con_ix=con_ix, thr=thr, pareto=pareto, budget=budget, hypers=hypers,
    pending=pending, pending_costs=[rng.choice(tasks) for _ in range(n_pend)] if has_tasks else None,
    evalp=evalp, eval_costs=[rng.choice(tasks) for _ in range(n_eval)] if has_tasks else None,
    par=par, tasks=tasks, mean=mean, poly=poly, max_af=rng.choice([0, 1, 2, 3, 5432]), seed=rng.randrange(1 << 30),
  )


def gen_malformed(rng):
  """Requests on which the endpoint must raise (error branches of the reference)."""
  raw = gen_request(rng)
  kind = rng.choice(["no_opt", "bad_category", "hyper_len", "missing_con_threshold", "bad_alpha"])
  if kind == "no_opt":
    raw["con_ix"] = raw["con_ix"] or [raw["opt_ix"][0]]
    for c in raw["con_ix"]:
      raw["thr"][c] = 0.5
    raw["opt_ix"], raw["pareto"] = [], False
  elif kind == "bad_category":
    raw["comps"][0] = dict(t="cat", el=[1, 4, 6])
    for p in raw["points"] + raw["pending"] + raw["evalp"]:
      p[0] = float(rng.choice([1, 4, 6]))
    raw["evalp"][-1][0] = 5.0
    for h in raw["hypers"]:
      h["ls"][0] = [1.0, 1.5, 0.75]
  elif kind == "hyper_len":
    c = raw["opt_ix"][0]
    raw["hypers"][c]["ls"][0] = raw["hypers"][c]["ls"][0] + [1.0]
    if raw["pareto"]:
      raw["hypers"][raw["opt_ix"][1]]["ls"][0] = raw["hypers"][raw["opt_ix"][1]]["ls"][0] + [1.0]
  elif kind == "missing_con_threshold":
    if not raw["con_ix"]:
      free = [c for c in range(len(raw["objs"])) if c not in raw["opt_ix"]]
      if not free:
        return gen_malformed(rng)
      raw["con_ix"] = [free[0]]
    raw["thr"][raw["con_ix"][0]] = None
  else:
    for c in raw["opt_ix"]:
      raw["hypers"][c]["alpha"] = 0.0
  raw["malformed"] = kind
  return raw


# ====================================================================================================== (2) implementation


def build_params(raw):
  from libsigopt.aux.adapter_info_containers import DomainInfo, GPModelInfo, MetricsInfo, PointsContainer
  names = dict(double="double", int="int", cat="categorical", grid="quantized")
  comps = []
  for c in raw["comps"]:
    el = [c["lo"], c["hi"]] if c["t"] in ("double", "int") else list(c["el"])
    comps.append(dict(var_type=names[c["t"]], elements=el))
  has_tasks = len(raw["tasks"]) > 0
  arr = lambda x: numpy.array(x, dtype=float)
  def pts(p):
    return arr(p).reshape(len(p), len(raw["comps"]))
  m = len(raw["objs"])
  hyp = [dict(alpha=h["alpha"], length_scales=[list(l) for l in h["ls"]], tikhonov=h["tik"], task_length=h["task_len"]) for h in raw["hypers"]]
  return dict(
    domain_info=DomainInfo(constraint_list=[], domain_components=comps),
    model_info=GPModelInfo(hyperparameters=hyp, max_simultaneous_af_points=raw["max_af"],
                           nonzero_mean_info=dict(mean_type=raw["mean"], poly_indices=raw["poly"])),
    parallelism=raw["par"],
    points_being_sampled=PointsContainer(points=pts(raw["pending"]), task_costs=arr(raw["pending_costs"]) if has_tasks else None),
    points_sampled=PointsContainer(points=pts(raw["points"]), values=arr(raw["values"]).reshape(len(raw["points"]), m),
                                   value_vars=arr(raw["vars"]).reshape(len(raw["points"]), m),
                                   failures=numpy.array(raw["fails"], dtype=bool), task_costs=arr(raw["costs"]) if has_tasks else None),
    points_to_evaluate=PointsContainer(points=pts(raw["evalp"]), task_costs=arr(raw["eval_costs"]) if has_tasks else None),
    tag=dict(experiment_id=-1),
    metrics_info=MetricsInfo(requires_pareto_frontier_optimization=raw["pareto"], observation_budget=raw["budget"],
                             user_specified_thresholds=list(raw["thr"]), objectives=list(raw["objs"]),
                             optimized_metrics_index=list(raw["opt_ix"]), constraint_metrics_index=list(raw["con_ix"])),
    task_options=list(raw["tasks"]),
  )


def _seed(s):
  import random
  random.seed(s)
  numpy.random.seed(s % (1 << 32))


def _info_of(view):
  mi = view.multimetric_info
  if mi.method is None:
    return dict(method=None)
  p = mi.params
  if mi.method == "convex_combination":
    return dict(method=mi.method, weights=[float(w) for w in p.weights])
  d = dict(method=mi.method, om=int(p.optimizing_metric), cm=int(p.constraint_metric))
  if mi.method == "epsilon_constraint":
    d["eps"] = float(p.epsilon)
  return d


def _fl(a):
  return [float(x) for x in numpy.asarray(a, dtype=float).ravel()]


def _rows(a, width=None):
  a = numpy.asarray(a, dtype=float)
  if a.ndim != 2:
    a = a.reshape(0, width or 0)
  return [[float(x) for x in r] for r in a]


def _gp_obs(gp):
  cov = gp.covariance
  multitask = type(cov).__name__ == "MultitaskTensorCovariance"
  kern = [cov.physical_covariance.covariance_type, cov.task_covariance.covariance_type] if multitask else [cov.covariance_type]
  mp = numpy.asarray(gp.mean_poly_indices)
  return dict(pts=_rows(gp.points_sampled, gp.dim), vals=_fl(gp.points_sampled_value), noise=_fl(gp.points_sampled_noise_variance),
              hyp=_fl(cov.hyperparameters), multitask=multitask, kernel=kern,
              tik=None if gp.tikhonov_param is None else float(gp.tikhonov_param),
              mean=[[int(x) for x in r] for r in mp.reshape(-1, gp.dim)] if mp.size else [])


def observe(raw):
  """Run the endpoint on the raw request; returns dict(raised=..) or the observed description of what view() really built."""
  import warnings
  warnings.filterwarnings("ignore", module="qmcpy")
  from libsigopt.compute import acquisition_function as afm
  from libsigopt.views.rest.gp_ei_categorical import GpEiCategoricalView
  calls = []
  orig = afm.AcquisitionFunction.evaluate_at_point_list
  def spy(self, points_to_evaluate, batch_size=None):
    res = orig(self, points_to_evaluate, batch_size=batch_size)
    calls.append((self, numpy.array(points_to_evaluate, dtype=float, copy=True), batch_size, numpy.array(res, dtype=float, copy=True)))
    return res
  afm.AcquisitionFunction.evaluate_at_point_list = spy
  try:
    try:
      _seed(raw["seed"])
      view = GpEiCategoricalView(build_params(raw))
      info = _info_of(view)
      _seed(raw["seed"] + 1)
      resp = view.view()
    except Exception as e:  # noqa: BLE001  (error class is the observable)
      return dict(raised=type(e).__name__, message=str(e)[:200])
  finally:
    afm.AcquisitionFunction.evaluate_at_point_list = orig
  out = dict(raised=None, info=info, response=[float(x) for x in resp["expected_improvement"]], endpoint=resp.get("endpoint"))
  top = [c for c in calls if type(c[0]).__name__ == "MultitaskAcquisitionFunction"] or calls
  if len(top) != 1 and not (len(calls) >= 1 and len(top) >= 1):
    out["spy_calls"] = len(calls)
    return out
  ev, pts, batch, res = top[0]
  out["spy_calls"] = len(calls)
  out["wrapped"] = type(ev).__name__ == "MultitaskAcquisitionFunction"
  under = ev.underlying if out["wrapped"] else ev
  out["af"] = type(under).__name__
  out["eval_pts"] = _rows(pts, under.dim)
  out["batch"] = None if batch is None else int(batch)
  out["returned"] = _fl(res)
  out["best"] = None if under.best_value is None else float(under.best_value)
  pred = under.predictor
  if type(pred).__name__ == "GaussianProcessSum":
    out["pred"] = dict(kind="sum", gps=[_gp_obs(g) for g in pred.gaussian_process_list], weights=_fl(pred.weights))
  else:
    out["pred"] = dict(kind="single", gps=[_gp_obs(pred)], weights=[])
  out["pred_noise"] = _fl(pred.points_sampled_noise_variance)
  fm = getattr(under, "failure_model", None)
  out["pfs"] = [] if fm is None else [dict(kind=type(p).__name__, thr=float(p.threshold), gp=_gp_obs(p.predictor)) for p in fm.list_of_probabilistic_failures]
  pb = getattr(under, "points_being_sampled", None)
  out["qei_pending"] = None if pb is None else _rows(pb, under.dim)
  # re-evaluation: the response must be the introspected evaluator applied to the recorded points with the recorded batch
  _seed(raw["seed"] + 1)
  again = orig(ev, pts, batch_size=batch)
  out["reeval_equal"] = bool(len(again) == len(out["response"]) and all(float(a) == b for a, b in zip(again, out["response"])))
  _seed(raw["seed"] + 1)
  out["raw_af"] = _fl(orig(under, pts, batch_size=batch))
  return out


# ====================================================================================================== (3) reference


def _phi(z):
  return 0.5 * math.erfc(-z / math.sqrt(2.0))      # erfc: accurate in the lower tail too (1 + erf cancels below z ~ -6)


def _pdf(z):
  return math.exp(-0.5 * z * z) / math.sqrt(2.0 * math.pi)


_Q75 = 0.6744897501960817  # the 0.75 quantile of the standard normal


def _c4(r):
  return (1.0 + r + r * r / 3.0) * math.exp(-r)


def _se(r):
  return math.exp(-0.5 * r * r)


def r_midpoint(vals, fails, objective):
  nf = [v for v, f in zip(vals, fails) if not f]
  sign = 1.0 if objective == "minimize" else -1.0
  if not nf:
    return dict(skip=True, sign=sign, mid=0.0, scale=1.0, worst=-0.0123456789)
  lo, hi = min(nf), max(nf)
  mid = (hi + lo) * 0.5
  if (hi - lo) * 0.5 < 1e-8:
    if min(abs(hi), abs(lo)) > 1:
      scale, mid = 1.0 / max(abs(lo), abs(hi)), lo
    else:
      scale, mid = 1.0, 0.0
  else:
    scale = 0.2 / (hi - lo)
  return dict(skip=False, sign=sign, mid=mid, scale=scale, worst=hi if objective == "minimize" else lo)


def r_scale(m, v):
  return m["sign"] * v if m["skip"] else m["sign"] * m["scale"] * (v - m["mid"])


def r_scale_var(m, w):
  return max(w, 1e-6) if m["skip"] else max(w * m["scale"] ** 2, 1e-10)


def r_one_hot(comps, p, cost):
  out = []
  for x, c in zip(p, comps):
    if c["t"] == "cat":
      if x not in c["el"]:
        raise ValueError("category not in the domain")
      out += [1.0 if x == e else 0.0 for e in c["el"]]
    else:
      out.append(float(x))
  return out + ([float(cost)] if cost is not None else [])


def r_length_scales(comps, ls):
  out = []
  for l, c in zip(ls, comps):
    out += [1.0] * len(c["el"]) if any(x is None for x in l) else [float(x) for x in l]
  return out


def r_poly_rows(mean, poly, dim):
  if mean == "constant":
    return [[0] * dim]
  if mean == "linear":
    return [[0] * dim] + [[1 if j == k else 0 for j in range(dim)] for k in range(dim)]
  return [list(r) for r in (poly or [])]


class RefGP:
  def __init__(self, X, y, noise, hp, comps, has_task, mean_rows):
    self.X = [list(x) for x in X]
    self.y = numpy.array(y, dtype=float)
    self.noise = list(noise)
    self.alpha, self.ls, self.tl = float(hp["alpha"]), r_length_scales(comps, hp["ls"]), hp["task_len"]
    self.has_task, self.rows = has_task, mean_rows
    n = len(self.X)
    K = numpy.array([[self.k(a, b) for b in self.X] for a in self.X])
    K = K + numpy.diag([hp["tik"]] * n if hp["tik"] is not None else list(noise))
    self.K = K
    self.cond = float(numpy.linalg.cond(K))
    if mean_rows:
      P = numpy.array([self.p(x) for x in self.X])
      q = P.shape[1]
      big = numpy.block([[K, P], [P.T, numpy.zeros((q, q))]])
      sol = numpy.linalg.solve(big, numpy.concatenate([self.y, numpy.zeros(q)]))
      self.a, self.b = sol[:n], sol[n:]
      self.cond = max(self.cond, float(numpy.linalg.cond(P.T @ numpy.linalg.solve(K, P))))
    else:
      self.a, self.b = numpy.linalg.solve(K, self.y), numpy.zeros(0)

  def p(self, x):
    return [math.prod(xi ** e for xi, e in zip(x, row)) for row in self.rows]

  def k(self, a, b):
    if self.has_task:
      r = math.sqrt(sum(((u - v) / l) ** 2 for u, v, l in zip(a[:-1], b[:-1], self.ls)))
      return self.alpha * _c4(r) * _se(abs(a[-1] - b[-1]) / self.tl)
    r = math.sqrt(sum(((u - v) / l) ** 2 for u, v, l in zip(a, b, self.ls)))
    return self.alpha * _c4(r)

  def kvec(self, q):
    return numpy.array([self.k(q, x) for x in self.X])

  def predict(self, q):
    ks = self.kvec(q)
    m = float(ks @ self.a) + (float(numpy.dot(self.p(q), self.b)) if self.rows else 0.0)
    v = self.k(q, q) - float(ks @ numpy.linalg.solve(self.K, ks))
    return m, max(v, 1e-100)

  def cov(self, Q):
    Kq = numpy.array([[self.k(a, b) for b in Q] for a in Q])
    Ks = numpy.array([self.kvec(q) for q in Q])
    return Kq - Ks @ numpy.linalg.solve(self.K, Ks.T)


def _pareto_min(rows):
  """brute-force Pareto frontier (minimisation), sorted by the first metric"""
  keep = [r for r in rows if not any(all(s[i] <= r[i] for i in range(2)) and any(s[i] < r[i] for i in range(2)) for s in rows)]
  return sorted(keep, key=lambda r: r[0])


def r_eps_no_bounds(eps, cm, Y):
  b0 = min(range(len(Y)), key=lambda i: (Y[i][0], i))
  b1 = min(range(len(Y)), key=lambda i: (Y[i][1], i))
  lo, hi = min(Y[b0][cm], Y[b1][cm]), max(Y[b0][cm], Y[b1][cm])
  return (1 - eps) * lo + eps * hi, (lo, hi)


def r_eps_threshold(eps, cm, Y, t):
  """epsilon threshold on all rows with both user thresholds (scaled) present"""
  inb = [r for r in Y if r[0] < t[0] and r[1] < t[1]]
  front = _pareto_min(Y)
  if len(inb) < 1 or len(front) < 2:
    return r_eps_no_bounds(eps, cm, Y)[0]
  lo = front[0][cm] if cm == 0 else front[-1][cm]
  hi = front[0][cm] if cm == 1 else front[-1][cm]
  out0 = [r for r in front if r[0] > t[0]]
  if out0:
    if cm == 0:
      hi = out0[0][cm]
    else:
      lo = out0[0][cm]
  out1 = [r for r in front if r[1] > t[1]]
  if out1:
    if cm == 0:
      lo = out1[-1][cm]
    else:
      hi = out1[-1][cm]
  return (1 - eps) * lo + eps * hi


class Skip(Exception):
  """the request sits on a decision boundary of the pipeline (float rounding decides): not a test of the property"""


def ref_pipeline(raw, info, mc_rng=None):
  """Independent end-to-end reference.  Returns dict(ei=[..], sigma=[..], cond=.., kind=.., mc_se=[..]|None)."""
  comps, fails = raw["comps"], list(raw["fails"])
  n = len(raw["points"])
  has_task = len(raw["tasks"]) > 0
  if not raw["opt_ix"]:
    raise ValueError("no optimized metrics")
  V = raw["values"]
  W = raw["vars"]
  dimt = sum(len(c["el"]) if c["t"] == "cat" else 1 for c in comps) + (1 if has_task else 0)
  mean_rows = r_poly_rows(raw["mean"], raw["poly"], dimt)
  X = [r_one_hot(comps, p, raw["costs"][i] if has_task else None) for i, p in enumerate(raw["points"])]
  XP = [r_one_hot(comps, p, raw["pending_costs"][i] if has_task else None) for i, p in enumerate(raw["pending"])]
  XQ = [r_one_hot(comps, p, raw["eval_costs"][i] if has_task else None) for i, p in enumerate(raw["evalp"])]
  liar = raw["par"] == "constant_liar"
  use_q = (not liar) and len(XP) > 0

  def column(c):
    m = r_midpoint([V[r][c] for r in range(n)], fails, raw["objs"][c])
    lie = r_scale(m, m["worst"])
    y = [lie if fails[r] else r_scale(m, V[r][c]) for r in range(n)]
    nv = [r_scale_var(m, W[r][c]) for r in range(n)]
    return m, lie, y, nv

  def build(c, rows, y, nv, lie):
    Xr, yy, nn = [X[r] for r in rows], list(y), list(nv)
    if liar:
      for x in XP:
        Xr.append(x)
        yy.append(lie)
        nn.append(LIE_NOISE)
    hp = raw["hypers"][c]
    if (hp["task_len"] is not None) != has_task or len(r_length_scales(comps, hp["ls"])) != dimt - (1 if has_task else 0):
      raise ValueError("hyperparameters do not fit the domain")
    return RefGP(Xr, yy, nn, hp, comps, has_task, mean_rows)

  allrows = list(range(n))
  opt = [column(c) for c in raw["opt_ix"]]
  gps, pfs = [], []          # pfs: (kind, gp, threshold, kappa)
  method = info.get("method")
  weights = None
  if method == "convex_combination":
    weights = list(info["weights"])
    gps = [build(raw["opt_ix"][a], allrows, opt[a][2], opt[a][3], opt[a][1]) for a in range(len(raw["opt_ix"]))]
  elif method == "epsilon_constraint":
    om, cm, eps = info["om"], info["cm"], info["eps"]
    Y = [[opt[0][2][r], opt[1][2][r]] for r in range(n)]
    succ = [Y[r] for r in range(n) if not fails[r]]
    e_gp, (lo_, hi_) = r_eps_no_bounds(eps, cm, succ)
    span = max(1e-300, max(abs(y[cm]) for y in Y))
    if any(abs(y[cm] - e_gp) <= 1e-9 * span for y in Y):
      raise Skip("a scaled value sits on the epsilon threshold of the data filter")
    efail = [Y[r][cm] >= e_gp for r in range(n)]
    ns = sum(1 for f in efail if not f)
    if ns < 5:
      cand = sorted([r for r in range(n) if efail[r]], key=lambda r: (Y[r][om], r))
      k = 5 - ns
      if k < len(cand) and abs(Y[cand[k - 1]][om] - Y[cand[k]][om]) <= 1e-12:
        raise Skip("tie at the cut of the minimum-success repair (argsort order unspecified)")
      for r in cand[:k]:
        efail[r] = False
    rows = [r for r in range(n) if not efail[r]]
    gps = [build(raw["opt_ix"][om], rows, [opt[om][2][r] for r in rows], [opt[om][3][r] for r in rows], opt[om][1])]
    tu = [None if raw["thr"][c] is None else r_scale(opt[a][0], float(raw["thr"][c])) for a, c in enumerate(raw["opt_ix"])]
    both = all(t is not None for t in tu)
    t_con = r_eps_threshold(eps, cm, Y, tu) if both else r_eps_no_bounds(eps, cm, Y)[0]
    tl = list(tu) if both else [None, None]
    tl[cm] = t_con
    for a in range(2):
      if tl[a] is None:
        continue
      g = build(raw["opt_ix"][a], allrows, opt[a][2], opt[a][3], opt[a][1])
      rg = float(max(g.y) - min(g.y))
      pfs.append(("logistic", g, tl[a], 1.0 if rg == 0 else math.log(9) / (0.1 * rg)))
  else:
    a = info["om"] if method == "optimizing_one_metric" else 0
    gps = [build(raw["opt_ix"][a], allrows, opt[a][2], opt[a][3], opt[a][1])]
  for c in raw["con_ix"]:
    m, lie, y, nv = column(c)
    if raw["thr"][c] is None:
      raise ValueError("constraint metric without a threshold")
    pfs.append(("cdf", build(c, allrows, y, nv, lie), r_scale(m, float(raw["thr"][c])), None))

  if weights is None:
    g0 = gps[0]
    ysum, noise = list(g0.y), list(g0.noise)
    def pred(q):
      return g0.predict(q)
    def cov(Q):
      return g0.cov(Q)
    def meanv(Q):
      return [g0.predict(q)[0] for q in Q]
  else:
    ysum = [sum(w * g.y[i] for w, g in zip(weights, gps)) for i in range(len(gps[0].y))]
    noise = [sum(w * w * g.noise[i] for w, g in zip(weights, gps)) for i in range(len(gps[0].y))]
    def pred(q):
      ps = [g.predict(q) for g in gps]
      return sum(w * p[0] for w, p in zip(weights, ps)), sum(w * w * p[1] for w, p in zip(weights, ps))
    def cov(Q):
      return sum(w * w * g.cov(Q) for w, g in zip(weights, gps))
    def meanv(Q):
      return [pred(q)[0] for q in Q]
  XS = gps[0].X

  def psucc(q):
    p = 1.0
    for kind, g, t, kap in pfs:
      mu, v = g.predict(q)
      p *= _phi((t - mu) / math.sqrt(v)) if kind == "cdf" else 1.0 / (1.0 + math.exp(min(kap * (mu - t), 40.0)))
    return p

  cond = max([g.cond for g in gps] + [p[1].cond for p in pfs])
  best, aug, nu = min(ysum), False, None
  if pfs:
    ps = [psucc(x) for x in XS]
    if any(abs(p - 0.5) < 1e-6 for p in ps):
      raise Skip("a success probability sits on the 0.5 cut of the incumbent choice")
    cand = [yy for p, yy in zip(ps, ysum) if p > 0.5]
    best = min(cand) if cand else min(ysum)
    kind = "qei_failures" if use_q else "ei_failures"
  elif use_q:
    kind = "qei"
  else:
    nu = float(numpy.mean(noise))
    if abs(nu - AEI_THRESHOLD) <= 1e-9 * AEI_THRESHOLD:
      raise Skip("mean noise sits on the augmented-EI threshold")
    aug = nu > AEI_THRESHOLD
    kind = "aei" if aug else "ei"
    if aug:
      preds = [pred(x) for x in XS]
      qs = [p[0] + _Q75 * math.sqrt(p[1]) for p in preds]
      order = sorted(range(len(qs)), key=lambda i: qs[i])
      if len(order) > 1 and abs(qs[order[0]] - qs[order[1]]) <= 1e-9 * max(1e-300, abs(qs[order[0]])):
        raise Skip("tie in the augmented-EI incumbent quantile")
      best = preds[order[0]][0]
  out, sig, se, prior = [], [], [], []
  for q in XQ:
    mu, v = pred(q)
    s = math.sqrt(v)
    sig.append(s)
    prior.append(sum(w * w * g.k(q, q) for w, g in zip(weights or [1.0], gps)))
    if kind in ("qei", "qei_failures"):
      if kind == "qei_failures":
        out.append(None)   # the Monte-Carlo form with failures is tied by introspection only
        se.append(None)
        continue
      Q = [q] + XP
      C = cov(Q)
      C = 0.5 * (C + C.T)
      w_, U = numpy.linalg.eigh(C)
      L = U * numpy.sqrt(numpy.clip(w_, 0.0, None))
      mus = numpy.array(meanv(Q))
      N = 200000
      z = mc_rng.standard_normal((N, len(Q)))
      imp = numpy.maximum(0.0, numpy.max(best - mus[None, :] - z @ L.T, axis=1))
      ei = float(imp.mean())
      # standard error of the library's 10000-draw estimate plus ours; rare-event estimates are Poisson-like, so also allow
      # ten draws of (nearly) maximal size among the library's 10000
      se.append(float(imp.std()) * math.sqrt(1.0 / N + 1.0 / 10000.0) + (10.0 / 6.0) * float(numpy.quantile(imp, 0.9999)) / 10000.0)
    else:
      zz = (best - mu) / s
      ei = s * max(0.0, zz * _phi(zz) + _pdf(zz))
      if pfs:
        ei *= psucc(q)
      elif aug:
        ei *= 1.0 - math.sqrt(nu / (v + nu))
      se.append(None)
    if has_task:
      ei /= q[-1]
    out.append(ei)
  return dict(ei=out, sigma=sig, prior=prior, cond=cond, kind=kind, mc_se=se, costs=[q[-1] if has_task else 1.0 for q in XQ])
