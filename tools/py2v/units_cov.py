"""Translation units for the covariance kernels (GenCovariance.v): covariance.py, covariance_base.py, geometry_utils.py."""
import numpy

from .core import Unit

COV = "libsigopt/compute/covariance.py"
BASE = "libsigopt/compute/covariance_base.py"
GEO = "libsigopt/aux/geometry_utils.py"
KERNELS = ["SquareExponential", "C0RadialMatern", "C2RadialMatern", "C4RadialMatern"]
DIFFERENTIABLE = ["SquareExponential", "C2RadialMatern", "C4RadialMatern"]


def _kernel(cls, rng, dim):
  import libsigopt.compute.covariance as cv
  hp = [10.0 ** rng.uniform(-1, 1)] + [10.0 ** rng.uniform(-0.7, 0.7) for _ in range(dim)]
  return getattr(cv, cls)(hp)


def _pts(rng, n, dim):
  return numpy.array([[rng.uniform(-2, 2) for _ in range(dim)] for _ in range(n)])


def drv_radial(cls, which):
  def d(rng):
    dim, ni, nj = rng.randint(1, 3), rng.randint(1, 3), rng.randint(1, 3)
    k = _kernel(cls, rng, dim)
    x, z = _pts(rng, ni, dim), _pts(rng, nj, dim)
    d2, diff = k._build_distance_matrix_squared(z, x, True)
    env = dict(d2=d2, diff=diff, lsq=k._length_scales_squared, lcu=k._length_scales_cubed)
    f = getattr(k, which)
    out = f(d2) if which == "eval_radial_kernel" else f(d2, diff)
    return env, dict(dim=dim), [out]
  return d


def drv_vec(cls, which):
  def d(rng):
    dim, n = rng.randint(1, 3), rng.randint(1, 3)
    k = _kernel(cls, rng, dim)
    x, z = _pts(rng, n, dim), _pts(rng, n, dim)
    if rng.random() < 0.3:
      z[0] = x[0] + 1e-3
    env = dict(x=x, z=z, ls=k._length_scales, lsq=k._length_scales_squared, lcu=k._length_scales_cubed, alpha=k.process_variance)
    return env, dict(dim=dim, nh=dim + 1), [getattr(k, which)(x, z)]
  return d


def drv_mat(cls, which, symmetric, noise):
  def d(rng):
    dim, ni, nj = rng.randint(1, 3), rng.randint(1, 3), rng.randint(1, 4)
    k = _kernel(cls, rng, dim)
    xs, xe = _pts(rng, nj, dim), _pts(rng, ni, dim)
    env = dict(xs=xs, xe=xe, ls=k._length_scales, lsq=k._length_scales_squared, lcu=k._length_scales_cubed, alpha=k.process_variance)
    f = getattr(k, which)
    if which == "build_kernel_matrix":
      nv = numpy.array([rng.uniform(0.01, 1) for _ in range(nj)])
      env["noise"] = nv
      out = f(xs, None if symmetric else xe, noise_variance=nv if noise else None)
    else:
      out = f(xs, None if symmetric else xe)
    return env, dict(dim=dim, nh=dim + 1), [out]
  return d


def drv_dist(rng):
  from libsigopt.aux.geometry_utils import compute_distance_matrix_squared
  dim, ni, nj = rng.randint(1, 3), rng.randint(1, 3), rng.randint(1, 3)
  x, z = _pts(rng, ni, dim), _pts(rng, nj, dim)
  return dict(x=x, z=z), dict(dim=dim), [compute_distance_matrix_squared(x, z)]


def units():
  us = [Unit("GenCovariance", "Geometry", "compute_distance_matrix_squared", GEO, "compute_distance_matrix_squared",
             inputs={"x": ("x", ["i", "k"]), "z": ("z", ["j", "k"])}, sizes={"k": "dim"}, out_idx=["i", "j"], driver=drv_dist)]
  for cls in KERNELS:
    sa = {"_length_scales": ("ls", ["k"]), "_length_scales_squared": ("lsq", ["k"]), "_length_scales_cubed": ("lcu", ["k"]),
          "process_variance": ("alpha", []), "num_hyperparameters": 0}
    sz = {"k": "dim"}
    us.append(Unit("GenCovariance", cls, "eval_radial_kernel", COV, "eval_radial_kernel", cls,
                   inputs={"distance_matrix_squared": ("d2", ["i", "j"])}, out_idx=["i", "j"], driver=drv_radial(cls, "eval_radial_kernel")))
    us.append(Unit("GenCovariance", cls, "_covariance", COV, "_covariance", cls, inputs={"x": ("x", ["i", "k"]), "z": ("z", ["i", "k"])},
                   selfattrs=sa, sizes=sz, out_idx=["i"], driver=drv_vec(cls, "_covariance")))
    us.append(Unit("GenCovariance", cls, "covariance", COV, "covariance", cls, inputs={"x": ("x", ["i", "k"]), "z": ("z", ["i", "k"])},
                   selfattrs=sa, sizes=sz, out_idx=["i"], driver=drv_vec(cls, "covariance")))
    us.append(Unit("GenCovariance", cls, "kernel_matrix_cross", COV, "build_kernel_matrix", cls,
                   inputs={"points_sampled": ("xs", ["j", "k"]), "points_to_sample": ("xe", ["i", "k"]), "noise_variance": None},
                   selfattrs=sa, sizes=sz, out_idx=["i", "j"], driver=drv_mat(cls, "build_kernel_matrix", False, False),
                   note="points_to_sample given, no noise"))
    us.append(Unit("GenCovariance", cls, "kernel_matrix_sym", COV, "build_kernel_matrix", cls,
                   inputs={"points_sampled": ("xs", ["j", "k"]), "points_to_sample": None, "noise_variance": ("noise", ["j"])},
                   selfattrs=sa, sizes=sz, out_idx=["j", "j2"], driver=drv_mat(cls, "build_kernel_matrix", True, True),
                   note="symmetric case with observation noise on the diagonal"))
    if cls in DIFFERENTIABLE:
      us.append(Unit("GenCovariance", cls, "eval_radial_kernel_grad", COV, "eval_radial_kernel_grad", cls,
                     inputs={"distance_matrix_squared": ("d2", ["i", "j"]), "difference_matrix": ("diff", ["i", "j", "k"])},
                     selfattrs=sa, sizes=sz, out_idx=["i", "j", "k"], driver=drv_radial(cls, "eval_radial_kernel_grad")))
      us.append(Unit("GenCovariance", cls, "eval_radial_kernel_hparam_grad", COV, "eval_radial_kernel_hparam_grad", cls,
                     inputs={"distance_matrix_squared": ("d2", ["i", "j"]), "difference_matrix": ("diff", ["i", "j", "k"])},
                     selfattrs=sa, sizes=sz, out_idx=["i", "j", "k"], driver=drv_radial(cls, "eval_radial_kernel_hparam_grad")))
      us.append(Unit("GenCovariance", cls, "grad_covariance", COV, "grad_covariance", cls, inputs={"x": ("x", ["i", "k"]), "z": ("z", ["i", "k"])},
                     selfattrs=sa, sizes=sz, out_idx=["i", "k"], driver=drv_vec(cls, "grad_covariance")))
      us.append(Unit("GenCovariance", cls, "hyperparameter_grad_covariance", COV, "hyperparameter_grad_covariance", cls,
                     inputs={"x": ("x", ["i", "k"]), "z": ("z", ["i", "k"])}, selfattrs=sa, sizes={"k": "dim", "h": "nh"},
                     empty={"(n,self.num_hyperparameters)": ["i", "h"]}, out_idx=["i", "h"], driver=drv_vec(cls, "hyperparameter_grad_covariance")))
      us.append(Unit("GenCovariance", cls, "kernel_grad_tensor_cross", COV, "build_kernel_grad_tensor", cls,
                     inputs={"points_sampled": ("xs", ["j", "k"]), "points_to_sample": ("xe", ["i", "k"])}, selfattrs=sa, sizes=sz,
                     out_idx=["i", "j", "k"], driver=drv_mat(cls, "build_kernel_grad_tensor", False, False)))
      us.append(Unit("GenCovariance", cls, "kernel_hparam_grad_tensor_sym", COV, "build_kernel_hparam_grad_tensor", cls,
                     inputs={"points_sampled": ("xs", ["j", "k"]), "points_to_sample": None}, selfattrs=sa, sizes={"k": "dim", "h": "nh"},
                     empty={"(n_rows,n_cols,self.num_hyperparameters)": ["j", "j2", "h"]}, out_idx=["j", "j2", "h"],
                     driver=drv_mat(cls, "build_kernel_hparam_grad_tensor", True, False)))
  return us


# ------------------------------------------------------------------------------------------ multitask tensor kernel
MT = "libsigopt/compute/multitask_covariance.py"


def _mt(rng):
  import libsigopt.compute.covariance as cv
  from libsigopt.compute.multitask_covariance import MultitaskTensorCovariance
  dim = rng.randint(1, 3)
  hp = [10.0 ** rng.uniform(-1, 1)] + [10.0 ** rng.uniform(-0.5, 0.5) for _ in range(dim + 1)]
  pc, tc = rng.choice(DIFFERENTIABLE), rng.choice(DIFFERENTIABLE)
  return dim, MultitaskTensorCovariance(hp, getattr(cv, pc), getattr(cv, tc))


def drv_mt(which):
  def d(rng):
    dim, k = _mt(rng)
    n = rng.randint(1, 3)
    x, z = _pts(rng, n, dim + 1), _pts(rng, n, dim + 1)
    xp, xt, zp, zt = k.separate_physical_task_components(x, z)
    P, Tk = k.physical_covariance, k.task_covariance
    env = dict(pv=P._covariance(xp, zp), tv=Tk._covariance(xt, zt), pg=P._grad_covariance(xp, zp), tg=Tk._grad_covariance(xt, zt)[:, 0],
               ph=P._hyperparameter_grad_covariance_without_process_variance(xp, zp),
               th=Tk._hyperparameter_grad_covariance_without_process_variance(xt, zt)[:, 0])
    return env, dict(dimp1=dim + 1), [getattr(k, which)(x, z)]
  return d


STUBS = {
  "self.physical_covariance._covariance": ("stub", ("pv", ["i"])),
  "self.task_covariance._covariance": ("stub", ("tv", ["i"])),
  "self.physical_covariance._grad_covariance": ("stub", ("pg", ["i", "kk"])),
  "self.task_covariance._grad_covariance": ("stub", ("tg", ["i", None])),
  "self.physical_covariance._hyperparameter_grad_covariance_without_process_variance": ("stub", ("ph", ["i", "kk"])),
  "self.task_covariance._hyperparameter_grad_covariance_without_process_variance": ("stub", ("th", ["i", None])),
}


def units_multitask():
  base = {"physical_covariance": ("obj", {}, "StubP"), "task_covariance": ("obj", {}, "StubT")}
  st = dict(STUBS)
  st["self.separate_physical_task_components"] = ("stub", [None, None, None, None])
  us = []
  us.append(Unit("GenMultitask", "", "_covariance", MT, "_covariance", "MultitaskTensorCovariance", inputs={"x": None, "z": None},
                 selfattrs=base, stubs=st, out_idx=["i"], driver=drv_mt("_covariance"),
                 note="physical and task results are named inputs"))
  us.append(Unit("GenMultitask", "", "_grad_covariance", MT, "_grad_covariance", "MultitaskTensorCovariance", inputs={"x": None, "z": None},
                 selfattrs={**base, "dim": 0}, stubs=st, sizes={"kk": "dimp1"},
                 empty={"(len(x),self.dim)": ["i", "kk"]}, out_idx=["i", "kk"], driver=drv_mt("_grad_covariance")))
  us.append(Unit("GenMultitask", "", "_hyperparameter_grad", MT, "_hyperparameter_grad_covariance_without_process_variance",
                 "MultitaskTensorCovariance", inputs={"x": None, "z": None},
                 selfattrs={**base, "num_hyperparameters": 0}, stubs=st, sizes={"kk": "dimp1"},
                 empty={"(len(x),self.num_hyperparameters-1)": ["i", "kk"]}, out_idx=["i", "kk"],
                 driver=drv_mt("_hyperparameter_grad_covariance_without_process_variance")))
  return us
