"""IR of the py2v translator: scalar real expressions over indexed inputs, with two renderers (Coq-R text, and a direct
Python evaluator used by the dual-rendering self-check)."""
import fractions
import math


class TranslationError(Exception):
  pass


# ---- index expressions: ("ix", name, offset)  = name + offset (offset may be negative; sizes are >= 1 so no truncation
#      is ever met on valid positions)  |  ("ixc", k) constant
def ix(name, off=0):
  return ("ix", name, off)


def ix_to_coq(e):
  if e[0] == "ix":
    if e[2] == 0:
      return e[1]
    return f"({e[1]} - {-e[2]})%nat" if e[2] < 0 else f"({e[1]} + {e[2]})%nat"
  if e[0] == "ixc":
    return f"{e[1]}%nat"
  raise TranslationError(f"index expr {e}")


def ix_eval(e, ienv):
  if e[0] == "ix":
    return ienv[e[1]] + e[2]
  if e[0] == "ixc":
    return e[1]
  raise TranslationError(f"index expr {e}")


def ix_subst(e, name, by):
  if e[0] == "ix" and e[1] == name:
    if by[0] == "ix":
      return ("ix", by[1], by[2] + e[2])
    return ("ixc", by[1] + e[2])
  return e


# ---- scalar nodes
# ("const", Fraction) ("var", name, (ixexpr...)) ("neg", a) ("bin", op, a, b) op in + - * /
# ("pow", a, n) ("call", f, (args...)) f in exp sqrt ln Rabs Rmax Rmin Phi pdf
# ("sum", ixname, sizename, body) ("prod", ixname, sizename, body) ("ite_eq", ixa, ixb, then, else)  ("ite_zero", ixa, then, else)
# ("maxover", ixname, sizename, body)


def const(x):
  """Literals are read as the decimal the source shows (repr gives the shortest decimal that round-trips)."""
  if isinstance(x, float):
    if not math.isfinite(x):
      raise TranslationError("non-finite literal")
    return ("const", fractions.Fraction(repr(x)))
  return ("const", fractions.Fraction(x))


def subst_ix(node, name, by):
  t = node[0]
  if t == "const":
    return node
  if t == "var":
    return ("var", node[1], tuple(ix_subst(e, name, by) for e in node[2]))
  if t == "neg":
    return ("neg", subst_ix(node[1], name, by))
  if t == "bin":
    return ("bin", node[1], subst_ix(node[2], name, by), subst_ix(node[3], name, by))
  if t == "pow":
    return ("pow", subst_ix(node[1], name, by), node[2])
  if t == "call":
    return ("call", node[1], tuple(subst_ix(a, name, by) for a in node[2]))
  if t in ("sum", "prod", "maxover"):
    if node[1] == name:
      return node
    return (t, node[1], node[2], subst_ix(node[3], name, by))
  if t == "ite_eq":
    return ("ite_eq", ix_subst(node[1], name, by), ix_subst(node[2], name, by), subst_ix(node[3], name, by), subst_ix(node[4], name, by))
  raise TranslationError(f"subst on node {t}")


def frac_to_coq(f):
  n, d = f.numerator, f.denominator
  if d == 1:
    return f"{n}" if n >= 0 else f"(- {-n})"
  return f"({n} / {d})" if n >= 0 else f"(- ({-n} / {d}))"


COQ_FUN = dict(exp="exp", sqrt="sqrt", ln="ln", Rabs="Rabs", Rmax="Rmax", Rmin="Rmin", Phi="Phi", pdf="pdf")


def to_coq(node):
  t = node[0]
  if t == "const":
    return frac_to_coq(node[1])
  if t == "var":
    if node[1].startswith("INR_"):
      return f"(INR {node[1][4:]})"
    if not node[2]:
      return node[1]
    return "(" + node[1] + " " + " ".join(ix_to_coq(e) for e in node[2]) + ")"
  if t == "neg":
    return f"(- {to_coq(node[1])})"
  if t == "bin":
    return f"({to_coq(node[2])} {node[1]} {to_coq(node[3])})"
  if t == "pow":
    return f"({to_coq(node[1])} ^ {node[2]})"
  if t == "call":
    return "(" + COQ_FUN[node[1]] + " " + " ".join(to_coq(a) for a in node[2]) + ")"
  if t == "sum":
    return f"(bigsum {node[2]} (fun {node[1]} : nat => {to_coq(node[3])}))"
  if t == "prod":
    return f"(bigprod {node[2]} (fun {node[1]} : nat => {to_coq(node[3])}))"
  if t == "maxover":
    return f"(bigmax {node[2]} (fun {node[1]} : nat => {to_coq(node[3])}))"
  if t == "ite_eq":
    return f"(if Nat.eqb {ix_to_coq(node[1])} {ix_to_coq(node[2])} then {to_coq(node[3])} else {to_coq(node[4])})"
  raise TranslationError(f"render node {t}")


def _phi(z):
  return 0.5 * math.erfc(-z / math.sqrt(2.0))


def _pdf(z):
  return math.exp(-0.5 * z * z) / math.sqrt(2.0 * math.pi)


PY_FUN = dict(exp=math.exp, sqrt=math.sqrt, ln=math.log, Rabs=abs, Rmax=max, Rmin=min, Phi=_phi, pdf=_pdf)


def evaluate(node, env, ienv, sizes):
  """env: name -> numpy array / float; ienv: index name -> int; sizes: size name -> int."""
  t = node[0]
  if t == "const":
    return float(node[1])
  if t == "var":
    v = env[node[1]]
    if not node[2]:
      return float(v)
    return float(v[tuple(ix_eval(e, {**sizes, **ienv}) for e in node[2])])
  if t == "neg":
    return -evaluate(node[1], env, ienv, sizes)
  if t == "bin":
    a, b = evaluate(node[2], env, ienv, sizes), evaluate(node[3], env, ienv, sizes)
    return a + b if node[1] == "+" else a - b if node[1] == "-" else a * b if node[1] == "*" else a / b
  if t == "pow":
    return evaluate(node[1], env, ienv, sizes) ** node[2]
  if t == "call":
    return PY_FUN[node[1]](*[evaluate(a, env, ienv, sizes) for a in node[2]])
  if t in ("sum", "prod", "maxover"):
    acc = 0.0 if t == "sum" else 1.0 if t == "prod" else None
    for k in range(sizes[node[2]]):
      ie = dict(ienv)
      ie[node[1]] = k
      v = evaluate(node[3], env, ie, sizes)
      acc = acc + v if t == "sum" else acc * v if t == "prod" else (v if acc is None else max(acc, v))
    return acc
  if t == "ite_eq":
    ie = {**sizes, **ienv}
    return evaluate(node[3] if ix_eval(node[1], ie) == ix_eval(node[2], ie) else node[4], env, ienv, sizes)
  raise TranslationError(f"eval node {t}")
