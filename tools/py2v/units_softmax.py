"""R back-end unit for the task draw of the model-based next-points endpoints (C01): the probability vector
views/rest/gp_next_points_categorical.select_random_task_by_softmax hands to numpy.random.choice."""
import numpy

from .core import Unit

GP = "libsigopt/views/rest/gp_next_points_categorical.py"
EXTRA = []


def _choice_p(ev, n):
  """numpy.random.choice(options, p=P, size=...) is a draw over `options` with probabilities P: the translated value is P itself
  (the unit's statement is about the distribution's parameters); the options must be the costs the probabilities were computed from."""
  kw = {k.arg: k.value for k in n.keywords}
  if "p" not in kw or len(n.args) != 1:
    from .ir import TranslationError
    raise TranslationError(f"{ev.where(n)}: the task draw is not numpy.random.choice(options, p=...)")
  import ast
  if ast.unparse(n.args[0]) != "task_options":
    from .ir import TranslationError
    raise TranslationError(f"{ev.where(n)}: the task draw is over {ast.unparse(n.args[0])}, not over the task options")
  return ev.expr(kw["p"])


def drv_softmax(rng):
  n = rng.randint(1, 5)
  c = numpy.array([rng.choice([rng.uniform(0.01, 1.0), rng.uniform(1.0, 30.0), 1.0]) for _ in range(n)])
  import libsigopt.views.rest.gp_next_points_categorical as G
  seen, real = [], numpy.random.choice

  def spy(a, size=None, replace=True, p=None):
    seen.append(numpy.array(p, dtype=float))
    return real(a, size=size, replace=replace, p=p)
  numpy.random.choice = spy
  try:
    G.select_random_task_by_softmax(c.copy())
  finally:
    numpy.random.choice = real
  return dict(c=c), dict(n=n), [seen[0]]


def units():
  return [Unit("GenSoftmax", "Softmax", "task_probability", GP, "select_random_task_by_softmax",
               inputs={"task_options": ("c", ["i"]), "size": None}, sizes={"i": "n"}, stubs={"numpy.random.choice": _choice_p},
               out_idx=["i"], driver=drv_softmax, note="the probabilities of the task draw (the argument p of numpy.random.choice over the task options)")]


REGISTER = {"GenSoftmax": (units, EXTRA)}
