"""py2v driver: units -> coq/Gen/*.v, plus the dual-rendering self-check (DESIGN.md section 4.4)."""
import itertools
import os

import numpy

from . import ir
from .ir import TranslationError
from .symeval import Ev, Obj, Size, Sources, T

HEADER = """(* GENERATED on every run by tools/py2v from the working tree of the repository under test. Do not edit. *)
From Coq Require Import Reals Arith.
From LV Require Import Lib.RBase.
Open Scope R_scope.

"""


class Unit:
  def __init__(self, gen, module, name, rel, fn, cls=None, inputs=None, selfattrs=None, consts=None, sizes=None, outs=None, empty=None,
               out_idx=None, driver=None, stubs=None, note="", hand=None):
    self.gen, self.module, self.name, self.rel, self.fn, self.cls = gen, module, name, rel, fn, cls
    self.inputs = inputs or {}        # python arg name -> (coq name, [idx]) | python constant | None | ("obj", {field: ...})
    self.selfattrs = selfattrs or {}  # attr -> (coq name, [idx]) | constant
    self.sizes = sizes or {}          # index name -> size symbol
    self.outs = outs                  # for tuple results: list of suffixes (None to drop)
    self.empty = empty or {}          # "numpy.empty" shape-source text -> idx list
    self.out_idx = out_idx            # expected index signature(s) of the result(s) (checked)
    self.driver = driver              # rng -> (env, sizes, [expected arrays])
    self.hand = hand                  # hand-written IR [(name, T)] for code outside the translator's language (tied by self-check only)
    self.stubs = stubs or {}          # dotted call text -> ("stub", result spec): calls replaced by declared inputs
    self.note = note

  def params(self):
    ps = []
    def add(v):
      if isinstance(v, tuple) and v and v[0] == "stub":
        for x in (v[1] if isinstance(v[1], list) else [v[1]]):
          add(x)
      elif isinstance(v, tuple) and v and v[0] == "obj":
        for x in v[1].values():
          add(x)
      elif isinstance(v, tuple) and len(v) == 2 and isinstance(v[1], list):
        k = len([i for i in v[1] if i is not None])
        if (v[0], k) not in ps:
          ps.append((v[0], k))
    for v in self.inputs.values():
      add(v)
    for v in self.selfattrs.values():
      add(v)
    for v in self.stubs.values():
      if not callable(v):
        add(v)
    return ps


def _mk(v):
  if callable(v):   # a stub given as a function (ev, call node) -> value
    return v
  if isinstance(v, tuple) and v and v[0] == "stub":
    outs = v[1]
    return lambda ev, n: _mk(outs) if not isinstance(outs, list) else tuple(_mk(o) for o in outs)
  if isinstance(v, tuple) and len(v) == 2 and v[0] == "size":
    return Size(v[1])
  if isinstance(v, tuple) and v and v[0] == "obj":
    return Obj({k: _mk(x) for k, x in v[1].items()}, v[2] if len(v) > 2 else None)
  if isinstance(v, tuple) and len(v) == 2 and isinstance(v[1], list):
    return T(("var", v[0], tuple(ir.ix(i) for i in v[1] if i is not None)), v[1])
  return v


def translate(src, u):
  """Returns list of (definition name, T)."""
  if u.hand is not None:
    return [(u.name + ("_" + n if n else ""), t) for n, t in u.hand], ["hand-written IR; tied to the code by the dual-rendering self-check only"]
  if u.cls:
    rel, fn = src.method(u.cls, u.fn)
  else:
    rel, fn = src.funcs[u.fn]
  env = {k: _mk(v) for k, v in u.inputs.items()}
  if u.cls:
    env["self"] = Obj({k: _mk(v) for k, v in u.selfattrs.items()}, u.cls)
  env["__empty__"] = u.empty
  for k, v in u.stubs.items():
    env[k] = _mk(v)
  # parameters of the unit's own function that the unit does not declare take their default: a literal, or a module-level constant
  # (so that flipping e.g. INCLUDE_NONZERO_MEAN_GRADIENT_CORRECTION changes the path the translator walks)
  import ast as _ast
  args = fn.args.args
  for p_, d_ in zip(args[len(args) - len(fn.args.defaults):], fn.args.defaults):
    if p_.arg in env:
      continue
    if isinstance(d_, _ast.Constant):
      env[p_.arg] = d_.value
    elif isinstance(d_, _ast.Name):
      found = [n_ for n_ in src.mods[rel].body if isinstance(n_, _ast.Assign) and len(n_.targets) == 1
               and isinstance(n_.targets[0], _ast.Name) and n_.targets[0].id == d_.id and isinstance(n_.value, _ast.Constant)]
      if len(found) != 1:
        raise TranslationError(f"{u.name}: default `{d_.id}` of parameter {p_.arg} is not a unique module-level literal")
      env[p_.arg] = found[0].value.value
  ev = Ev(src, rel, env, u.sizes, u.cls)
  out = ev.run(fn)
  if isinstance(out, Obj):
    names = [k for k in out.fields]
    out = tuple(out.fields[k] for k in names)
    outs = u.outs if u.outs is not None else names
  else:
    outs = u.outs
  res = []
  if isinstance(out, tuple):
    if outs is None or len(outs) != len(out):
      raise TranslationError(f"{u.name}: tuple result of length {len(out)} but outs={outs}")
    for suffix, v in zip(outs, out):
      if suffix is None or v is None:
        continue
      if not isinstance(v, T):
        raise TranslationError(f"{u.name}: result component {suffix} is not a tensor")
      res.append((f"{u.name}_{suffix}", v))
  else:
    if not isinstance(out, T):
      raise TranslationError(f"{u.name}: result is {type(out).__name__}, not a tensor")
    res.append((u.name, out))
  if u.out_idx is not None:
    want = u.out_idx if isinstance(u.out_idx[0], list) else [u.out_idx]
    got = [list(v.idx) for _, v in res]
    if got != want:
      raise TranslationError(f"{u.name}: result index signature {got} differs from the declared {want}")
  return res, ev.pre


def definition(u, name, t):
  ps = " ".join(f"({p} : {'nat -> ' * k}R)" for p, k in u.params())
  sz = " ".join(f"({s} : nat)" for s in sorted(set(u.sizes.values())))
  ixs = [i for i in t.idx if i is not None]
  ii = f"({' '.join(ixs)} : nat)" if ixs else ""
  return f"Definition {name} {sz} {ps} {ii} : R :=\n  {ir.to_coq(t.node)}."


def generate(repo, units, outdir):
  """Translate all units; returns ({genfile: text}, results) — raises TranslationError naming the unit."""
  rels = sorted({u.rel for u in units} | set(EXTRA_SOURCES))
  src = Sources(repo, rels)
  files, results = {}, {}
  by_gen = {}
  for u in units:
    by_gen.setdefault(u.gen, {}).setdefault(u.module, []).append(u)
  for gen, mods in by_gen.items():
    text = [HEADER]
    for mod, us in mods.items():
      if mod:
        text.append(f"Module {mod}.")
      for u in us:
        try:
          res, pre = translate(src, u)
        except TranslationError as e:
          raise TranslationError(f"unit {u.gen}.{mod}.{u.name} ({u.rel}:{u.cls or ''}.{u.fn}): {e}")
        results[(gen, mod, u.name)] = (u, res)
        text.append(f"(* {u.rel} : {(u.cls + '.') if u.cls else ''}{u.fn}" + (f" — {u.note}" if u.note else "") + " *)")
        for name, t in res:
          text.append(definition(u, name, t))
      if mod:
        text.append(f"End {mod}.")
      text.append("")
    files[gen] = "\n".join(text) + "\n"
  return files, results


EXTRA_SOURCES = []


def selfcheck(results, rng, reps=3, rtol=1e-10):
  """Dual rendering: evaluate each unit's IR on random inputs and compare with the real vectorised code."""
  report = []
  for key, (u, res) in results.items():
    if u.driver is None:
      report.append(dict(unit=".".join(k for k in key if k), status="no-driver"))
      continue
    worst = 0.0
    for _ in range(reps):
      env, sizes, expected = u.driver(rng)
      env = dict(env)
      for s, v in sizes.items():
        env["INR_" + s] = float(v)
      for (name, t), exp in zip(res, expected):
        exp = numpy.asarray(exp, dtype=float)
        ixs = [i for i in t.idx if i is not None]
        shape = exp.shape
        if len(shape) != len(ixs):
          raise TranslationError(f"self-check {name}: rank {len(shape)} of the real output vs index signature {t.idx}")
        for pos in itertools.product(*[range(n) for n in shape]):
          ienv = dict(zip(ixs, pos))
          got = ir.evaluate(t.node, env, ienv, sizes)
          want = float(exp[pos])
          if not (numpy.isfinite(got) and numpy.isfinite(want)):   # a NaN / inf on either side is never "close"
            if got == want:
              continue
            raise TranslationError(f"translator self-check failed for {name} at {pos}: IR gives {got!r}, the code gives {want!r}")
          err = abs(got - want) / max(1e-300, max(1.0, abs(want)) if abs(want) > 1e-200 else 1.0)
          if abs(want) > 1e-200:
            err = abs(got - want) / max(abs(want), 1e-12)
          else:
            err = abs(got - want)
          worst = max(worst, err)
          if err > rtol:
            raise TranslationError(f"translator self-check failed for {name} at {pos}: IR gives {got!r}, the code gives {want!r}")
    report.append(dict(unit=".".join(k for k in key if k), status="ok", worst_rel_err=worst))
  return report
