"""Translation of python_utils.compute_cholesky_for_gp_sampling with buffer semantics (GenChol.v): the call structure is
matched statement by statement (fail-closed); the overwrite_a flag of the FIRST factorisation is translated, because C17
is about what the fallback reads when that call fails."""
import ast
import os

import numpy

from lib import common as C

from .ir import TranslationError

PY = "libsigopt/compute/python_utils.py"


def norm(n):
  return ast.unparse(n).replace(" ", "").replace("\n", "")


def translate(repo):
  path = os.path.join(repo, PY)
  tree = ast.parse(open(path).read(), filename=path)
  fn = [f for f in tree.body if isinstance(f, ast.FunctionDef) and f.name == "compute_cholesky_for_gp_sampling"]
  if not fn:
    raise TranslationError(f"{PY}: compute_cholesky_for_gp_sampling not found")
  fn = fn[0]
  body = [s for s in fn.body if not (isinstance(s, ast.Expr) and isinstance(s.value, ast.Constant))]
  if len(body) != 2 or not isinstance(body[0], ast.Try) or not isinstance(body[1], ast.Return) or norm(body[1].value) != "chol_cov":
    raise TranslationError(f"{PY}:{fn.lineno}: expected `try: ... except LinAlgError: ...; return chol_cov`")
  tr = body[0]
  if len(tr.body) != 1 or len(tr.handlers) != 1 or tr.orelse or tr.finalbody or norm(tr.handlers[0].type) != "scipy.linalg.LinAlgError":
    raise TranslationError(f"{PY}:{tr.lineno}: try/except shape changed")
  first = tr.body[0]
  if not (isinstance(first, ast.Assign) and norm(first.targets[0]) == "chol_cov" and isinstance(first.value, ast.Call) and norm(first.value.func) == "scipy.linalg.cholesky"
          and [norm(a) for a in first.value.args] == ["covariance_matrix"]):
    raise TranslationError(f"{PY}:{first.lineno}: first statement is not chol_cov = scipy.linalg.cholesky(covariance_matrix, ...)")
  kw = {k.arg: ast.literal_eval(k.value) for k in first.value.keywords}
  if set(kw) - {"lower", "overwrite_a", "check_finite"} or kw.get("lower") is not True:
    raise TranslationError(f"{PY}:{first.lineno}: cholesky keywords {kw} not in the table (lower=True required)")
  overwrite = bool(kw.get("overwrite_a", False))
  h = tr.handlers[0].body
  want = [
    ("U,E,_=scipy.linalg.svd(covariance_matrix,", "svd of the (possibly clobbered) input buffer"),
    ("chol_cov=U*numpy.sqrt(E)[None,:]", "U * sqrt(E) column scaling"),
    ("chol_cov=scipy.linalg.qr(chol_cov.T,mode='r',", "R factor of the transpose"),
  ]
  if len(h) != 3:
    raise TranslationError(f"{PY}:{tr.handlers[0].lineno}: fallback has {len(h)} statements, expected 3")
  for st, (prefix, what) in zip(h, want):
    if not norm(st).replace('"', "'").startswith(prefix):
      raise TranslationError(f"{PY}:{st.lineno}: fallback statement is not the {what}: {ast.unparse(st)[:80]}")
  if not norm(h[2]).endswith("[0].T"):
    raise TranslationError(f"{PY}:{h[2].lineno}: the QR result must be taken as [0].T")
  for st in (h[0], h[2]):
    for k in st.value.keywords if isinstance(st.value, ast.Call) else st.value.value.value.keywords:
      if k.arg not in ("overwrite_a", "check_finite", "mode"):
        raise TranslationError(f"{PY}:{st.lineno}: keyword {k.arg} not in the table")
  return overwrite


TEMPLATE = """(* GENERATED on every run by tools/py2v (matrix back-end, effect flags) from python_utils.compute_cholesky_for_gp_sampling. *)
From mathcomp Require Import all_ssreflect all_algebra.
Set Implicit Arguments. Unset Strict Implicit. Unset Printing Implicit Defensive.
Import GRing.Theory Num.Theory.
Local Open Scope ring_scope.

Module Chol.
Section S.
Variable F : rcfType.
Variable n : nat.
(* LAPACK oracles; their contracts are hypotheses of the theorems, not of the definitions *)
Variable chol_try : 'M[F]_n -> option 'M[F]_n.          (* scipy.linalg.cholesky(a, lower=True): Some L, or None for LinAlgError *)
Variable junk : 'M[F]_n -> 'M[F]_n.                     (* what a failed in-place factorisation leaves in the buffer *)
Variable svdU : 'M[F]_n -> 'M[F]_n.
Variable svdE : 'M[F]_n -> 'rV[F]_n.
Variable qr_r : 'M[F]_n -> 'M[F]_n.                     (* R factor of scipy.linalg.qr(B, mode="r") *)
Definition sqrt_diag (E : 'rV[F]_n) : 'M[F]_n := diag_mx (map_mx Num.sqrt E).
(* overwrite_a keyword of the FIRST cholesky call, as written in the source *)
Definition first_overwrite : bool := %s.
Definition factor (A : 'M[F]_n) : 'M[F]_n :=
  match chol_try A with
  | Some L => L
  | None =>
      let buf := if first_overwrite then junk A else A in   (* the fallback reads the buffer the failed call left *)
      let B := svdU buf *m sqrt_diag (svdE buf) in            (* U * numpy.sqrt(E)[None, :] *)
      (qr_r B^T)^T                                            (* scipy.linalg.qr(chol_cov.T, mode="r")[0].T *)
  end.
End S.
End Chol.
"""


def generate(ctx):
  try:
    overwrite = translate(C.REPO)
  except TranslationError as e:
    raise C.TieBroken(f"py2v (chol): {e}")
  C.write_if_changed(os.path.join(C.COQ, "Gen", "GenChol.v"), TEMPLATE % ("true" if overwrite else "false"))
  return [f"GenChol.Chol.factor(first_overwrite={overwrite}):structure-matched"]
