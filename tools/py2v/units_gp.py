"""Matrix translation units: GaussianProcess precomputation and prediction, GaussianProcessSum, the log marginal likelihood
(GenGP.v).  Each program is a sequence of method runs in one symbolic execution; definitions are emitted in order."""
import os
import random

import numpy

from lib import common as C

from . import matrix as mx
from .ir import TranslationError
from .matrix import M, S, Chol, Exec

GPY = "libsigopt/compute/gaussian_process.py"
SUMPY = "libsigopt/compute/gaussian_process_sum.py"
LLPY = "libsigopt/compute/log_likelihood.py"

HEADER = """(* GENERATED on every run by tools/py2v (matrix back-end) from the working tree of the repository under test. Do not edit. *)
From mathcomp Require Import all_ssreflect all_algebra.
From LV Require Import Lib.MxAux.
Set Implicit Arguments. Unset Strict Implicit. Unset Printing Implicit Defensive.
Import GRing.Theory Num.Theory.
Local Open Scope ring_scope.

"""


def _bkm(ex, n):
  """self.covariance.build_kernel_matrix(points_sampled[, points_to_sample=..][, noise_variance=..])"""
  kw = {k.arg: k.value for k in n.keywords}
  args = [ast_un(a) for a in n.args]
  if "points_to_sample" in kw:
    if args != ["self.points_sampled"] or set(kw) != {"points_to_sample"}:
      raise TranslationError(f"{ex.where(n)}: cross kernel matrix call changed: {ast_un(n)}")
    return M(("var", "K_eval"), "m", "n")
  if args == ["points_to_sample"] and not kw:
    return M(("var", "Kss"), "m", "m")
  if args == ["self.points_sampled"] and set(kw) == {"noise_variance"}:
    v = ex.ev(kw["noise_variance"])
    return M(("diagadd", ("var", "Kker"), v.node), "n", "n")
  raise TranslationError(f"{ex.where(n)}: build_kernel_matrix call not in the table: {ast_un(n)}")


def ast_un(n):
  import ast
  return ast.unparse(n)


def _bpm(ex, n):
  a = ast_un(n.args[1]) if len(n.args) > 1 else ast_un(n.keywords[0].value)
  if a == "self.points_sampled":
    return M(("var", "Pmx"), "n", "p")
  if a == "points_to_sample":
    return M(("var", "Peval"), "m", "p")
  raise TranslationError(f"{ex.where(n)}: build_polynomial_matrix on {a}")


GP_CALLS = {
  "self.covariance.build_kernel_matrix": _bkm,
  "build_polynomial_matrix": _bpm,
  "polynomial_index_point_check": lambda ex, n: None,
  "len": lambda ex, n: "__dim__",
  "self.covariance.covariance": lambda ex, n: M(("var", "kxx"), "m", "1"),
  "compute_cholesky_for_gp_sampling": lambda ex, n: M(("var", "Lsamp"), "m", "m"),
  "numpy.atleast_2d": lambda ex, n: M(("var", "Z"), "m", "s"),
}

GP_VARS = """Variable F : realFieldType.
Variables n m p s : nat.
Variable chol : 'M[F]_n -> 'M[F]_n.
Variables (Kker : 'M[F]_n) (noise : 'cV[F]_n) (tik : F) (y : 'cV[F]_n) (Pmx : 'M[F]_(n,p)).
Variables (K_eval : 'M[F]_(m,n)) (Peval : 'M[F]_(m,p)) (kxx : 'cV[F]_m) (Kss : 'M[F]_m) (min_var : F).
Variables (Lsamp : 'M[F]_m) (Z : 'M[F]_(m,s)).
"""


def gp_program(repo, tik, zero_mean):
  env = {
    "points_sampled_value": M(("var", "y"), "n", "1"), "points_sampled_noise_variance": M(("var", "noise"), "n", "1"),
    "tikhonov_param": S(("svar", "tik")) if tik else None, "num_sampled": "__dim__", "mean_poly_indices": None, "dim": None,
    "points_sampled": M(("var", "X"), "n", "d"), "MINIMUM_KRIGING_VARIANCE": S(("svar", "min_var")),
  }
  flags = {"self.num_sampled == 0": False, "self.tikhonov_param is not None": tik, "self.has_zero_mean": zero_mean, "m < n": False}
  ex = Exec(os.path.join(repo, GPY), "GaussianProcess", env, flags, GP_CALLS)
  ex.run("build_precomputed_data")
  pts = M(("var", "Xs"), "m", "d")
  ex.flags["option in ('K_eval', 'all')"] = True
  ex.flags["option == 'all'"] = True
  ex.flags["option in ('grad_K_eval', 'all')"] = False
  outs = {}
  outs["mean"] = ex.run("_compute_mean_of_points", [pts, M(("var", "K_eval"), "m", "n")])
  ex.define("mean", outs["mean"])
  ex.flags["cardinal_functions_at_points_to_sample is None"] = True
  r = ex.run("_compute_variance_of_points", [pts, M(("var", "K_eval"), "m", "n")])
  ex.define("var_tri", r)
  ex.define("card", M(("tr", ("cho_solve", ex.env["K_chol"].of.node, ("tr", ("var", "K_eval")))), "m", "n"))
  # the source of `card`: _compute_core_posterior_components, option "all"
  src_card = ex.method("_compute_core_posterior_components")
  import ast
  txt = ast.unparse(src_card)
  if "cho_solve(self.K_chol, K_eval.T).T" not in txt:
    raise TranslationError("gaussian_process.py: cardinal functions are no longer cho_solve(self.K_chol, K_eval.T).T")
  ex.flags["cardinal_functions_at_points_to_sample is None"] = False
  saved = [d for d in ex.defs]
  r = ex.run("_compute_variance_of_points", [pts, M(("var", "K_eval"), "m", "n"), ex.env["card"]])
  ex.defs = [(("c_" + nme) if any(nme == o for o, _ in saved) else nme, v) for nme, v in ex.defs] if False else ex.defs
  ex.define("var_card", r)
  r = ex.run("compute_covariance_of_points", [pts])
  ex.define("cov", r)
  # sample formula: mean[None, :] + transpose(dot(L, z_samples))
  body = ast.unparse(ex.method("draw_posterior_samples_of_points"))
  if "mean[None, :] + numpy.transpose(numpy.dot(L, z_samples))" not in body or "L = compute_cholesky_for_gp_sampling(cov)" not in body:
    raise TranslationError("gaussian_process.py: the posterior sample formula changed")
  ex.define("sample_dev", M(("tr", ("mul", ("var", "Lsamp"), ("var", "Z"))), "s", "m"))
  return ex


def dedupe(defs):
  seen, out = {}, []
  for name, v in defs:
    if name in seen:
      seen[name] += 1
      name2 = f"{name}_{seen[name]}"
    else:
      seen[name] = 1
      name2 = name
    out.append((name2, v))
  return out


def ty(v):
  if isinstance(v, S):
    return "F"
  r = {"?": "m"}.get(v.rows, v.rows)
  c = {"?": "1"}.get(v.cols, v.cols)
  return f"'M[F]_({r},{c})"


def emit_module(name, vars_text, defs, comment):
  lines = [f"Module {name}.", f"(* {comment} *)", "Section S.", vars_text]
  for nme, v in defs:
    lines.append(f"Definition {nme} : {ty(v)} := {mx.coq(v.node)}.")
  lines += ["End S.", f"End {name}.", ""]
  return "\n".join(lines)


def rename_later(defs):
  """A name defined twice (V in the variance and in the covariance method): the later definition and its uses get a suffix."""
  out, count = [], {}
  ren = {}
  def sub(node):
    if node[0] == "var" and node[1] in ren:
      return ("var", ren[node[1]]) + tuple(node[2:])
    return tuple(sub(x) if isinstance(x, tuple) else x for x in node)
  for name, v in defs:
    node = sub(v.node)
    if name in count:
      count[name] += 1
      new = f"{name}_{count[name]}"
      ren[name] = new
    else:
      count[name] = 1
      new = name
      ren.pop(name, None)
    vv = M(node, v.rows, v.cols) if isinstance(v, M) else S(node)
    out.append((new, vv))
  return out


SUM_VARS = """Variable F : realFieldType.
Variables m G : nat.
Variables (w : 'I_G -> F) (mean_g var_g : 'I_G -> 'cV[F]_m) (cov_g : 'I_G -> 'M[F]_m).
Variable d : nat.
Variables (gmean_g gvar_g : 'I_G -> 'M[F]_(m, d)).
"""


def sum_program(repo):
  comp = {
    "compute_mean_of_points": M(("comp", "mean_g"), "m", "1"), "compute_variance_of_points": M(("comp", "var_g"), "m", "1"),
    "compute_covariance_of_points": M(("comp", "cov_g"), "m", "m"),
    "compute_mean_and_variance_of_points": (M(("comp", "mean_g"), "m", "1"), M(("comp", "var_g"), "m", "1")),
    "compute_grad_mean_of_points": M(("comp", "gmean_g"), "m", "d"), "compute_grad_variance_of_points": M(("comp", "gvar_g"), "m", "d"),
    "compute_mean_variance_grad_of_points": (M(("comp", "mean_g"), "m", "1"), M(("comp", "var_g"), "m", "1"),
                                             M(("comp", "gmean_g"), "m", "d"), M(("comp", "gvar_g"), "m", "d")),
  }
  ex = Exec(os.path.join(repo, SUMPY), "GaussianProcessSum", {"weights": None, "gaussian_process_list": None}, {}, {"__component__": comp})
  pts = M(("var", "Xs"), "m", "d")
  ex.define("sum_mean", ex.run("compute_mean_of_points", [pts]))
  ex.define("sum_var", ex.run("compute_variance_of_points", [pts]))
  ex.define("sum_cov", ex.run("compute_covariance_of_points", [pts]))
  mv = ex.run("compute_mean_and_variance_of_points", [pts])
  ex.define("sum_mv_mean", mv[0])
  ex.define("sum_mv_var", mv[1])
  ex.define("sum_grad_mean", ex.run("compute_grad_mean_of_points", [pts]))
  ex.define("sum_grad_var", ex.run("compute_grad_variance_of_points", [pts]))
  j = ex.run("compute_mean_variance_grad_of_points", [pts])
  for nm, v in zip(("sum_j_mean", "sum_j_var", "sum_j_grad_mean", "sum_j_grad_var"), j):
    ex.define(nm, v)
  return ex


LL_VARS = """Variable F : realFieldType.
Variable n : nat.
Variable chol : 'M[F]_n -> 'M[F]_n.
Variable sumlogdiag : 'M[F]_n -> F.
Variables (K : 'M[F]_n) (demeaned_y K_inv_demeaned_y : 'cV[F]_n) (scaling_factor : F).
"""


def ll_program(repo):
  env = {"self.gp.K_chol": Chol(M(("var", "K"), "n", "n")), "self.gp.demeaned_y": M(("var", "demeaned_y"), "n", "1"),
         "self.gp.K_inv_demeaned_y": M(("var", "K_inv_demeaned_y"), "n", "1"), "scaling_factor": S(("svar", "scaling_factor"))}
  ex = Exec(os.path.join(repo, LLPY), "GaussianProcessLogMarginalLikelihood", env, {}, {})
  ex.define("log_likelihood_value", ex.run("compute_log_likelihood"))
  return ex


def generate(ctx):
  repo = C.REPO
  parts = [HEADER]
  progs = {}
  try:
    for name, tik, zero in (("Noise", False, False), ("Nugget", True, False), ("NoiseZeroMean", False, True)):
      ex = gp_program(repo, tik, zero)
      defs = rename_later(ex.defs)
      progs[name] = (ex, defs)
      parts.append(emit_module("GP" + name, GP_VARS, defs,
                               f"gaussian_process.py GaussianProcess: tikhonov_param {'set' if tik else 'None'}, {'zero' if zero else 'polynomial'} mean"))
    exs = sum_program(repo)
    parts.append(emit_module("GPSum", SUM_VARS, exs.defs, "gaussian_process_sum.py GaussianProcessSum"))
    exl = ll_program(repo)
    parts.append(emit_module("LogLik", LL_VARS, exl.defs, "log_likelihood.py compute_log_likelihood"))
  except TranslationError as e:
    raise C.TieBroken(f"py2v matrix back-end: {e}")
  except (KeyError, IndexError, AttributeError) as e:
    raise C.TieBroken(f"py2v matrix back-end could not follow the source: {type(e).__name__}: {e}")
  C.write_if_changed(os.path.join(C.COQ, "Gen", "GenGP.v"), "\n".join(parts))
  report = selfcheck(progs, exs, exl, random.Random(f"py2vm:{ctx.seed}"))
  return report


# ------------------------------------------------------------------------------------------ numeric self-check


def _real_gp(rng, tik, zero):
  from libsigopt.compute.covariance import C4RadialMatern, SquareExponential
  from libsigopt.compute.gaussian_process import GaussianProcess
  from libsigopt.compute.misc.data_containers import HistoricalData
  dim, n = rng.randint(1, 3), rng.randint(4, 7)
  hd = HistoricalData(dim)
  pts = numpy.array([[rng.uniform(0, 1) for _ in range(dim)] for _ in range(n)])
  hd.append_historical_data(pts, numpy.array([rng.uniform(-1, 1) for _ in range(n)]), numpy.array([rng.choice([1e-3, 1e-2, 0.1]) for _ in range(n)]))
  cov = rng.choice([C4RadialMatern, SquareExponential])([rng.uniform(0.5, 2)] + [rng.uniform(0.3, 0.9) for _ in range(dim)])
  idx = None if zero else rng.choice([[[0] * dim], [[0] * dim] + [[int(a == b) for a in range(dim)] for b in range(dim)]])
  gp = GaussianProcess(cov, hd, mean_poly_indices=idx, tikhonov_param=(rng.choice([1e-3, 0.05]) if tik else None))
  xs = numpy.array([[rng.uniform(0, 1) for _ in range(dim)] for _ in range(rng.randint(1, 3))])
  return gp, xs


def close(a, b, what, tol=1e-7):
  a, b = numpy.asarray(a, dtype=float), numpy.asarray(b, dtype=float)
  if a.shape != b.shape:
    a, b = a.reshape(-1), b.reshape(-1)
  if a.shape != b.shape or not numpy.allclose(a, b, rtol=tol, atol=tol * max(1.0, float(numpy.abs(b).max()) if b.size else 1.0)):
    raise C.TieBroken(f"py2v matrix self-check failed for {what}: translated term gives {a.tolist()}, the code gives {b.tolist()}")


def selfcheck(progs, exs, exl, rng):
  from libsigopt.compute.python_utils import build_polynomial_matrix
  rep = []
  for name, (ex, defs) in progs.items():
    tik, zero = name == "Nugget", name == "NoiseZeroMean"
    for _ in range(2):
      gp, xs = _real_gp(rng, tik, zero)
      n = gp.num_sampled
      env = {"Kker": gp.covariance.build_kernel_matrix(gp.points_sampled), "noise": gp.points_sampled_noise_variance[:, None],
             "tik": gp.tikhonov_param, "y": gp.points_sampled_value[:, None], "__n__": n,
             "Pmx": build_polynomial_matrix(gp.mean_poly_indices, gp.points_sampled), "Peval": build_polynomial_matrix(gp.mean_poly_indices, xs),
             "K_eval": gp.covariance.build_kernel_matrix(gp.points_sampled, xs), "kxx": gp.covariance.covariance(xs, xs)[:, None],
             "Kss": gp.covariance.build_kernel_matrix(xs), "min_var": 1e-100, "Lsamp": numpy.eye(len(xs)), "Z": numpy.zeros((len(xs), 1))}
      for nme, v in defs:
        env[nme] = mx.ev(v.node, env)
      close(env["K_inv_y"], gp.K_inv_y, f"GP{name}.K_inv_y")
      close(env["K_inv_demeaned_y"], gp.K_inv_demeaned_y, f"GP{name}.K_inv_demeaned_y")
      close(env["demeaned_y"], gp.demeaned_y, f"GP{name}.demeaned_y")
      if not zero:
        close(env["poly_coef"], gp.poly_coef, f"GP{name}.poly_coef")
      close(env["mean"], gp.compute_mean_of_points(xs), f"GP{name}.mean")
      close(env["var_tri"], gp.compute_variance_of_points(xs), f"GP{name}.var_tri")
      close(env["var_card"], gp.compute_mean_variance_grad_of_points(xs)[1], f"GP{name}.var_card")
      close(env["cov"], gp.compute_covariance_of_points(xs), f"GP{name}.cov")
    rep.append(f"GenGP.GP{name}:selfcheck-ok")
  # sum of GPs
  from libsigopt.compute.gaussian_process_sum import GaussianProcessSum
  gp1, xs = _real_gp(rng, False, True)
  gps = [gp1]
  from libsigopt.compute.covariance import C2RadialMatern
  from libsigopt.compute.gaussian_process import GaussianProcess
  from libsigopt.compute.misc.data_containers import HistoricalData
  for _ in range(rng.randint(1, 2)):
    hd = HistoricalData(gp1.dim)
    nn = gp1.num_sampled
    hd.append_historical_data(gp1.points_sampled.copy(), numpy.array([rng.uniform(-1, 1) for _ in range(nn)]), numpy.array([rng.choice([1e-3, 1e-2]) for _ in range(nn)]))
    gps.append(GaussianProcess(C2RadialMatern([rng.uniform(0.5, 2)] + [rng.uniform(0.3, 0.9) for _ in range(gp1.dim)]), hd))
  ws = [rng.choice([rng.uniform(0.1, 0.9), rng.uniform(-0.9, -0.1), 0.0, 1e-15]) for _ in gps]   # any sign, zero, tiny
  sgp = GaussianProcessSum(gps, ws)
  env = {"__G__": len(gps), "w": ws, "mean_g": [g.compute_mean_of_points(xs)[:, None] for g in gps],
         "var_g": [g.compute_variance_of_points(xs)[:, None] for g in gps], "cov_g": [g.compute_covariance_of_points(xs) for g in gps],
         "gmean_g": [g.compute_grad_mean_of_points(xs) for g in gps], "gvar_g": [g.compute_grad_variance_of_points(xs) for g in gps]}
  for nme, v in exs.defs:
    env[nme] = mx.ev(v.node, env)
  close(env["sum_mean"], sgp.compute_mean_of_points(xs), "GPSum.sum_mean")
  close(env["sum_var"], sgp.compute_variance_of_points(xs), "GPSum.sum_var")
  close(env["sum_cov"], sgp.compute_covariance_of_points(xs), "GPSum.sum_cov")
  close(env["sum_mv_var"], sgp.compute_mean_and_variance_of_points(xs)[1], "GPSum.sum_mv_var")
  close(env["sum_mv_mean"], sgp.compute_mean_and_variance_of_points(xs)[0], "GPSum.sum_mv_mean")
  close(env["sum_grad_mean"], sgp.compute_grad_mean_of_points(xs), "GPSum.sum_grad_mean")
  close(env["sum_grad_var"], sgp.compute_grad_variance_of_points(xs), "GPSum.sum_grad_var")
  for k, nme in enumerate(("sum_j_mean", "sum_j_var", "sum_j_grad_mean", "sum_j_grad_var")):
    close(env[nme], sgp.compute_mean_variance_grad_of_points(xs)[k], "GPSum." + nme)
  rep.append("GenGP.GPSum:selfcheck-ok")
  # likelihood
  from libsigopt.compute.log_likelihood import GaussianProcessLogMarginalLikelihood
  for auto in (False, True):
    gp, xs = _real_gp(rng, False, False)
    sf = rng.choice([1.0, 0.1])
    ll = GaussianProcessLogMarginalLikelihood(gp.covariance, gp.historical_data, gp.mean_poly_indices, use_auto_noise=auto, scaling_factor=sf)
    g = ll.gp
    diag = numpy.full(g.num_sampled, g.tikhonov_param) if auto else g.points_sampled_noise_variance
    K = g.covariance.build_kernel_matrix(g.points_sampled) + numpy.diag(diag)
    env = {"K": K, "demeaned_y": g.demeaned_y[:, None], "K_inv_demeaned_y": g.K_inv_demeaned_y[:, None], "scaling_factor": sf}
    for nme, v in exl.defs:
      env[nme] = mx.ev(v.node, env)
    close(env["log_likelihood_value"], ll.compute_log_likelihood(), "LogLik.log_likelihood_value", tol=1e-8)
  rep.append("GenGP.LogLik:selfcheck-ok")
  return rep
