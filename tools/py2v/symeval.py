"""Fail-closed symbolic evaluation of whitelisted NumPy code into the scalar IR (DESIGN.md section 4).

A tensor value T(node, idx) is a scalar IR expression parameterised by the index names in idx (None = length-1 axis).
Anything not in the tables below raises TranslationError(file:line)."""
import ast
import os

from . import ir
from .ir import TranslationError


class T:
  def __init__(self, node, idx):
    self.node, self.idx = node, tuple(idx)

  def __repr__(self):
    return f"T{self.idx}"


class Obj:
  def __init__(self, fields, cls=None):
    self.fields, self.cls = dict(fields), cls


class Opaque:
  """shape tuples, dims: may only be used in assertions / raise-guards / the flat-diagonal idiom"""

  def __init__(self, what):
    self.what = what


class Empty:
  """numpy.empty(...) awaiting slice assignments that partition its last axis"""

  def __init__(self, idx):
    self.idx = tuple(idx)
    self.parts = {}  # "first" -> T (last index == 0), "rest" -> T (last index >= 1, shifted), "init" -> T, "last" -> T


class Size:
  """a declared extent (self.num_pfs, self.problem_size ...): may only bound a `for ... in range(...)` loop or shape a boolean mask"""

  def __init__(self, name):
    self.name = name


class LoopIx:
  """the variable of a `for k in range(N)` loop, as a symbolic index"""

  def __init__(self, name):
    self.name = name


class ShapeOf(Opaque):
  """x.shape of a tensor: numpy.zeros(x.shape) allocates a tensor of zeros with the same index signature"""

  def __init__(self, idx):
    Opaque.__init__(self, "shape")
    self.idx = tuple(idx)


class Mask:
  """numpy.ones(N, dtype=bool), possibly with mask[loop variable] = False"""

  def __init__(self, size):
    self.size, self.excluded = size, None


class MT(T):
  """x[mask]: a tensor whose first axis is restricted to the positions where the mask holds; only a reduction over that axis may
  consume it (the excluded position contributes the neutral element)"""

  def __init__(self, node, idx, mask):
    T.__init__(self, node, idx)
    self.mask = mask   # (axis name, loop index name)


class Sources:
  """Parsed modules of the repository with class/method lookup through base classes (by name)."""

  def __init__(self, repo, relpaths):
    self.repo, self.mods, self.classes, self.funcs, self.dataclasses = repo, {}, {}, {}, {}
    for rel in relpaths:
      path = os.path.join(repo, rel)
      tree = ast.parse(open(path).read(), filename=path)
      self.mods[rel] = tree
      for n in tree.body:
        if isinstance(n, ast.FunctionDef):
          self.funcs[n.name] = (rel, n)
        elif isinstance(n, ast.ClassDef):
          self.classes[n.name] = (rel, n)
          if any(isinstance(d, ast.Call) and getattr(d.func, "id", "") == "dataclass" or getattr(d, "id", "") == "dataclass" for d in n.decorator_list):
            self.dataclasses[n.name] = [s.target.id for s in n.body if isinstance(s, ast.AnnAssign)]

  def method(self, cls, name):
    seen = set()
    todo = [cls]
    while todo:
      c = todo.pop(0)
      if c in seen or c not in self.classes:
        continue
      seen.add(c)
      rel, node = self.classes[c]
      for s in node.body:
        if isinstance(s, ast.FunctionDef) and s.name == name:
          return rel, s
      todo += [ast.unparse(b).split(".")[-1] for b in node.bases]
    raise TranslationError(f"method {cls}.{name} not found")

  def module_constants(self, rel):
    out = {}
    for n in self.mods[rel].body:
      if isinstance(n, ast.Assign) and len(n.targets) == 1 and isinstance(n.targets[0], ast.Name) and n.targets[0].id.isupper():
        try:
          v = ast.literal_eval(n.value)
        except Exception:
          continue
        if isinstance(v, (int, float)) and not isinstance(v, bool):
          out[n.targets[0].id] = v
    return out


def bcast(a, b, where):
  la, lb = list(a.idx), list(b.idx)
  n = max(len(la), len(lb))
  la, lb = [None] * (n - len(la)) + la, [None] * (n - len(lb)) + lb
  out = []
  for x, y in zip(la, lb):
    if x is None:
      out.append(y)
    elif y is None or x == y:
      out.append(x)
    else:
      raise TranslationError(f"{where}: broadcast mismatch {a.idx} vs {b.idx}")
  return out


def as_T(v, where):
  if isinstance(v, MT):
    raise TranslationError(f"{where}: a masked selection may only be reduced over its masked axis")
  if isinstance(v, T):
    return v
  if isinstance(v, (int, float)) and not isinstance(v, bool):
    return T(ir.const(v), ())
  raise TranslationError(f"{where}: expected a tensor, got {type(v).__name__}")


UNARY = {"numpy.exp": "exp", "numpy.sqrt": "sqrt", "numpy.log": "ln", "numpy.abs": "Rabs", "numpy.fabs": "Rabs",
         "norm.cdf": "Phi", "norm.pdf": "pdf", "scipy.stats.norm.cdf": "Phi", "scipy.stats.norm.pdf": "pdf"}
BINARY = {"numpy.fmax": "Rmax", "numpy.fmin": "Rmin", "numpy.maximum": "Rmax", "numpy.minimum": "Rmin"}


class Ev:
  def __init__(self, src, rel, env, sizes, cls=None, depth=0):
    self.src, self.rel, self.env, self.sizes, self.cls, self.depth = src, rel, dict(env), sizes, cls, depth
    self.pre = []  # recorded assertions (text)
    if depth > 12:
      raise TranslationError("inlining too deep")

  def where(self, n):
    return f"{self.rel}:{getattr(n, 'lineno', '?')}"

  # ------------------------------------------------------------------ statements
  def run(self, fn, procedure=False):
    ret = self.block(fn.body)
    if ret is None:
      if procedure:
        return None
      raise TranslationError(f"{self.where(fn)}: {fn.name} has no return on this path")
    return ret[0]

  def block(self, stmts):
    for st in stmts:
      r = self.stmt(st)
      if r is not None:
        return r
    return None

  def static_test(self, test):
    """Decide a mode flag statically, or raise."""
    if isinstance(test, ast.Compare) and len(test.ops) == 1:
      op, left, right = test.ops[0], test.left, test.comparators[0]
      if isinstance(op, (ast.Is, ast.IsNot)) and isinstance(right, ast.Constant) and right.value is None:
        v = self.expr(left)
        return (v is None) == isinstance(op, ast.Is)
      if isinstance(op, (ast.In, ast.NotIn)):
        v = self.expr(left)
        opts = ast.literal_eval(right)
        if isinstance(v, str):
          return (v in opts) == isinstance(op, ast.In)
      if isinstance(op, (ast.Eq, ast.NotEq)):
        v, w = self.expr(left), self.expr(right)
        if isinstance(v, (str, int)) and isinstance(w, (str, int)):
          return (v == w) == isinstance(op, ast.Eq)
    if isinstance(test, ast.Attribute) or isinstance(test, ast.Name):
      v = self.expr(test)
      if isinstance(v, bool):
        return v
    if isinstance(test, ast.UnaryOp) and isinstance(test.op, ast.Not):
      return not self.static_test(test.operand)
    if isinstance(test, ast.BoolOp):   # short-circuit, left to right, as Python does
      want = isinstance(test.op, ast.Or)
      for v in test.values:
        if self.static_test(v) == want:
          return want
      return not want
    raise TranslationError(f"{self.where(test)}: branch condition `{ast.unparse(test)}` is not a declared mode flag")

  def only_raises(self, stmts):
    return all(isinstance(s, ast.Raise) for s in stmts)

  def stmt(self, st):
    if isinstance(st, ast.Expr) and isinstance(st.value, ast.Constant):
      return None
    if isinstance(st, ast.Expr) and isinstance(st.value, ast.Call):
      # a call used as a statement: only procedures made of assertions are accepted (e.g. verify_points_to_evaluate)
      self.procedure = True
      try:
        self.expr(st.value)
      finally:
        self.procedure = False
      return None
    if isinstance(st, ast.Assert):
      self.pre.append(ast.unparse(st.test))
      return None
    if isinstance(st, ast.Return):
      return (self.fin(self.expr(st.value), self.where(st)),)
    if isinstance(st, ast.If):
      # shape guards: if/elif chains whose bodies only raise are preconditions
      cur, guard = st, True
      while True:
        if not self.only_raises(cur.body):
          guard = False
          break
        if len(cur.orelse) == 1 and isinstance(cur.orelse[0], ast.If):
          cur = cur.orelse[0]
        elif not cur.orelse:
          break
        else:
          guard = False
          break
      if guard:
        self.pre.append("not (" + ast.unparse(st.test) + ") [raise-guard]")
        return None
      return self.block(st.body if self.static_test(st.test) else st.orelse)
    if isinstance(st, ast.Assign):
      val = self.expr(st.value)
      for tgt in st.targets:
        self.assign(tgt, val, st)
      return None
    if isinstance(st, ast.AnnAssign) and st.value is not None:
      self.assign(st.target, self.expr(st.value), st)
      return None
    if isinstance(st, ast.AugAssign):
      return self.augassign(st)
    if isinstance(st, ast.For):
      return self.for_loop(st)
    raise TranslationError(f"{self.where(st)}: statement {type(st).__name__} not supported: {ast.unparse(st)[:60]}")

  def for_loop(self, st):
    """for k in range(N): <temporaries>; acc += e(k)   ->  acc + sum_k e(k)      (acc a tensor that exists before the loop)
       for k in range(N): <temporaries>; out[k] = e(k); out[k] += f(k)  ->  out indexed by k   (out a fresh numpy.empty(N))"""
    w = self.where(st)
    if getattr(self, "loop", None) is not None:
      raise TranslationError(f"{w}: nested loops are not supported")
    if st.orelse or not isinstance(st.target, ast.Name):
      raise TranslationError(f"{w}: only `for <name> in range(<declared size>):` without else is supported")
    it = st.iter
    if not (isinstance(it, ast.Call) and ast.unparse(it.func) == "range" and len(it.args) == 1 and not it.keywords):
      raise TranslationError(f"{w}: loop over `{ast.unparse(it)}` is not range(<declared size>)")
    n = self.expr(it.args[0])
    if not isinstance(n, Size):
      raise TranslationError(f"{w}: loop bound `{ast.unparse(it.args[0])}` is not a declared size")
    name = st.target.id + "L"
    if name in self.sizes and self.sizes[name] != n.name:
      raise TranslationError(f"{w}: loop index name clash")
    self.sizes[name] = n.name
    before = set(self.env)
    self.loop = dict(name=name, size=n.name, acc={}, before=before)
    self.env[st.target.id] = LoopIx(name)
    try:
      for b in st.body:
        if self.stmt(b) is not None:
          raise TranslationError(f"{self.where(b)}: return inside a loop")
    finally:
      loop, self.loop = self.loop, None
    for k in [k for k in self.env if k not in before] + [st.target.id]:   # temporaries of the body do not survive the loop
      self.env.pop(k, None)
    for k, delta in loop["acc"].items():
      cur = self.env[k]
      self.env[k] = T(("bin", "+", cur.node, ("sum", name, n.name, delta)), cur.idx)
    return None

  def fin(self, v, where):
    if isinstance(v, Empty):
      return self.finish_empty(v, where)
    if isinstance(v, tuple):
      return tuple(self.fin(x, where) for x in v)
    return v

  def assign(self, tgt, val, st):
    if isinstance(tgt, ast.Name):
      lp = getattr(self, "loop", None)
      if lp is not None and tgt.id in lp["before"]:
        raise TranslationError(f"{self.where(st)}: a loop body may only accumulate (+=) into names that exist before the loop")
      self.env[tgt.id] = val
    elif isinstance(tgt, ast.Tuple):
      if isinstance(val, Opaque):
        for e in tgt.elts:
          self.assign(e, Opaque("dim"), st)
        return
      if not isinstance(val, tuple) or len(val) != len(tgt.elts):
        raise TranslationError(f"{self.where(st)}: tuple assignment of a non-tuple")
      for e, v in zip(tgt.elts, val):
        self.assign(e, v, st)
    elif isinstance(tgt, ast.Subscript):
      self.slice_assign(tgt, val, st)
    else:
      raise TranslationError(f"{self.where(st)}: assignment target {ast.unparse(tgt)}")

  def loop_index_of(self, sl):
    if isinstance(sl, ast.Name) and isinstance(self.env.get(sl.id), LoopIx):
      return self.env[sl.id]
    return None

  def elem_store(self, base, tgt, val, st, op):
    """out[k] = e / out[k] += e inside `for k in range(N)` on a fresh one-axis numpy.empty(N)"""
    lp = getattr(self, "loop", None)
    li = self.loop_index_of(tgt.slice)
    if lp is None or li is None or len(base.idx) != 1 or self.sizes.get(base.idx[0]) != lp["size"]:
      raise TranslationError(f"{self.where(st)}: element store `{ast.unparse(tgt)}` is not out[<loop variable>] on an array of the loop's length")
    val = as_T(self.fin(val, self.where(st)), self.where(st))
    if [i for i in val.idx if i is not None]:
      raise TranslationError(f"{self.where(st)}: element store of a non-scalar")
    node = subst = ir.subst_ix(val.node, li.name, ir.ix(base.idx[0]))
    if op is None:
      base.parts = {"elem": T(node, base.idx)}
    else:
      if set(base.parts) != {"elem"}:
        raise TranslationError(f"{self.where(st)}: `{ast.unparse(tgt)} {op}=` before the element was assigned")
      base.parts["elem"] = T(("bin", op, base.parts["elem"].node, node), base.idx)

  def slice_assign(self, tgt, val, st):
    base = self.expr(tgt.value)
    if isinstance(base, Mask):
      li = self.loop_index_of(tgt.slice)
      if li is None or val is not False or base.excluded is not None or self.sizes.get(li.name) != base.size:
        raise TranslationError(f"{self.where(st)}: only mask[<loop variable>] = False on a fresh all-true mask of the loop's length is supported")
      base.excluded = li.name
      return
    if isinstance(base, Empty) and self.loop_index_of(tgt.slice) is not None:
      self.elem_store(base, tgt, val, st, None)
      return
    if isinstance(base, T):
      self.inplace(tgt, val, st, None)
      return
    if not isinstance(base, Empty):
      raise TranslationError(f"{self.where(st)}: slice assignment into something that is not a fresh numpy.empty")
    val = as_T(val, self.where(st))
    s = ast.unparse(tgt.slice).replace(" ", "").replace("\n", "").strip("()")
    lead = ":," * (len(base.idx) - 1)
    key = {lead + "0": "first", lead + "1:": "rest", lead + ":-1": "init", lead + "-1": "last", lead + "-1:": "last1",
           "...,0": "first", "...,1:": "rest", "...,:-1": "init", "...,-1": "last", "...,-1:": "last1"}.get(s)
    if key is None:
      raise TranslationError(f"{self.where(st)}: slice [{s}] is not one of the recognised partition slices")
    base.parts[key] = val

  def inplace(self, tgt, val, st, op):
    """t[:, -1] = v   and   t[:, :-1] op= v   on an existing tensor t: piecewise in the last index."""
    if not isinstance(tgt.value, ast.Name):
      raise TranslationError(f"{self.where(st)}: in-place update of a non-variable")
    base = self.env[tgt.value.id]
    val = as_T(val, self.where(st))
    s = ast.unparse(tgt.slice).replace(" ", "").strip("()")
    lead = ":," * (len(base.idx) - 1)
    last = base.idx[-1]
    size = self.sizes.get(last)
    if size is None:
      raise TranslationError(f"{self.where(st)}: size of axis {last} unknown")
    is_last = ("ite_eq", ir.ix(last, 1), ir.ix(size))
    def align(v, want):
      got = [None] * (len(want) - len(v.idx)) + list(v.idx)
      node = v.node
      for g, w in zip(got, want):
        if g is not None and g != w:
          node = ir.subst_ix(node, g, ir.ix(w))
      return node
    if s == lead + "-1" and op is None:
      new = is_last + (align(val, base.idx[:-1]), base.node)
    elif s == lead + ":-1" and op is not None:
      vnode = align(T(val.node, val.idx), base.idx)
      new = is_last + (base.node, ("bin", op, base.node, vnode))
    else:
      raise TranslationError(f"{self.where(st)}: in-place slice [{s}] not supported")
    self.env[tgt.value.id] = T(new, base.idx)

  def finish_empty(self, e, where):
    last = e.idx[-1]
    lead = e.idx[:-1]
    p = e.parts
    def lead_node(t, expect_last):
      # bring t to index signature lead (+ last if expect_last)
      want = tuple(lead) + ((last,) if expect_last else ())
      tt = T(t.node, t.idx)
      got = [x for x in tt.idx]
      if len(got) != len(want):
        got = [None] * (len(want) - len(got)) + got
      node = tt.node
      for g, w in zip(got, want):
        if g is not None and g != w:
          # rename index g -> w
          node = ir.subst_ix(node, g, ir.ix(w))
      return node
    if set(p) == {"elem"}:
      return T(p["elem"].node, e.idx)
    if set(p) == {"first", "rest"}:
      rest = p["rest"]
      # rest's last index names the positions 1.. ; position h of the result is rest at (h - 1)
      rlast = rest.idx[-1]
      rnode = lead_node(T(rest.node, rest.idx[:-1] + (last,)), True) if rlast == last else None
      node_r = ir.subst_ix(rest.node, rlast, ir.ix(last, -1))
      for g, w in zip(rest.idx[:-1], lead):
        if g is not None and g != w:
          node_r = ir.subst_ix(node_r, g, ir.ix(w))
      return T(("ite_eq", ir.ix(last), ("ixc", 0), lead_node(p["first"], False), node_r), e.idx)
    if set(p) in ({"init", "last"}, {"init", "last1"}):
      init = p["init"]
      lst = p.get("last") or p.get("last1")
      ilast = init.idx[-1]
      node_i = ir.subst_ix(init.node, ilast, ir.ix(last)) if ilast != last else init.node
      for g, w in zip(init.idx[:-1], lead):
        if g is not None and g != w:
          node_i = ir.subst_ix(node_i, g, ir.ix(w))
      lidx = lst.idx[:-1] if "last1" in p else lst.idx
      node_l = lst.node
      for g, w in zip(([None] * (len(lead) - len(lidx)) + list(lidx)), lead):
        if g is not None and g != w:
          node_l = ir.subst_ix(node_l, g, ir.ix(w))
      size = self.sizes.get(last)
      if size is None:
        raise TranslationError(f"{where}: size of axis {last} unknown")
      # position == size-1  <->  S position == size
      return T(("ite_eq", ir.ix(last, 1), ir.ix(size), node_l, node_i), e.idx)
    raise TranslationError(f"{where}: slices {sorted(p)} do not partition the last axis")

  def augassign(self, st):
    # kernel_matrix.flat[:: nx + 1] += noise_variance   (add to the diagonal)
    t = st.target
    if (isinstance(st.op, ast.Add) and isinstance(t, ast.Subscript) and isinstance(t.value, ast.Attribute) and t.value.attr == "flat"
        and isinstance(t.slice, ast.Slice) and t.slice.lower is None and t.slice.upper is None and t.slice.step is not None
        and ast.unparse(t.slice.step).replace(" ", "") in ("nx+1", "n+1")):
      base = self.expr(t.value.value)
      add = as_T(self.expr(st.value), self.where(st))
      if not isinstance(base, T) or len(base.idx) != 2 or len(add.idx) != 1:
        raise TranslationError(f"{self.where(st)}: diagonal idiom on a non-matrix")
      a, b = base.idx
      addn = ir.subst_ix(add.node, add.idx[0], ir.ix(a)) if add.idx[0] != a else add.node
      new = T(("bin", "+", base.node, ("ite_eq", ir.ix(a), ir.ix(b), addn, ir.const(0))), base.idx)
      self.assign(t.value.value, new, st)
      return None
    if isinstance(t, ast.Subscript) and isinstance(st.op, (ast.Add, ast.Sub)) and isinstance(self.expr(t.value), Empty) and self.loop_index_of(t.slice) is not None:
      self.elem_store(self.expr(t.value), t, self.expr(st.value), st, "+" if isinstance(st.op, ast.Add) else "-")
      return None
    lp = getattr(self, "loop", None)
    if lp is not None and isinstance(t, ast.Name) and t.id in lp["before"]:
      if not isinstance(st.op, ast.Add):
        raise TranslationError(f"{self.where(st)}: a loop body may only accumulate with += into names that exist before the loop")
      cur = as_T(self.expr(t), self.where(st))
      val = as_T(self.expr(st.value), self.where(st))
      if list(bcast(cur, val, self.where(st))) != list(cur.idx):
        raise TranslationError(f"{self.where(st)}: accumulated term {val.idx} does not broadcast onto {cur.idx}")
      vnode = val.node
      got = [None] * (len(cur.idx) - len(val.idx)) + list(val.idx)
      lp["acc"][t.id] = vnode if t.id not in lp["acc"] else ("bin", "+", lp["acc"][t.id], vnode)
      return None
    if isinstance(t, ast.Subscript) and isinstance(st.op, (ast.Add, ast.Sub, ast.Mult, ast.Div)) and isinstance(self.expr(t.value), T):
      self.inplace(t, self.expr(st.value), st, {ast.Add: "+", ast.Sub: "-", ast.Mult: "*", ast.Div: "/"}[type(st.op)])
      return None
    if isinstance(t, ast.Name) and isinstance(st.op, (ast.Add, ast.Sub, ast.Mult, ast.Div)):
      cur = as_T(self.expr(t), self.where(st))
      val = as_T(self.expr(st.value), self.where(st))
      op = {ast.Add: "+", ast.Sub: "-", ast.Mult: "*", ast.Div: "/"}[type(st.op)]
      self.env[t.id] = T(("bin", op, cur.node, val.node), bcast(cur, val, self.where(st)))
      return None
    raise TranslationError(f"{self.where(st)}: augmented assignment {ast.unparse(st)[:60]}")

  # ------------------------------------------------------------------ expressions
  def expr(self, n):
    m = getattr(self, "e_" + type(n).__name__, None)
    if m is None:
      raise TranslationError(f"{self.where(n)}: expression {type(n).__name__} not supported: {ast.unparse(n)[:60]}")
    v = m(n)
    if isinstance(v, Empty) and False:
      return v
    return v

  def e_Name(self, n):
    if n.id in self.env:
      v = self.env[n.id]
      return v
    consts = self.src.module_constants(self.rel)
    if n.id in consts:
      return consts[n.id]
    raise TranslationError(f"{self.where(n)}: unknown name {n.id}")

  def e_Attribute(self, n):
    key = ast.unparse(n)
    if key in self.env:
      return self.env[key]
    if n.attr == "T":
      v = as_T(self.expr(n.value), self.where(n))
      if len(v.idx) != 2:
        raise TranslationError(f"{self.where(n)}: .T of a non-matrix")
      return T(v.node, (v.idx[1], v.idx[0]))
    if n.attr == "shape":
      v = self.expr(n.value)
      return ShapeOf(v.idx) if isinstance(v, T) and not isinstance(v, MT) else Opaque("shape")
    base = self.expr(n.value)
    if isinstance(base, Obj):
      if n.attr in base.fields:
        v = base.fields[n.attr]
        return v
      raise TranslationError(f"{self.where(n)}: attribute {key} not declared in the unit's shape spec")
    raise TranslationError(f"{self.where(n)}: unknown attribute {key}")

  def e_Constant(self, n):
    if isinstance(n.value, bool) or n.value is None or isinstance(n.value, str):
      return n.value
    if isinstance(n.value, (int, float)):
      return n.value
    raise TranslationError(f"{self.where(n)}: constant {n.value!r}")

  def e_IfExp(self, n):
    return self.expr(n.body if self.static_test(n.test) else n.orelse)

  def e_Tuple(self, n):
    return tuple(self.expr(e) for e in n.elts)

  def e_UnaryOp(self, n):
    if isinstance(n.op, ast.USub):
      v = self.expr(n.operand)
      if isinstance(v, (int, float)):
        return -v
      v = as_T(v, self.where(n))
      return T(("neg", v.node), v.idx)
    raise TranslationError(f"{self.where(n)}: unary {type(n.op).__name__}")

  def e_BinOp(self, n):
    a, b = self.expr(n.left), self.expr(n.right)
    if isinstance(n.op, ast.Pow):
      a = as_T(a, self.where(n))
      if isinstance(b, int) and 0 <= b <= 8:
        return T(("pow", a.node, b), a.idx)
      raise TranslationError(f"{self.where(n)}: exponent must be a small integer literal")
    op = {ast.Add: "+", ast.Sub: "-", ast.Mult: "*", ast.Div: "/"}.get(type(n.op))
    if op is None:
      raise TranslationError(f"{self.where(n)}: operator {type(n.op).__name__}")
    a, b = as_T(self.fin(a, self.where(n)), self.where(n)), as_T(self.fin(b, self.where(n)), self.where(n))
    b = self.rename_clash(a, b)
    return T(("bin", op, a.node, b.node), bcast(a, b, self.where(n)))

  def rename_clash(self, a, b):
    """x[:, None, :] - x[None, :, :]: the same axis name at two different positions denotes independent axes."""
    la, lb = list(a.idx), list(b.idx)
    m = max(len(la), len(lb))
    la, lb = [None] * (m - len(la)) + la, [None] * (m - len(lb)) + lb
    node, idx = b.node, list(lb)
    for p, name in enumerate(lb):
      if name is not None and la[p] is None and name in la:
        new = name + "2"
        if name in self.sizes:
          self.sizes.setdefault(new, self.sizes[name])
        node = ir.subst_ix(node, name, ir.ix(new))
        idx[p] = new
    return T(node, idx[m - len(b.idx):]) if idx != lb else b

  def e_Subscript(self, n):
    v = self.expr(n.value)
    s = ast.unparse(n.slice).replace(" ", "").strip("()")
    if isinstance(v, tuple) and s.isdigit() and int(s) < len(v):
      return v[int(s)]
    if isinstance(v, T) and not isinstance(v, MT):
      sl = n.slice
      elts = list(sl.elts) if isinstance(sl, ast.Tuple) else [sl]
      def full(e):
        return isinstance(e, ast.Slice) and e.lower is None and e.upper is None and e.step is None
      # x[k] / x[:, :, k] with k the loop variable, x[0]: one axis (the first or the last) is fixed
      if len(elts) <= len(v.idx) and sum(1 for e in elts if not full(e)) == 1:
        pos = [i for i, e in enumerate(elts) if not full(e)][0]
        e = elts[pos]
        by = None
        li = self.loop_index_of(e)
        if li is not None:
          by = ir.ix(li.name)
          if self.sizes.get(v.idx[pos]) != self.sizes.get(li.name):
            raise TranslationError(f"{self.where(n)}: loop variable indexes an axis of another length")
        elif isinstance(e, ast.Constant) and isinstance(e.value, int) and not isinstance(e.value, bool) and e.value >= 0 and len(elts) == 1:
          by = ("ixc", e.value)
        if by is not None and (pos == 0 or (pos == len(v.idx) - 1 and len(elts) == len(v.idx))) and v.idx[pos] is not None:
          return T(ir.subst_ix(v.node, v.idx[pos], by), v.idx[:pos] + v.idx[pos + 1:])
      if isinstance(sl, ast.Name) and isinstance(self.env.get(sl.id), Mask):
        m = self.env[sl.id]
        ax = v.idx[0]
        if ax is None or self.sizes.get(ax) != m.size or m.excluded is None:
          raise TranslationError(f"{self.where(n)}: boolean-mask selection on an axis of another length, or with a mask that excludes nothing")
        new = ax + "m"
        self.sizes.setdefault(new, self.sizes[ax])
        return MT(ir.subst_ix(v.node, ax, ir.ix(new)), (new,) + tuple(v.idx[1:]), (new, m.excluded))
      pats = {":,:,None": lambda i: list(i) + [None], ":,None": lambda i: list(i) + [None], "None,:": lambda i: [None] + list(i),
              ":,None,:": lambda i: [i[0], None, i[1]], "None,:,:": lambda i: [None] + list(i), ":,:": lambda i: list(i), ":": lambda i: list(i)}
      if s in pats:
        if s.count(":") != len(v.idx):
          raise TranslationError(f"{self.where(n)}: subscript [{s}] on a rank-{len(v.idx)} tensor")
        return T(v.node, pats[s](v.idx))
      lead = ":," * (len(v.idx) - 1)
      if s in (lead + "-1",):
        last = v.idx[-1]
        size = self.sizes.get(last)
        return T(ir.subst_ix(v.node, last, ir.ix(size, -1)), v.idx[:-1])
      if s in (lead + ":-1",):
        return T(v.node, v.idx)  # same index name; the consumer only uses positions < size-1 (checked by partition)
    raise TranslationError(f"{self.where(n)}: subscript [{s}] not supported")

  def kw(self, n, allowed):
    out = {}
    for k in n.keywords:
      if k.arg not in allowed:
        raise TranslationError(f"{self.where(n)}: keyword {k.arg} of {ast.unparse(n.func)} not in the translator's table")
      out[k.arg] = k.value
    return out

  def reduce(self, kind, n):
    kw = self.kw(n, {"axis"})
    a = self.expr(n.args[0])
    masked = None
    if isinstance(a, MT):
      masked, a = a.mask, T(a.node, a.idx)
    a = as_T(a, self.where(n))
    axis = ast.literal_eval(kw["axis"]) if "axis" in kw else (ast.literal_eval(n.args[1]) if len(n.args) > 1 else None)
    if axis is None and len(a.idx) == 1:
      axis = 0                          # a vector has one axis: numpy.sum(v) is the sum over it
    if axis is None:
      raise TranslationError(f"{self.where(n)}: reduction without axis")
    if axis < 0:
      axis += len(a.idx)
    name = a.idx[axis]
    if name is None or name not in self.sizes:
      raise TranslationError(f"{self.where(n)}: reduction over an axis of unknown size")
    rest = a.idx[:axis] + a.idx[axis + 1:]
    if masked is not None:
      if masked[0] != name or kind not in ("sum", "prod"):
        raise TranslationError(f"{self.where(n)}: a masked selection may only be summed / multiplied over its masked axis")
      neutral = ir.const(1 if kind == "prod" else 0)
      return T((kind, name, self.sizes[name], ("ite_eq", ir.ix(name), ir.ix(masked[1]), neutral, a.node)), rest)
    if kind == "mean":
      return T(("bin", "/", ("sum", name, self.sizes[name], a.node), ("var", "INR_" + self.sizes[name], ())), rest)
    return T((kind, name, self.sizes[name], a.node), rest)

  def e_Call(self, n):
    f = ast.unparse(n.func)
    w = self.where(n)
    if f in self.env and callable(self.env[f]):   # a call replaced by a declared input (unit stubs)
      return self.env[f](self, n)
    if f in UNARY:
      self.kw(n, set())
      a = as_T(self.expr(n.args[0]), w)
      return T(("call", UNARY[f], (a.node,)), a.idx)
    if f in BINARY:
      self.kw(n, set())
      a, b = as_T(self.expr(n.args[0]), w), as_T(self.expr(n.args[1]), w)
      return T(("call", BINARY[f], (a.node, b.node)), bcast(a, b, w))
    if f == "numpy.power":
      a, b = as_T(self.expr(n.args[0]), w), self.expr(n.args[1])
      if isinstance(b, int) and 0 <= b <= 8:
        return T(("pow", a.node, b), a.idx)
      raise TranslationError(f"{w}: numpy.power exponent")
    if f == "numpy.sum":
      return self.reduce("sum", n)
    if f in ("numpy.prod",):
      return self.reduce("prod", n)
    if f == "numpy.mean":
      return self.reduce("mean", n)
    if f == "numpy.amax":
      return self.reduce("maxover", n)
    if f == "numpy.dot":
      self.kw(n, set())
      a, b = as_T(self.expr(n.args[0]), w), as_T(self.expr(n.args[1]), w)
      if len(a.idx) == 2 and len(b.idx) == 2 and a.idx[1] == b.idx[0] and a.idx[1] in self.sizes:
        k = a.idx[1]
        return T(("sum", k, self.sizes[k], ("bin", "*", a.node, b.node)), (a.idx[0], b.idx[1]))
      if len(a.idx) == 2 and len(b.idx) == 1 and a.idx[1] in self.sizes:
        k = a.idx[1]
        bn = ir.subst_ix(b.node, b.idx[0], ir.ix(k)) if b.idx[0] != k else b.node
        return T(("sum", k, self.sizes[k], ("bin", "*", a.node, bn)), (a.idx[0],))
      if len(a.idx) == 1 and len(b.idx) == 1 and a.idx[0] in self.sizes and self.sizes.get(b.idx[0]) == self.sizes[a.idx[0]]:
        k = a.idx[0]
        bn = ir.subst_ix(b.node, b.idx[0], ir.ix(k)) if b.idx[0] != k else b.node
        return T(("sum", k, self.sizes[k], ("bin", "*", a.node, bn)), ())
      raise TranslationError(f"{w}: numpy.dot of {a.idx} and {b.idx}")
    if f == "numpy.trace":
      self.kw(n, set())
      a = as_T(self.expr(n.args[0]), w)
      if len(n.args) != 1 or len(a.idx) != 2 or None in a.idx or a.idx[0] not in self.sizes or self.sizes.get(a.idx[1]) != self.sizes[a.idx[0]]:
        raise TranslationError(f"{w}: numpy.trace of {a.idx}")
      r, c = a.idx
      return T(("sum", r, self.sizes[r], ir.subst_ix(a.node, c, ir.ix(r))), ())
    if f == "numpy.ones":
      kw = self.kw(n, {"dtype"})
      size = self.expr(n.args[0]) if len(n.args) == 1 else None
      if not isinstance(size, Size) or "dtype" not in kw or ast.unparse(kw["dtype"]) != "bool":
        raise TranslationError(f"{w}: only numpy.ones(<declared size>, dtype=bool) is in the table")
      return Mask(size.name)
    if f == "numpy.zeros":
      self.kw(n, set())
      shp = self.expr(n.args[0]) if len(n.args) == 1 else None
      if not isinstance(shp, ShapeOf) or None in shp.idx:
        raise TranslationError(f"{w}: only numpy.zeros(<tensor>.shape) is in the table")
      return T(ir.const(0), shp.idx)
    if f == "numpy.einsum":
      self.kw(n, set())
      spec = ast.literal_eval(n.args[0]).replace(" ", "")
      if spec != "ijk,j":
        raise TranslationError(f"{w}: einsum pattern {spec!r} not in the table")
      a, b = as_T(self.expr(n.args[1]), w), as_T(self.expr(n.args[2]), w)
      if len(a.idx) != 3 or len(b.idx) != 1 or a.idx[1] not in self.sizes:
        raise TranslationError(f"{w}: einsum 'ijk, j' on {a.idx} and {b.idx}")
      k = a.idx[1]
      bn = ir.subst_ix(b.node, b.idx[0], ir.ix(k)) if b.idx[0] != k else b.node
      return T(("sum", k, self.sizes[k], ("bin", "*", a.node, bn)), (a.idx[0], a.idx[2]))
    if f == "numpy.copy":
      return self.expr(n.args[0])
    if f == "numpy.array" and len(n.args) == 1 and isinstance(n.args[0], ast.Constant) and not n.keywords:
      return self.expr(n.args[0])
    if f == "squareform" and isinstance(n.args[0], ast.Call) and ast.unparse(n.args[0].func) == "pdist":
      inner = n.args[0]
      if len(inner.args) != 2 or ast.literal_eval(inner.args[1]) != "sqeuclidean" or inner.keywords or n.keywords:
        raise TranslationError(f"{w}: only squareform(pdist(a, 'sqeuclidean')) is in the table")
      a = as_T(self.expr(inner.args[0]), w)
      if len(a.idx) != 2 or a.idx[1] not in self.sizes:
        raise TranslationError(f"{w}: pdist of {a.idx}")
      r, k = a.idx
      r2 = r + "2"
      if r in self.sizes:
        self.sizes.setdefault(r2, self.sizes[r])
      d = ("bin", "-", a.node, ir.subst_ix(a.node, r, ir.ix(r2)))
      return T(("sum", k, self.sizes[k], ("pow", d, 2)), (r, r2))
    if f == "numpy.empty":
      key = "empty:" + str(n.lineno)
      shp = self.env.get("__empty__", {}).get(ast.unparse(n.args[0]).replace(" ", ""))
      if shp is None:
        raise TranslationError(f"{w}: numpy.empty({ast.unparse(n.args[0])}) has no declared index signature")
      return Empty(shp)
    if f == "len":
      return Opaque("len")
    if f in self.src.dataclasses:
      names = self.src.dataclasses[f]
      vals = [self.expr(a) for a in n.args]
      fields = dict(zip(names, vals))
      for k in n.keywords:
        fields[k.arg] = self.expr(k.value)
      return Obj(fields, f)
    # inlined calls: module-level helper or method on self / on a declared object
    if isinstance(n.func, ast.Name) and f in self.src.funcs:
      rel, fn = self.src.funcs[f]
      return self.inline(rel, fn, None, None, n)
    if isinstance(n.func, ast.Attribute):
      recv = self.expr(n.func.value)
      if isinstance(recv, Obj) and callable(recv.fields.get(n.func.attr)):
        return recv.fields[n.func.attr](self, n)
      if isinstance(recv, Obj) and recv.cls:
        key = ast.unparse(n.func)
        if key in self.env and callable(self.env[key]):
          return self.env[key](self, n)
        rel, fn = self.src.method(recv.cls, n.func.attr)
        return self.inline(rel, fn, recv, recv.cls, n)
    raise TranslationError(f"{w}: call {f} not in the translator's table")

  def inline(self, rel, fn, selfobj, cls, n):
    params = [a.arg for a in fn.args.args]
    env = {}
    if params and params[0] == "self":
      env["self"] = selfobj
      params = params[1:]
    defaults = fn.args.defaults
    dvals = {p.arg: self.expr(d) if isinstance(d, ast.Constant) else None for p, d in zip(fn.args.args[len(fn.args.args) - len(defaults):], defaults)}
    args = [self.expr(a) for a in n.args]
    for p, v in zip(params, args):
      env[p] = v
    for k in n.keywords:
      env[k.arg] = self.expr(k.value)
    for p in params:
      if p not in env:
        if p in dvals:
          env[p] = dvals[p]
        else:
          raise TranslationError(f"{self.where(n)}: missing argument {p} for {fn.name}")
    if "__empty__" in self.env:
      env["__empty__"] = self.env["__empty__"]
    sub = Ev(self.src, rel, env, self.sizes, cls, self.depth + 1)
    out = sub.run(fn, procedure=getattr(self, "procedure", False))
    self.pre += sub.pre
    return out


def finish(ev, v, where="result"):
  if isinstance(v, Empty):
    return ev.finish_empty(v, where)
  return v
