"""Translation units for predictor core components, expected improvement and its penalties, success-probability models,
the cost-scaled multitask acquisition function and the Parzen-estimator ratio (GenAcq.v)."""
import numpy

from .ir import TranslationError

from .core import Unit

PRED = "libsigopt/compute/predictor.py"
EI = "libsigopt/compute/expected_improvement.py"
PF = "libsigopt/compute/probabilistic_failures.py"
MAF = "libsigopt/compute/multitask_acquisition_function.py"
SPE = "libsigopt/compute/sigopt_parzen_estimator.py"
ACQ = "libsigopt/compute/acquisition_function.py"
GPY = "libsigopt/compute/gaussian_process.py"
LLY = "libsigopt/compute/log_likelihood.py"
EXTRA = [PRED, EI, PF, MAF, SPE, ACQ, GPY, LLY]

MV = ("stub", [("mean", ["i"]), ("var", ["i"])])
MVG = ("stub", [("mean", ["i"]), ("var", ["i"]), ("gmean", ["i", "k"]), ("gvar", ["i", "k"])])
PREDICTOR = ("obj", {"compute_mean_and_variance_of_points": MV, "compute_mean_variance_grad_of_points": MVG}, None)
X = ("x", ["i", "k"])
CORE = ("obj", {"mean": ("mean", ["i"]), "var": ("var", ["i"]), "z": ("z", ["i"]), "sqrt_var": ("sv", ["i"]), "cdf_z": ("cdf", ["i"]),
                "pdf_z": ("pdfz", ["i"]), "grad_mean": ("gmean", ["i", "k"]), "grad_var": ("gvar", ["i", "k"]),
                "grad_sqrt_var": ("gsv", ["i", "k"])}, "PredictorCoreComponents")
PEN = ("obj", {"penalty": ("pen", ["i"]), "grad_penalty": ("gpen", ["i", "k"])}, "PenaltyComponents")


class _GP:
  """a tiny real GP used by the self-check drivers"""

  def __init__(self, rng, dim=None, n=None, mean=False):
    from libsigopt.compute.covariance import C4RadialMatern, SquareExponential
    from libsigopt.compute.gaussian_process import GaussianProcess
    from libsigopt.compute.misc.data_containers import HistoricalData
    self.dim = dim or rng.randint(1, 3)
    n = n or rng.randint(3, 6)
    hd = HistoricalData(self.dim)
    pts = numpy.array([[rng.uniform(0, 1) for _ in range(self.dim)] for _ in range(n)])
    vals = numpy.array([rng.uniform(-1, 1) for _ in range(n)])
    hd.append_historical_data(pts, vals, numpy.array([rng.choice([1e-4, 1e-2]) for _ in range(n)]))
    cls = rng.choice([C4RadialMatern, SquareExponential])
    idx = None
    if mean:
      idx = rng.choice([[[0] * self.dim], [[0] * self.dim] + [[int(a == b) for a in range(self.dim)] for b in range(self.dim)]])
    self.gp = GaussianProcess(cls([rng.uniform(0.5, 2)] + [rng.uniform(0.2, 0.8) for _ in range(self.dim)]), hd, mean_poly_indices=idx)
    self.x = numpy.array([[rng.uniform(0, 1) for _ in range(self.dim)] for _ in range(rng.randint(1, 3))])

  def env(self):
    m, v, gm, gv = self.gp.compute_mean_variance_grad_of_points(self.x)
    return dict(x=self.x, mean=m, var=v, gmean=gm, gvar=gv)


def drv_core(option):
  def d(rng):
    from libsigopt.compute.expected_improvement import ExpectedImprovement
    g = _GP(rng)
    af = ExpectedImprovement(g.gp)
    cc = af.compute_core_components(g.x, option)
    env = g.env()
    env["best"] = af.best_value
    outs = [cc.mean, cc.var, cc.z, cc.sqrt_var, cc.cdf_z, cc.pdf_z]
    if option != "func":
      outs += [cc.grad_mean, cc.grad_var, cc.grad_sqrt_var]
    return env, dict(dim=g.dim), outs
  return d


def _cc_env(cc):
  return dict(mean=cc.mean, var=cc.var, z=cc.z, sv=cc.sqrt_var, cdf=cc.cdf_z, pdfz=cc.pdf_z, gmean=cc.grad_mean, gvar=cc.grad_var, gsv=cc.grad_sqrt_var)


def drv_ei(which):
  def d(rng):
    from libsigopt.compute.expected_improvement import AugmentedExpectedImprovement, ExpectedImprovement
    g = _GP(rng)
    if which.startswith("aei"):
      af = AugmentedExpectedImprovement(g.gp)
    else:
      af = ExpectedImprovement(g.gp)
    cc = af.compute_core_components(g.x, "both")
    env = _cc_env(cc)
    env.update(g.env())
    env["best"] = af.best_value
    if which == "norm":
      return env, dict(dim=g.dim), [af._evaluate_at_point_list_normalized(cc)]
    if which == "norm_grad":
      return env, dict(dim=g.dim), [af._evaluate_grad_at_point_list_normalized(cc)]
    if which == "full":
      return env, dict(dim=g.dim), [af._evaluate_at_point_list(g.x)]
    if which == "full_grad":
      return env, dict(dim=g.dim), [af._evaluate_grad_at_point_list(g.x)]
    if which == "aei_penalty":
      env["nu"] = af.noise_variance
      pc = af._evaluate_penalty(cc, "both")
      return env, dict(dim=g.dim), [pc.penalty, pc.grad_penalty]
    pen = numpy.array([rng.uniform(0, 1) for _ in range(len(g.x))])
    gpen = numpy.array([[rng.uniform(-1, 1) for _ in range(g.dim)] for _ in range(len(g.x))])
    env.update(pen=pen, gpen=gpen)
    from libsigopt.compute.expected_improvement import ExpectedImprovementWithPenalty, PenaltyComponents
    pc = PenaltyComponents(pen, gpen)
    f = ExpectedImprovementWithPenalty._evaluate_at_point_list_penalty if which == "pen" else ExpectedImprovementWithPenalty._evaluate_grad_at_point_list_penalty
    return env, dict(dim=g.dim), [f(af, cc, pc)]
  return d


def drv_pf(cls, which):
  def d(rng):
    import libsigopt.compute.probabilistic_failures as pfm
    g = _GP(rng)
    thr = rng.uniform(-0.5, 0.5)
    pf = getattr(pfm, cls)(g.gp, thr)
    env = g.env()
    env.update(thr=thr, best=thr)
    if cls == "ProbabilisticFailures":
      env["kappa"] = pf.kappa
    out = pf.compute_probability_of_success(g.x) if which == "value" else pf.compute_grad_probability_of_success(g.x)
    return env, dict(dim=g.dim), [out]
  return d


def drv_prod(rng):
  nq, n = rng.randint(1, 4), rng.randint(1, 3)
  poss = numpy.array([[rng.uniform(0, 1) for _ in range(n)] for _ in range(nq)])
  from libsigopt.compute.probabilistic_failures import FailureListProductComponents, ProductOfListOfProbabilisticFailures
  out = ProductOfListOfProbabilisticFailures._compute_probability_of_success(None, FailureListProductComponents(poss, None))
  return dict(poss=poss), dict(nq=nq), [out]


class _Under:
  differentiable = True

  def __init__(self, af, g, dim):
    self.af, self.g, self.dim, self.predictor = af, g, dim, None

  def _evaluate_at_point_list(self, p):
    return self.af.copy()

  def joint_function_gradient_eval(self, p):
    return self.af.copy(), self.g.copy()


def drv_maf(which):
  def d(rng):
    from libsigopt.compute.multitask_acquisition_function import MultitaskAcquisitionFunction
    dimp1, n = rng.randint(2, 4), rng.randint(1, 3)
    x = numpy.array([[rng.uniform(0.1, 1) for _ in range(dimp1)] for _ in range(n)])
    af = numpy.array([rng.uniform(0, 2) for _ in range(n)])
    g = numpy.array([[rng.uniform(-1, 1) for _ in range(dimp1)] for _ in range(n)])
    m = MultitaskAcquisitionFunction.__new__(MultitaskAcquisitionFunction)
    m.underlying = _Under(af, g, dimp1)
    if which == "value":
      return dict(x=x, af=af, g=g), dict(dimp1=dimp1), [m._evaluate_at_point_list(x)]
    v, gr = m.joint_function_gradient_eval(x)
    return dict(x=x, af=af, g=g), dict(dimp1=dimp1), [v, gr]
  return d


def drv_spe(which):
  def d(rng):
    from libsigopt.compute.covariance import C2RadialMatern, SquareExponential
    from libsigopt.compute.sigopt_parzen_estimator import SigOptParzenEstimator
    dim, n = rng.randint(1, 3), rng.randint(10, 14)
    pts = numpy.array([[rng.uniform(0, 1) for _ in range(dim)] for _ in range(n)])
    vals = numpy.array([rng.uniform(-1, 1) for _ in range(n)])
    kl = SquareExponential([1.0] + [rng.uniform(0.2, 0.6) for _ in range(dim)])
    kg = C2RadialMatern([1.0] + [rng.uniform(0.2, 0.6) for _ in range(dim)])
    gamma = rng.choice([0.25, 0.3, 0.5])
    spe = SigOptParzenEstimator(lower_covariance=kl, greater_covariance=kg, points_sampled_points=pts, points_sampled_values=vals, gamma=gamma)
    x = numpy.array([[rng.uniform(0, 1) for _ in range(dim)] for _ in range(rng.randint(1, 3))])
    env = dict(Kl=kl.build_kernel_matrix(spe.lower_points, x), Kg=kg.build_kernel_matrix(spe.greater_points, x),
               Gl=kl.build_kernel_grad_tensor(spe.lower_points, x), Gg=kg.build_kernel_grad_tensor(spe.greater_points, x), gamma=gamma, x=x)
    sizes = dict(nl=len(spe.lower_points), ng=len(spe.greater_points), dim=dim)
    if which == "value":
      return env, sizes, list(spe.evaluate_expected_improvement(x))
    return env, sizes, [spe.evaluate_grad_expected_improvement(x)]
  return d


def drv_prod_grad(rng):
  nq, n, dim = rng.choice([1, 2, 2, 3, 4]), rng.randint(1, 3), rng.randint(1, 3)
  poss = numpy.array([[rng.uniform(0, 1) for _ in range(n)] for _ in range(nq)])
  if nq >= 2:   # hand-written IR: the self-check is the only tie, so it always includes the corners of [0, 1] (a factor exactly 0 or 1)
    poss[rng.randrange(nq)][rng.randrange(n)] = 0.0
    poss[rng.randrange(nq)][rng.randrange(n)] = rng.choice([0.0, 1.0])
  gposs = numpy.array([[[rng.uniform(-1, 1) for _ in range(dim)] for _ in range(n)] for _ in range(nq)])
  from libsigopt.compute.probabilistic_failures import FailureListProductComponents, ProductOfListOfProbabilisticFailures

  class _P:
    num_pfs = nq
  out = ProductOfListOfProbabilisticFailures._compute_grad_probability_of_success(_P(), FailureListProductComponents(poss, gposs))
  return dict(poss=poss, gposs=gposs), dict(nq=nq, dim=dim), [out]


def _prod_grad_ir():
  from . import ir
  from .symeval import T
  q, q2, i, k = ir.ix("q"), ir.ix("q2"), ir.ix("i"), ir.ix("k")
  others = ("prod", "q2", "nq", ("ite_eq", q2, q, ir.const(1), ("var", "poss", (q2, i))))
  body = ("bin", "*", ("var", "gposs", (q, i, k)), others)
  return [("", T(("sum", "q", "nq", body), ("i", "k")))]


def drv_gpgrad(which):
  def d(rng):
    g = _GP(rng, n=rng.randint(4, 6), mean=True)
    gp, x = g.gp, g.x
    from libsigopt.compute.python_utils import build_grad_polynomial_tensor, build_polynomial_matrix
    pcc = gp._compute_core_posterior_components(x, "all")
    env = dict(Ke=pcc.K_eval, gK=pcc.grad_K_eval, card=pcc.cardinal_functions_at_points_to_sample, a=gp.K_inv_demeaned_y,
               b=gp.poly_coef, P=build_polynomial_matrix(gp.mean_poly_indices, x), gP=build_grad_polynomial_tensor(gp.mean_poly_indices, x),
               kxx=gp.covariance.covariance(x, x))
    sizes = dict(n=gp.num_sampled, dim=g.dim, np=len(gp.poly_coef))
    if which == "mean":
      return env, sizes, [gp._compute_mean_of_points(x, pcc.K_eval)]
    if which == "grad_mean":
      return env, sizes, [gp._compute_grad_mean_of_points(x, pcc.grad_K_eval)]
    if which == "var":
      return env, sizes, [gp._compute_variance_of_points(x, pcc.K_eval, pcc.cardinal_functions_at_points_to_sample)]
    return env, sizes, [gp._compute_grad_variance_of_points(pcc.grad_K_eval, pcc.cardinal_functions_at_points_to_sample)]
  return d


def drv_llgrad(rng):
  from libsigopt.compute.log_likelihood import GaussianProcessLogMarginalLikelihood
  g = _GP(rng)
  gp = g.gp
  log_domain, sf = rng.random() < 0.5, rng.choice([1.0, 0.25])
  ll = GaussianProcessLogMarginalLikelihood(gp.covariance, gp.historical_data, gp.mean_poly_indices, log_domain=log_domain, scaling_factor=sf)
  dK = ll.covariance.build_kernel_hparam_grad_tensor(ll.gp.points_sampled)
  n = ll.gp.num_sampled
  K = ll.covariance.build_kernel_matrix(ll.gp.points_sampled, noise_variance=ll.gp.points_sampled_noise_variance)
  env = dict(dK=dK, a=ll.gp.K_inv_demeaned_y, Kinv=numpy.linalg.inv(K), s=sf,
             logscale=(numpy.exp(ll.hyperparameters) if log_domain else numpy.ones(ll.num_hyperparameters)))
  return env, dict(n=n, nh=ll.num_hyperparameters), [ll.compute_grad_log_likelihood()]


def drv_llgrad_mode(log_domain):
  def d(rng):
    from libsigopt.compute.log_likelihood import GaussianProcessLogMarginalLikelihood
    g = _GP(rng, n=rng.randint(5, 6), mean=True)   # at most dim + 1 <= 4 polynomial terms: more points than terms
    gp = g.gp
    sf = rng.choice([1.0, 0.25])
    ll = GaussianProcessLogMarginalLikelihood(gp.covariance, gp.historical_data, gp.mean_poly_indices, log_domain=log_domain, scaling_factor=sf)
    dK = ll.covariance.build_kernel_hparam_grad_tensor(ll.gp.points_sampled)
    K = ll.covariance.build_kernel_matrix(ll.gp.points_sampled, noise_variance=ll.gp.points_sampled_noise_variance)
    env = dict(dK=dK, a=ll.gp.K_inv_demeaned_y, Kinv=numpy.linalg.inv(K), s=sf, hyp=numpy.array(ll.hyperparameters, dtype=float))
    return env, dict(n=ll.gp.num_sampled, nh=ll.num_hyperparameters), [ll.compute_grad_log_likelihood()]
  return d


def _llgrad_ir():
  from . import ir
  from .symeval import T
  j, l, h = ir.ix("j"), ir.ix("l"), ir.ix("h")
  quad = ("sum", "j", "n", ("sum", "l", "n", ("bin", "*", ("bin", "*", ("var", "a", (j,)), ("var", "dK", (j, l, h))), ("var", "a", (l,)))))
  tr = ("sum", "j", "n", ("sum", "l", "n", ("bin", "*", ("var", "Kinv", (j, l)), ("var", "dK", (l, j, h)))))
  body = ("bin", "*", ("bin", "*", ("neg", ("var", "s", ())), ("bin", "+", ("neg", quad), tr)), ("var", "logscale", (h,)))
  return [("", T(body, ("h",)))]


def units():
  us = []
  gpa = {"K_inv_demeaned_y": ("a", ["j"]), "poly_coef": ("b", ["c"]), "mean_poly_indices": None,
         "covariance": ("obj", {"translation_invariant": True, "covariance": ("stub", ("kxx", ["i"]))}, None)}
  gsz = {"j": "n", "k": "dim", "c": "np"}
  us.append(Unit("GenAcq", "GPScalar", "mean", GPY, "_compute_mean_of_points", "GaussianProcess",
                 inputs={"points_to_sample": X, "K_eval": ("Ke", ["i", "j"])}, selfattrs=gpa, sizes=gsz,
                 stubs={"build_polynomial_matrix": ("stub", ("P", ["i", "c"]))}, out_idx=["i"], driver=drv_gpgrad("mean"),
                 note="scalar form of the posterior mean (the matrix form is in GenGP)"))
  us.append(Unit("GenAcq", "GPScalar", "grad_mean", GPY, "_compute_grad_mean_of_points", "GaussianProcess",
                 inputs={"points_to_sample": X, "grad_K_eval": ("gK", ["i", "j", "k"])}, selfattrs=gpa, sizes=gsz,
                 stubs={"build_grad_polynomial_tensor": ("stub", ("gP", ["i", "c", "k"]))}, out_idx=["i", "k"], driver=drv_gpgrad("grad_mean")))
  us.append(Unit("GenAcq", "GPScalar", "var", GPY, "_compute_variance_of_points", "GaussianProcess",
                 inputs={"points_to_sample": X, "K_eval": ("Ke", ["i", "j"]), "cardinal_functions_at_points_to_sample": ("card", ["i", "j"])},
                 selfattrs=gpa, sizes=gsz, out_idx=["i"], driver=drv_gpgrad("var"), note="cardinal-function branch"))
  us.append(Unit("GenAcq", "GPScalar", "grad_var", GPY, "_compute_grad_variance_of_points", "GaussianProcess",
                 inputs={"grad_K_eval": ("gK", ["i", "j", "k"]), "cardinal_functions_at_points_to_sample": ("card", ["i", "j"])},
                 selfattrs=gpa, sizes=gsz, out_idx=["i", "k"], driver=drv_gpgrad("grad_var")))
  us.append(Unit("GenAcq", "LogLikGrad", "grad", LLY, "compute_grad_log_likelihood", "GaussianProcessLogMarginalLikelihood",
                 inputs={"a": ("a", ["j"]), "dK": ("dK", ["j", "l", "h"]), "Kinv": ("Kinv", ["j", "l"]), "s": ("s", []), "logscale": ("logscale", ["h"])},
                 sizes={"j": "n", "h": "nh"}, hand=_llgrad_ir(), driver=drv_llgrad,
                 note="HAND-WRITTEN IR of the per-hyperparameter loop: -s * (-(a' dK_h a) + tr(K^-1 dK_h)) * log_scaling_h, without the non-zero-mean correction (INCLUDE_NONZERO_MEAN_GRADIENT_CORRECTION = False); tied by self-check"))
  hp = {"predictor": PREDICTOR, "best_value": ("best", [])}
  us.append(Unit("GenAcq", "Core", "func", PRED, "compute_core_components", "HasPredictor", inputs={"points_to_evaluate": X, "option": "func"},
                 selfattrs=hp, sizes={"k": "dim"}, outs=[None, "mean", "var", "z", "sqrt_var", "cdf_z", "pdf_z", None, None, None],
                 driver=drv_core("func"), note='option = "func", best_value set'))
  us.append(Unit("GenAcq", "Core", "grad", PRED, "compute_core_components", "HasPredictor", inputs={"points_to_evaluate": X, "option": "grad"},
                 selfattrs=hp, sizes={"k": "dim"},
                 outs=[None, "mean", "var", "z", "sqrt_var", "cdf_z", "pdf_z", "grad_mean", "grad_var", "grad_sqrt_var"],
                 driver=drv_core("grad"), note='option = "grad", best_value set'))
  us.append(Unit("GenAcq", "EI", "normalized", EI, "_evaluate_at_point_list_normalized", "ExpectedImprovement", inputs={"core_components": CORE},
                 sizes={"k": "dim"}, out_idx=["i"], driver=drv_ei("norm")))
  us.append(Unit("GenAcq", "EI", "grad_normalized", EI, "_evaluate_grad_at_point_list_normalized", "ExpectedImprovement",
                 inputs={"core_components": CORE}, sizes={"k": "dim"}, out_idx=["i", "k"], driver=drv_ei("norm_grad")))
  us.append(Unit("GenAcq", "EI", "value", EI, "_evaluate_at_point_list", "ExpectedImprovement", inputs={"points_to_evaluate": X}, selfattrs=hp,
                 sizes={"k": "dim"}, out_idx=["i"], driver=drv_ei("full"), note="the public value: core components composed with the normalised form"))
  us.append(Unit("GenAcq", "EI", "grad", EI, "_evaluate_grad_at_point_list", "ExpectedImprovement", inputs={"points_to_evaluate": X}, selfattrs=hp,
                 sizes={"k": "dim"}, out_idx=["i", "k"], driver=drv_ei("full_grad")))
  us.append(Unit("GenAcq", "EIP", "value_penalty", EI, "_evaluate_at_point_list_penalty", "ExpectedImprovementWithPenalty",
                 inputs={"core_components": CORE, "penalty_components": PEN}, sizes={"k": "dim"}, out_idx=["i"], driver=drv_ei("pen")))
  us.append(Unit("GenAcq", "EIP", "grad_penalty", EI, "_evaluate_grad_at_point_list_penalty", "ExpectedImprovementWithPenalty",
                 inputs={"core_components": CORE, "penalty_components": PEN}, sizes={"k": "dim"}, out_idx=["i", "k"], driver=drv_ei("pen_grad")))
  us.append(Unit("GenAcq", "AEI", "penalty", EI, "_evaluate_penalty", "AugmentedExpectedImprovement", inputs={"core_components": CORE, "option": "both"},
                 selfattrs={"noise_variance": ("nu", [])}, sizes={"k": "dim"}, outs=["value", "grad"], driver=drv_ei("aei_penalty")))
  lg = {"predictor": PREDICTOR, "best_value": None, "kappa": ("kappa", []), "threshold": ("thr", [])}
  us.append(Unit("GenAcq", "Logistic", "value", PF, "compute_probability_of_success", "ProbabilisticFailures", inputs={"points_to_evaluate": X},
                 selfattrs=lg, sizes={"k": "dim"}, out_idx=["i"], driver=drv_pf("ProbabilisticFailures", "value")))
  us.append(Unit("GenAcq", "Logistic", "grad", PF, "compute_grad_probability_of_success", "ProbabilisticFailures", inputs={"points_to_evaluate": X},
                 selfattrs=lg, sizes={"k": "dim"}, out_idx=["i", "k"], driver=drv_pf("ProbabilisticFailures", "grad")))
  cd = {"predictor": PREDICTOR, "best_value": ("best", []), "threshold": ("best", [])}
  us.append(Unit("GenAcq", "CDF", "value", PF, "compute_probability_of_success", "ProbabilisticFailuresCDF", inputs={"points_to_evaluate": X},
                 selfattrs=cd, sizes={"k": "dim"}, out_idx=["i"], driver=drv_pf("ProbabilisticFailuresCDF", "value")))
  us.append(Unit("GenAcq", "CDF", "grad", PF, "compute_grad_probability_of_success", "ProbabilisticFailuresCDF", inputs={"points_to_evaluate": X},
                 selfattrs=cd, sizes={"k": "dim"}, out_idx=["i", "k"], driver=drv_pf("ProbabilisticFailuresCDF", "grad")))
  us.append(Unit("GenAcq", "Product", "value", PF, "_compute_probability_of_success", "ProductOfListOfProbabilisticFailures",
                 inputs={"failure_components": ("obj", {"poss": ("poss", ["q", "i"])}, "FailureListProductComponents")}, sizes={"q": "nq"},
                 out_idx=["i"], driver=drv_prod))
  us.append(Unit("GenAcq", "Product", "grad", PF, "_compute_grad_probability_of_success", "ProductOfListOfProbabilisticFailures",
                 inputs={"p": ("poss", ["q", "i"]), "g": ("gposs", ["q", "i", "k"])}, sizes={"q": "nq", "k": "dim"}, hand=_prod_grad_ir(),
                 driver=drv_prod_grad, note="HAND-WRITTEN IR of the masked-product loop (sum_q grad_q * prod_{q' != q} pos_q'); tied by self-check"))
  # the same two loops TRANSLATED from the source (range loops, boolean masks, per-element stores); Proofs/HandIR.v proves the
  # hand-written IR above equal to them, so the hand IR is tied to the code by the translator plus a Coq proof, not only numerically
  us.append(Unit("GenAcq", "Product", "grad_loop", PF, "_compute_grad_probability_of_success", "ProductOfListOfProbabilisticFailures",
                 inputs={"failure_components": ("obj", {"poss": ("poss", ["q", "i"]), "grad_poss": ("gposs", ["q", "i", "k"])},
                                                "FailureListProductComponents")},
                 selfattrs={"num_pfs": ("size", "nq")}, sizes={"q": "nq", "k": "dim"}, out_idx=["i", "k"], driver=drv_prod_grad,
                 note="translated masked-product loop"))
  def cho_solve_stub(ev, n):
    # scipy.linalg.cho_solve(K_chol, B, overwrite_b=...) with K_chol the factor of K: K^-1 B, K^-1 a declared input (C02: exact-arithmetic
    # meaning of a successful factor-and-solve)
    import ast as _ast
    from . import ir as _ir
    from .symeval import T as _T, as_T as _as_T
    ev.kw(n, {"overwrite_b"})
    if len(n.args) != 2 or _ast.unparse(n.args[0]) != "K_chol":
      raise TranslationError(f"{ev.where(n)}: cho_solve on something other than K_chol")
    b = _as_T(ev.expr(n.args[1]), ev.where(n))
    if len(b.idx) != 2 or ev.sizes.get(b.idx[0]) != "n":
      raise TranslationError(f"{ev.where(n)}: cho_solve right-hand side {b.idx}")
    r, c = b.idx
    m = r + "s"
    ev.sizes.setdefault(m, "n")
    return _T(("sum", m, "n", ("bin", "*", ("var", "Kinv", (_ir.ix(r), _ir.ix(m))), _ir.subst_ix(b.node, r, _ir.ix(m)))), (r, c))
  for nm, logdom in (("grad_linear", False), ("grad_logdom", True)):
    gpo = ("obj", {"K_inv_demeaned_y": ("a", ["j"]), "K_chol": "K_chol", "has_zero_mean": False, "points_sampled": None,
                   "num_sampled": ("size", "n"), "P": None, "K_inv_P": None, "PKP_chol": None}, None)
    cvo = ("obj", {"build_kernel_hparam_grad_tensor": ("stub", ("dK", ["j", "l", "h"]))}, None)
    us.append(Unit("GenAcq", "LogLikGrad", nm, LLY, "compute_grad_log_likelihood", "GaussianProcessLogMarginalLikelihood",
                   selfattrs={"gp": gpo, "covariance": cvo, "use_auto_noise": False, "log_domain": logdom, "scaling_factor": ("s", []),
                              "num_hyperparameters": ("size", "nh"), "problem_size": ("size", "nh"), "hyperparameters": ("hyp", ["h"])},
                   stubs={"scipy.linalg.cho_solve": cho_solve_stub, "Kinv": ("Kinv", ["j", "l"])},
                   sizes={"j": "n", "l": "n", "h": "nh"}, empty={"self.num_hyperparameters": ["h"]}, out_idx=["h"], driver=drv_llgrad_mode(logdom),
                   note=("translated per-hyperparameter loop, non-zero mean, module default of include_nonzero_correction, "
                         + ("log parameterisation" if logdom else "linear parameterisation"))))
  un = ("obj", {"_evaluate_at_point_list": ("stub", ("af", ["i"])),
                "joint_function_gradient_eval": ("stub", [("af", ["i"]), ("g", ["i", "kk"])])}, None)
  us.append(Unit("GenAcq", "MultitaskAF", "value", MAF, "_evaluate_at_point_list", "MultitaskAcquisitionFunction",
                 inputs={"points_to_evaluate": ("x", ["i", "kk"])}, selfattrs={"underlying": un}, sizes={"kk": "dimp1"}, out_idx=["i"],
                 driver=drv_maf("value")))
  us.append(Unit("GenAcq", "MultitaskAF", "joint", MAF, "joint_function_gradient_eval", "MultitaskAcquisitionFunction",
                 inputs={"points_to_evaluate": ("x", ["i", "kk"])}, selfattrs={"underlying": un}, sizes={"kk": "dimp1"}, outs=["value", "grad"],
                 driver=drv_maf("joint")))
  lo = ("obj", {"build_kernel_matrix": ("stub", ("Kl", ["i", "jl"])), "build_kernel_grad_tensor": ("stub", ("Gl", ["i", "jl", "k"]))}, None)
  gr = ("obj", {"build_kernel_matrix": ("stub", ("Kg", ["i", "jg"])), "build_kernel_grad_tensor": ("stub", ("Gg", ["i", "jg", "k"]))}, None)
  sp = {"lower_covariance": lo, "greater_covariance": gr, "lower_points": None, "greater_points": None, "gamma": ("gamma", []), "differentiable": True}
  us.append(Unit("GenAcq", "Parzen", "ei", SPE, "evaluate_expected_improvement", "SigOptParzenEstimator", inputs={"points_to_sample": X},
                 selfattrs=sp, sizes={"k": "dim", "jl": "nl", "jg": "ng"}, outs=["lpdf", "gpdf", "ratio"], driver=drv_spe("value")))
  us.append(Unit("GenAcq", "Parzen", "grad_ei", SPE, "evaluate_grad_expected_improvement", "SigOptParzenEstimator", inputs={"points_to_sample": X},
                 selfattrs=sp, sizes={"k": "dim", "jl": "nl", "jg": "ng"}, out_idx=["i", "k"], driver=drv_spe("grad")))
  return us


REGISTER = {"GenAcq": (units, EXTRA)}
