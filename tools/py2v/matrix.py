"""py2v matrix back-end (DESIGN.md section 4.2): symbolic execution of the GP linear-algebra dataflow into MathComp matrix
terms over an abstract realFieldType, with the same fail-closed discipline as the R back-end and a numeric self-check that
evaluates the emitted terms with numpy against the real objects."""
import ast
import fractions
import os

import numpy

from .ir import TranslationError


class M:
  """matrix-typed symbolic value: node is a tree, rows/cols are dimension symbols (strings)"""

  def __init__(self, node, rows, cols):
    self.node, self.rows, self.cols = node, rows, cols


class S:
  """scalar-typed symbolic value"""

  def __init__(self, node):
    self.node = node


class Chol:
  def __init__(self, of):
    self.of = of


def par(s):
  return s if s.replace("_", "").replace("'", "").isalnum() else f"({s})"


def coq(n):
  t = n[0]
  if t == "var":
    return n[1]
  if t == "mul":
    return f"{par(coq(n[1]))} *m {par(coq(n[2]))}"
  if t == "add":
    return f"{par(coq(n[1]))} + {par(coq(n[2]))}"
  if t == "sub":
    return f"{par(coq(n[1]))} - {par(coq(n[2]))}"
  if t == "tr":
    return f"{par(coq(n[1]))}^T"
  if t == "scal":
    return f"{par(coq(n[1]))} *: {par(coq(n[2]))}"
  if t == "cho_solve":
    return f"cho_solve {par(coq(n[1]))} {par(coq(n[2]))}"
  if t == "tri_solve":
    return f"tri_solve chol {par(coq(n[1]))} {par(coq(n[2]))}"
  if t == "colsumsq":
    return f"colsumsq {par(coq(n[1]))}"
  if t == "rowdot":
    return f"rowdot {par(coq(n[1]))} {par(coq(n[2]))}"
  if t == "floor_at":
    return f"floor_at {par(coq(n[1]))} {par(coq(n[2]))}"
  if t == "diagadd":
    return f"{par(coq(n[1]))} + diag_mx {par(coq(n[2]))}^T"
  if t == "constcol":
    return f"const_mx {par(coq(n[1]))}"
  if t == "zero":
    return "0"
  if t == "svar":
    return n[1]
  if t == "sconst":
    f = n[1]
    return f"{f.numerator}%:R" if f.denominator == 1 and f.numerator >= 0 else (f"(- {-f.numerator}%:R)" if f.denominator == 1 else f"({f.numerator}%:R / {f.denominator}%:R)")
  if t == "smul":
    return f"{par(coq(n[1]))} * {par(coq(n[2]))}"
  if t == "sadd":
    return f"{par(coq(n[1]))} + {par(coq(n[2]))}"
  if t == "sneg":
    return f"- {par(coq(n[1]))}"
  if t == "spow":
    return f"{par(coq(n[1]))} ^+ {n[2]}"
  if t == "entry00":
    return f"{par(coq(n[1]))} 0 0"
  if t == "sumlogdiag_chol":
    return f"sumlogdiag (chol {par(coq(n[1]))})"
  if t == "compsum":
    return f"\\sum_(g < G) {par(coq(n[1]))}"
  if t == "comp":
    return f"{n[1]} g"
  raise TranslationError(f"matrix render {t}")


def ev(n, env):
  """numeric evaluation with numpy; env maps names to arrays/floats; chol = lower Cholesky factor"""
  t = n[0]
  if t in ("var", "svar"):
    return env[n[1]]
  if t == "mul":
    a, b = ev(n[1], env), ev(n[2], env)
    if numpy.isscalar(a) or numpy.isscalar(b):   # a symbolic zero operand
      return 0.0
    return a @ b
  if t == "add":
    return ev(n[1], env) + ev(n[2], env)
  if t == "sub":
    return ev(n[1], env) - ev(n[2], env)
  if t == "tr":
    return ev(n[1], env).T
  if t == "scal":
    return ev(n[1], env) * ev(n[2], env)
  if t == "cho_solve":
    return numpy.linalg.solve(ev(n[1], env), ev(n[2], env))
  if t == "tri_solve":
    return numpy.linalg.solve(numpy.linalg.cholesky(ev(n[1], env)), ev(n[2], env))
  if t == "colsumsq":
    return (ev(n[1], env) ** 2).sum(axis=0)[:, None]
  if t == "rowdot":
    return (ev(n[1], env) * ev(n[2], env)).sum(axis=1)[:, None]
  if t == "floor_at":
    return numpy.fmax(ev(n[1], env), ev(n[2], env))
  if t == "diagadd":
    return ev(n[1], env) + numpy.diag(ev(n[2], env)[:, 0])
  if t == "constcol":
    return numpy.full((env["__n__"], 1), ev(n[1], env))
  if t == "zero":
    return 0.0
  if t == "sconst":
    return float(n[1])
  if t == "smul":
    return ev(n[1], env) * ev(n[2], env)
  if t == "sadd":
    return ev(n[1], env) + ev(n[2], env)
  if t == "sneg":
    return -ev(n[1], env)
  if t == "spow":
    return ev(n[1], env) ** n[2]
  if t == "entry00":
    return float(numpy.atleast_2d(ev(n[1], env))[0, 0])
  if t == "sumlogdiag_chol":
    return float(numpy.log(numpy.diag(numpy.linalg.cholesky(ev(n[1], env)))).sum())
  if t == "compsum":
    tot = 0.0
    for g in range(env["__G__"]):
      e = dict(env)
      e["__g__"] = g
      tot = tot + ev(n[1], e)
    return tot
  if t == "comp":
    return env[n[1]][env["__g__"]]
  raise TranslationError(f"matrix eval {t}")


class Exec:
  """Symbolic execution of methods of one class; self.<attr> live in env under their attribute name."""

  def __init__(self, path, cls_name, env, flags, calls):
    tree = ast.parse(open(path).read(), filename=path)
    self.path = path
    self.cls = [c for c in tree.body if isinstance(c, ast.ClassDef) and c.name == cls_name][0]
    self.funcs = {f.name: f for f in tree.body if isinstance(f, ast.FunctionDef)}
    self.env, self.flags, self.calls, self.defs = dict(env), flags, calls, []

  def where(self, n):
    return f"{os.path.basename(self.path)}:{getattr(n, 'lineno', '?')}"

  def method(self, name):
    for m in self.cls.body:
      if isinstance(m, ast.FunctionDef) and m.name == name:
        return m
    raise TranslationError(f"no method {name}")

  def define(self, name, val, force=False):
    if isinstance(val, M) and (val.node[0] not in ("var", "zero") or (force and val.node[0] == "var")):
      self.defs.append((name, val))
      val = M(("var", name), val.rows, val.cols)
    elif isinstance(val, S) and val.node[0] not in ("svar", "sconst"):
      self.defs.append((name, val))
      val = S(("svar", name))
    self.env[name] = val

  def run(self, name, args=(), kwargs=None):
    m = self.method(name) if isinstance(name, str) else name
    params = [a.arg for a in m.args.args]
    if params and params[0] == "self":
      params = params[1:]
    saved = {p: self.env.get(p, "__absent__") for p in params}
    defaults = dict(zip(params[len(params) - len(m.args.defaults):], [self.ev(d) for d in m.args.defaults]))
    bound = dict(defaults)
    bound.update(dict(zip(params, args)))
    bound.update(kwargs or {})
    for p in params:
      if p not in bound:
        raise TranslationError(f"{self.where(m)}: missing argument {p}")
      self.env[p] = bound[p]
    r = self.block(m.body)
    for p, v in saved.items():
      if v == "__absent__":
        self.env.pop(p, None)
      else:
        self.env[p] = v
    return r

  def flag(self, test):
    key = ast.unparse(test)
    if key not in self.flags:
      raise TranslationError(f"{self.where(test)}: undeclared mode flag `{key}`")
    return self.flags[key]

  def block(self, body):
    for st in body:
      if isinstance(st, ast.Expr) and isinstance(st.value, ast.Constant):
        continue
      if isinstance(st, ast.Assert):
        continue
      if isinstance(st, ast.Assign) and len(st.targets) == 1:
        self.assign(st.targets[0], self.ev(st.value), st)
      elif isinstance(st, ast.If):
        r = self.block(st.body if self.flag(st.test) else st.orelse)
        if r is not None:
          return r
      elif isinstance(st, ast.Return):
        return self.ev(st.value)
      elif isinstance(st, ast.Raise):
        raise TranslationError(f"{self.where(st)}: reached a raise")
      elif isinstance(st, ast.For):
        self.loop(st)
      elif isinstance(st, ast.Expr) and isinstance(st.value, ast.Call) and ast.unparse(st.value.func).startswith("self."):
        self.ev(st.value)
      else:
        raise TranslationError(f"{self.where(st)}: statement {type(st).__name__}")
    return None

  def assign(self, t, v, st):
    if isinstance(t, ast.Name):
      self.define(t.id, v)
    elif isinstance(t, ast.Attribute) and ast.unparse(t.value) == "self":
      self.define(t.attr, v, force=True)
    elif isinstance(t, ast.Tuple) and v == "__shape__" and all(isinstance(e, ast.Name) for e in t.elts):
      for e in t.elts:            # num_points, dim = points_to_sample.shape: sizes only feed numpy.zeros initialisers
        self.env[e.id] = "__dim__"
    elif isinstance(t, ast.Tuple) and isinstance(v, tuple) and len(v) == len(t.elts):
      for e, x in zip(t.elts, v):
        self.assign(e, x, st)
    else:
      raise TranslationError(f"{self.where(st)}: assignment target {ast.unparse(t)}")

  def loop(self, st):
    """for w, gp in zip(self.weights, self.gaussian_process_list): acc = acc + f(w) * gp.method(...)   ->   sum over components"""
    if ast.unparse(st.iter).replace(" ", "") != "zip(self.weights,self.gaussian_process_list)" or ast.unparse(st.target).replace(" ", "").strip("()") != "w,gp":
      raise TranslationError(f"{self.where(st)}: only the weighted-components loop is in the table")
    self.env["w"] = S(("comp", "w"))
    self.env["gp"] = "__component__"
    before = {k: v for k, v in self.env.items()}
    for s in st.body:
      if isinstance(s, ast.Assign) and len(s.targets) == 1 and isinstance(s.targets[0], ast.Tuple):
        vals = self.ev(s.value)
        for e, x in zip(s.targets[0].elts, vals):   # per-component values stay inside the sum binder: no definition is emitted
          self.env[e.id] = x
        continue
      if not (isinstance(s, ast.Assign) and isinstance(s.targets[0], ast.Name) and isinstance(s.value, ast.BinOp) and isinstance(s.value.op, ast.Add)
              and isinstance(s.value.left, ast.Name) and s.value.left.id == s.targets[0].id):
        raise TranslationError(f"{self.where(s)}: loop body must be `acc = acc + term`")
      acc = s.targets[0].id
      term = self.ev(s.value.right)
      init = before.get(acc)
      if not (isinstance(init, M) and init.node[0] == "zero"):
        raise TranslationError(f"{self.where(s)}: accumulator {acc} is not initialised with zeros")
      self.env[acc] = M(("compsum", term.node), term.rows, term.cols)
    self.env.pop("w", None)
    self.env.pop("gp", None)

  def ev(self, n):
    if isinstance(n, ast.Name):
      if n.id in self.env:
        return self.env[n.id]
      raise TranslationError(f"{self.where(n)}: unknown name {n.id}")
    if isinstance(n, ast.Constant):
      if n.value is None or isinstance(n.value, (bool, str)):
        return n.value
      return S(("sconst", fractions.Fraction(str(n.value))))
    if isinstance(n, ast.Tuple):
      return tuple(self.ev(e) for e in n.elts)
    if isinstance(n, ast.Attribute):
      key = ast.unparse(n)
      if key in self.env:
        return self.env[key]
      if ast.unparse(n.value) == "self":
        if n.attr in self.env:
          return self.env[n.attr]
        raise TranslationError(f"{self.where(n)}: unknown self.{n.attr}")
      if n.attr == "T":
        v = self.ev(n.value)
        return M(("tr", v.node), v.cols, v.rows)
      if n.attr == "shape":
        return "__shape__"
      raise TranslationError(f"{self.where(n)}: attribute {key}")
    if isinstance(n, ast.UnaryOp) and isinstance(n.op, ast.USub):
      v = self.ev(n.operand)
      if isinstance(v, S):
        return S(("sneg", v.node))
      return M(("scal", ("sconst", fractions.Fraction(-1)), v.node), v.rows, v.cols)
    if isinstance(n, ast.BinOp):
      a, b = self.ev(n.left), self.ev(n.right)
      if isinstance(n.op, ast.Pow) and isinstance(a, S) and isinstance(b, S) and b.node[0] == "sconst" and b.node[1].denominator == 1:
        return S(("spow", a.node, int(b.node[1])))
      if isinstance(n.op, (ast.Add, ast.Sub)):
        if isinstance(a, S) and isinstance(b, S):
          return S(("sadd", a.node, b.node if isinstance(n.op, ast.Add) else ("sneg", b.node)))
        if isinstance(a, M) and isinstance(b, M):
          if b.node[0] == "zero":
            return a
          if a.node[0] == "zero" and isinstance(n.op, ast.Add):
            return b
          if (a.rows, a.cols) != (b.rows, b.cols):
            raise TranslationError(f"{self.where(n)}: shape mismatch ({a.rows},{a.cols}) vs ({b.rows},{b.cols})")
          return M(("add" if isinstance(n.op, ast.Add) else "sub", a.node, b.node), a.rows, a.cols)
      if isinstance(n.op, ast.Mult):
        if isinstance(a, S) and isinstance(b, S):
          return S(("smul", a.node, b.node))
        if isinstance(a, S) and isinstance(b, M):
          return M(("scal", a.node, b.node), b.rows, b.cols)
        if isinstance(a, M) and isinstance(b, S):
          return M(("scal", b.node, a.node), a.rows, a.cols)
      raise TranslationError(f"{self.where(n)}: operator {type(n.op).__name__} on {type(a).__name__}, {type(b).__name__}")
    if isinstance(n, ast.Subscript):
      v = self.ev(n.value)
      s = ast.unparse(n.slice).replace(" ", "")
      if isinstance(v, Chol) and s == "0":
        return ("chol_lower_factor", v)
      if isinstance(v, Chol) and s == "1":
        return ("chol_lower_flag", v)
      if isinstance(v, M) and s == "None,:" and v.cols == "1":
        return M(("tr", v.node), "1", v.rows)
      if v == "__shape__" and s == "0":
        return "__dim__"
      raise TranslationError(f"{self.where(n)}: subscript {ast.unparse(n)}")
    if isinstance(n, ast.Call):
      return self.call(n)
    raise TranslationError(f"{self.where(n)}: expression {type(n).__name__} `{ast.unparse(n)[:50]}`")

  def call(self, n):
    f = ast.unparse(n.func)
    kw = {k.arg: k.value for k in n.keywords}
    kws = {k: ast.unparse(v) for k, v in kw.items()}
    w = self.where(n)
    if f in self.calls:
      return self.calls[f](self, n)
    if f == "numpy.dot" and not kw:
      a, b = self.ev(n.args[0]), self.ev(n.args[1])
      if a.cols == "1" and b.cols == "1" and a.rows == b.rows:   # dot of two vectors
        return S(("entry00", ("mul", ("tr", a.node), b.node)))
      if a.cols != b.rows:
        raise TranslationError(f"{w}: numpy.dot of ({a.rows},{a.cols}) and ({b.rows},{b.cols})")
      return M(("mul", a.node, b.node), a.rows, b.cols)
    if f in ("cho_factor", "scipy.linalg.cho_factor"):
      if kws != {"lower": "True", "overwrite_a": "True"}:
        raise TranslationError(f"{w}: cho_factor keywords {kws} are not in the table")
      return Chol(self.ev(n.args[0]))
    if f in ("cho_solve", "scipy.linalg.cho_solve"):
      if set(kws) - {"overwrite_b"}:
        raise TranslationError(f"{w}: cho_solve keywords {kws}")
      c, b = self.ev(n.args[0]), self.ev(n.args[1])
      if not isinstance(c, Chol) or c.of.rows != b.rows:
        raise TranslationError(f"{w}: cho_solve of a non-factor or wrong shape")
      return M(("cho_solve", c.of.node, b.node), b.rows, b.cols)
    if f == "solve_triangular":
      L, b = self.ev(n.args[0]), self.ev(n.args[1])
      low = self.ev(kw["lower"]) if "lower" in kw else None
      if not (isinstance(L, tuple) and L[0] == "chol_lower_factor" and isinstance(low, tuple) and low[0] == "chol_lower_flag") or set(kws) - {"lower", "overwrite_b"}:
        raise TranslationError(f"{w}: solve_triangular must be called on (K_chol[0], lower=K_chol[1])")
      return M(("tri_solve", L[1].of.node, b.node), b.rows, b.cols)
    if f == "numpy.copy":
      return self.ev(n.args[0])
    if f == "numpy.array" and len(n.args) == 1 and ast.unparse(n.args[0]) in ("[0.0]", "[0]"):
      return M(("zero",), "p", "1")
    if f == "numpy.zeros":
      return M(("zero",), "?", "?")
    if f == "numpy.full" and len(n.args) == 2:
      return M(("constcol", self.ev(n.args[1]).node), "n", "1")
    if f == "numpy.sum" and kws == {"axis": "0"} and isinstance(n.args[0], ast.BinOp) and isinstance(n.args[0].op, ast.Pow) and ast.unparse(n.args[0].right) == "2":
      v = self.ev(n.args[0].left)
      return M(("colsumsq", v.node), v.cols, "1")
    if f == "numpy.sum" and kws == {"axis": "1"} and isinstance(n.args[0], ast.BinOp) and isinstance(n.args[0].op, ast.Mult):
      a, b = self.ev(n.args[0].left), self.ev(n.args[0].right)
      if (a.rows, a.cols) != (b.rows, b.cols):
        raise TranslationError(f"{w}: row-wise dot of different shapes")
      return M(("rowdot", a.node, b.node), a.rows, "1")
    if f == "numpy.sum" and not kw and ast.unparse(n.args[0]).replace(" ", "") == "numpy.log(L.diagonal())":
      L = self.ev(ast.parse("L", mode="eval").body)
      if not (isinstance(L, tuple) and L[0] == "chol_lower_factor"):
        raise TranslationError(f"{w}: log-determinant idiom on something that is not the Cholesky factor")
      return S(("sumlogdiag_chol", L[1].of.node))
    if f == "numpy.fmax" and not kw:
      c, v = self.ev(n.args[0]), self.ev(n.args[1])
      return M(("floor_at", c.node, v.node), v.rows, v.cols)
    if f == "numpy.transpose" and not kw:
      v = self.ev(n.args[0])
      return M(("tr", v.node), v.cols, v.rows)
    if f.startswith("self.") and any(isinstance(m, ast.FunctionDef) and m.name == f[5:] for m in self.cls.body):
      return self.run(f[5:], [self.ev(a) for a in n.args], {k: self.ev(v) for k, v in kw.items()})
    if f.startswith("gp.") and self.env.get("gp") == "__component__":
      name = f[3:]
      table = self.calls.get("__component__", {})
      if name not in table:
        raise TranslationError(f"{w}: component method {name} not declared")
      return table[name]
    raise TranslationError(f"{w}: call {f} {kws} not in the translator's table")
