"""Tie T entry point used by the property plug-ins: regenerate the requested coq/Gen files from the repository under test,
run the dual-rendering self-check, write the files only when their text changed."""
import os
import random

from lib import common as C

from . import core
from .ir import TranslationError

REGISTRY = {}  # gen file name -> (units function, [extra source files])


def register(gen, units_fn, extra):
  REGISTRY[gen] = (units_fn, extra)


def _load():
  from . import units_cov
  register("GenCovariance", units_cov.units, ["libsigopt/compute/covariance_base.py", "libsigopt/aux/geometry_utils.py"])
  register("GenMultitask", units_cov.units_multitask, ["libsigopt/compute/covariance_base.py"])
  for name in ("units_acq", "units_softmax"):
    try:
      mod = __import__(f"py2v.{name}", fromlist=["REGISTER"])
      for gen, (fn, extra) in mod.REGISTER.items():
        register(gen, fn, extra)
    except ImportError:
      pass


def generate(ctx, gens, selfcheck_reps=3):
  if not REGISTRY:
    _load()
  done = []
  for gen in gens:
    units_fn, extra = REGISTRY[gen]
    core.EXTRA_SOURCES[:] = extra
    try:
      files, results = core.generate(C.REPO, [u for u in units_fn() if u.gen == gen], None)
      report = core.selfcheck(results, random.Random(f"py2v:{ctx.seed}"), reps=selfcheck_reps)
    except TranslationError as e:
      raise C.TieBroken(f"py2v: {e}")
    except (AttributeError, TypeError, ValueError, AssertionError, IndexError, KeyError, ZeroDivisionError, OverflowError) as e:
      raise C.TieBroken(f"py2v self-check could not run the implementation for {gen}: {type(e).__name__}: {e}")
    for g, text in files.items():
      C.write_if_changed(os.path.join(C.COQ, "Gen", g + ".v"), text)
    done += [r["unit"] + (":selfcheck-" + r["status"]) for r in report]
  return done
