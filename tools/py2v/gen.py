"""Tie T entry point used by the property plug-ins: regenerate the requested coq/Gen files from the repository under test,
run the dual-rendering self-check, write the files only when their text changed."""
import os
import random

from lib import common as C

from . import core
from .ir import TranslationError

REGISTRY = {}  # gen file name -> (units function, [extra source files])


def register(gen, units_fn, extra):
  REGISTRY[gen] = (units_fn, extra)


def _load():
  from . import units_cov
  register("GenCovariance", units_cov.units, ["libsigopt/compute/covariance_base.py", "libsigopt/aux/geometry_utils.py"])
  register("GenMultitask", units_cov.units_multitask, ["libsigopt/compute/covariance_base.py"])
  for name in ("units_acq", "units_softmax"):
    try:
      mod = __import__(f"py2v.{name}", fromlist=["REGISTER"])
      for gen, (fn, extra) in mod.REGISTER.items():
        register(gen, fn, extra)
    except ImportError:
      pass


def spot_params(tier):
  """(positions per definition, driver draws kept per unit, leaf budget of an unfolded formula): one position per definition and per
  piecewise branch in the quick tier."""
  return (1, 2, 120) if tier == "quick" else (4, 4, 400)


def generate(ctx, gens, selfcheck_reps=3, spot=True):
  """Regenerate coq/Gen/<gen>.v for every gen; returns the evidence list: `<unit>:selfcheck-<status>` (dual rendering, IR level) and
  `<unit>:spotcheck-ok(<n>)` (n positions at which the Coq kernel checked the EMITTED definition against the running code;
  `Phi-by-integral` marks definitions containing the normal CDF, whose Riemann integral Interval encloses) or `:spotcheck-n/a(<why>)`."""
  if not REGISTRY:
    _load()
  done, spot_in = [], {}
  for gen in gens:
    units_fn, extra = REGISTRY[gen]
    core.EXTRA_SOURCES[:] = extra
    try:
      files, results = core.generate(C.REPO, [u for u in units_fn() if u.gen == gen], None)
      report = core.selfcheck(results, random.Random(f"py2v:{ctx.seed}"), reps=selfcheck_reps)
    except TranslationError as e:
      raise C.TieBroken(f"py2v: {e}")
    except (AttributeError, TypeError, ValueError, AssertionError, IndexError, KeyError, ZeroDivisionError, OverflowError) as e:
      raise C.TieBroken(f"py2v self-check could not run the implementation for {gen}: {type(e).__name__}: {e}")
    for g, text in files.items():
      C.write_if_changed(os.path.join(C.COQ, "Gen", g + ".v"), text)
    spot_in[gen] = (results, files[gen])
    done += [r["unit"] + (":selfcheck-" + r["status"]) for r in report]
  if spot:
    done += spotcheck_gens(ctx, spot_in)
  return done


def spotcheck_gens(ctx, spot_in):
  """Kernel-checked spot checks of the emitted definitions (spotcheck.py); the generated modules are built first (they are what the
  case files - and the theorems - import)."""
  from . import spotcheck
  ok, log = C.coq_make([f"Gen/{g}.vo" for g in spot_in])
  if not ok:
    raise C.TieBroken(f"py2v: the generated files do not compile: {log[-1200:]}")
  n, draws, leaves = spot_params(ctx.tier)
  try:
    report, failures, info = spotcheck.run(C.COQ, spot_in, n, draws, random.Random(f"py2v-spot:{ctx.seed}"), leaves=leaves,
                                           jobs=int(os.environ.get("PY2V_SPOT_JOBS", "6")), forbidden=C.FORBIDDEN)
  except TranslationError as e:
    raise C.TieBroken(f"py2v: {e}")
  except (AttributeError, TypeError, ValueError, AssertionError, IndexError, KeyError, ZeroDivisionError, OverflowError) as e:
    raise C.TieBroken(f"py2v spot check could not run the implementation: {type(e).__name__}: {e}")
  if failures:
    raise C.TieBroken("py2v: " + " || ".join(failures))
  if hasattr(ctx, "notes"):
    ctx.notes.append(f"py2v spot check: {info['cases']} kernel-checked positions in {info['wall']:.1f} s ({info['skipped']} ill-conditioned positions skipped)")
    ctx.notes += info["notes"]
  out = []
  for r in report:
    if r["status"] == "ok":
      out.append(f"{r['unit']}:spotcheck-ok({r['cases']}" + (",Phi-by-integral" if r.get("phi") else "") + ")")
    else:
      out.append(f"{r['unit']}:spotcheck-n/a({r.get('reason', '?')})")
  return out
