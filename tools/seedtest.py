#!/venv/bin/python
"""Development QA (not a registered check): confirm a seeded change and run a property's check against it.

  tools/seedtest.py Cxx NAME PATCH DEMO [--tier quick] [--skip-suite] [--keep]

Works on scratch copies only (a detached git worktree of /repo and a copy of /verif under /tmp/mut/NAME), never on /repo:
  1. DEMO exits 0 on the clean worktree;  2. PATCH applies;  3. DEMO exits non-zero with it;
  4. the pinned baseline suite still passes with it (stable-pass list of /root/.vp/BASELINE.json);
  5. `./check Cxx` (copy of /verif, VERIF_REPO = patched worktree) -> VIOLATION expected; its replay must pass on the clean tree.
Prints one JSON line and writes /tmp/mut/results/NAME.json; removes the scratch copies."""
import argparse
import json
import os
import re
import shutil
import subprocess
import sys
import time
import xml.etree.ElementTree as ET

ENV = dict(os.environ, OMP_NUM_THREADS="1", OPENBLAS_NUM_THREADS="1", MKL_NUM_THREADS="1", PYTHONDONTWRITEBYTECODE="1", PYTHONHASHSEED="0")
ENV.pop("PYTHONPATH", None)


def sh(cmd, cwd=None, env=None, timeout=3600):
  p = subprocess.run(cmd, cwd=cwd, env=env or ENV, stdout=subprocess.PIPE, stderr=subprocess.STDOUT, text=True, timeout=timeout)
  return p.returncode, p.stdout


def suite(wt):
  stable = set(json.load(open("/root/.vp/BASELINE.json"))["stable_pass"])
  x = os.path.join(os.path.dirname(wt), "junit.xml")
  sh(["/venv/bin/python", "-m", "pytest", "-q", "-p", "no:cacheprovider", "--timeout=900", "--continue-on-collection-errors", f"--junitxml={x}"], cwd=wt)
  passed = set()
  for tc in ET.parse(x).getroot().iter("testcase"):
    if not any(c.tag in ("failure", "error", "skipped") for c in tc):
      passed.add(f"{tc.get('classname')}::{tc.get('name')}")
  return sorted(stable - passed)


def main():
  ap = argparse.ArgumentParser()
  ap.add_argument("prop")
  ap.add_argument("name")
  ap.add_argument("patch")
  ap.add_argument("demo")
  ap.add_argument("--tier", default="quick")
  ap.add_argument("--skip-suite", action="store_true")
  ap.add_argument("--keep", action="store_true")
  ap.add_argument("--seed", default="12345")
  a = ap.parse_args()
  root = os.environ.get("MUT_ROOT", "/tmp/mut") + f"/{a.name}"
  shutil.rmtree(root, ignore_errors=True)
  os.makedirs(root)
  RES = os.environ.get("MUT_ROOT", "/tmp/mut") + "/results"
  os.makedirs(RES, exist_ok=True)
  wt, vf = f"{root}/repo", f"{root}/verif"
  res = dict(prop=a.prop, name=a.name, patch=os.path.abspath(a.patch))
  t0 = time.time()
  try:
    sh(["git", "-C", "/repo", "worktree", "add", "--detach", wt, "HEAD"])
    os.makedirs(f"{wt}/out", exist_ok=True)
    demo = f"{wt}/out/" + os.path.basename(a.demo)
    shutil.copy(a.demo, demo)
    rc, out = sh(["/venv/bin/python", demo], cwd=wt, timeout=1800)
    res["demo_clean_rc"] = rc
    if rc != 0:
      res["demo_clean_tail"] = out[-600:]
    rc, out = sh(["git", "apply", os.path.abspath(a.patch)], cwd=wt)
    res["patch_applies"] = rc == 0
    if rc != 0:
      res["patch_err"] = out[-400:]
      return res
    rc, out = sh(["/venv/bin/python", demo], cwd=wt, timeout=1800)
    res["demo_mutant_rc"] = rc
    res["demo_mutant_tail"] = out[-400:]
    if not a.skip_suite:
      miss = suite(wt)
      if miss:  # random tests: one retry
        miss2 = suite(wt)
        miss = sorted(set(miss) & set(miss2))
      res["suite_not_passing"] = miss[:10]
    sh(["rsync", "-a", "--exclude", ".git", "--exclude", "replays", "--exclude", "seeded", os.environ.get("VERIF_SRC", "/verif").rstrip("/") + "/", vf + "/"])
    env = dict(ENV, VERIF_REPO=wt)
    rc, out = sh([f"{vf}/check", a.prop, "--tier", a.tier, "--seed", a.seed], env=env, timeout=7200)
    res["check_rc"] = rc
    res["check_lines"] = [l for l in out.splitlines() if re.match(r"(VIOLATION|KNOWN-FINDING|BROKEN|C\d\d \[)", l)][:12]
    res["detected"] = rc == 1 and any(l.startswith("VIOLATION") for l in out.splitlines())
    res["no_failing_input"] = any(l.startswith("VIOLATION") and l.rstrip().endswith("no-failing-input-found") for l in out.splitlines())
    if rc not in (0, 1) or (rc == 1 and not res["detected"]):
      res["check_tail"] = out[-1500:]
    reps = []
    for l in out.splitlines():
      m = re.match(r"VIOLATION property=\S+ replay=(\S+)", l)
      if m:
        reps.append(m.group(1))
    res["replays"] = []
    for r in reps[:3]:
      try:
        payload = json.load(open(r))
      except Exception as e:
        res["replays"].append(dict(file=r, err=str(e)))
        continue
      info = dict(kind=payload.get("kind"), signature=payload.get("signature"), what=str(payload.get("what", payload.get("what_failed")))[:500])
      if payload.get("kind") == "failing-input":
        rc1, _ = sh([f"{vf}/check", a.prop, "--replay", r], env=env, timeout=1800)
        rc2, _ = sh([f"{vf}/check", a.prop, "--replay", r], env=dict(ENV, VERIF_REPO="/repo"), timeout=1800)
        info["replay_on_mutant_rc"], info["replay_on_clean_rc"] = rc1, rc2
      res["replays"].append(info)
      os.makedirs(f"{RES}/{a.name}_replays", exist_ok=True)
      shutil.copy(r, f"{RES}/{a.name}_replays/")
    open(f"{RES}/{a.name}.log", "w").write(out)
    return res
  finally:
    res["wall_s"] = round(time.time() - t0)
    json.dump(res, open(f"{RES}/{a.name}.json", "w"), indent=1)
    print(json.dumps(res))
    if not a.keep:
      sh(["git", "-C", "/repo", "worktree", "remove", "--force", wt])
      shutil.rmtree(root, ignore_errors=True)
      sh(["git", "-C", "/repo", "worktree", "prune"])


if __name__ == "__main__":
  main()
