"""Build everything once: regenerate Gen/*.v from /repo, write _CoqProject, full make."""
import importlib
import os
import pkgutil
import subprocess
import sys

sys.path.insert(0, os.path.dirname(os.path.abspath(__file__)))
from lib import common as C  # noqa: E402
import props  # noqa: E402

bad = 0
for m in sorted(x.name for x in pkgutil.iter_modules(props.__path__)):
  plug = importlib.import_module(f"props.{m}")
  if hasattr(plug, "generate"):
    try:
      plug.generate(C.Ctx(m, "quick", 0))
    except Exception as e:  # the checks report this properly; setup only builds what it can
      print(f"setup: generate for {m} failed: {e}")
C.mkproject()
p = subprocess.run(["timeout", "3000", "make", "-j16", "-k"], cwd=C.COQ)
if p.returncode != 0:
  print("setup: some targets did not build; the per-property checks report which and why")
sys.exit(0)
