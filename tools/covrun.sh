#!/bin/bash
# Development QA (not a registered check): run one property's check under coverage.py and report which lines of the
# repository's anchored files the correspondence + search actually executed.   tools/covrun.sh C13 [quick|thorough]
cd "$(dirname "$0")/.."
P=$1; T=${2:-quick}; OUT=${COV_OUT:-/tmp/cov}; mkdir -p $OUT/$P
export VERIF_REPO="${VERIF_REPO:-/repo}"
export PYTHONPATH="$VERIF_REPO":"$(pwd)/tools" PYTHONHASHSEED=0 SIGOPT_LIBSIGOPT_VERIF=1 PYTHONDONTWRITEBYTECODE=1
export OMP_NUM_THREADS=1 OPENBLAS_NUM_THREADS=1 MKL_NUM_THREADS=1
cat > $OUT/$P/rc <<EOC
[run]
branch = True
source = $VERIF_REPO/libsigopt
parallel = True
concurrency = multiprocessing
data_file = $OUT/$P/.coverage
EOC
export COVERAGE_PROCESS_START=$OUT/$P/rc
/venv/bin/python -m coverage run --rcfile=$OUT/$P/rc tools/check.py $P --tier $T | grep -E "^(VIOLATION|C[0-9][0-9] \[)"
/venv/bin/python -m coverage combine --rcfile=$OUT/$P/rc -q $OUT/$P >/dev/null 2>&1
/venv/bin/python -m coverage json --rcfile=$OUT/$P/rc -o $OUT/$P/cov.json -q
rm -f $OUT/$P/.coverage*
