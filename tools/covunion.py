#!/venv/bin/python
"""Development QA: union over all properties' coverage runs (tools/covrun.sh Cxx for every property): executable lines of
libsigopt that NO check executed, per function.  tools/covunion.py [min_missing]"""
import ast, glob, json, os, sys
OUT = os.environ.get("COV_OUT", "/tmp/cov")
REPO = os.environ.get("VERIF_REPO", "/repo")
ex, al = {}, {}
for f in glob.glob(f"{OUT}/C*/cov.json"):
  for path, v in json.load(open(f))["files"].items():
    ex.setdefault(path, set()).update(v["executed_lines"])
    al.setdefault(path, set()).update(v["executed_lines"]); al[path].update(v["missing_lines"])
tot = [0, 0]
for path in sorted(al):
  rel = os.path.relpath(path, REPO)
  miss = al[path] - ex[path]
  tot[0] += len(ex[path]); tot[1] += len(al[path])
  if not miss:
    continue
  tree = ast.parse(open(path).read())
  rows = []
  for node in ast.walk(tree):
    if isinstance(node, (ast.FunctionDef, ast.AsyncFunctionDef)):
      body = set(range(node.body[0].lineno, node.end_lineno + 1))
      inner = set()
      for sub in ast.walk(node):
        if sub is not node and isinstance(sub, (ast.FunctionDef, ast.AsyncFunctionDef)):
          inner |= set(range(sub.lineno, sub.end_lineno + 1))
      m = (miss & body) - inner
      if m:
        rows.append((node.lineno, node.name, len((al[path] & body) - inner), sorted(m)))
  print(f"{rel}: {len(ex[path])}/{len(al[path])} executed")
  for ln, name, n, m in sorted(rows):
    print(f"    {name}:{ln}  missing {len(m)}/{n}: {m if len(m) <= 14 else str(m[:14]) + '...'}")
print(f"== total {tot[0]}/{tot[1]} executable lines of libsigopt executed by at least one check")
