"""./check Cxx --tier quick|thorough   |   ./check Cxx --replay FILE      (see DESIGN.md section 2.2)"""
import argparse
import glob
import importlib
import json
import os
import sys
import traceback

sys.path.insert(0, os.path.dirname(os.path.abspath(__file__)))
from lib import common as C  # noqa: E402
from lib import witnesses as W  # noqa: E402


def run_replay(plug, ctx, payload):
  inp = payload.get("input") or {}
  if isinstance(inp, dict) and inp.get("kind") == "witness":
    return W.run(inp["name"])
  return plug.replay(ctx, payload)


def main():
  ap = argparse.ArgumentParser()
  ap.add_argument("prop")
  ap.add_argument("--tier", default=os.environ.get("VERIF_TIER", "quick"), choices=["quick", "thorough"])
  ap.add_argument("--replay")
  ap.add_argument("--seed", type=int, default=int(os.environ.get("VERIF_SEED", "12345")))
  a = ap.parse_args()
  plug = importlib.import_module(f"props.{a.prop}")
  ctx = C.Ctx(a.prop, a.tier, a.seed)
  if a.replay:
    return do_replay(ctx, plug, a.replay)
  return do_check(ctx, plug)


def do_replay(ctx, plug, path):
  payload = json.load(open(path))
  fail = run_replay(plug, ctx, payload)
  kf = C.match_finding(ctx.prop, fail) if fail else None
  if kf:  # the recorded input now shows exactly a listed known finding (not the violation the replay was written for)
    print(f"KNOWN-FINDING: property={ctx.prop} {kf['text']}")
    return 0
  if fail:
    print(f"replay still fails: {fail.get('what', fail.get('signature'))}")
    print(f"VIOLATION property={ctx.prop} replay={path}")
    return 1
  print("replay passes on the current tree")
  return 0


def do_check(ctx, plug):
  prop = ctx.prop
  broken = []      # things that no longer check: dict(kind, what, detail)
  failures = []    # concrete failing inputs: dict(signature, what, input, observed, expected, oracle)
  obligations = discharged = 0
  theorems, axioms_seen, units = [], set(), []

  # 1. corpus: minimised past failures and defect witnesses, replayed against the implementation first
  corpus_n = 0
  for f in sorted(glob.glob(os.path.join(C.VERIF, "corpus", prop, "*.json"))):
    corpus_n += 1
    try:
      r = run_replay(plug, ctx, json.load(open(f)))
    except Exception as e:  # a crash of the implementation on a corpus input is a failure of that input
      r = dict(signature=f"corpus-crash:{os.path.basename(f)}", what=f"corpus case {os.path.basename(f)} raised {type(e).__name__}: {e}",
               input=json.load(open(f)).get("input"))
    if r:
      r.setdefault("source", f"corpus/{prop}/{os.path.basename(f)}")
      failures.append(r)

  # 2. tie T: regenerate the Gen files this property depends on
  if hasattr(plug, "generate"):
    obligations += 1
    try:
      units = plug.generate(ctx) or []
      discharged += 1
    except C.TieBroken as e:
      broken.append(dict(kind="translation", what=str(e)))
    except Exception as e:
      broken.append(dict(kind="translation", what=f"translator crashed: {type(e).__name__}: {e}", detail=traceback.format_exc()[-1500:]))

  # 3. proofs
  hits = C.forbidden_scan()
  if hits:
    broken.append(dict(kind="proof", what="forbidden construct in the development", detail=hits[:10]))
  prop_files = list(getattr(plug, "PROPS_FILES", []))
  targets = [f[:-2] + ".vo" for f in prop_files]
  checker_cmd = "make -C coq -j16 " + " ".join(targets)
  ok, log = C.coq_make(targets) if targets else (True, "")
  per_file = {}
  if not ok:
    # find which targets failed; build them one at a time to isolate
    for f in prop_files:
      ok1, log1 = C.coq_make([f[:-2] + ".vo"])
      per_file[f] = (ok1, log1)
  results = []
  built = [f for f in prop_files if ok or per_file.get(f, (False, ""))[0]]
  rechecked = dict(zip(built, C.coq_props(built))) if built else {}     # the files of one property are re-checked in parallel
  for f in prop_files:
    okf = ok or per_file.get(f, (False, ""))[0]
    src = open(os.path.join(C.COQ, f)).read()
    import re
    names = re.findall(r"^\s*(?:Theorem|Lemma|Corollary)\s+(\w+)", src, re.M)
    obligations += max(1, len(names))
    if not okf:
      lg = per_file.get(f, (False, log))[1]
      m = re.findall(r'File "([^"]+)", line (\d+).*?\n(Error:.*?)(?:\n\S|\Z)', lg, re.S)
      detail = [f"{x[0]}:{x[1]}: {' '.join(x[2].split())[:400]}" for x in m][:4] or [lg[-800:]]
      broken.append(dict(kind="proof", what=f"{f} (theorems {', '.join(names)}) no longer compiles", detail=detail))
      continue
    r = rechecked[f]
    results.append(r)
    if not r["ok"]:
      broken.append(dict(kind="proof", what=f"{f} failed on re-check", detail=r["log"][-800:]))
      continue
    if len(r["assumptions"]) < len(names):
      broken.append(dict(kind="proof", what=f"{f}: {len(names)} theorems but only {len(r['assumptions'])} Print Assumptions"))
      continue
    bad_ax = sorted({a for blk in r["assumptions"] for a in blk if a not in C.STDLIB_AXIOMS and a.split(".")[-1] not in C.STDLIB_AXIOMS})
    if bad_ax:
      broken.append(dict(kind="proof", what=f"{f}: theorem depends on non-standard-library axioms {bad_ax}"))
      continue
    discharged += max(1, len(names))
    theorems += names
    for blk in r["assumptions"]:
      axioms_seen.update(blk)

  # 3b. thorough tier: independent re-check with coqchk of the property files and their whole dependency cone
  chk_axioms = None
  if ctx.tier == "thorough" and prop_files and not any(b["kind"] == "proof" for b in broken):
    obligations += 1
    okc, chk_axioms, summ = C.coqchk(prop_files)
    bad_chk = [a for a in chk_axioms if a.split(".")[-1] not in C.STDLIB_AXIOMS and a not in C.STDLIB_AXIOMS]
    if okc and not bad_chk:
      discharged += 1
    else:
      broken.append(dict(kind="proof", what="coqchk re-check failed or reported non-standard axioms / unsafe features", detail=dict(axioms=bad_chk, tail=summ[-600:])))

  # 4. tie K: correspondence and Coq-side postcondition evaluation
  corr = dict(evaluations=0, distinct_nontrivial=0, rule="", samples=[], disagreements=[])
  if hasattr(plug, "correspondence"):
    obligations += 1
    try:
      corr = plug.correspondence(ctx)
      if corr.get("disagreements"):
        for d in corr["disagreements"][:5]:
          broken.append(dict(kind="correspondence", what=d.get("what", "model and implementation disagree"), detail=d))
      else:
        discharged += 1
    except C.TieBroken as e:
      broken.append(dict(kind="correspondence", what=str(e)))
    except Exception as e:
      broken.append(dict(kind="correspondence", what=f"harness crashed: {type(e).__name__}: {e}", detail=traceback.format_exc()[-2500:]))

  # 5. search for a concrete failing input with the independent oracle (always; larger budget when something broke)
  srch = dict(evaluations=0, failures=[])
  if hasattr(plug, "search"):
    try:
      hints = [b["detail"] for b in broken if b["kind"] == "correspondence" and isinstance(b.get("detail"), dict)]
      srch = plug.search(ctx, hints, bool(broken)) or srch
      failures += srch.get("failures", [])
    except Exception as e:
      broken.append(dict(kind="search", what=f"searcher crashed: {type(e).__name__}: {e}", detail=traceback.format_exc()[-2500:]))
      if hints:   # the crash may come from re-evaluating a disagreeing correspondence case: still look for a failing input without the hints
        try:
          srch = plug.search(ctx, [], True) or srch
          failures += srch.get("failures", [])
        except Exception as e2:
          broken.append(dict(kind="search", what=f"searcher crashed again without hints: {type(e2).__name__}: {e2}", detail=traceback.format_exc()[-2500:]))

  # 6. decide
  violations, exit_code = 0, 0
  seen_sig = set()
  for fl in failures:
    sig = fl.get("signature")
    if sig in seen_sig:
      continue
    seen_sig.add(sig)
    kf = C.match_finding(prop, fl)
    if kf:
      print(f"KNOWN-FINDING: property={prop} {kf['text']}")
      continue
    violations += 1
    path = C.write_replay(prop, dict(kind="failing-input", seed=ctx.seed, what_failed=[b["what"] for b in broken], **fl))
    print(f"VIOLATION property={prop} replay={path}")
    exit_code = 1
  # anything that no longer checks and is not explained by a new concrete failing input is still a violation
  unexplained = broken
  if unexplained and exit_code == 0:
    violations += 1
    path = C.write_replay(prop, dict(kind="no-failing-input-found", seed=ctx.seed, what_failed=unexplained,
                                      searched=srch.get("evaluations", 0)))
    for b in unexplained[:6]:
      print(f"BROKEN[{b['kind']}]: {b['what']}")
    print(f"VIOLATION property={prop} replay={path} no-failing-input-found")
    exit_code = 1

  trusted = ["Coq 8.16.1 kernel; vm_compute in case files; no native_compute"]
  trusted.append("Print Assumptions over %d theorems: %s" % (len(theorems), ", ".join(sorted(axioms_seen)) or "Closed under the global context"))
  if chk_axioms is not None:
    trusted.append("coqchk -o over the whole dependency cone (all loaded libraries): axioms " + (", ".join(chk_axioms) or "none") + "; no type-in-type, unsafe fixpoints or assumed positivity")
  trusted += list(getattr(plug, "TRUSTED", []))
  cov = dict(
    obligations=obligations, discharged=discharged, checker_cmd=checker_cmd, trusted_base=trusted,
    theorems=theorems, translation_units=units, corpus_replayed=corpus_n,
    evaluations=int(corr.get("evaluations", 0)) + int(srch.get("evaluations", 0)),
    correspondence_cases=int(corr.get("evaluations", 0)), search_cases=int(srch.get("evaluations", 0)),
    distinct_nontrivial=int(corr.get("distinct_nontrivial", 0)), rule=corr.get("rule", ""),
    samples=(corr.get("samples") or [])[:3] + (srch.get("samples") or [])[:2],
    input_distribution=corr.get("distribution", {}), search=dict((k, v) for k, v in srch.items() if k not in ("failures", "samples")),
    broken=[dict(kind=b["kind"], what=b["what"]) for b in broken], exhaustive=False,
  )
  if not cov["samples"]:
    cov["samples"] = [dict(theorems=theorems)]
  C.write_evidence(ctx, cov, list(getattr(plug, "ASSUMPTIONS", [])), violations)
  print(f"{prop} [{ctx.tier}] obligations {discharged}/{obligations}, correspondence {cov['correspondence_cases']} cases "
        f"({cov['distinct_nontrivial']} distinct non-trivial), search {cov['search_cases']} cases, violations {violations}, "
        f"{cov and round(__import__('time').time() - ctx.t0, 1)} s")
  return exit_code


if __name__ == "__main__":
  sys.exit(main())
