"""C01 — every suggested point is a feasible, well-formed configuration."""
import contextlib
import copy
import multiprocessing
import os
import random

import math

import numpy

from lib import common as C
from lib import c01_util as U
from lib import c01_compose as K   # glue of the composed statements (Props/C01_composed.v): stage in front of the tails
from props import C09 as N  # generators and Coq printers of the shared domain vocabulary (imported, not edited)

PROP = "C01"
PROPS_FILES = ["Props/C01.v", "Props/C01_refuted.v", "Props/C01_softmax.v", "Props/C01_composed.v"]
ASSUMPTIONS = [
  "composed with C07 / C08 (Props/C01_composed.v): the end-to-end theorems of the six endpoint models carry NO relaxed_ok hypothesis - the optimiser stage (DE, Adam, constant-liar loop, qEI run, the search "
  "endpoint's own DE loop) and the samplers are the C07 / C08 models run on the one-hot search domain derived from the request's domain, for every PARTIAL acquisition function (NaN = no value) and every draw stream; "
  "what remains: every constraint has two or more non-zero weights (C08's quantifier); on a constrained domain a strictly interior point of the one-hot search domain (find_interior_point / HiGHS, "
  "C08_cheby_flag_gives_interior); range contracts of the primitive draws (uniforms in [0,1], Latin-hypercube offsets and permutations, hit-and-run triples, enough of them when padding runs); the Adam update "
  "vectors and the SciPy multistart result are arbitrary; qEI with pending points => one suggestion. The older tail theorems (Props/C01.v) keep relaxed_ok as a hypothesis; the composed file discharges it",
  "range contracts of numpy.random (choice returns members, choice(replace=False) distinct members, randint / uniform within "
  "bounds), scipy.stats truncnorm / beta stay in their support, the one-hot sampler returns the number of rows asked for",
  "exact arithmetic over Q; float rounding at constraint faces is outside the model: the searcher allows 1e-9 relative slack",
  "softmax: exp(-c) enters the model as a given positive rational; only the parameters handed to numpy.random.choice are "
  "checked, not the sampling distribution",
  "valid request: domain accepted by CategoricalDomain with an interior point, >= 1 successful observation, qEI with pending "
  "points => num_to_sample = 1, search endpoints without task options, >= 2 distinct task options, and enough observations "
  "for the Parzen estimator where the endpoint has no random fallback (SPEInsufficientDataError is the library's own refusal)",
]
TRUSTED = ["tools/props/C01.py and tools/lib/c01_util.py: request generator, stubbing / RNG scripting layer, Coq literal printer",
           "Model/EndpointTailCorr.v check function", "tools/props/C09.py domain generators and printers (imported)"]
HEADER = ("From Coq Require Import List QArith ZArith Bool.\nFrom LV Require Import Model.Domain Model.Decode Model.EndpointTail "
          "Model.EndpointTailCorr.\nOpen Scope Q_scope.")
SHORT_SIG = "C01:gp-search:int-constrained-short-batch-assertion-error"
SHORT_MARKS = ("len(categorical_next_points) == num_to_sample", "len(points.shape) == 2", "Variance vector V")


# ------------------------------------------------------------------------------------------ Coq printing


def pts_lit(ps):
  return C.listlit([C.listlit([float(v) for v in p], C.qlit) for p in ps])


def dorc_lit(cats, n_rows=None):
  return f"{{| o_rnds := []; o_perms := []; o_cats := {C.listlit([C.listlit(r, C.zlit) + '%Z' for r in cats])} |}}"


def qorc_lit(cols=(), rows=(), cats=()):
  return f"{{| q_cols := {pts_lit(cols)}; q_rows := {pts_lit(rows)}; q_dec := {dorc_lit(cats)} |}}"


def optq(l):
  return "None" if l is None else f"(Some {C.listlit([float(v) for v in l], C.qlit)})"


def resp_case(req, out, nocost=False):
  dom = N.dom_lit(dict(comps=req["comps"], cons=req["cons"]))
  if nocost:
    return f"CRespNoCost {dom} {C.nlit(req['num_to_sample'])} {pts_lit(out['points'])} {optq(out.get('task_costs'))}"
  return (f"CResp {dom} {C.listlit(out['task_options'], C.qlit)} {C.nlit(req['num_to_sample'])} {pts_lit(out['points'])} "
          f"{optq(out.get('task_costs'))}")


# ------------------------------------------------------------------------------------------ scripting numpy.random


class Script:
  """Replaces numpy.random.{choice,randint,uniform} inside the harness; logs every draw so that the model sees the same."""

  def __init__(self, rng):
    self.rng, self.cats, self.cols, self.orc, self.softmax = rng, [], [], [], []

  def choice(self, a, size=None, replace=True, p=None):
    if p is not None and size is None and not hasattr(a, "dtype"):          # decode: one category
      c = self.rng.choice(list(a))
      self.cats.append(int(c))
      return c
    if p is not None:                                                       # softmax task choice
      arr = numpy.asarray(a, dtype=float)
      self.softmax.append((arr.tolist(), numpy.asarray(p, dtype=float).tolist()))
      k = 1 if size is None else int(size)
      out = numpy.array([self.rng.choice(arr.tolist()) for _ in range(k)])
      return out[0] if size is None else out
    if replace is False:                                                    # distinct indexes
      got = self.rng.sample(list(a), int(size))
      self.orc.extend(int(v) for v in got)
      return numpy.array(got)
    col = [self.rng.choice(list(a)) for _ in range(int(size))]              # one column of element draws
    self.cols.append([float(v) for v in col])
    return numpy.array(col)

  def randint(self, lo, hi, n):
    col = [self.rng.randint(int(lo), int(hi) - 1) for _ in range(int(n))]
    self.cols.append([float(v) for v in col])
    self.last_randint = col
    return numpy.array(col)

  def uniform(self, lo, hi, n):
    col = [lo + (hi - lo) * self.rng.randint(0, 16) / 16 for _ in range(int(n))]
    self.cols.append([float(v) for v in col])
    return numpy.array(col)


@contextlib.contextmanager
def scripted(script):
  saved = (numpy.random.choice, numpy.random.randint, numpy.random.uniform)
  numpy.random.choice, numpy.random.randint, numpy.random.uniform = script.choice, script.randint, script.uniform
  try:
    yield script
  finally:
    numpy.random.choice, numpy.random.randint, numpy.random.uniform = saved


def n_cat(dom):
  return sum(1 for c in dom["comps"] if c["var_type"] == "categorical")


def split_cats(flat, k, rows):
  if k == 0:
    return [[] for _ in range(rows)]
  return [flat[i * k:(i + 1) * k] for i in range(rows)]


class LinearAF:
  def __init__(self, coef):
    self.coef = numpy.array(coef, dtype=float)

  def evaluate_at_point_list(self, pts, **kw):
    return numpy.dot(numpy.atleast_2d(pts), self.coef)


def oh_dim(dom):
  return sum(len(c["elements"]) if c["var_type"] == "categorical" else 1 for c in dom["comps"])


def conv_case(rng):
  """convert_from_one_hot on adversarial relaxed points with a linear acquisition function (ties through zero weights)."""
  from libsigopt.views.rest import gp_next_points_categorical as G
  from libsigopt.compute.expected_improvement import ExpectedParallelImprovement
  dom = N.gen_domain(rng, 0, rng.choice([0, 0, 1, 2]), max_comps=4)
  D = N.make_domain(dom)
  parallel = rng.random() < 0.15
  coef = [rng.choice([-2, -1, 0, 0, 1, 1, 3]) for _ in range(oh_dim(dom))]
  xs = []
  for _ in range(rng.randint(1, 3)):
    x = N.feasible_relaxed(rng, dom) or N.gen_relaxed_point(rng, dom)
    xs.append(x)
  af = LinearAF(coef)
  if parallel:
    af = object.__new__(ExpectedParallelImprovement)
    lin = LinearAF(coef)
    af.evaluate_at_point_list = lin.evaluate_at_point_list
  opt = G.get_discrete_conversion_option(D)
  if parallel or D.is_integer_constrained:
    opt = "none"
  s = Script(rng)
  with scripted(s):
    try:
      out = G.convert_from_one_hot(numpy.array(xs, dtype=float), D, af).tolist()
    except AssertionError:
      out = None
  cats = split_cats(s.cats, n_cat(dom), len(xs))
  outl = "None" if out is None else f"(Some {pts_lit(out)})"
  term = (f"CConv {N.dom_lit(dom)} {C.blit(parallel)} {C.listlit(coef, C.qlit)} {pts_lit(xs)} {dorc_lit(cats)} "
          f"{C.nlit(dict(none=0, int=1, cat=2, both=3)[opt])} {outl}")
  return term, dict(kind="conv", option=opt, dom=dom, parallel=parallel, coef=coef, xs=xs, out=out)


def replace_case(rng):
  """replace_duplicate_points on duplicate-heavy batches / histories (unconstrained domains: every draw scripted)."""
  discrete = rng.random() < 0.6
  kinds = ["int", "categorical", "quantized"] if discrete else ["double", "int", "categorical", "quantized"]
  comps = [N.gen_component(rng, rng.choice(kinds)) for _ in range(rng.randint(1, 3))]
  if not discrete and all(c["var_type"] != "double" for c in comps):
    comps.append(N.gen_component(rng, "double"))
  if discrete:  # keep the configuration space small so that exhaustion is reached
    comps = comps[:2]
    for c in comps:
      if c["var_type"] == "int":
        c["elements"][1] = c["elements"][0] + rng.randint(1, 3)
  dom = dict(comps=comps, cons=[])
  D = N.make_domain(dom)
  pool = [N.gen_valid_point(rng, dom) for _ in range(rng.randint(1, 4))]
  pts = [list(rng.choice(pool)) for _ in range(rng.randint(1, 4))]
  hist = [list(rng.choice(pool)) if rng.random() < 0.5 else N.gen_valid_point(rng, dom) for _ in range(rng.randint(0, 10))]
  if discrete and rng.random() < 0.3:   # exhaust the space
    import itertools
    elems = [list(range(int(c["elements"][0]), int(c["elements"][1]) + 1)) if c["var_type"] == "int" else c["elements"] for c in comps]
    allp = [list(p) for p in itertools.product(*elems)]
    if len(allp) <= 40:
      rng.shuffle(allp)
      hist = allp[: max(0, len(allp) - rng.randint(0, 2))] + hist[:2]
  s = Script(rng)
  with scripted(s):
    try:
      out = D.replace_duplicate_points(numpy.array(pts, dtype=float), numpy.array(hist, dtype=float).reshape(len(hist), len(comps)), tolerance=0.01).tolist()
    except (KeyError, IndexError):
      out = None
  orc = s.orc if s.orc else [int(v) for v in getattr(s, "last_randint", [])]
  cols = s.cols
  outl = "None" if out is None else f"(Some {pts_lit(out)})"
  term = f"CReplace {N.dom_lit(dom)} {pts_lit(pts)} {pts_lit(hist)} {C.listlit(orc, C.zlit)}%Z {qorc_lit(cols=cols)} {outl}"
  return term, dict(kind="replace", dom=dom, pts=pts, hist=hist, out=out, discrete=discrete)


def snap_case(rng):
  from libsigopt.views.rest import gp_next_points_categorical as G
  opts = sorted(set(rng.randint(0, 16) / 16 for _ in range(rng.randint(2, 4))))
  if len(opts) < 2:
    opts = [0.25, 0.75]
  costs = [rng.choice(opts + [(opts[0] + opts[1]) / 2, rng.randint(0, 32) / 32]) for _ in range(rng.randint(1, 4))]
  out = G.snap_continuous_tasks_to_discrete_options(numpy.array(costs), numpy.array(opts)).tolist()
  return f"CSnap {C.listlit(costs, C.qlit)} {C.listlit(opts, C.qlit)} {C.listlit(out, C.qlit)}", dict(kind="snap", costs=costs, opts=opts, out=out)


def softmax_case(rng):
  from libsigopt.views.rest import gp_next_points_categorical as G
  opts = sorted(set(round(rng.random() * rng.choice([1, 1, 5]), 3) for _ in range(rng.randint(2, 4))))
  if len(opts) < 2:
    opts = [0.1, 0.9]
  s = Script(rng)
  with scripted(s):
    got = G.select_random_task_by_softmax(numpy.array(opts), size=rng.choice([None, 3]))
  a, p = s.softmax[0]
  exps = [float(numpy.exp(-v)) for v in opts]
  ok = a == opts and all(float(g) in opts for g in numpy.atleast_1d(got))
  term = f"CSoftmax {C.listlit(exps, C.qlit)} {C.listlit(p if ok else [2.0] * len(p), C.qlit)}"
  return term, dict(kind="softmax", opts=opts, p=p)


# ------------------------------------------------------------------------------------------ layer (ii): stubbed optimiser


def stub_worker(req):
  """GP / search view with the acquisition optimiser replaced by harness-chosen relaxed points (corners, ties, faces)."""
  import importlib
  from libsigopt.views.rest import gp_next_points_categorical as G
  from libsigopt.views.rest import search_next_points as S
  rng = random.Random(req["seed"])
  dom = dict(comps=req["comps"], cons=req["cons"])
  try:
    params, tasks = U.build_params(req)
  except Exception as e:
    return dict(skip=f"{type(e).__name__}: {e}")

  def relaxed(n, dim_with_task, task_lo_hi):
    rows = []
    for _ in range(n):
      x = None
      for _ in range(300):   # the optimiser's contract: the relaxed box and EVERY relaxed constraint (int-typed ones included)
        y = N.gen_relaxed_point(rng, dom, rng.choice(["corner", "tie", "mixed", "rand", "rand"]))
        if N.relaxed_sat(dom, y):
          x = y
          break
      if x is None:
        raise RuntimeError("no feasible relaxed point generated")
      if rng.random() < 0.3 and rows:
        x = list(rows[0])          # exact duplicate proposals
      if task_lo_hi:
        x = x + [rng.choice(task_lo_hi)] if len(x) < dim_with_task else x
      rows.append(x)
    return numpy.array(rows, dtype=float)

  def cl_stub(domain, af, num_to_sample):
    lo_hi = [float(min(tasks)), float(max(tasks))] if tasks else None
    return relaxed(num_to_sample, domain.dim, lo_hi), {}

  def qei_stub(domain, af):
    return relaxed(1, domain.dim, None)[0], {}

  def search_stub(af, num_to_sample):
    return relaxed(num_to_sample, af.dim, None), {}

  saved = (G.constant_liar_acquisition_function_optimization, G.qei_acquisition_function_optimization, S.search_strategy_optimization)
  G.constant_liar_acquisition_function_optimization, G.qei_acquisition_function_optimization = cl_stub, qei_stub
  S.search_strategy_optimization = search_stub
  try:
    mod, cls = U.VIEWS[req["endpoint"]]
    view = getattr(importlib.import_module(mod), cls)(params)
    before = copy.deepcopy(params["points_sampled"].points)
    resp = view.view()
    if not numpy.array_equal(before, params["points_sampled"].points):
      return dict(error="InputModified", message="points_sampled.points changed", task_options=tasks)
  except RuntimeError as e:
    return dict(skip=str(e))
  except Exception as e:
    import traceback
    return dict(error=type(e).__name__, message=str(e)[:300], where=traceback.format_exc()[-500:], task_options=tasks)
  finally:
    G.constant_liar_acquisition_function_optimization, G.qei_acquisition_function_optimization, S.search_strategy_optimization = saved
  return dict(points=numpy.asarray(resp["points_to_sample"], dtype=float).tolist(), task_costs=resp.get("task_costs"), task_options=tasks)


def dyadic_request(rng, endpoint, **kw):
  """Requests whose domains are the small dyadic ones of the C09 generator (so that relaxed ties / corners / faces are exact)."""
  req = U.gen_request(rng, endpoint, **kw)
  dom = N.gen_domain(rng, kw.get("n_int_con", rng.choice([0, 0, 1, 2])), kw.get("n_dbl_con", rng.choice([0, 0, 1])), max_comps=3)
  req["comps"], req["cons"], req["priors"] = dom["comps"], dom["cons"], None
  return req


def generate(ctx):
  """Tie T for the one closed-form piece of C01: the probabilities of the task draw are regenerated from the source (Gen/GenSoftmax.v)."""
  from py2v import gen
  return gen.generate(ctx, ["GenSoftmax"])


def pool_map(fn, reqs, workers=8):
  if not reqs:
    return []
  with multiprocessing.get_context("fork").Pool(min(workers, len(reqs))) as pool:
    res = pool.map(fn, reqs, chunksize=1)
    pool.close()
    pool.join()   # let the workers exit normally (coverage measurement of the workers, tools/covrun.sh)
    return res


def no_violators_request():
  """SPE-search, explore / resolve phase, no observation violates a threshold (corpus/C01/spe_search_no_violators.json: the defect repaired by
  'fix: SPE search forces the threshold split only when some observation violates a threshold' - the view used to raise AssertionError)."""
  return dict(endpoint="spe_search", comps=[dict(var_type="categorical", elements=[1, 3, 5]), dict(var_type="double", elements=[0.0, 4.0]),
                                           dict(var_type="int", elements=[0, 8])], cons=[], priors=None, n_obs=14, nopt=0, ncon=2,
              ntask=0, npend=0, num_to_sample=1, budget=14, failp=0.0, noise=0.0, parallelism="constant_liar", dup_heavy=False,
              thresholds_opt=False, violators=False, seed=20260929)


def short_batch_request():
  """Deterministic instance of the finding SHORT_SIG (Props/C01_refuted.v): thin int-constraint band plus a double parameter."""
  return dict(endpoint="gp", comps=[dict(var_type="int", elements=[0, 10]), dict(var_type="int", elements=[0, 10]), dict(var_type="double", elements=[0.0, 1.0])],
              cons=[dict(weights=[3, -2, 0], rhs=0.9, var_type="int"), dict(weights=[-3, 2, 0], rhs=-1.1, var_type="int")], priors=None,
              n_obs=8, nopt=1, ncon=0, ntask=0, npend=0, num_to_sample=2, budget=40, failp=0.0, noise=0.0, parallelism="constant_liar",
              dup_heavy=False, thresholds_opt=False, violators=True, seed=2)


def classify(req, out):
  """Failure dict for one endpoint run, or None.  Independent oracle: lib/c01_util.check_response."""
  ep = req["endpoint"]
  if "skip" in out:
    return None
  if "error" in out:
    if out["error"] == "SPEInsufficientDataError":
      return None  # the library's own refusal (too few observations for the estimator): outside the valid requests
    int_con = any(k["var_type"] == "int" for k in req["cons"])
    if ep in ("gp", "search") and int_con and any(m in out.get("where", "") + out.get("message", "") for m in SHORT_MARKS):
      sig = SHORT_SIG
    else:
      sig = f"C01:{ep}:raises:{out['error']}"
    return dict(signature=sig, what=f"{ep} endpoint raised {out['error']}: {out.get('message', '')}", input=req, observed=out,
                expected="a response with admissible points", oracle="no exception on a valid request")
  for opts, p in out.get("weighted_draws") or []:
    # every weighted draw of a model-based endpoint is the task draw: over the task options, with probability proportional to exp(-cost)
    tk = sorted(float(t) for t in (out["task_options"] or []))
    if sorted(opts) != tk or not tk:
      continue   # a weighted draw over something else (the temperature-weighted category choice of the decoder, C09)
    w = [math.exp(-c) for c in opts]
    want = [x / sum(w) for x in w]
    if len(p) != len(want) or any(abs(a - b) > 1e-12 for a, b in zip(p, want)):
      return dict(signature=f"C01:{ep}:task-draw-not-softmax-of-negative-cost", what=f"{ep} endpoint: the task is not drawn over the task options with probability "
                  "proportional to exp(-cost)", input=req, observed=dict(options=opts, probabilities=p), expected=dict(options=tk, probabilities=want),
                  oracle="parameters of the weighted draw against exp(-c) / sum exp(-c)")
  bad = U.check_response(dict(req, task_options=out["task_options"]), out)
  if bad:
    return dict(signature=f"C01:{ep}:{bad[0]}", what=f"{ep} endpoint: {bad[0]} {bad[1]}", input=req, observed=out,
                expected="every point in the domain, count rule, one task cost per point from the options",
                oracle="independent membership routine (tolerance 1e-9 on constraints)")
  return None


# ------------------------------------------------------------------------------------------ correspondence


def real_requests(rng, n):
  reqs = []
  plan = ["random", "spe", "spe_search", "gp", "search", "spe", "random", "gp", "spe_search", "search"]
  for i in range(n):
    ep = plan[i % len(plan)]
    kw = {}
    if ep in ("gp", "search"):
      kw = dict(n_obs=rng.randint(8, 12), max_dim=3, num_to_sample=rng.choice([1, 2]))
    if ep in ("spe", "spe_search"):
      kw = dict(n_obs=rng.randint(16, 30))
    if ep == "spe_search" and i % 20 == 8:
      kw["violators"] = False                # no observation violates a threshold
    if i % 7 == 3:
      kw["constraints"] = "yes"
    reqs.append(U.gen_request(rng, ep, **kw))
  return reqs


def correspondence(ctx):
  rng = ctx.rng
  cases, meta, dist, seen, nontriv = [], [], {}, set(), 0

  def add(term, m, nt):
    nonlocal nontriv
    cases.append(term)
    meta.append(m)
    dist[m["kind"]] = dist.get(m["kind"], 0) + 1
    h = C.canon_hash(m)
    if h not in seen and nt:
      nontriv += 1
    seen.add(h)

  for _ in range(ctx.n(160, 3000)):
    t, m = conv_case(rng)
    add(t, m, m["option"] != "none" or len(m["xs"]) > 1)
    dist["conv:" + m["option"]] = dist.get("conv:" + m["option"], 0) + 1
  for _ in range(ctx.n(140, 3000)):
    t, m = replace_case(rng)
    add(t, m, m["out"] is not None and m["out"] != m["pts"])
  for _ in range(ctx.n(40, 500)):
    t, m = snap_case(rng)
    add(t, m, True)
  for _ in range(ctx.n(30, 300)):
    t, m = softmax_case(rng)
    add(t, m, True)
  # layer (ii): the real GP / search views with the optimiser stubbed
  stub_reqs = []
  for i in range(ctx.n(100, 800)):
    ep = "gp" if i % 4 else "search"
    kw = dict(n_obs=rng.randint(6, 9), ntask=rng.choice([0, 0, 2]) if ep == "gp" else 0, num_to_sample=rng.choice([1, 2, 3]))
    if i % 5 == 0:
      kw["n_int_con"] = 1
    r = dyadic_request(rng, ep, **kw)
    if r["parallelism"] == "qei" and r["npend"] > 0 and not r["ntask"]:
      r["num_to_sample"] = 1
    stub_reqs.append(r)
  stub_out = pool_map(stub_worker, stub_reqs)
  # layer (iii): real, unstubbed endpoints (small optimiser budgets)
  real_reqs = real_requests(rng, ctx.n(40, 300))
  real_out = pool_map(U.run_endpoint, real_reqs)
  dis = []
  for layer, reqs, outs in (("stub", stub_reqs, stub_out), ("real", real_reqs, real_out)):
    for req, out in zip(reqs, outs):
      key = f"{layer}:{req['endpoint']}"
      if "skip" in out or out.get("error") == "SPEInsufficientDataError":
        dist[key + ":skipped"] = dist.get(key + ":skipped", 0) + 1
        continue
      if "error" in out:
        f = classify(req, out)
        dis.append(dict(what=f"C01 {layer} endpoint {req['endpoint']} raised {out['error']}: {out.get('message', '')}", kind="endpoint",
                        input=req, observed=out, known=bool(f and f["signature"] == SHORT_SIG)))
        continue
      nocost = req["endpoint"] in ("search", "spe_search")
      add(resp_case(dict(req), out, nocost), dict(kind=key, input=req, out=out), len(out["points"]) > 0)
  bad = C.run_cases("C01", HEADER, "case", "check", cases)
  for i in bad:
    m = meta[i]
    dis.append(dict(what=f"C01 correspondence case {i} ({m['kind']}): implementation output differs from Model.EndpointTail / its specification",
                    kind=m["kind"], input=m.get("input", m), observed=m.get("out")))
  dis = [d for d in dis if not d.get("known")]
  # layer (iv): the glue of the composed statements (optimiser / sampler stage), Model/Compose01Corr.v
  kn, kdist, kdis, kmeta = K.run(ctx)
  dist.update(kdist)
  dis += kdis
  nontriv += len({C.canon_hash(m) for m in kmeta})
  return dict(evaluations=len(cases) + kn, distinct_nontrivial=nontriv,
              rule="layer (i): convert_from_one_hot with a linear acquisition function on dyadic relaxed points (corners, ties, constraint "
                   "faces; every neighbour-search option), replace_duplicate_points on duplicate-heavy / exhausted discrete and mixed "
                   "domains with every draw scripted, task snapping, softmax parameters; layer (ii): GP and search views with the optimiser "
                   "stubbed to return adversarial feasible relaxed points (duplicates, tasks, int constraints, qEI); layer (iii): real calls "
                   "of all five endpoints; non-trivial = neighbour search active or several rows (conv), output differs from the proposals "
                   "(replace), at least one point returned (responses); distinct by hash of the canonical input; layer (iv): the real one-hot "
                   "domain construction, one-hot sampler, vectorized_acquisition_optimization and the constant-liar loop with a scripted "
                   "acquisition function and scripted draws against Model.Compose01 (exact on unconstrained search domains, specification "
                   "with 1e-9 on constrained ones), every case counted",
              samples=[dict((k, v) for k, v in m.items() if k != "out") for m in meta[:2]], distribution=dist, disagreements=dis)


# ------------------------------------------------------------------------------------------ searcher


def search_requests(rng, n):
  reqs = []
  eps = ["random", "spe", "spe_search", "gp", "search"]
  for i in range(n):
    ep = eps[i % 5]
    kw = {}
    if ep in ("gp", "search"):
      kw = dict(n_obs=rng.randint(8, 14), max_dim=3)
    else:
      kw = dict(n_obs=rng.randint(10, 40))
    style = i % 11
    if style == 0:
      kw.update(discrete_only=True, dup_heavy=True)
    elif style == 1:
      kw.update(constraints="yes")
    elif style == 2:
      kw.update(discrete_only=True, constraints="yes")
    elif style == 3:
      kw.update(priors="yes", constraints="no")
    elif style == 4:
      kw.update(failp=0.8)
    elif style == 5:
      kw.update(npend=3, parallelism="qei")
    elif style == 6 and ep in ("gp", "spe"):
      kw.update(nopt=2, ncon=1)
    elif style == 7 and ep not in ("search", "spe_search"):
      kw.update(ntask=3, constraints="yes")
    elif style == 9:   # priors together with linear constraints (the prior samplers ignore constraints: the views must not use them)
      kw.update(priors="yes", constraints="yes")
    elif style == 10:  # the same in the initialisation phase / with many open suggestions (non-model-based branches)
      kw.update(priors="yes", constraints="yes", npend=rng.choice([0, 6, 12]))
    r = U.gen_request(rng, ep, **kw)
    if style == 10:
      r["budget"] = rng.choice([20 * r["n_obs"], 50 * r["n_obs"], 2 * r["n_obs"]])
    if style == 8:  # phase boundaries of the budget
      r["budget"] = rng.choice([r["n_obs"], r["n_obs"] + 1, int(r["n_obs"] / 0.15) + 1, int(r["n_obs"] / 0.75), 5 * r["n_obs"], int(r["n_obs"] / 0.4)])
    reqs.append(r)
  for j in range(max(2, n // 80)):   # the model-based endpoints on a thin polytope between two opposing constraints (their pretest / start points come from the padding)
    reqs.append(U.gen_request(rng, ["gp", "search"][j % 2], n_obs=rng.randint(8, 12), max_dim=3, constraints="thin", discrete_only=False,
                              num_to_sample=rng.choice([1, 2]), npend=0, ntask=0))
  return reqs


def cheap_requests(rng, n):
  """The model-free and Parzen endpoints cost ~0.1 s per call: sweep the cross product of the branches they take (priors x kind of
  constraint x budget phase x number of open suggestions x tasks), which the mixed plan above reaches only a few times per run."""
  reqs = []
  eps = ["spe", "random", "spe_search"]
  phases = [50, 20, 6, 3, 1.5, 1.0]      # budget / observations: initialisation ... completion
  for i in range(n):
    ep = eps[i % 3]
    kw = dict(n_obs=rng.randint(10, 40), priors=["yes", "no", "yes", "maybe"][(i // 3) % 4], constraints=["yes", "yes", "no", "maybe"][(i // 12) % 4])
    kw["npend"] = [0, 0, 1, 3, 25, 60][(i // 48) % 6 if i >= 48 else rng.randrange(6)]
    if ep != "spe_search":
      kw["ntask"] = rng.choice([0, 0, 2, 3])
    elif (i // 3) % 4 == 1:
      kw["violators"] = False              # thresholds that no observation violates (the search estimator then keeps the constructor's split)
    kw["discrete_only"] = rng.random() < 0.15
    if i % 16 == 5:
      kw["constraints"] = "both"           # double- AND int-typed constraints (their order in the list is shuffled)
    r = U.gen_request(rng, ep, **kw)
    r["budget"] = max(1, int(r["n_obs"] * phases[(i // 3) % 6] + rng.choice([0, 0, 1])))
    reqs.append(r)
  for j in range(max(4, n // 90)):
    # a converged experiment: the best observations cluster tightly, a batch is requested (the Parzen endpoints' rejection sampler may run dry)
    r = U.gen_request(rng, ["spe", "spe_search"][j % 2], n_obs=rng.randint(30, 45), constraints="no", priors="no", discrete_only=False,
                      num_to_sample=rng.choice([5, 12, 20]), npend=0, ntask=0, cluster=rng.choice([0.001, 0.003, 0.01]), failp=0.0)
    r["comps"] = [dict(var_type="double", elements=[0.0, 1.0]) for _ in range(rng.randint(2, 3))]
    r["cons"], r["priors"] = [], None
    r["budget"] = 3 * r["n_obs"]
    reqs.append(r)
  for j in range(max(4, n // 60)):
    # double-typed constraints listed BEFORE a tight int-typed one (the int rows are then not the first rows of the half-space
    # matrix), many points per call: the decoder's integer-feasibility test must look at the right rows for every one of them
    na, nb = rng.randint(4, 6), rng.randint(4, 6)
    comps = [dict(var_type="double", elements=[0.0, 1.0]), dict(var_type="int", elements=[0, na]), dict(var_type="double", elements=[0.0, 2.0]),
             dict(var_type="int", elements=[0, nb])]
    if j % 2:
      comps.append(dict(var_type="categorical", elements=[1, 3, 4]))
    d = len(comps)
    def wv(pairs):
      w = [0.0] * d
      for k, v in pairs:
        w[k] = v
      return w
    cons = [dict(weights=wv([(0, 1.0), (2, 1.0)]), rhs=0.5, var_type="double")]
    if j % 3 == 0:
      cons.append(dict(weights=wv([(0, -1.0), (2, -0.5)]), rhs=-1.75, var_type="double"))
    cons.append(dict(weights=[int(v) for v in wv([(1, 1), (3, 1)])], rhs=float(na + nb - rng.choice([2, 3])), var_type="int"))
    r = U.gen_request(rng, ["random", "spe", "spe_search"][j % 3], n_obs=rng.randint(12, 20), constraints="no", priors="no", discrete_only=False,
                      num_to_sample=rng.choice([60, 120]), npend=0, ntask=0, failp=0.0)
    r["comps"], r["cons"], r["priors"] = comps, cons, None
    r["budget"] = 50 * r["n_obs"]      # initialisation phase: the model-free draws, decoded point by point
    reqs.append(r)
  for j in range(max(9, n // 40)):
    # a THIN polytope between two opposing double-typed constraints (U.thin_domain): rejection sampling gives up or finds only part of the points,
    # the rows come from the hit-and-run padding / the forced hit-and-run branch - in every phase of the model-free and Parzen endpoints (the rows of
    # the random endpoint, of the initialisation phase and of the duplicate replacement / top-up go straight to the caller)
    r = U.gen_request(rng, ["random", "spe", "spe_search"][j % 3], n_obs=rng.randint(10, 30), constraints="thin", discrete_only=False,
                      num_to_sample=rng.choice([2, 3, 5, 8]), npend=rng.choice([0, 0, 2]), ntask=0 if j % 3 == 2 else rng.choice([0, 0, 2]), failp=rng.choice([0.0, 0.2]))
    r["budget"] = max(1, int(r["n_obs"] * phases[(j // 3) % 6] + rng.choice([0, 1])))
    reqs.append(r)
  for j in range(max(4, n // 90)):
    # multitask request on a thin int-constrained band: fewer points than requested may come back - one task cost per RETURNED point
    r = short_batch_request()
    r.update(endpoint="spe", ntask=rng.choice([2, 3]), num_to_sample=rng.choice([3, 6]), n_obs=rng.randint(12, 30), seed=rng.randint(0, 2 ** 31 - 1),
             budget=rng.choice([40, 400]), nopt=1, ncon=0)
    reqs.append(r)
  return reqs


def search(ctx, hints, broken):
  fails, n = [], 0
  reqs = [no_violators_request(), short_batch_request()]
  for h in hints:
    inp = h.get("input")
    if isinstance(inp, dict) and "endpoint" in inp and "seed" in inp:
      reqs.append(inp)
  reqs += search_requests(ctx.rng, ctx.n(165, 900) * (2 if broken else 1))
  reqs += cheap_requests(ctx.rng, ctx.n(720, 6000) * (2 if broken else 1))
  outs = pool_map(U.run_endpoint, reqs)
  seen = set()
  for req, out in zip(reqs, outs):
    n += 1
    f = classify(req, out)
    if f and f["signature"] not in seen:
      seen.add(f["signature"])
      fails.append(f)
  # layer-(ii) style search on real-valued tails: stubbed optimiser, more requests
  sreqs = []
  for i in range(ctx.n(80, 600)):
    r = dyadic_request(ctx.rng, "gp" if i % 3 else "search", n_obs=ctx.rng.randint(6, 9), ntask=ctx.rng.choice([0, 2, 3]) if i % 3 else 0)
    if r["parallelism"] == "qei" and r["npend"] > 0 and not r["ntask"]:
      r["num_to_sample"] = 1
    sreqs.append(r)
  for req, out in zip(sreqs, pool_map(stub_worker, sreqs)):
    n += 1
    f = classify(req, out)
    if f:
      f["input"] = dict(req, stub=True)
      if f["signature"] != SHORT_SIG:
        f["signature"] += ":stubbed-optimiser"
      if f["signature"] not in seen:
        seen.add(f["signature"])
        fails.append(f)
  return dict(evaluations=n, failures=fails, oracle="independent Python membership routine, count rule and task-cost rule on the responses of all five endpoints")


def replay(ctx, payload):
  req = dict(payload["input"])
  if req.pop("stub", False):
    out = stub_worker(req)
    f = classify(req, out)
    if f and f["signature"] != SHORT_SIG:
      f["signature"] += ":stubbed-optimiser"
    return f
  return classify(req, U.run_endpoint(req))


LEVEL_TEXT = ("Coq theorems on an executable model of the tail of each of the five next-points endpoints (neighbour search, decode with "
              "integer-feasible snapping, de-duplication and padding, prior / quasi-random draws, rejection-sampling tail, task snapping), "
              "composed from the C09 decode and C10 sampling models: for every well-formed domain, history, phase, oracle stream and every "
              "feasible relaxed input, every returned point is Admissible, the count rule and the task-cost rule hold; softmax parameters "
              "positive, summing to one, monotone in the cost. The model is tied to the code by in-Coq differential runs of the funnel "
              "functions, by the real views with a stubbed optimiser, and by real endpoint calls whose responses are decided by resp_okb")
LEVEL_NOTE = ("relaxed_ok of the optimiser / sampler output is discharged by composition with C07 / C08 (Props/C01_composed.v; constraints with >= 2 non-zero weights, an interior point on constrained domains); the "
              "hit-and-run sampler branches are tied at their call into the sampler (what is handed over and what is done with the result; the samplers themselves are C08's) and the whole-endpoint glue functions through their parts, constrained optimiser runs through the specification with 1e-9; range contracts of the random libraries are hypotheses; float "
              "rounding at constraint faces is not modelled; the distribution of the softmax draw is not modelled beyond its parameters; "
              "one known finding (int-constrained short batch); the SPE-search endpoint without threshold violators, a known finding of the earlier rounds, is repaired "
              "(fix: SPE search forces the threshold split only when some observation violates a threshold) and its witness is replayed from the corpus")
TECHNIQUE = "Coq proof (induction over the component list, composition of C09/C10 theorems) + in-Coq differential correspondence"
DESIGN_REF = "DESIGN.md section 7, C01"

# --- second build round: additions to the claimed level
LEVEL_TEXT += ("; the probability vector of the task draw is regenerated from the source on every run (py2v unit GenSoftmax) and proved to be a distribution "
               "with p_i = exp(c_j - c_i) p_j, hence proportional to exp(-cost) and monotone in the cost")
TECHNIQUE += " + Coquelicot/Reals proofs on a definition regenerated from source (translator) for the task-draw probabilities"
LEVEL_TEXT += ("; END-TO-END composition (Props/C01_composed.v): the optimiser / sampler stage of every endpoint is an executable glue model over the C07 and C08 models (DE, Adam, constant-liar loop, qEI run, "
               "search loop, one-hot samplers incl. rejection with hit-and-run padding, Parzen candidate generation), proved to hand only relaxed-feasible points to the tail for every partial acquisition function and "
               "every draw stream, so that the random, GP, GP-multitask, Parzen, search and Parzen-search endpoint models return admissible points with the count rule with no hypothesis on the optimisers' output; "
               "the glue is tied to the real vectorized_acquisition_optimization / constant-liar / qEI routines, the real one-hot domain and samplers and the real draw_samples by an exact in-Coq correspondence")
TECHNIQUE += " + composition of the C07/C08 models into end-to-end endpoint theorems"
LEVEL_TEXT += ("; the two constrained branches of the one-hot sampler are tied at the call they make into aux/samplers.py (KSampleCall: the half-space rows - constraint rows and both "
               "bound rows of every coordinate -, the start point and the box handed over, the overwritten unconstrained columns, exact); the searcher's requests include THIN "
               "polytopes between two opposing double-typed constraints, on which rejection sampling gives up and every row comes from the hit-and-run padding / forced hit-and-run")
