"""C12 — Metric normalisation is an order-respecting, invertible affine map."""
import copy
import math
from fractions import Fraction

import numpy

from lib import common as C

PROP = "C12"
PROPS_FILES = ["Props/C12.v"]
ASSUMPTIONS = [
  "exact arithmetic over Q: every finite double is a rational; float rounding (midpoint rounding at huge offsets, overflow of max - min "
  "beyond 1e150) is outside the model and is met only by the searcher, with the tolerances stated in tools/props/C12.py",
  "correspondence inputs are dyadic rationals with few bits, so max, min, midpoint and value - midpoint are exact in double arithmetic; "
  "quantities that pass through 0.2/(max-min), 1/max|v|, the mean or the constants 0.1, 1e-10, 1e-6 are compared to 1e-12 relative",
  "values are finite and the failure mask has the length of the value array (NumPy boolean indexing raises otherwise); a threshold "
  "None is NumPy NaN and means 'no threshold'; through the view the rows of FAILED observations may store anything (sentinels, +-inf, NaN): "
  "they are never read (C12_failed_values_ignored, C12_multi_failed_values_ignored, C12_view_failed_values_ignored)",
  "numpy.fmax on finite data is max; numpy.min/max/mean are the mathematical min/max/mean",
]
TRUSTED = ["tools/props/C12.py case generator, minimal-View builder and the Q-literal printer", "Model/MidpointCorr.v check function"]

LIES = ("constant_liar_min", "constant_liar_max", "constant_liar_mean")
OBJ_COQ = {"minimize": "Minimize", "maximize": "Maximize", None: "NoObjective"}
HEADER = ("From Coq Require Import List QArith Bool.\nFrom LV Require Import Model.Midpoint Model.MidpointCorr.\n"
          "Open Scope Q_scope.")


def _dc():
  from libsigopt.compute.misc import data_containers as dc
  return dc


def make_view(vals, vars_, fails, objs, opt_ix, con_ix, thr):
  """A minimal View over a 1-D double domain; only the metric preprocessing of View.__init__ matters here."""
  from libsigopt.aux.adapter_info_containers import DomainInfo, MetricsInfo, PointsContainer
  from libsigopt.views.view import View
  vals = numpy.array(vals, dtype=float)
  n = len(vals)
  pc = PointsContainer(points=numpy.linspace(0.1, 0.9, n)[:, None], values=vals, value_vars=numpy.array(vars_, dtype=float),
                       failures=numpy.array(fails, dtype=bool))
  di = DomainInfo(constraint_list=[], domain_components=[{"var_type": "double", "elements": (0.0, 1.0)}])
  mi = MetricsInfo(requires_pareto_frontier_optimization=False, observation_budget=50, user_specified_thresholds=list(thr),
                   objectives=list(objs), optimized_metrics_index=list(opt_ix), constraint_metrics_index=list(con_ix))
  snap = (pc.values.copy(), pc.value_vars.copy(), pc.failures.copy())
  v = View(dict(tag={}, domain_info=di, points_sampled=pc, metrics_info=mi, task_options=[]))
  assert numpy.array_equal(snap[0], pc.values, equal_nan=True) and (snap[1] == pc.value_vars).all() and (snap[2] == pc.failures).all(), "view modified the request"
  return v


def fl(a):
  return [float(x) for x in numpy.asarray(a, dtype=float).ravel()]


def observe_view(v, inp):
  """the arrays of a view object that the models consume (observe_at of C12), as they are NOW"""
  out = {}
  def nn(a):
    return [None if x != x else float(x) for x in numpy.asarray(a, dtype=float).ravel()]
  if inp["opt_ix"]:
    k = len(inp["opt_ix"])
    out["opt"] = dict(values=fl2(v.points_sampled_for_af_values, k), lie=fl(v.scaled_optimized_lie_values),
                      vars=fl2(v.points_sampled_for_af_value_vars, k), thr=nn(v.optimized_metrics_thresholds))
  if inp["con_ix"]:
    k = len(inp["con_ix"])
    out["con"] = dict(values=fl2(v.points_sampled_for_pf_values, k), lie=fl(v.scaled_constraint_lie_values),
                      vars=fl2(v.points_sampled_for_pf_value_vars, k), thr=nn(v.constraint_thresholds))
  return out


def make_endpoint_view(inp):
  """A live view object of a concrete endpoint class over a 2-D double domain, built from a whole request (the request object is returned too)."""
  from libsigopt.aux.adapter_info_containers import DomainInfo, GPModelInfo, MetricsInfo, PointsContainer
  m = inp["m"]
  vals = numpy.array(inp["vals"], dtype=float).reshape(-1, m)
  n = len(vals)
  rs = numpy.random.RandomState(inp["seed"])
  req = dict(
    tag={}, task_options=[], num_to_sample=inp.get("num_to_sample", 2), max_simultaneous_af_points=1000,
    domain_info=DomainInfo(constraint_list=[], domain_components=[dict(var_type="double", elements=(0, 1)), dict(var_type="double", elements=(-1, 3))]),
    metrics_info=MetricsInfo(requires_pareto_frontier_optimization=len(inp["opt_ix"]) == 2, observation_budget=inp["budget"], user_specified_thresholds=list(inp["thr"]),
                             objectives=list(inp["objs"]), optimized_metrics_index=list(inp["opt_ix"]), constraint_metrics_index=list(inp["con_ix"])),
    points_sampled=PointsContainer(points=numpy.column_stack((rs.uniform(0, 1, n), rs.uniform(-1, 3, n))), values=vals,
                                   value_vars=numpy.array(inp["vars"], dtype=float).reshape(-1, m), failures=numpy.array(inp["fails"], dtype=bool)),
    points_being_sampled=PointsContainer(points=numpy.column_stack((rs.uniform(0, 1, inp["n_open"]), rs.uniform(-1, 3, inp["n_open"])))))
  ep = inp["endpoint"]
  if ep == "spe":
    from libsigopt.views.rest.spe_next_points import SPENextPoints as V
  elif ep == "spe_search":
    from libsigopt.views.rest.spe_search_next_points import SPESearchNextPoints as V
  else:
    from libsigopt.aux.constant import PARALLEL_CONSTANT_LIAR
    from libsigopt.compute.misc.constant import NONZERO_MEAN_CONSTANT_MEAN_TYPE
    hp = dict(alpha=1.0, length_scales=[[0.3], [1.2]], tikhonov=1e-6, task_length=None)
    req.update(parallelism=PARALLEL_CONSTANT_LIAR,
               model_info=GPModelInfo(hyperparameters=[dict(hp) for _ in range(m)], max_simultaneous_af_points=1000,
                                      nonzero_mean_info=dict(mean_type=NONZERO_MEAN_CONSTANT_MEAN_TYPE, poly_indices=None), task_selection_strategy=None))
    if ep == "gp":
      from libsigopt.views.rest.gp_next_points_categorical import GpNextPointsCategorical as V
    else:
      from libsigopt.views.rest.search_next_points import SearchNextPoints as V
  return V(req), req


def fl2(a, m):
  a = numpy.asarray(a, dtype=float)
  return [[float(x) for x in r] for r in a.reshape(-1, m)]


def run_impl(kind, inp):
  """Run the implementation on one input; returns the observable outputs as python lists of floats."""
  dc = _dc()
  fails = numpy.array(inp["fails"], dtype=bool)
  if kind == "single":
    vals = numpy.array(inp["vals"], dtype=float)
    v0, f0 = vals.copy(), fails.copy()
    if inp.get("via_view_helper"):
      from libsigopt.views.view import form_metric_midpoint_info
      s = form_metric_midpoint_info(vals, fails, inp["obj"])
      assert isinstance(s, dc.SingleMetricMidpointInfo)
    else:
      s = dc.SingleMetricMidpointInfo(vals, fails, inp["obj"])
    vars_ = numpy.array(inp["vars"], dtype=float)
    rel = s.relative_objective_value(vals)
    relvar = s.relative_objective_variance(vars_)
    out = dict(skip=bool(s.skip), negate=int(s.negate), mid=None if s.skip else float(s.midpoint), scale=None if s.skip else float(s.scale),
               rel=fl(rel), undo_rel=fl(s.undo_scaling(rel)), relvar=fl(relvar),
               undo_ys=fl(s.undo_scaling(numpy.array(inp["ys"], dtype=float))), undovar=fl(s.undo_scaling_variances(vars_)),
               undo_relvar=fl(s.undo_scaling_variances(relvar)),
               lies=[float(s.compute_lie_value(m)) for m in LIES])
    out["scaled_lie_min"] = float(s.relative_objective_value(s.compute_lie_value(LIES[0])))
    assert (v0 == vals).all() and (f0 == fails).all(), "inputs modified"
    return out
  m = inp["m"]
  vals = numpy.array([[float(x) for x in r] for r in inp["vals"]], dtype=float).reshape(-1, m)   # "inf" / "-inf" / "nan": what a failed row may store
  if kind == "multi":
    vars_ = numpy.array(inp["vars"], dtype=float).reshape(-1, m)
    v0, f0 = vals.copy(), fails.copy()
    mm = dc.MultiMetricMidpointInfo(vals, fails, inp["objs"])
    rel = mm.relative_objective_value(vals)
    relvar = mm.relative_objective_variance(vars_)
    lies = [mm.compute_lie_value(k) for k in LIES]
    out = dict(skip=bool(mm.skip), negate=[int(x) for x in mm.negate], mid=[] if mm.skip else fl(mm.midpoint), scale=[] if mm.skip else fl(mm.scale),
               rel=fl2(rel, m), undo_rel=fl2(mm.undo_scaling(rel), m), relvar=fl2(relvar, m), undovar=fl2(mm.undo_scaling_variances(vars_), m),
               undo_relvar=fl2(mm.undo_scaling_variances(relvar), m),
               lies=[fl(x) for x in lies], scaled_lie_min=fl(mm.relative_objective_value(lies[0])),
               member_skips=[bool(s.skip) for s in mm.tuple_of_smmi])
    assert (v0 == vals).all() and (f0 == fails).all(), "inputs modified"
    return out
  if kind == "view":
    v = make_view(vals, numpy.array(inp["vars"], dtype=float).reshape(-1, m), fails, inp["objs"], inp["opt_ix"], inp["con_ix"], inp["thr"])
    return observe_view(v, inp)
  raise ValueError(kind)


# ------------------------------------------------------------------------------------------ structured generator (exact inputs)

TARGETS = ["regular", "regular", "regular", "degen_big", "degen_small", "boundary_below", "boundary_above", "huge_offset", "ties", "constant"]


def dy(rng, bits=10, e=5):
  return rng.randint(-2 ** bits, 2 ** bits) / 2 ** rng.randint(0, e)


def gen_column(rng, n, target):
  """n dyadic values whose non-failed part is meant to reach the given arm (failed entries are arbitrary)."""
  if n == 0:
    return []
  if target == "regular":
    col = [dy(rng) for _ in range(n)]
  elif target == "ties":
    pool = [dy(rng, 4, 1) for _ in range(3)]
    col = [rng.choice(pool) for _ in range(n)]
  elif target == "constant":
    c = rng.choice([0.0, 1.0, -1.0, 0.5, dy(rng), float(rng.randint(-5000, 5000)), 2.0 ** 40 * rng.choice([-1, 1])])
    col = [c] * n
  elif target == "degen_big":
    base = rng.choice([-1, 1]) * (1 + rng.randint(1, 4096) / 64.0)
    col = [base + rng.randint(0, 3) * 2.0 ** -30 for _ in range(n)]
  elif target == "degen_small":
    base = rng.choice([0.0, rng.randint(-64, 64) / 64.0, 1.0, -1.0])
    col = [base + rng.randint(-2, 2) * 2.0 ** -32 for _ in range(n)]
  elif target in ("boundary_below", "boundary_above"):
    w = 2.0 ** -26 if target == "boundary_below" else 2.0 ** -25   # half-widths 7.45e-9 < 1e-8 < 1.49e-8
    base = rng.choice([0.0, 0.5, 3.0, -7.25, 1.0])
    col = [base + rng.choice([0.0, 0.25, 0.5, 1.0]) * w for _ in range(n)]
    if n >= 2:
      col[0], col[1] = base, base + w
  elif target == "huge_offset":
    off = rng.choice([-1, 1]) * 2.0 ** rng.randint(30, 40) * rng.randint(1, 3)
    col = [off + dy(rng, 8, 4) for _ in range(n)]
  else:
    raise ValueError(target)
  return col


def gen_fails(rng, n):
  mode = rng.choice(["none", "some", "some", "all", "one_success"])
  if mode == "none":
    return [False] * n
  if mode == "all":
    return [True] * n
  if mode == "one_success":
    f = [True] * n
    if n:
      f[rng.randrange(n)] = False
    return f
  return [rng.random() < 0.4 for _ in range(n)]


def gen_vars(rng, n):
  return [rng.choice([0.0, 2.0 ** -40, 2.0 ** -20, 0.25, 1.0, 3.5, float(rng.randint(0, 2 ** 20)), rng.randint(0, 1024) / 1024.0]) for _ in range(n)]


# What the rows of FAILED observations store is arbitrary (the client reports "failed" and some numbers come along): ordinary values,
# powers of two far outside the successes, sentinels (1e30, the largest double), infinities, NaN.  Through the view nothing of it is
# ever read (C12_view_failed_values_ignored): the failed rows of the preprocessed data hold the scaled lie.  Non-finite numbers are
# written as the strings "inf" / "-inf" / "nan" (plain JSON; float() reads them back).
FAILED_STORED = [1e30, -1e30, 1.7976931348623157e308, -1.7976931348623157e308, 2.0 ** 70, -2.0 ** 60, -999999.0, "inf", "-inf", "nan", "nan"]


def store_in_failed_rows(rng, vals, fails):
  """the value matrix in which (in half of the cases with failures) the failed rows store something else, entry by entry"""
  if not any(fails) or rng.random() < 0.5:
    return vals
  return [[(rng.choice(FAILED_STORED) if rng.random() < 0.7 else x) for x in r] if f else list(r) for r, f in zip(vals, fails)]


def is_finite_number(x):
  return not isinstance(x, str) and x == x and abs(x) != float("inf")


def gen_case(rng):
  kind = rng.choice(["single", "single", "multi", "view"])
  if kind == "single":
    n = rng.choice([0, 1, 1, 2, 2, 3, 4, 6, 9])
    target = rng.choice(TARGETS)
    col = gen_column(rng, n, target)
    # failed entries may be anything, e.g. far outside the range of the successes
    fails = gen_fails(rng, n)
    for i in range(n):
      if fails[i] and rng.random() < 0.5:
        col[i] = dy(rng, 14, 3)
    return kind, dict(vals=col, fails=fails, obj=rng.choice(["minimize", "maximize", "maximize", None]), vars=gen_vars(rng, n),
                      ys=[rng.randint(-256, 256) / 1024.0 for _ in range(rng.randint(0, 4))], via_view_helper=rng.random() < 0.3)
  m = rng.choice([1, 1, 2, 2, 3, 4])
  n = rng.choice([0, 1, 2, 3, 5, 8]) if kind == "multi" else rng.choice([1, 2, 3, 5, 8])
  cols = [gen_column(rng, n, rng.choice(TARGETS)) for _ in range(m)]
  vals = [[cols[k][r] for k in range(m)] for r in range(n)]
  fails = gen_fails(rng, n)
  vars_ = [gen_vars(rng, m) for _ in range(n)]
  if kind == "multi":
    objs = None if rng.random() < 0.2 else [rng.choice(["minimize", "maximize"]) for _ in range(m)]
    return kind, dict(m=m, vals=vals, fails=fails, objs=objs, vars=vars_)
  objs = [rng.choice(["minimize", "maximize"]) for _ in range(m)]
  perm = list(range(m))
  rng.shuffle(perm)
  cut = rng.randint(0, m)
  opt_ix, con_ix = perm[:cut], perm[cut:]
  if rng.random() < 0.5:
    opt_ix, con_ix = sorted(opt_ix), sorted(con_ix)
  thr = []
  for k in range(m):
    r = rng.random()
    if r < 0.35 or n == 0:
      thr.append(None)
    elif r < 0.6:
      thr.append(cols[k][rng.randrange(n)])      # equal to an observed value
    else:
      thr.append(cols[k][rng.randrange(n)] + rng.choice([-1, 1]) * rng.choice([2.0 ** -28, 0.125, 1.0, 100.0]))
  return kind, dict(m=m, vals=store_in_failed_rows(rng, vals, fails), vars=vars_, fails=fails, objs=objs, opt_ix=opt_ix, con_ix=con_ix, thr=thr)


def branch_of(nonfail):
  """Which arm the decimal constants of the source select, computed over exact rationals."""
  if not nonfail:
    return "BSkip"
  q = [Fraction(x) for x in nonfail]
  mn, mx = min(q), max(q)
  if (mx - mn) / 2 < Fraction(1, 10 ** 8):
    return "BDegenBig" if min(abs(mx), abs(mn)) > 1 else "BDegenSmall"
  return "BRegular"


ql = lambda l: C.listlit(l, C.qlit)
ql2 = lambda l: C.listlit([ql(r) for r in l])
bl = lambda l: C.listlit(l, C.blit)


def coq_cases(kind, inp, out):
  if kind == "single":
    nf = [v for v, f in zip(inp["vals"], inp["fails"]) if not f]
    return [f"CSingle {branch_of(nf)} {ql(inp['vals'])} {bl(inp['fails'])} {OBJ_COQ[inp['obj']]} {ql(inp['vars'])} {ql(inp['ys'])} "
            f"{C.blit(out['skip'])} {C.qlit(out['negate'])} {C.optlit(out['mid'], C.qlit)} {C.optlit(out['scale'], C.qlit)} "
            f"{ql(out['rel'])} {ql(out['undo_rel'])} {ql(out['relvar'])} {ql(out['undo_ys'])} {ql(out['undovar'])} "
            f"{C.qlit(out['lies'][0])} {C.qlit(out['lies'][1])} {C.qlit(out['lies'][2])}"]
  if kind == "multi":
    objs = "None" if inp["objs"] is None else "(Some " + C.listlit([OBJ_COQ[o] for o in inp["objs"]]) + ")"
    return [f"CMulti {C.nlit(inp['m'])} {ql2(inp['vals'])} {bl(inp['fails'])} {objs} {ql2(inp['vars'])} "
            f"{C.blit(out['skip'])} {ql(out['negate'])} {ql(out['mid'])} {ql(out['scale'])} "
            f"{ql2(out['rel'])} {ql2(out['undo_rel'])} {ql2(out['relvar'])} {ql2(out['undovar'])} "
            f"{ql(out['lies'][0])} {ql(out['lies'][1])} {ql(out['lies'][2])}"]
  res = []
  objs = C.listlit([OBJ_COQ[o] for o in inp["objs"]])
  thr = C.listlit([C.optlit(t, C.qlit) for t in inp["thr"]])
  # the model runs on the matrix as stored (a finite sentinel is a rational like any other); an infinity or NaN stored in a FAILED row is
  # not a rational: the case handed to Coq carries 0 there, which by C12_view_failed_values_ignored does not change the model's output
  vals = [[x if (is_finite_number(x) or not f) else 0 for x in r] for r, f in zip(inp["vals"], inp["fails"])]
  for key, ix in (("opt", inp["opt_ix"]), ("con", inp["con_ix"])):
    if ix:
      o = out[key]
      res.append(f"CView {C.listlit(ix, C.nlit)} {ql2(vals)} {ql2(inp['vars'])} {bl(inp['fails'])} {objs} {thr} "
                 f"{ql2(o['values'])} {ql(o['lie'])} {ql2(o['vars'])} {C.listlit([C.optlit(t, C.qlit) for t in o['thr']])}")
  return res


def classify(kind, inp):
  """Arms reached by the case (measured with branch_of, for the evidence)."""
  if kind == "single":
    return [branch_of([v for v, f in zip(inp["vals"], inp["fails"]) if not f])]
  return [branch_of([r[k] for r, f in zip(inp["vals"], inp["fails"]) if not f]) for k in range(inp["m"])]


def correspondence(ctx):
  n = ctx.n(500, 8000)
  cases, meta, seen, dist = [], [], set(), {}
  nontriv = 0
  for _ in range(n):
    kind, inp = gen_case(ctx.rng)
    before = copy.deepcopy(inp)
    out = run_impl(kind, inp)
    if before != inp:
      raise C.TieBroken("harness input mutated")
    arms = classify(kind, inp)
    for cc in coq_cases(kind, inp, out):
      cases.append(cc)
      meta.append((kind, inp, out))
    dist[kind] = dist.get(kind, 0) + 1
    for a in arms:
      dist["arm:" + a] = dist.get("arm:" + a, 0) + 1
    fm = "all" if inp["fails"] and all(inp["fails"]) else ("none" if not any(inp["fails"]) else "some")
    dist["failures:" + fm] = dist.get("failures:" + fm, 0) + 1
    if kind == "view":
      for tag in sorted({"view:failed-row-stores:" + ("nan" if x == "nan" else "infinity" if isinstance(x, str) else "sentinel>=2^60" if abs(x) >= 2.0 ** 60 else "ordinary")
                         for r, f in zip(inp["vals"], inp["fails"]) if f for x in r}):
        dist[tag] = dist.get(tag, 0) + 1
    h = C.canon_hash([kind, inp])
    if h not in seen and any(a != "BSkip" for a in arms) and len(inp["vals"]) >= 2:
      nontriv += 1
    seen.add(h)
  bad = C.run_cases("C12", HEADER, "case", "check", cases)
  dis = [dict(what=f"C12 correspondence case {i} ({meta[i][0]}): implementation output differs from Model.Midpoint / its specification",
              kind=meta[i][0], input=meta[i][1], observed=meta[i][2]) for i in bad]
  return dict(evaluations=len(cases), distinct_nontrivial=nontriv,
              rule="dyadic value arrays (n<=9, up to 4 metrics) aimed at every constructor arm (regular, both degenerate-width fallbacks, "
                   "half-width just below / above 1e-8, offsets up to 3*2^40, ties, constants incl. 0 and +-1), failure masks none/some/all/"
                   "one success with arbitrary failed entries, objectives minimize/maximize/None, dyadic variances from 0 to 2^20, thresholds "
                   "None / equal to an observation / off by 2^-28..100, metric index lists in any order through a minimal View, whose failed rows "
                   "also store sentinels (1e30, the largest double, 2^70), infinities and NaN; "
                   "non-trivial = at least two rows and at least one success; distinct by hash of the canonical input",
              samples=[dict(kind=k, input=i, impl_output=o) for k, i, o in meta[:3]], distribution=dist, disagreements=dis)


# ------------------------------------------------------------------------------------------ independent oracle
# Direct statement of the property in plain Python on the implementation's outputs.  Tolerances (all from double rounding):
#   EPS = 2^-52.  Span: the midpoint (max+min)/2 is rounded at the magnitude of the values, which shifts every scaled value by up to
#   0.2*EPS*max|v|/(max-min); that bound plus 1e-12 is the span tolerance.  Inverse: undo(scale(v)) = (v - mid) + mid recomputed in
#   doubles, error a few EPS*max|v| -> 1e-9*max(1, max|v|).  Order: monotone float operations can merge neighbours but never flip them:
#   non-strict always, strict when the two values differ by more than 1e-6 of the data range (scaled gap >= 2e-7, far above rounding).
EPS = 2.0 ** -52


def better(obj, a, b):
  return a < b if obj == "minimize" else a > b


def finite(xs):
  return all(x is not None and math.isfinite(x) for x in xs)


def check_metric(obj, vals, fails, rel, undo_rel, vars_, relvar, undo_relvar, lie_min, scaled_lie, skip, probe):
  """The property for one metric; returns (what, expected) or None.  `probe(x)` scales one more value with the same object."""
  n = len(vals)
  nf = [i for i in range(n) if not fails[i]]
  allout = list(rel) + list(undo_rel) + list(relvar) + list(undo_relvar) + [lie_min, scaled_lie]
  if not finite(allout):
    return "a NaN or infinity appears in the scaled data", "finite numbers"
  if skip != (len(nf) == 0):
    return "skip mode is not 'nothing succeeded'", len(nf) == 0
  nfv = [vals[i] for i in nf]
  maxabs = max([1.0] + [abs(v) for v in nfv])
  width = (max(nfv) - min(nfv)) if nfv else 0.0
  # order: never flipped, strict for well separated values (all rows: the map is applied to failed rows too)
  rng_all = (max(vals) - min(vals)) if vals else 0.0
  for i in range(n):
    for j in range(n):
      if better(obj, vals[i], vals[j]):
        if rel[i] > rel[j]:
          return "order flipped: a better value got a larger scaled value", (vals[i], vals[j], rel[i], rel[j])
        if abs(vals[i] - vals[j]) > 1e-6 * rng_all and rng_all >= 1e-300 and not rel[i] < rel[j]:
          return "order lost: a clearly better value is not strictly smaller after scaling", (vals[i], vals[j], rel[i], rel[j])
  # inverse law on the observed (non-failed) values
  for i in nf:
    if abs(undo_rel[i] - vals[i]) > 1e-9 * maxabs:
      return "undo_scaling(relative_objective_value(v)) differs from v", (vals[i], undo_rel[i])
  # span of a non-degenerate metric (half-width clearly above 1e-8)
  if nfv and Fraction(max(nfv)) - Fraction(min(nfv)) > Fraction(2, 10 ** 8) * (1 + Fraction(1, 10 ** 6)):
    tol = 0.2 * EPS * maxabs / width + 1e-12
    sc = [rel[i] for i in nf]
    if min(sc) < -0.1 - tol or max(sc) > 0.1 + tol or abs(min(sc) + 0.1) > tol or abs(max(sc) - 0.1) > tol:
      return "non-failed values of a non-degenerate metric do not span [-0.1, 0.1]", (min(sc), max(sc), tol)
  # variances: floor, and the square of the measured value scale
  p0 = nfv[0] if nfv else 0.0
  p1 = p0 + max(1.0, abs(p0), width)
  slope = (probe(p1) - probe(p0)) / (p1 - p0)
  k2 = slope * slope
  for w, y, u in zip(vars_, relvar, undo_relvar):
    want = w * k2
    if y < 1e-10 * (1 - 1e-12):
      return "scaled variance below the minimum variance", (w, y)
    if y < want * (1 - 1e-6) or (y > want * (1 + 1e-6) and y > 1e-6 * (1 + 1e-12)):
      return "scaled variance is not max(variance * value_scale^2, floor)", (w, y, want)
    # inverse law for variances, at every magnitude: when nothing was floored (the variance times the squared value scale is clearly above the
    # floor in force: 1e-10, or 1e-6 in skip mode where the scale is 1), undo_scaling_variances(relative_objective_variance(w)) == w up to
    # rounding (two multiplications / divisions by scale^2; the measured slope is good to ~1e-15 relative)
    if want > (1e-6 if not nf else 1e-10) * (1 + 1e-6) and abs(u - w) > 1e-6 * w:
      return "undo_scaling_variances does not invert relative_objective_variance above the floor", (w, u)
  # constant-liar-min = worst non-failed value in the user's sense; after scaling the largest
  if nfv:
    worst = max(nfv) if obj == "minimize" else min(nfv)
    if lie_min != worst:
      return "constant_liar_min is not the worst non-failed value", worst
    if any(rel[i] > scaled_lie for i in nf):
      return "a non-failed scaled value exceeds the scaled lie", scaled_lie
  return None


def oracle(kind, inp):
  def fail(what, expected, observed):
    return dict(signature=f"C12:{kind}:{what}", what=f"{kind}: {what}", input=dict(kind=kind, **inp), observed=observed, expected=expected,
                oracle="closed-form statement of the property in plain Python")
  try:
    with numpy.errstate(all="ignore"):
      if kind == "served":
        import warnings
        with warnings.catch_warnings():
          warnings.simplefilter("ignore")   # qmcpy's advice about digital nets
          return served_oracle(inp, fail)
      out = run_impl(kind, inp)
  except Exception as e:
    return dict(signature=f"C12:{kind}:raises:{type(e).__name__}", what=f"{kind} raised {type(e).__name__}: {e}", input=dict(kind=kind, **inp),
                observed=repr(e), expected="a result", oracle="no exception on valid input")
  dc = _dc()
  fails = inp["fails"]
  if kind == "single":
    obj = inp["obj"]
    s = dc.SingleMetricMidpointInfo(numpy.array(inp["vals"], dtype=float), numpy.array(fails, dtype=bool), obj)
    probe = lambda x: float(s.relative_objective_value(numpy.array([x]))[0])
    if out["negate"] != (1 if obj == "minimize" else -1):
      return fail("sign does not match the objective", 1 if obj == "minimize" else -1, out)
    r = check_metric(obj, inp["vals"], fails, out["rel"], out["undo_rel"], inp["vars"], out["relvar"], out["undo_relvar"],
                     out["lies"][0], out["scaled_lie_min"], out["skip"], probe)
    if r:
      return fail(r[0], r[1], out)
    # scale(undo(y)) = y: undo rounds at the magnitude of the data (EPS*max|v|), scaling multiplies that by the value scale
    nfv = [v for v, f in zip(inp["vals"], fails) if not f]
    maxabs = max([1.0] + [abs(v) for v in nfv])
    p0 = nfv[0] if nfv else 0.0
    p1 = p0 + max(1.0, abs(p0))
    slope = abs(probe(p1) - probe(p0)) / (p1 - p0)
    for y, u in zip(inp["ys"], out["undo_ys"]):
      if not math.isfinite(u):
        return fail("undo_scaling produced a NaN or infinity", "finite", out)
      if abs(probe(u) - y) > 1e-9 * max(1.0, abs(y)) + 8 * EPS * maxabs * slope:
        return fail("relative_objective_value(undo_scaling(y)) differs from y", y, out)
    return None
  m = inp["m"]
  vals = inp["vals"]
  n = len(vals)
  col = lambda a, k: [r[k] for r in a]
  if kind == "multi":
    objs = inp["objs"] or [None] * m
    mm = dc.MultiMetricMidpointInfo(numpy.array(vals, dtype=float).reshape(-1, m), numpy.array(fails, dtype=bool), inp["objs"])
    if any(sk != out["skip"] for sk in out["member_skips"]):
      return fail("per-metric skip flags differ from the multi-metric skip flag", out["skip"], out)
    for k in range(m):
      def probe(x, k=k):
        row = numpy.zeros((1, m))
        row[0, k] = x
        return float(mm.relative_objective_value(row)[0, k])
      if out["negate"][k] != (1 if objs[k] == "minimize" else -1):
        return fail("sign does not match the objective", None, out)
      r = check_metric(objs[k], col(vals, k), fails, col(out["rel"], k), col(out["undo_rel"], k), col(inp["vars"], k), col(out["relvar"], k),
                       col(out["undo_relvar"], k), out["lies"][0][k], out["scaled_lie_min"][k], out["skip"], probe)
      if r:
        return fail(r[0], dict(metric=k, detail=r[1]), out)
    return None
  return view_laws(inp, out, fail)


def view_laws(inp, out, fail):
  """the laws of C12 on the preprocessed arrays of a view (values, lie, variances, thresholds per optimised / constraint metric)"""
  m, vals, fails = inp["m"], inp["vals"], inp["fails"]
  n = len(vals)
  col = lambda a, k: [r[k] for r in a]
  # view: the arrays the models consume
  for key, ix in (("opt", inp["opt_ix"]), ("con", inp["con_ix"])):
    if not ix:
      continue
    o = out[key]
    flat = [x for r in o["values"] for x in r] + o["lie"] + [x for r in o["vars"] for x in r] + [t for t in o["thr"] if t is not None]
    if not finite(flat):
      return fail("a NaN or infinity appears in the preprocessed data", "finite numbers", out)
    for j, c in enumerate(ix):
      obj = inp["objs"][c]
      raw = col(vals, c)
      sc = col(o["values"], j)
      nf = [i for i in range(n) if not fails[i]]
      for i in range(n):
        if fails[i] and sc[i] != o["lie"][j]:
          return fail("a failed row does not hold the scaled lie", o["lie"][j], out)
        if sc[i] > o["lie"][j]:
          return fail("a preprocessed value exceeds the scaled lie (the lie is not the worst value)", o["lie"][j], out)
      if nf:
        worst = max(raw[i] for i in nf) if obj == "minimize" else min(raw[i] for i in nf)
        wi = [i for i in nf if raw[i] == worst]
        if any(sc[i] != o["lie"][j] for i in wi):
          return fail("the scaled lie is not the scaled worst non-failed value", None, out)
      rng_all = (max(raw[i] for i in nf) - min(raw[i] for i in nf)) if nf else 0.0
      for a in nf:
        for b in nf:
          if better(obj, raw[a], raw[b]) and (sc[a] > sc[b] or (abs(raw[a] - raw[b]) > 1e-6 * rng_all and not sc[a] < sc[b])):
            return fail("order of the non-failed values is not respected after preprocessing", (raw[a], raw[b], sc[a], sc[b]), out)
      t, st = inp["thr"][c], o["thr"][j]
      if (t is None) != (st is None):
        return fail("threshold presence changed by scaling", t, out)
      if t is not None:
        for a in nf:
          if (better(obj, raw[a], t) and sc[a] > st) or (better(obj, t, raw[a]) and sc[a] < st):
            return fail("a value and the threshold compare differently after scaling", (raw[a], t, sc[a], st), out)
          if better(obj, raw[a], t) and abs(raw[a] - t) > 1e-6 * max(rng_all, abs(raw[a] - t)) and rng_all > 0 and not sc[a] < st:
            return fail("a value clearly better than the threshold is not below the scaled threshold", (raw[a], t, sc[a], st), out)
      for r_ in o["vars"]:
        if r_[j] < 1e-10 * (1 - 1e-12):
          return fail("preprocessed variance below the minimum variance", 1e-10, out)
  return None


def served_oracle(inp, fail):
  """A history on a LIVE view object of a concrete endpoint: construct it from a whole request, inspect, let it serve the request (view()), inspect, serve
  again, inspect.  The arrays the models consume (observe_at of C12) obey the laws at every inspection, they are still - bit for bit - the ones computed at
  construction (nothing a served request does may write into them: aliasing), and the request's own data is untouched."""
  import random as pyrandom
  v, req = make_endpoint_view(inp)
  pc = req["points_sampled"]
  snap = [numpy.array(a, copy=True) for a in (pc.points, pc.values, pc.value_vars, pc.failures)]
  out0 = observe_view(v, inp)
  stage = "after construction"
  at = lambda what, expected, observed: fail(what, expected, dict(stage=stage, arrays=observed, at_construction=out0))
  r = view_laws(inp, out0, at)
  if r:
    return r
  for call in range(1, inp["calls"] + 1):
    numpy.random.seed((inp["seed"] + call) % (2 ** 32))
    pyrandom.seed(inp["seed"] + call)
    stage = f"after call #{call} of view()"
    try:
      v.view()
    except Exception as e:   # whether the endpoint can serve this request is not C12's clause (e.g. the search view refuses fewer than 10 observations)
      stage += f" (which raised {type(e).__name__})"
    out = observe_view(v, inp)
    r = view_laws(inp, out, at)
    if r:
      return r
    if out != out0:
      return at("the preprocessed arrays of the view changed while it served a request", out0, out)
    if any(not (a.shape == b.shape and bool(numpy.array_equal(a, b, equal_nan=True))) for a, b in zip(snap, (pc.points, pc.values, pc.value_vars, pc.failures))):
      return at("the request data was modified while the view served it", None, out)
  return None


def gen_served(rng, endpoint=None):
  """A whole request for a concrete endpoint (past its initialisation phase most of the time): one optimised metric with 0-2 constraint metrics, two optimised
  metrics, or constraint metrics only (search endpoints); thresholds INSIDE the range of the successful values, so that some successful observations violate
  them; some reported failures; real floats of several magnitudes and offsets."""
  ep = endpoint or rng.choice(["spe"] * 11 + ["spe_search"] * 4 + ["gp"] * 3 + ["search"] * 2)
  n = rng.randint(12, 30)
  if ep in ("spe_search", "search"):
    n_opt, n_con = 0, rng.randint(1, 2)
  else:
    n_opt = rng.choice([1, 1, 1, 2])
    n_con = rng.choice([0, 1, 1, 2]) if n_opt == 1 else rng.choice([0, 0, 1])
  m = n_opt + n_con
  cols = []
  for _ in range(m):
    mag = 10.0 ** rng.choice([-3, 0, 0, 1, 2, 4])
    off = rng.choice([0.0, 0.0, 50.0, -5.0, 1e3]) * rng.choice([1.0, mag])
    cols.append([off + mag * rng.uniform(-1, 1) for _ in range(n)])
  fails = [rng.random() < rng.choice([0.0, 0.1, 0.25]) for _ in range(n)]
  if sum(not f for f in fails) < 8:
    fails = [False] * n
  perm = list(range(m))
  rng.shuffle(perm)
  opt_ix, con_ix = perm[:n_opt], perm[n_opt:]
  objs = [rng.choice(["minimize", "maximize"]) for _ in range(m)]
  thr = []
  for k in range(m):
    ok = sorted(x for x, f in zip(cols[k], fails) if not f)
    if k in con_ix or (n_opt == 2 and rng.random() < 0.5):
      q = rng.choice([0.15, 0.3, 0.5]) if objs[k] == "maximize" else rng.choice([0.5, 0.7, 0.85])   # a quantile: 15-50 % of the successes violate it
      thr.append(ok[int(q * (len(ok) - 1))] + 1e-3 * (ok[-1] - ok[0]))
    else:
      thr.append(None)
  nsucc = sum(not f for f in fails)
  budget = rng.choice([nsucc, 2 * nsucc, 3 * nsucc, 5 * nsucc, 100])
  return "served", dict(m=m, vals=[[cols[k][r] for k in range(m)] for r in range(n)], vars=[[rng.choice([0.0, 1e-4, 1e-2]) * 1.0 for _ in range(m)] for _ in range(n)],
                        fails=fails, objs=objs, opt_ix=opt_ix, con_ix=con_ix, thr=thr, endpoint=ep, budget=budget, n_open=rng.choice([0, 0, 1, 2]),
                        calls=2, seed=rng.randint(0, 2 ** 31 - 1))


def gen_float_case(rng):
  """Real floats over many magnitudes and offsets (|v| <= 1e150), larger sizes."""
  kind = rng.choice(["single", "single", "multi", "view"])
  n = rng.randint(0 if kind != "view" else 1, 30)
  def column():
    mag = 10.0 ** rng.choice([-12, -9, -6, -3, -1, 0, 0, 1, 3, 6, 9, 12, 30, 100, 149])
    off = rng.choice([0.0, 0.0, 1.0, -1.0, 1e3, -1e6, 1e9, 1e12, 1e15]) * rng.choice([1.0, mag])
    if abs(off) > 1e150:
      off = 0.0
    style = rng.choice(["gauss", "gauss", "uniform", "constant", "two", "near"])
    if style == "gauss":
      c = [off + mag * rng.gauss(0, 1) for _ in range(n)]
    elif style == "uniform":
      c = [off + mag * round(rng.uniform(-1, 1), rng.choice([0, 1, 3])) for _ in range(n)]
    elif style == "constant":
      c = [off + mag] * n
    elif style == "two":
      c = [off + mag * rng.choice([0.0, 1.0]) for _ in range(n)]
    else:
      c = [off + mag + rng.choice([0.0, 1e-9, 3e-9, 1e-7]) * rng.choice([1.0, mag]) for _ in range(n)]
    return [min(1e150, max(-1e150, x)) for x in c]
  fails = gen_fails(rng, n)
  vr = lambda: abs(rng.gauss(0, 1)) * 10.0 ** rng.choice([-14, -8, -3, 0, 0, 2])
  def col_vars(c):
    """variances of one metric: absolute sizes 1e-14 .. 1e2 whatever the metric (floored as soon as the metric's range is large), or - as
    measurement noise goes - commensurate with the metric: a standard deviation of 1e-6 .. 1 of the spread of the non-failed values, so that
    the scaled variances sit above the floor at every magnitude of the data (range 1e-12 .. 1e100)"""
    nfv = [x for x, f in zip(c, fails) if not f]
    spread = (max(nfv) - min(nfv)) if nfv else 0.0
    if rng.random() < 0.5 or not (1e-150 < spread < 1e100):
      return [vr() for _ in c]
    return [(spread * 10.0 ** rng.uniform(-6, 0)) ** 2 for _ in c]
  if kind == "single":
    c = column()
    return kind, dict(vals=c, fails=fails, obj=rng.choice(["minimize", "maximize", None]), vars=col_vars(c),
                      ys=[rng.uniform(-0.2, 0.2) for _ in range(3)], via_view_helper=rng.random() < 0.2)
  m = rng.randint(1, 4)
  cols = [column() for _ in range(m)]
  vals = [[cols[k][r] for k in range(m)] for r in range(n)]
  vcols = [col_vars(cols[k]) for k in range(m)]
  vars_ = [[vcols[k][r] for k in range(m)] for r in range(n)]
  if kind == "multi":
    return kind, dict(m=m, vals=vals, fails=fails, objs=None if rng.random() < 0.15 else [rng.choice(["minimize", "maximize"]) for _ in range(m)], vars=vars_)
  perm = list(range(m))
  rng.shuffle(perm)
  cut = rng.randint(0, m)
  thr = [None if rng.random() < 0.4 else cols[k][rng.randrange(n)] + rng.choice([0.0, 1.0, -1.0]) * abs(rng.gauss(0, 1)) * max(abs(x) for x in cols[k]) * rng.choice([1e-3, 1.0])
         for k in range(m)]
  return kind, dict(m=m, vals=store_in_failed_rows(rng, vals, fails), vars=vars_, fails=fails, objs=[rng.choice(["minimize", "maximize"]) for _ in range(m)],
                    opt_ix=perm[:cut], con_ix=perm[cut:], thr=thr)


def search(ctx, hints, broken):
  fails, n = [], 0
  for h in hints:
    if "kind" in h and "input" in h:
      n += 1
      r = oracle(h["kind"], h["input"])
      if r:
        fails.append(r)
  budget = ctx.n(1500, 25000) * (3 if broken else 1)
  rng = ctx.rng
  sigs = set(f["signature"] for f in fails)
  # histories on live view objects of the concrete endpoints: construct, inspect, serve, inspect, serve again, inspect
  for ep, cnt in (("spe", ctx.n(25, 250)), ("spe_search", ctx.n(10, 80)), ("gp", ctx.n(3, 24)), ("search", ctx.n(2, 12))):
    for _ in range(cnt):
      kind, inp = gen_served(rng, ep)
      if ep in ("gp", "search"):
        inp["calls"] = 1
      n += 1
      r = oracle(kind, inp)
      if r and r["signature"] not in sigs:
        sigs.add(r["signature"])
        fails.append(r)
  for t in range(budget):
    kind, inp = gen_case(rng) if t % 3 == 0 else gen_float_case(rng)
    n += 1
    r = oracle(kind, inp)
    if r and r["signature"] not in sigs:
      sigs.add(r["signature"])
      fails.append(r)
      if len(fails) >= 3:
        break
  return dict(evaluations=n, failures=fails, oracle="closed-form order / inverse / span / variance / lie laws in plain Python, no library or model code; on live view objects "
                                                      "of the concrete endpoints the laws are re-evaluated after every served request and the arrays deep-compared with their state at construction")


def replay(ctx, payload):
  inp = dict(payload["input"])
  kind = inp.pop("kind")
  return oracle(kind, inp)


LEVEL_TEXT = ("Coq theorems on an executable model of SingleMetricMidpointInfo / MultiMetricMidpointInfo and the view's metric preprocessing, "
              "for all value arrays, failure masks, objectives, numbers of metrics, variances and lie methods: strict order law in every "
              "constructor arm (scale > 0), both inverse laws, exact span [-0.1, 0.1] of a non-degenerate metric with both ends attained, "
              "variance = max(w * scale^2, floor) with scale^2 the squared slope of the value map, constant-liar-min = worst non-failed "
              "value = largest scaled value, every division guarded and proved defined (no NaN / inf on all-failed, identical or offset "
              "inputs), multi-metric object = tuple of per-column objects, view outputs per entry; the model is tied to the code by "
              "differential runs compared inside Coq, and the implementation's outputs are also checked against decidable specifications "
              "proved equivalent to the theorems' statements")
LEVEL_NOTE = ("Exact arithmetic over Q: float rounding, cancellation at huge offsets and overflow beyond |v| = 1e150 are outside the model "
              "(the searcher probes them with stated rounding tolerances); non-dyadic constants compared to 1e-12 relative in the "
              "correspondence; harness, minimal-View builder and case printer trusted; no axioms")
TECHNIQUE = "Coq proof (case analysis per constructor arm, lra/nra/field over Q, list induction) on executable model + in-Coq differential correspondence"
DESIGN_REF = "DESIGN.md section 7, C12"

# --- gap round (seeded C12_m8): additions to the claimed level
LEVEL_TEXT += ("; the searcher states the variance inverse law at every magnitude: whenever variance * (measured value scale)^2 is above the floor in force (1e-10, or 1e-6 in skip "
               "mode), undo_scaling_variances(relative_objective_variance(w)) = w to 1e-6 relative, on variances commensurate with the metric (standard deviations of 1e-6 .. 1 of the "
               "spread of the non-failed values, spreads 1e-12 .. 1e100) as well as on absolute ones")

# --- gap round (seeded C12_m12): additions to the claimed level
LEVEL_TEXT += ("; histories on LIVE view objects (searcher): a view of a concrete endpoint (spe_next_points, spe_search_next_points, gp_next_points_categorical, search_next_points) is built "
               "from a whole request - one optimised metric with constraint metrics and thresholds that successful observations violate, two optimised metrics, constraint metrics only - , "
               "inspected, made to serve the request, inspected, made to serve it again, inspected: at every inspection the laws hold on the arrays the models consume, the arrays are bit for "
               "bit the ones computed at construction (aliasing: nothing a served request does may write into them) and the request's data is untouched")
LEVEL_NOTE += "; aliasing between a view's preprocessed arrays and what its endpoints hand out is decided by run-time deep comparison (not modelled)"
