"""C10 — Distinct and random sampling: no repeats, full support, priors honoured."""
import contextlib
import itertools
import math
import random
import types
from fractions import Fraction

import numpy

from lib import common as C

PROP = "C10"
PROPS_FILES = ["Props/C10.v"]
ASSUMPTIONS = [
  "reading of 'any history' (fixed with the coordinator): history rows are typed configurations - values of int parameters are "
  "integral (possibly outside the range), categorical values are ints (possibly not among the elements), grid values are numbers "
  "(possibly not among the elements); a non-integral value for an int parameter is outside the reading (the code raises IndexError)",
  "de-duplication (identify_unique_points with compare points, replace_duplicate_points): every categorical value of the batch and of "
  "the history is one of the elements (otherwise KeyError, outside the reading); int / grid values of the history may be out of range",
  "exact arithmetic over Q: correspondence inputs are small integers / dyadic rationals; the duplicate test sqrt(sum d^2/V) > tol*sqrt(dim) "
  "is decided on squares in Q, and generated cases within 1e-9 (relative) of that threshold with tol > 0 are discarded and counted "
  "(with tol = 0 the boundary is an exact duplicate and doubles decide it exactly)",
  "NumPy / SciPy randomness (numpy.random.choice, randint, uniform; scipy.stats.truncnorm.rvs, beta.rvs) is an explicit oracle: the "
  "harness scripts these five entry points, logs their arguments and feeds the returned draws to the model; their range contracts "
  "(choice without replacement returns distinct members, randint lo <= v < hi, rvs inside the support) are assumed",
  "the order of tuple(set(...)) on the all-available branch is unspecified: outputs are compared as sets there",
  "constrained domains are outside the distinct/sampling clauses (only the view dispatch looks at the constrained flag)",
  "the i.i.d. shortcut (k + #distinct in-domain history <= duplicate_prob * total) is a registered known finding: the distinctness "
  "clause is stated and checked outside that branch, and the searcher reports the shortcut with its own signature",
]
TRUSTED = ["tools/props/C10.py case generator, randomness script (monkeypatched numpy.random.* / scipy.stats stubs) and the Q/Z-literal printer",
           "Model/DistinctCorr.v check function"]

DEFAULT_DP = 1e-3
KNOWN_SIG = "C10:iid-shortcut-below-duplicate-prob"
UNIQ_TOL = 1e-2  # CATEGORICAL_POINT_UNIQUENESS_TOLERANCE of the GP / search views
HEADER = ("From Coq Require Import List QArith ZArith Bool.\nFrom LV Require Import Model.Distinct Model.DistinctCorr.\n"
          "Open Scope Q_scope.")


# ------------------------------------------------------------------------------------------ domains (own representation)
# a component is dict(t="int", lo, hi) | dict(t="double", lo, hi) | dict(t="cat", es=[ints]) | dict(t="grid", es=[numbers])


def lib_components(comps):
  out = []
  for c in comps:
    if c["t"] in ("int", "double"):
      out.append(dict(var_type=c["t"], elements=[c["lo"], c["hi"]]))
    else:
      out.append(dict(var_type="categorical" if c["t"] == "cat" else "quantized", elements=list(c["es"])))
  return out


def lib_priors(ps):
  out = []
  for p in ps or []:
    if p is None:
      out.append(dict(name=None, params=None))
    elif p["name"] == "normal":
      out.append(dict(name="normal", params=dict(mean=p["mean"], scale=p["scale"])))
    else:
      out.append(dict(name="beta", params=dict(shape_a=p["a"], shape_b=p["b"])))
  return out


def make_domain(inp):
  from libsigopt.compute.domain import CategoricalDomain
  return CategoricalDomain(lib_components(inp["comps"]), constraint_list=inp.get("constraints") or None,
                           priors=lib_priors(inp.get("priors")) or None)


def own_elements(c):
  if c["t"] == "int":
    return list(range(c["lo"], c["hi"] + 1))
  if c["t"] in ("cat", "grid"):
    return list(c["es"])
  return None


def card(c):
  return len(own_elements(c))


def total_of(comps):
  t = 1
  for c in comps:
    t *= card(c)
  return t


def is_discrete(comps):
  return all(c["t"] != "double" for c in comps)


def frow(r):
  return tuple(float(x) for x in r)


# ------------------------------------------------------------------------------------------ scripted randomness


class Script:
  """Replacement for the five random entry points.  Logs every call; values come from the policy and self.rng only."""

  def __init__(self, policy, rng):
    self.policy, self.rng, self.log, self.t = policy, rng, [], 0

  def ix(self, n):
    """index of one of n legal values"""
    if self.policy == "first":
      return 0
    if self.policy == "lowhigh":
      self.t += 1
      return 0 if self.t % 2 else n - 1
    return self.rng.randrange(n)

  @staticmethod
  def _n(size):
    return 1 if size is None else int(size)

  def choice(self, a, size=None, replace=True, p=None):
    if not replace:
      pool = sorted(int(x) for x in a)
      n = self._n(size)
      if n > len(pool):
        raise ValueError("Cannot take a larger sample than population when 'replace=False'")
      ret = self.rng.sample(pool, n)
      self.log.append(dict(f="choiceNR", a=pool, n=n, ret=ret))
      return numpy.array(ret, dtype=int)
    pool = [x.item() if hasattr(x, "item") else x for x in a]
    n = self._n(size)
    ret = [pool[self.ix(len(pool))] for _ in range(n)]
    self.log.append(dict(f="choice", a=pool, n=n, ret=ret))
    return numpy.array(ret) if size is not None else ret[0]

  def randint(self, low, high=None, size=None, dtype=int):
    if high is None:
      low, high = 0, low
    lo, hi, n = int(low), int(high), self._n(size)
    if hi <= lo and n:
      raise ValueError("low >= high")
    ret = [lo + self.ix(hi - lo) for _ in range(n)]
    self.log.append(dict(f="randint", lo=lo, hi=hi, n=n, ret=ret))
    return numpy.array(ret, dtype=int) if size is not None else ret[0]

  def uniform(self, low=0.0, high=1.0, size=None):
    lo, hi, n = float(low), float(high), self._n(size)
    ret = [lo + (hi - lo) * self.ix(8) / 8 for _ in range(n)]
    self.log.append(dict(f="uniform", lo=lo, hi=hi, n=n, ret=ret))
    return numpy.array(ret, dtype=float) if size is not None else ret[0]

  def rvs(self, name, a, b, loc=0.0, scale=1.0, size=None):
    a, b, loc, scale, n = float(a), float(b), float(loc), float(scale), self._n(size)
    if name == "truncnorm":
      lo, hi = loc + scale * a, loc + scale * b
    else:
      lo, hi = loc, loc + scale
    ret = [lo + (hi - lo) * self.ix(9) / 8 for _ in range(n)]
    self.log.append(dict(f=name, a=a, b=b, loc=loc, scale=scale, n=n, ret=ret))
    return numpy.array(ret, dtype=float) if size is not None else ret[0]


class _Dist:
  def __init__(self, script, name):
    self.script, self.name = script, name

  def rvs(self, a, b, loc=0.0, scale=1.0, size=None, **kw):
    return self.script.rvs(self.name, a, b, loc, scale, size)


@contextlib.contextmanager
def scripted(script):
  """NumPy's global draws and the two SciPy laws the domain module names are replaced by the script.  A module that no longer names `truncnorm` / `beta`
  (a rewrite that samples the priors another way) is run with whatever it does name: the script's log then differs from the model's (a broken
  correspondence, not a crash of the harness) and the searcher still looks at what the endpoint returns - supports, bounds, finiteness."""
  import libsigopt.compute.domain as D
  saved = (numpy.random.choice, numpy.random.randint, numpy.random.uniform)
  named = {n: getattr(D, n) for n in ("truncnorm", "beta") if hasattr(D, n)}
  try:
    numpy.random.choice, numpy.random.randint, numpy.random.uniform = script.choice, script.randint, script.uniform
    for n in named:
      setattr(D, n, _Dist(script, n))
    yield script
  finally:
    numpy.random.choice, numpy.random.randint, numpy.random.uniform = saved
    for n, v in named.items():
      setattr(D, n, v)


# ------------------------------------------------------------------------------------------ implementation runner


def to_array(rows_, dim):
  if not rows_:
    return numpy.empty((0, dim))
  return numpy.array(rows_).reshape(-1, dim)


def out_rows(a):
  a = numpy.asarray(a)
  if a.size == 0:
    return []
  return [[x for x in r] for r in numpy.atleast_2d(a).tolist()]


def same_array(a, b):
  return a.shape == b.shape and a.dtype == b.dtype and bool(numpy.array_equal(a, b))


def run_view(inp):
  """Which sampler does the view dispatch to?  Both samplers of the view's domain instance are replaced by recorders."""
  dim, n, rec = len(inp["comps"]), inp["n"], []

  def attach(dom):
    dom.generate_random_points_according_to_priors = lambda m: (rec.append("priors"), numpy.zeros((m, dim)))[1]
    dom.generate_quasi_random_points_in_domain = lambda m: (rec.append("quasi"), numpy.zeros((m, dim)))[1]
    return dom

  if inp["view"] == "random":
    from libsigopt.aux.adapter_info_containers import DomainInfo
    from libsigopt.views.rest.random_search_next_points import RandomSearchNextPoints
    info = DomainInfo(constraint_list=list(inp.get("constraints") or []), domain_components=lib_components(inp["comps"]),
                      force_hitandrun_sampling=False, priors=lib_priors(inp.get("priors")) or None)
    v = RandomSearchNextPoints(dict(domain_info=info, task_options=[], tag={}, num_to_sample=n))
    attach(v.domain)
    v.view()
  else:
    stub = types.SimpleNamespace(domain=attach(make_domain(inp)), params=dict(num_to_sample=n), tag={}, view_name="stub",
                                 task_options=numpy.array([]), _return_results_to_zigopt=lambda pts: pts)
    if inp["view"] == "spe":
      from libsigopt.views.rest.spe_next_points import SPENextPoints
      SPENextPoints.create_random_suggestions(stub, n)
    else:
      from libsigopt.views.rest.spe_search_next_points import SPESearchNextPoints
      SPESearchNextPoints.initilization_sequence(stub)
  return rec


def build_request(inp):
  """a whole request for SPENextPoints / SPESearchNextPoints: `obs` observations (`fails` of them failed) of `metrics` metrics, `open` open suggestions, a budget"""
  from libsigopt.aux.adapter_info_containers import DomainInfo, MetricsInfo, PointsContainer
  comps, dim, nm, n = inp["comps"], len(inp["comps"]), inp.get("metrics", 1), inp["obs"]
  rs = random.Random(inp["seed"])
  pts = lambda m: numpy.array([g_point(rs, comps, True) for _ in range(m)], dtype=float).reshape(m, dim)
  values = numpy.array([[rs.uniform(-1, 1) for _ in range(nm)] for _ in range(n)], dtype=float).reshape(n, nm)
  failures = [i < inp["fails"] for i in range(n)]
  rs.shuffle(failures)
  search = inp["view"] == "spe_search"
  return dict(
    domain_info=DomainInfo(constraint_list=list(inp.get("constraints") or []), domain_components=lib_components(comps), priors=lib_priors(inp.get("priors")) or None),
    max_simultaneous_af_points=1000, num_to_sample=inp["n"],
    points_sampled=PointsContainer(points=pts(n), values=values, value_vars=numpy.full_like(values, 1e-10), failures=numpy.array(failures, dtype=bool)),
    points_being_sampled=PointsContainer(points=pts(inp["open"])), tag=dict(experiment_id=-1),
    metrics_info=MetricsInfo(requires_pareto_frontier_optimization=False, observation_budget=inp["budget"],
                             user_specified_thresholds=[rs.uniform(-0.5, 0.5) for _ in range(nm)] if search else [None] * nm,
                             objectives=[rs.choice(["maximize", "minimize"]) for _ in range(nm)],
                             optimized_metrics_index=[] if search else [0], constraint_metrics_index=list(range(nm)) if search else []),
    task_options=[])


@contextlib.contextmanager
def request_recorders(rec):
  """Class-level recorders around the two samplers of CategoricalDomain (called through), the estimator sampling (cut short: uniform rows - what the
  estimator suggests is not C10's business), the forming of the estimator (did it raise SPEInsufficientDataError; the counts it was handed) and the
  two phase selectors.  Class level, because the search view builds a second view object for its exploitation phase."""
  from libsigopt.compute.domain import CategoricalDomain
  from libsigopt.compute.sigopt_parzen_estimator import SPEInsufficientDataError
  from libsigopt.views.rest import spe_next_points as S, spe_search_next_points as SS
  saved = (CategoricalDomain.generate_random_points_according_to_priors, CategoricalDomain.generate_quasi_random_points_in_domain,
           S.SPENextPoints.__dict__["draw_samples"], S.SPENextPoints.form_sigopt_parzen_estimator, SS.SPESearchNextPoints.get_search_phase, S.get_experiment_phase)

  def priors(self, m):
    rec.append(("priors", int(m)))
    return saved[0](self, m)

  def quasi(self, m):
    rec.append(("quasi", int(m)))
    return saved[1](self, m)

  def draw(spe, num_to_sample, domain, **kw):
    rec.append(("estimator", int(num_to_sample)))
    rows = saved[1](domain, num_to_sample)
    return numpy.array([domain.map_categorical_point_to_one_hot(list(r)) for r in rows], dtype=float).reshape(num_to_sample, domain.one_hot_dim), 0, 1.0, 0

  def form(self, pts, vals, gamma):
    n_open = len(self.remove_task_info_as_needed(self.one_hot_points_being_sampled_points))
    try:
      out = saved[3](self, pts, vals, gamma)
    except SPEInsufficientDataError:
      rec.append(("form", len(pts), n_open, False))
      raise
    rec.append(("form", len(pts), n_open, True))
    return out

  def sphase(self):
    ph = saved[4](self)
    rec.append(("search_phase", [SS.SEARCH_INITIALIZATION_PHASE, SS.SEARCH_EXPLOITATION_PHASE, SS.SEARCH_EXPLORE_RESOLVE_PHASE].index(ph)))
    return ph

  def ephase(**kw):
    out = saved[5](**kw)
    rec.append(("phase", out[0] is S.INITIALIZATION_PHASE))
    return out

  CategoricalDomain.generate_random_points_according_to_priors, CategoricalDomain.generate_quasi_random_points_in_domain = priors, quasi
  S.SPENextPoints.draw_samples, S.SPENextPoints.form_sigopt_parzen_estimator = staticmethod(draw), form
  SS.SPESearchNextPoints.get_search_phase, S.get_experiment_phase = sphase, ephase
  try:
    yield
  finally:
    CategoricalDomain.generate_random_points_according_to_priors, CategoricalDomain.generate_quasi_random_points_in_domain = saved[:2]
    S.SPENextPoints.draw_samples, S.SPENextPoints.form_sigopt_parzen_estimator = saved[2], saved[3]
    SS.SPESearchNextPoints.get_search_phase, S.get_experiment_phase = saved[4], saved[5]


def run_request(inp):
  """Serve a whole request with the real view; returns what was recorded, or None when the library itself refuses the request (the search view's
  explore / resolve phase has no random fallback: SPEInsufficientDataError with fewer than 10 observations)."""
  from libsigopt.compute.sigopt_parzen_estimator import SPEInsufficientDataError
  from libsigopt.views.rest.spe_next_points import SPENextPoints
  from libsigopt.views.rest.spe_search_next_points import SPESearchNextPoints
  rec = []
  numpy.random.seed(int(inp["seed"]) % (2 ** 32))
  with request_recorders(rec):
    view = (SPESearchNextPoints if inp["view"] == "spe_search" else SPENextPoints)(build_request(inp))
    try:
      resp = view.view()
    except SPEInsufficientDataError:
      if any(e == ("search_phase", 2) for e in rec) and not any(e[0] == "form" for e in rec):
        return None
      raise
  samplers = [e[0] for e in rec if e[0] in ("priors", "quasi", "estimator")]
  form = next((e for e in rec if e[0] == "form"), None)
  sph = next((e[1] for e in rec if e[0] == "search_phase"), None)
  init = next((e[1] for e in rec if e[0] == "phase"), None)
  return dict(samplers=samplers, search=0 if inp["view"] != "spe_search" else 1 + sph, init=bool(init) if init is not None else False,
              obs=form[1] if form else 0, open=form[2] if form else 0, formed=form[3] if form else True, reached_form=form is not None,
              points=len(resp["points_to_sample"]), max_ei="max_ei" in resp["tag"])


def run_impl(kind, inp):
  """Run the implementation on one input.  Returns dict(out, raised, log, modified); everything is a function of `inp` alone
  (scripted draws come from random.Random(inp['seed']); script == 'real' seeds numpy's generator instead)."""
  comps, dim = inp["comps"], len(inp["comps"])
  policy, seed = inp.get("script", "real"), int(inp.get("seed", 0))
  sc = None if policy == "real" else Script(policy, random.Random(seed))
  res = dict(out=None, raised=None, log=[], modified=False)
  if sc is None:
    numpy.random.seed(seed % (2 ** 32))
  with (scripted(sc) if sc else contextlib.nullcontext()):
    try:
      if kind == "view":
        res["out"] = run_view(inp)
        return res
      if kind == "viewreq":
        res["out"] = run_request(inp)
        return res
      dom = make_domain(inp)
      if kind == "distinct":
        h = None if (inp.get("none_hist") and not inp["hist"]) else to_array(inp["hist"], dim)
        h0 = None if h is None else h.copy()
        if inp["dp"] is None:
          out = dom.generate_distinct_random_points(inp["k"], h)
        else:
          out = dom.generate_distinct_random_points(inp["k"], h, duplicate_prob=inp["dp"])
        res["modified"] = h is not None and not same_array(h, h0)
      elif kind == "unique":
        b = to_array(inp["batch"], dim)
        c = None if inp["cmp"] is None else to_array(inp["cmp"], dim)
        b0, c0 = b.copy(), None if c is None else c.copy()
        out = dom.identify_unique_points(b, c, inp["tol"])
        res["modified"] = not same_array(b, b0) or (c is not None and not same_array(c, c0))
      elif kind == "replace":
        b, h = to_array(inp["batch"], dim), to_array(inp["hist"], dim)
        b0, h0 = b.copy(), h.copy()
        out = dom.replace_duplicate_points(b, h, inp["tol"])
        res["modified"] = not same_array(b, b0) or not same_array(h, h0)
      elif kind == "random":
        out = dom.generate_quasi_random_points_in_domain(inp["n"])
      elif kind == "prior":
        out = dom.generate_random_points_according_to_priors(inp["n"])
      else:
        raise ValueError(kind)
      res["out"] = out_rows(out)
    except Exception as e:  # noqa: BLE001 - the class of the exception is the observable
      res["raised"] = type(e).__name__
      res["raised_text"] = f"{type(e).__name__}: {e}"[:200]
    finally:
      if sc:
        res["log"] = sc.log
  return res


# ------------------------------------------------------------------------------------------ generators


def g_int(rng):
  lo = rng.randint(-3, 3)
  return dict(t="int", lo=lo, hi=lo + rng.randint(2, 8) - 1)


def g_cat(rng, n=None):
  return dict(t="cat", es=rng.sample(range(0, 16), n or rng.randint(2, 5)))


def g_grid(rng, wide=False, n=None):
  n = n or rng.randint(2, 5)
  if wide and rng.random() < 0.6:
    es = set()
    while len(es) < n:
      es.add(round(rng.uniform(-1, 1) * 10.0 ** rng.randint(-3, 3), rng.choice([1, 4, 9])) or 0.37)
    es = list(es)
  else:
    es = [j / 4 for j in rng.sample(range(-12, 17), n)]
  if rng.random() < 0.6:
    es.sort()
  else:
    rng.shuffle(es)
  return dict(t="grid", es=es)


def g_double(rng, wide=False):
  if wide and rng.random() < 0.6:
    lo = round(rng.uniform(-5, 5), rng.choice([0, 2, 6]))
    return dict(t="double", lo=lo, hi=lo + round(rng.uniform(0.1, 20), rng.choice([1, 3, 6])))
  lo = rng.choice([-4.0, -1.5, 0.0, 0.25, 1.0, 2.0])
  return dict(t="double", lo=lo, hi=lo + rng.choice([0.5, 1.0, 2.0, 3.0, 4.0, 8.0]))


def g_comp(rng, wide=False, double=True):
  t = rng.choice(["int", "cat", "grid"] + (["double", "double"] if double else []))
  return g_int(rng) if t == "int" else g_cat(rng) if t == "cat" else g_grid(rng, wide) if t == "grid" else g_double(rng, wide)


def g_small_discrete(rng, wide=False, cap=300):
  for _ in range(200):
    comps = [g_comp(rng, wide, double=False) for _ in range(rng.choice([1, 2, 2, 3, 3, 4]))]
    if total_of(comps) <= cap:
      return comps
  return [g_int(rng)]


def g_medium_discrete(rng, wide=False):
  t = rng.randrange(6)
  if t == 0:
    comps = [dict(t="int", lo=0, hi=99), g_cat(rng, 10), g_grid(rng, wide, 5)]                            # 5000
  elif t == 1:
    comps = [dict(t="int", lo=0, hi=49), dict(t="int", lo=-3, hi=16)]                                     # 1000
  elif t == 2:
    comps = [g_cat(rng, 10), g_grid(rng, wide, 5), dict(t="int", lo=0, hi=39)]                            # 2000
  elif t == 3:
    comps = [dict(t="int", lo=0, hi=9), dict(t="int", lo=1, hi=10), dict(t="int", lo=-5, hi=4), g_cat(rng, 6)]  # 6000
  elif t == 4:
    comps = [dict(t="int", lo=0, hi=999), g_cat(rng, 3)]                                                  # 3000
  else:
    comps = [g_grid(rng, wide, 5), g_cat(rng, 8), dict(t="int", lo=-10, hi=rng.choice([14, 39]))]         # 1000 / 2000
  return comps


def g_large_discrete(rng):
  t = rng.randrange(4)
  if t == 0:
    return [dict(t="int", lo=0, hi=999), dict(t="int", lo=0, hi=999)]
  if t == 1:
    return [dict(t="int", lo=0, hi=99), g_cat(rng, 10), g_grid(rng, False, 5), dict(t="int", lo=0, hi=29)]
  if t == 2:
    return [dict(t="int", lo=0, hi=99), dict(t="int", lo=1, hi=1000)]          # exactly 100000
  return [dict(t="int", lo=0, hi=399), dict(t="int", lo=0, hi=249), g_cat(rng, 2)]


def g_mixed(rng, wide=False, need_double=False, maxc=4):
  comps = [g_comp(rng, wide) for _ in range(rng.randint(1, maxc))]
  if need_double and is_discrete(comps):
    comps[rng.randrange(len(comps))] = g_double(rng, wide)
  return comps


def g_value(rng, c, wide=False):
  if c["t"] == "int":
    return rng.randint(c["lo"], c["hi"])
  if c["t"] in ("cat", "grid"):
    return rng.choice(c["es"])
  if wide and rng.random() < 0.7:
    return min(c["hi"], max(c["lo"], c["lo"] + (c["hi"] - c["lo"]) * rng.random()))
  return c["lo"] + (c["hi"] - c["lo"]) * rng.randrange(9) / 8


def g_point(rng, comps, wide=False):
  return [g_value(rng, c, wide) for c in comps]


def g_near(rng, comps, p, wide=False):
  """a row of the domain close to p (one coordinate moved by a small step)"""
  q = list(p)
  i = rng.randrange(len(comps))
  c = comps[i]
  if c["t"] == "int":
    q[i] = p[i] + 1 if p[i] < c["hi"] and (p[i] <= c["lo"] or rng.random() < 0.5) else p[i] - 1
    q[i] = min(c["hi"], max(c["lo"], q[i]))
  elif c["t"] in ("cat", "grid"):
    q[i] = rng.choice(c["es"])
  else:
    w = c["hi"] - c["lo"]
    step = w * (rng.random() * 10.0 ** -rng.randint(1, 6)) if wide and rng.random() < 0.5 else w / rng.choice([8, 64, 1024])
    q[i] = p[i] + step if p[i] + step <= c["hi"] else p[i] - step
  return q


def g_ood_value(rng, c):
  """typed value outside the range / element set"""
  if c["t"] == "int":
    return c["lo"] - rng.randint(1, 3) if rng.random() < 0.5 else c["hi"] + rng.randint(1, 3)
  if c["t"] == "cat":
    return rng.choice([x for x in range(-2, 19) if x not in c["es"]])
  if c["t"] == "grid" and rng.random() < 0.4:   # off the grid by a hair (1e-9 .. 2^-40 relative): still not an element
    e = rng.choice(c["es"])
    v = e + rng.choice([2.0 ** -30, -(2.0 ** -30), 1e-9]) if abs(e) < 1 else e * (1 + rng.choice([2.0 ** -40, -(2.0 ** -40), 1e-9]))
    if v not in c["es"]:
      return v
  if c["t"] == "grid":
    return rng.choice([min(c["es"]) - 1.0, max(c["es"]) + 0.5, (min(c["es"]) + max(c["es"])) / 2 + 0.0625 + max(c["es"]) - min(c["es"])])
  return c["hi"] + 1.0


def g_ood_row(rng, comps, base, kinds=("int", "cat", "grid", "double")):
  q = list(base)
  ix = [i for i, c in enumerate(comps) if c["t"] in kinds]
  if not ix:
    return q
  for i in rng.sample(ix, rng.randint(1, len(ix))):
    q[i] = g_ood_value(rng, comps[i])
  return q


def script_of(rng, wide=False):
  pol = rng.choice(["real", "real", "real", "random", "first", "lowhigh"]) if wide else rng.choice(["random", "random", "first", "lowhigh"])
  return dict(script=pol, seed=rng.getrandbits(31))


def configs_of(comps):
  return [list(t) for t in itertools.product(*[own_elements(c) for c in comps])]


def gen_distinct(rng, wide=False):
  r = rng.random()
  if r < 0.04:  # non-discrete: quasi-random path
    comps = g_mixed(rng, wide, need_double=True)
    hist = [g_point(rng, comps, wide) for _ in range(rng.randint(0, 3))]
    return dict(comps=comps, k=rng.choice([0, 1, 2, 5]), hist=hist, dp=rng.choice([None, 0.25]), none_hist=rng.random() < 0.5, **script_of(rng, wide))
  if r < 0.14 and not wide or r < 0.06:  # total >= 100000 ("large" branch), tiny history
    comps = g_large_discrete(rng)
    hist = [g_point(rng, comps) for _ in range(rng.randint(0, 3))]
    if hist and rng.random() < 0.3:
      hist.append(g_ood_row(rng, comps, hist[0]))
    return dict(comps=comps, k=rng.choice([1, 2, 3, 5]), hist=hist, dp=rng.choice([None, DEFAULT_DP, 0.0, 0.5]), none_hist=rng.random() < 0.5,
                **script_of(rng, wide))
  if r < (0.50 if wide else 0.28):  # 1000-6000 configurations: shortcut with the default duplicate_prob, or enumeration
    comps = g_medium_discrete(rng, wide)
    tot = total_of(comps)
    hist = [g_point(rng, comps) for _ in range(rng.randint(0, 4))]
    if hist and rng.random() < 0.5:
      hist.append(list(hist[0]))
    if rng.random() < 0.3:
      hist.append(g_ood_row(rng, comps, g_point(rng, comps)))
    nd = len({frow(h) for h in hist if all(x in own_elements(c) for x, c in zip(h, comps))})
    mode = rng.random()
    dp = rng.choice([None, None, DEFAULT_DP, 0.25]) if mode < 0.6 else rng.choice([None, 0.0, DEFAULT_DP])
    lim = int(DEFAULT_DP * tot)
    if mode < 0.6:   # at / below / just above the shortcut boundary k + nd == 1e-3 * total
      k = max(1, lim - nd + rng.choice([-1, 0, 0, 0, 1]))
    else:
      k = rng.choice([1, 2, 3, 5, 7])
    if wide and rng.random() < 0.2:
      dp = rng.choice([rng.random() * 0.01, rng.random(), 0.017, 0.3])
    return dict(comps=comps, k=k, hist=hist, dp=dp, none_hist=rng.random() < 0.5, **script_of(rng, wide))
  comps = g_small_discrete(rng, wide, cap=600 if wide and rng.random() < 0.3 else 300)
  cfgs = configs_of(comps)
  tot = len(cfgs)
  mode = rng.choice(["empty", "random", "random", "repeat", "full2x", "allbut", "allbut", "boundary", "boundary"])
  dp = rng.choice([None, None, DEFAULT_DP, 0.0, 0.25, 0.5, 1.0])
  k = None
  if mode == "empty":
    hist = []
  elif mode == "random":
    hist = [list(rng.choice(cfgs)) for _ in range(rng.randint(1, 12))]
  elif mode == "repeat":
    hist = [list(rng.choice(cfgs))] * 14 + [list(rng.choice(cfgs)) for _ in range(rng.randint(0, 3))]
  elif mode == "full2x":
    hist = [list(c) for c in cfgs] * 2
    rng.shuffle(hist)
  elif mode == "allbut":
    miss = rng.randint(1, min(3, tot))
    hist = [list(c) for c in rng.sample(cfgs, tot - miss)]
    hist += [list(rng.choice(hist)) for _ in range(rng.randint(0, 4))] if hist else []
    rng.shuffle(hist)
  else:  # exact boundary of the shortcut test: k + #distinct == dp * total (dyadic dp: exact in doubles)
    dps = [d for d in (0.25, 0.5, 1.0) if (d * tot) == int(d * tot)] or [0.5]
    dp = rng.choice(dps)
    target = int(dp * tot)
    nobs = rng.randint(0, min(target, tot))
    hist = [list(c) for c in rng.sample(cfgs, nobs)]
    hist += [list(rng.choice(hist)) for _ in range(rng.randint(0, 3))] if hist else []
    rng.shuffle(hist)
    k = max(0, target - nobs + rng.choice([-1, 0, 0, 1]))
  hist = [list(h) for h in hist]
  if rng.random() < 0.35:  # out-of-domain typed rows mixed in
    for _ in range(rng.randint(1, 4)):
      hist.insert(rng.randint(0, len(hist)), g_ood_row(rng, comps, rng.choice(cfgs)))
  if k is None:
    nobs = len({frow(h) for h in hist} & {frow(c) for c in cfgs})
    cand = [0, 1, 1, 2, 2, 3, 3, 5, 5, tot - nobs - 1, tot - nobs - 1, tot - nobs, tot - nobs, tot - nobs + 1, tot - nobs + 1, tot, tot + 3]
    k = rng.choice([x for x in cand if x >= 0])
  if wide and rng.random() < 0.15:
    dp = rng.choice([rng.random(), rng.random() * 0.1, 0.3, 0.017])
  return dict(comps=comps, k=k, hist=hist, dp=dp, none_hist=rng.random() < 0.5, **script_of(rng, wide))


def g_tol(rng, wide=False):
  if wide and rng.random() < 0.5:
    return rng.choice([rng.random() * 0.5, rng.random() * 0.05, 10.0 ** -rng.randint(1, 8), 0.1, 0.3])
  return rng.choice([0.0, 0.0, 0.125, 0.25, 0.5, 1.0, 2.0, UNIQ_TOL])


def g_adaptive_tol(rng, comps, batch, others, tol):
  """a tolerance just below / above the distance of one compared pair (tol^2 * dim within a few percent of sum d^2/V): a wrong scaling
  vector, a wrong coordinate map or a wrong comparison flips the verdict; multiples of 2^-12, so exact in Q"""
  try:
    ss = [sd2(comps, q, p) for j, p in enumerate(batch) for q in list(batch[:j]) + list(others or [])]
  except ValueError:
    return tol
  ss = [x for x in ss if x > 0]
  if not ss:
    return tol
  t = math.sqrt(float(rng.choice(ss)) / len(comps)) * rng.choice([1 - 1 / 4, 1 - 1 / 16, 1 - 1 / 64, 1 + 1 / 64, 1 + 1 / 16, 1 + 1 / 4])
  return round(t * 4096) / 4096 or tol


def g_batch(rng, comps, wide=False):
  n = rng.randint(1, 6)
  b = [g_point(rng, comps, wide) for _ in range(n)]
  for _ in range(rng.randint(0, n)):
    i, j = rng.randrange(n), rng.randrange(n)
    if i != j:
      b[i] = list(b[j]) if rng.random() < 0.6 else g_near(rng, comps, b[j], wide)
  return b


def g_cmp_rows(rng, comps, batch, wide=False, lo=0, hi=6):
  rows_ = []
  for _ in range(rng.randint(lo, hi)):
    r = rng.random()
    if r < 0.35:
      p = g_point(rng, comps, wide)
    elif r < 0.65:
      p = list(rng.choice(batch))
    elif r < 0.85:
      p = g_near(rng, comps, rng.choice(batch), wide)
    else:  # int / grid / double value out of range; categorical values stay among the elements
      p = g_ood_row(rng, comps, g_point(rng, comps, wide), kinds=("int", "grid", "double"))
    rows_.append(p)
  return rows_


def gen_unique(rng, wide=False, malformed=True):
  comps = g_mixed(rng, wide)
  batch = g_batch(rng, comps, wide)
  cmp_ = None if rng.random() < 0.4 else g_cmp_rows(rng, comps, batch, wide)
  inp = dict(comps=comps, batch=batch, cmp=cmp_, tol=g_tol(rng, wide))
  if rng.random() < 0.5:
    inp["tol"] = g_adaptive_tol(rng, comps, batch, cmp_, inp["tol"])
  if malformed and not wide and rng.random() < 0.05 and any(c["t"] == "cat" for c in comps):  # malformed: KeyError branch
    i = rng.choice([i for i, c in enumerate(comps) if c["t"] == "cat"])
    tgt = batch if (cmp_ is None or not cmp_ or rng.random() < 0.5) else cmp_
    tgt[rng.randrange(len(tgt))][i] = g_ood_value(rng, comps[i])
  return inp


def gen_replace(rng, wide=False):
  r = rng.random()
  if r < 0.35:
    comps = g_mixed(rng, wide, need_double=True)
    batch = g_batch(rng, comps, wide)
    hist = g_cmp_rows(rng, comps, batch, wide)
  elif r < 0.47:
    comps = g_medium_discrete(rng, wide)
    batch = g_batch(rng, comps)
    hist = g_cmp_rows(rng, comps, batch, hi=3)
  else:
    comps = g_small_discrete(rng, wide, cap=rng.choice([12, 40, 60, 200 if wide else 60]))
    cfgs = configs_of(comps)
    batch = g_batch(rng, comps)
    m = rng.random()
    if m < 0.35:
      hist = g_cmp_rows(rng, comps, batch)
    elif m < 0.7:   # nearly everything observed: fewer unobserved configurations than members dropped
      hist = [list(c) for c in rng.sample(cfgs, max(0, len(cfgs) - rng.randint(0, 3)))]
      hist += [list(rng.choice(hist)) for _ in range(rng.randint(0, 3))] if hist else []
      rng.shuffle(hist)
    else:
      hist = [list(rng.choice(cfgs)) for _ in range(rng.randint(0, len(cfgs)))]
    if rng.random() < 0.3:
      hist.append(g_ood_row(rng, comps, rng.choice(cfgs), kinds=("int", "grid")))
  tol = g_tol(rng, wide)
  if rng.random() < 0.5:
    tol = g_adaptive_tol(rng, comps, batch, hist, tol)
  return dict(comps=comps, batch=batch, hist=hist, tol=tol, **script_of(rng, wide))


def gen_random(rng, wide=False):
  comps = g_mixed(rng, wide, maxc=5)
  if wide:
    return dict(comps=comps, n=60 * max([card(c) for c in comps if c["t"] != "double"] + [2]), script="real", seed=rng.getrandbits(31))
  return dict(comps=comps, n=rng.randint(1, 6), **script_of(rng))


def g_priors(rng, comps, wide=False):
  ps = []
  for c in comps:
    if c["t"] != "double" or rng.random() < 0.25:
      ps.append(None)
      continue
    w = c["hi"] - c["lo"]
    if rng.random() < 0.5:
      if wide:
        ps.append(dict(name="normal", mean=c["lo"] + w * rng.uniform(-0.5, 1.5), scale=w * rng.choice([0.25, 0.5, 1.0, 2.0, rng.uniform(0.25, 2)])))
      else:
        ps.append(dict(name="normal", mean=c["lo"] + w * rng.choice([-0.5, 0.0, 0.25, 0.5, 1.0, 1.5]), scale=rng.choice([0.5, 1.0, 2.0, 4.0])))
    else:
      ps.append(dict(name="beta", a=rng.choice([0.5, 1.0, 2.0, 3.0]), b=rng.choice([0.5, 1.0, 2.0, 3.0])))
  return ps


def gen_prior(rng, wide=False):
  comps = g_mixed(rng, wide, need_double=True, maxc=5)
  ps = g_priors(rng, comps, wide)
  if wide:
    return dict(comps=comps, priors=ps, n=400, script="real", seed=rng.getrandbits(31))
  return dict(comps=comps, priors=ps, n=rng.randint(1, 6), **script_of(rng))


def gen_view(rng, wide=False, constrained=None, view=None, pmode=None):
  constrained = rng.random() < 0.5 if constrained is None else constrained
  if constrained:
    comps = [dict(t="double", lo=0.0, hi=4.0), dict(t="double", lo=0.0, hi=rng.choice([2.0, 4.0]))] + [g_comp(rng) for _ in range(rng.randint(0, 2))]
    cons = [dict(weights=[1.0, 1.0] + [0.0] * (len(comps) - 2), rhs=rng.choice([0.5, 1.0, 2.0]), var_type="double")]
  else:
    comps, cons = g_mixed(rng, maxc=4), []
  pmode = pmode or rng.choice(["none", "none", "none", "blank", "real", "real", "real", "real"])
  ps = [] if pmode == "none" else [None] * len(comps) if pmode == "blank" else g_priors(rng, comps)
  return dict(comps=comps, priors=ps, constraints=cons, view=view or rng.choice(["random", "spe", "spe_search"]), n=rng.randint(1, 4),
              script="random", seed=0)


def gen_viewreq(rng, wide=False, view=None, route=None, pmode=None, constrained=None):
  """A whole request: priors x constraints (as gen_view) x the ROUTE the request takes through the view - the initialisation phase, too little data for the
  estimator (a small budget, or many failures), many open suggestions, the estimator - for the plain and the search view."""
  g = gen_view(rng, wide, constrained=constrained, view="spe", pmode=pmode)
  view = view or rng.choice(["spe", "spe", "spe_search"])
  route = route or rng.choice(["init", "few", "few", "open", "estimator", "any"])
  if route == "init":          # successes below 15 % of the budget
    budget = rng.choice([40, 100, 200, 1000])
    obs = rng.randint(1, max(1, budget // 8))
    fails, n_open = rng.randint(0, obs // 2), rng.choice([0, 0, 1, 4])
  elif route == "few":         # past the initialisation phase with fewer than 10 observations: a small budget, or a budget eaten by failures
    obs = rng.randint(2, 9)
    fails = rng.choice([0, 0, rng.randint(0, obs - 1)])
    budget = rng.randint(max(1, (obs - fails)), max(2, int((obs - fails) / 0.15))) if rng.random() < 0.8 else rng.choice([10, 20, 30])
    n_open = rng.choice([0, 0, 0, 1, 2])
  elif route == "open":        # observations <= 1.7 * open suggestions, incl. the exact boundary 17 / 10
    n_open = rng.choice([6, 8, 10, 10, 12, 20])
    obs = rng.choice([int(1.7 * n_open), int(1.7 * n_open), int(1.7 * n_open) + 1, rng.randint(10, int(1.7 * n_open))])
    fails, budget = rng.randint(0, 2), rng.choice([20, 30, 60])
  elif route == "estimator":
    obs = rng.randint(10, 30)
    fails, n_open, budget = rng.randint(0, 3), rng.choice([0, 0, 1, 3]), rng.choice([20, 30, 60, 100])
  else:
    budget = rng.choice([10, 20, 30, 60, 100])
    obs = rng.randint(1, 30)
    fails, n_open = rng.randint(0, obs // 2), rng.choice([0, 0, 1, 3, 8])
  return dict(g, view=view, route=route, budget=budget, obs=obs, fails=fails, open=n_open, metrics=rng.randint(1, 3) if view == "spe_search" else 1,
              n=rng.randint(1, 4), script="real", seed=rng.getrandbits(31))


GENS = dict(distinct=gen_distinct, unique=gen_unique, replace=gen_replace, random=gen_random, prior=gen_prior, view=gen_view, viewreq=gen_viewreq)
KIND_WEIGHTS = [("distinct", 43), ("unique", 16), ("replace", 17), ("random", 6), ("prior", 8), ("view", 4), ("viewreq", 6)]


def fixed_cases(rng):
  """deterministic part of every run: the registered shortcut witness, the two repaired-defect shapes, every view x constrained x priors"""
  out = [known_finding_case()]
  c15 = [dict(t="int", lo=0, hi=4), dict(t="cat", es=[1, 2, 5])]
  out.append(("distinct", dict(comps=c15, k=5, hist=[[2, 5]] * 14, dp=None, none_hist=False, script="random", seed=1)))
  c5 = [dict(t="int", lo=0, hi=4)] * 5
  out.append(("unique", dict(comps=c5, batch=[[0, 0, 0, 0, 0], [4, 4, 4, 4, 4], [0, 0, 0, 0, 1], [4, 4, 4, 4, 4]], cmp=None, tol=1.0)))
  for view in ("random", "spe", "spe_search"):
    for constrained in (False, True):
      for pmode in ("none", "blank", "real"):
        out.append(("view", gen_view(rng, False, constrained, view, pmode)))
  for view in ("spe", "spe_search"):    # every route of a whole request x priors x constrained
    for route in ("init", "few", "open", "estimator"):
      for constrained in (False, True):
        out.append(("viewreq", gen_viewreq(rng, False, view, route, "real", constrained)))
  return out


def gen_case(rng, wide=False):
  kind = rng.choices([k for k, _ in KIND_WEIGHTS], [w for _, w in KIND_WEIGHTS])[0]
  return kind, GENS[kind](rng, wide)


# ------------------------------------------------------------------------------------------ exactness rule (tolerance threshold)


def sd2(comps, u, v):
  """sum (u - v)^2 / V in exact rationals; categorical coordinates are positions in the element list"""
  s = Fraction(0)
  for c, x, y in zip(comps, u, v):
    if c["t"] == "cat":
      x, y, V = c["es"].index(x), c["es"].index(y), Fraction(len(c["es"]))
    elif c["t"] == "grid":
      V = Fraction(max(c["es"])) - Fraction(min(c["es"]))
    else:
      V = Fraction(c["hi"]) - Fraction(c["lo"])
    s += (Fraction(x) - Fraction(y)) ** 2 / V
  return s


def near_threshold(comps, batch, others, tol):
  """some compared pair lies within 1e-9 (relative) of tol^2 * dim (only meaningful for tol > 0)"""
  if tol <= 0:
    return False
  T = Fraction(tol) ** 2 * len(comps)
  eps = T / 10 ** 9
  try:
    for j, p in enumerate(batch):
      for q in list(batch[:j]) + list(others or []):
        if abs(sd2(comps, q, p) - T) <= eps:
          return True
  except ValueError:  # categorical value not among the elements: the KeyError branch, no distance is computed
    return False
  return False


# ------------------------------------------------------------------------------------------ Coq printer


def zl(n):
  return f"({int(n)})%Z"


def zlist(xs):
  return C.listlit(xs, zl)


def qlist(xs):
  return C.listlit(xs, C.qlit)


def rows(v):
  return C.listlit([qlist(r) for r in v])


def comp_lit(c):
  if c["t"] == "int":
    return f"CInt {zl(c['lo'])} {zl(c['hi'])}"
  if c["t"] == "double":
    return f"CDouble {C.qlit(c['lo'])} {C.qlit(c['hi'])}"
  if c["t"] == "cat":
    return f"CCat {zlist(c['es'])}"
  return f"CGrid {qlist(c['es'])}"


def dom_lit(comps):
  return C.listlit(comps, comp_lit)


def prior_lit(p):
  if p is None:
    return "NoPrior"
  if p["name"] == "normal":
    return f"Normal {C.qlit(p['mean'])} {C.qlit(p['scale'])}"
  return f"Beta {C.qlit(p['a'])} {C.qlit(p['b'])}"


def call_lit(e):
  f, n = e["f"], zl(e["n"])
  if f == "choiceNR":
    return f"LChoiceNR {zlist(e['a'])} {n}"
  if f == "randint":
    return f"LRandint {zl(e['lo'])} {zl(e['hi'])} {n}"
  if f == "choice":
    return f"LChoice {qlist(e['a'])} {n}"
  if f == "uniform":
    return f"LUniform {C.qlit(e['lo'])} {C.qlit(e['hi'])} {n}"
  q = C.qlit
  return f"{'LTruncnorm' if f == 'truncnorm' else 'LBeta'} {q(e['a'])} {q(e['b'])} {q(e['loc'])} {q(e['scale'])} {n}"


def log_parts(log):
  """(calls, orc, cols) as the Coq case expects them"""
  calls = C.listlit(log, call_lit)
  nr = [e for e in log if e["f"] == "choiceNR"]
  if nr:
    orc = nr[0]["ret"]
  elif len(log) == 1 and log[0]["f"] == "randint":
    orc = log[0]["ret"]
  else:
    orc = []
  cols = C.listlit([qlist(e["ret"]) for e in log if e["f"] != "choiceNR"])
  return calls, zlist(orc), cols


def opt_rows(res):
  return "None" if res["raised"] else f"(Some {rows(res['out'])})"


def coq_case(kind, inp, res):
  d = dom_lit(inp["comps"])
  if kind == "view":
    return f"CView {d} {C.listlit(inp['priors'], prior_lit)} {C.blit(bool(inp['constraints']))} {C.blit(res['out'] == ['priors'])}"
  if kind == "viewreq":
    o = res["out"]
    used = dict(priors=0, quasi=1, estimator=2)[o["samplers"][0]]
    return (f"CSpeView {C.listlit(inp['priors'], prior_lit)} {C.blit(bool(inp['constraints']))} {o['search']}%nat {C.blit(o['init'])} {zl(o['obs'])} {zl(o['open'])} "
            f"{C.blit(o['formed'])} {used}%nat")
  calls, orc, cols = log_parts(res["log"])
  if kind == "distinct":
    dp = DEFAULT_DP if inp["dp"] is None else inp["dp"]
    return f"CDistinct {d} {zl(inp['k'])} {rows(inp['hist'])} {C.qlit(dp)} {calls} {orc} {cols} {opt_rows(res)}"
  if kind == "unique":
    cmp_ = "None" if inp["cmp"] is None else f"(Some {rows(inp['cmp'])})"
    return f"CUnique {d} {rows(inp['batch'])} {cmp_} {C.qlit(inp['tol'])} {opt_rows(res)}"
  if kind == "replace":
    return f"CReplace {d} {rows(inp['batch'])} {rows(inp['hist'])} {C.qlit(inp['tol'])} {calls} {orc} {cols} {opt_rows(res)}"
  if kind == "random":
    return f"CRandom {d} {zl(inp['n'])} {calls} {cols} {rows(res['out'])}"
  return f"CPrior {d} {C.listlit(inp['priors'], prior_lit)} {zl(inp['n'])} {calls} {cols} {rows(res['out'])}"


def branch_of(comps, res):
  """which branch of generate_distinct_random_points ran, read off the logged calls"""
  if res["raised"]:
    return "raised"
  log = res["log"]
  if not log:
    return "empty"
  if any(e["f"] == "choiceNR" for e in log):
    return "choice"
  if not is_discrete(comps):
    return "random-nondiscrete"
  tot = total_of(comps)
  if tot >= 100000:
    return "random-large"
  if len(log) == 1 and log[0]["f"] == "randint" and (log[0]["lo"], log[0]["hi"]) == (0, tot + 1):
    return "all-available"
  return "random-shortcut"


def nontrivial(kind, inp, res):
  if kind == "distinct":
    return bool(inp["hist"]) and inp["k"] > 0
  if kind == "unique":
    return len(inp["batch"]) >= 2
  if kind == "replace":
    return any(e for e in res["log"]) or (res["out"] is not None and len(res["out"]) < len(inp["batch"]))
  if kind == "view":
    return bool(inp["priors"])
  if kind == "viewreq":
    return bool(inp["priors"]) and res["out"]["samplers"] != ["estimator"]
  return True


ALLOWED_RAISES = dict(distinct=(), unique=("KeyError",), replace=(), random=(), prior=(), view=(), viewreq=())


def correspondence(ctx):
  n = ctx.n(500, 6000)
  rng = ctx.rng
  cases, meta, seen, dist, dis = [], [], set(), {}, []
  nontriv = discarded = 0

  def bump(key):
    dist[key] = dist.get(key, 0) + 1

  fixed = fixed_cases(rng)
  while len(meta) + len(dis) < n:
    kind, inp = fixed.pop(0) if fixed else gen_case(rng)
    if kind in ("unique", "replace") and near_threshold(inp["comps"], inp["batch"], inp.get("cmp") if kind == "unique" else inp["hist"], inp["tol"]):
      discarded += 1
      continue
    res = run_impl(kind, inp)
    obs = dict(out=res["out"], raised=res.get("raised_text"), calls=[{k: v for k, v in e.items() if not (isinstance(v, list) and len(v) > 12)} for e in res["log"]])
    if res["modified"]:
      dis.append(dict(what=f"C10 {kind}: a caller-owned input array (history / batch) was modified by the call", kind=kind, input=inp, observed=obs))
      continue
    if res["raised"] and res["raised"] not in ALLOWED_RAISES[kind]:
      dis.append(dict(what=f"C10 {kind}: implementation raised {res.get('raised_text')} on an input inside the reading", kind=kind, input=inp, observed=obs))
      continue
    if kind == "viewreq" and res["out"] is None and not res["raised"]:
      discarded_req = dist.get("viewreq/refused-by-the-library", 0)
      dist["viewreq/refused-by-the-library"] = discarded_req + 1
      continue
    if kind == "viewreq" and not res["raised"] and len(res["out"]["samplers"]) != 1:
      dis.append(dict(what=f"C10 request {inp['view']}: expected exactly one sampler to produce the suggestions, saw {res['out']['samplers']}", kind=kind, input=inp, observed=obs))
      continue
    if kind == "view" and len(res["out"]) != 1:
      dis.append(dict(what=f"C10 view {inp['view']}: expected exactly one sampler call, saw {res['out']}", kind=kind, input=inp, observed=obs))
      continue
    if any(isinstance(v, list) and len(v) > 20000 for e in res["log"] for v in e.values()):
      dis.append(dict(what=f"C10 {kind}: a random-library call with more than 20000 candidates (enumeration of a domain the model treats as "
                           "too large to enumerate)", kind=kind, input=inp, observed=obs))
      continue
    try:
      term = coq_case(kind, inp, res)
    except (ValueError, TypeError, OverflowError) as e:
      dis.append(dict(what=f"C10 {kind}: output is not a finite number array ({e})", kind=kind, input=inp, observed=obs))
      continue
    cases.append(term)
    meta.append((kind, inp, obs))
    bump(kind)
    if kind in ("distinct", "replace"):
      bump(f"{kind}/{branch_of(inp['comps'], res)}")
    if kind == "distinct" and inp["dp"] not in (None, DEFAULT_DP) and inp["k"] > 0:
      tot = total_of(inp["comps"]) if is_discrete(inp["comps"]) else None
      if tot is not None and tot < 100000:
        cf = {frow(c) for c in configs_of(inp["comps"])}
        if inp["k"] + len(cf & {frow(h) for h in inp["hist"]}) == inp["dp"] * tot:
          bump("distinct/exact-shortcut-boundary")
    if kind == "unique":
      bump("unique/" + ("raised" if res["raised"] else "self" if inp["cmp"] is None else "vs-history"))
    if kind == "view":
      bump(f"view/{inp['view']}/{'constrained' if inp['constraints'] else 'free'}/{'priors' if inp['priors'] else 'nopriors'}")
    if kind == "viewreq":
      o = res["out"]
      via = ("search-init" if o["search"] == 1 else "search-resolve" if o["search"] == 3 else "init-phase" if o["init"] else "estimator" if o["samplers"] == ["estimator"]
             else "too-little-data" if not o["formed"] else "many-open")
      bump(f"viewreq/{inp['view']}/{via}/{'constrained' if inp['constraints'] else 'free'}/{'priors' if inp['priors'] else 'nopriors'}")
    h = C.canon_hash([kind, {k: v for k, v in inp.items() if k != "seed"}])
    if h not in seen and nontrivial(kind, inp, res):
      nontriv += 1
    seen.add(h)
  dist["discarded_near_threshold"] = discarded
  bad = C.run_cases("C10", HEADER, "case", "check", cases) if cases else []
  for i in bad:
    dis.append(dict(what=f"C10 correspondence case {i} ({meta[i][0]}): implementation calls/output differ from Model.Distinct / its specification",
                    kind=meta[i][0], input=meta[i][1], observed=meta[i][2]))
  return dict(evaluations=n, distinct_nontrivial=nontriv,
              rule="discrete domains of 1-4 int / categorical / grid components (mostly <= 300 configurations, some 1000-6000 and >= 100000), "
                   "typed histories (empty, random, one row 14x, every configuration 2x, all but 1-3, out-of-domain rows, exact shortcut "
                   "boundary), k around total - #observed, duplicate_prob in {0, default, 1e-3, 1/4, 1/2, 1}; batches of 1-6 rows with forced "
                   "exact / near duplicates on mixed domains, tolerances {0, 1/8, 1/4, 1/2, 1, 2, 0.01} or adaptive (within a few percent of one "
                   "pair distance); scripted draws (random / first / lowhigh); non-trivial = non-empty history and k > 0 (distinct), >= 2 members (unique), a member dropped (replace), "
                   "priors given (view), always (random, prior); distinct by hash of the canonical input without the draw seed",
              samples=[dict(kind=k, input=i, impl_output=o) for k, i, o in meta[:3]], distribution=dist, disagreements=dis)


# ------------------------------------------------------------------------------------------ independent oracle
# Plain Python brute force on the implementation's output: enumeration of the configuration space with itertools.product,
# exact rational distances, closed-form moments.  Shares nothing with the library or the Coq model.


def _phi(x):
  return math.exp(-x * x / 2) / math.sqrt(2 * math.pi)


def _Phi(x):
  return 0.5 * (1 + math.erf(x / math.sqrt(2)))


def fill_problem(comps, hist, k, dp, fill):
  """Clause (a) on `fill` = rows claimed to be k distinct unobserved configurations.  Returns (what, expected, shortcut) or None."""
  cfgs = {frow(c) for c in configs_of(comps)}
  hs = {frow(h) for h in hist}
  unobs = cfgs - hs
  nd, tot = len(cfgs & hs), len(cfgs)
  shortcut = k > 0 and (k + nd) <= dp * tot and k + nd <= tot
  rws = [frow(r) for r in fill]
  want = min(k, len(unobs))
  if any(r not in cfgs for r in rws):
    return "outside-domain", "every row is a configuration of the domain", False
  if len(rws) != want:
    return "wrong-count", f"{want} rows (k={k}, {len(unobs)} unobserved of {tot})", False
  if len(set(rws)) != len(rws):
    return "repeated-row", "pairwise distinct rows", shortcut
  if any(r in hs for r in rws):
    return "observed-row", "no row equal to a history row", shortcut
  return None


def keep_mask(comps, batch, others, tol, self_mode):
  T = Fraction(tol) ** 2 * len(comps)
  if self_mode:
    return [all(sd2(comps, batch[i], p) > T for i in range(j)) for j, p in enumerate(batch)]
  return [all(sd2(comps, q, p) > T for q in others) for p in batch]


def legal_value(c, x):
  if c["t"] == "double":
    return c["lo"] <= x <= c["hi"]
  return any(x == e for e in own_elements(c))


def oracle(kind, inp):
  """Direct statement of the property on the implementation's output.  Returns a failure dict or None."""
  res = run_impl(kind, inp)
  comps, dim = inp["comps"], len(inp["comps"])
  full = dict(kind=kind, **inp)
  observed = dict(out=res["out"], raised=res.get("raised_text"))

  def fail(what, expected, sig=None, why="brute-force statement of the property"):
    return dict(signature=sig or f"C10:{kind}:{what}", what=f"C10 {kind}: {what}", input=full, observed=observed, expected=expected, oracle=why)

  if res["modified"]:
    return fail("input-modified", "caller-owned arrays unchanged")
  if kind == "view":
    exp = ["priors"] if (inp["priors"] and not inp["constraints"]) else ["quasi"]
    if res["raised"] or res["out"] != exp:
      return fail(f"dispatch:{inp['view']}", exp, why="priors are used iff priors are given and the domain is unconstrained")
    return None
  if kind == "viewreq":
    # a whole request served by the real view: whenever the suggestions are NOT produced by the Parzen estimator the request took a random-suggestion
    # path (initialisation phase, too little data for the estimator, many open suggestions, the search view's initialisation sequence), and that path
    # draws from the priors iff priors are supplied and the domain is unconstrained
    if res["raised"]:
      return fail(f"raises:{res['raised']}", "a response")
    o = res["out"]
    if o is None or o["samplers"] == ["estimator"]:
      return None   # refused by the library itself (search view, explore / resolve phase, fewer than 10 observations) / the estimator was sampled
    via = ("search-initialisation" if o["search"] == 1 else "initialisation-phase" if o["init"] else "too-little-data-for-the-estimator" if not o["formed"]
           else "many-open-suggestions")
    exp = ["priors"] if (inp["priors"] and not inp["constraints"]) else ["quasi"]
    if o["samplers"] != exp or o["points"] != inp["n"]:
      return fail(f"random-path-dispatch:{inp['view']}:{via}", dict(samplers=exp, points=inp["n"]),
                  why="every random-suggestion path of the view uses the prior sampler iff priors are given and the domain is unconstrained")
    return None
  if kind in ("unique", "replace"):
    pts = list(inp["batch"]) + list((inp["cmp"] if kind == "unique" else inp["hist"]) or [])
    if any(c["t"] == "cat" and not any(r[j] == e for e in c["es"]) for r in pts for j, c in enumerate(comps)):
      return None  # a categorical value that is not an element: outside the reading (KeyError)
  if res["raised"]:
    return fail(f"raises:{res['raised']}", "a result")
  out = res["out"]

  if kind == "distinct":
    if not is_discrete(comps) or total_of(comps) >= 100000:
      if len(out) != inp["k"] or any(not legal_value(c, x) for r in out for c, x in zip(comps, r)):
        return fail("random-fallback-illegal", f"{inp['k']} rows of legal values")
      return None
    dp = DEFAULT_DP if inp["dp"] is None else inp["dp"]
    p = fill_problem(comps, inp["hist"], inp["k"], dp, out)
    if p:
      return fail(p[0], p[1], sig=KNOWN_SIG if p[2] else None)
    return None

  if kind in ("unique", "replace"):
    batch, tol = inp["batch"], inp["tol"]
    others = inp["cmp"] if kind == "unique" else inp["hist"]
    if near_threshold(comps, batch, others, tol):
      return None  # a verdict within 1e-9 of the threshold: rounding of sqrt / division may decide either way
    m1 = keep_mask(comps, batch, None, tol, True)
    if kind == "unique":
      mask = m1 if others is None else keep_mask(comps, batch, others, tol, False)
      exp = [list(p) for p, b in zip(batch, mask) if b]
      if [frow(r) for r in out] != [frow(r) for r in exp]:
        return fail("kept-set" + ("" if others is None else "-vs-history"), exp, why="exact rational standardised distances")
      return None
    u1 = [p for p, b in zip(batch, m1) if b]
    kept = [list(p) for p, b in zip(u1, keep_mask(comps, u1, others, tol, False)) if b]
    if [frow(r) for r in out[:len(kept)]] != [frow(r) for r in kept]:
      return fail("kept-prefix", kept, why="exact rational standardised distances")
    fill, m = out[len(kept):], len(batch) - len(kept)
    if any(not legal_value(c, x) for r in fill for c, x in zip(comps, r)):
      return fail("fill-outside-domain", "appended rows inside the domain")
    if not is_discrete(comps) or total_of(comps) >= 100000:
      if len(out) != len(batch):
        return fail("batch-size", len(batch))
      return None
    p = fill_problem(comps, others, m, DEFAULT_DP, fill)
    if p:
      return fail("fill-" + p[0], p[1], sig=KNOWN_SIG if p[2] else None)
    return None

  if any(len(r) != dim for r in out) or len(out) != inp["n"]:
    return fail("shape", f"{inp['n']} rows of {dim} values")
  for j, c in enumerate(comps):
    col = [r[j] for r in out]
    pr = (inp.get("priors") or [None] * dim)[j] if kind == "prior" else None
    if any(not legal_value(c, x) for x in col):   # NaN-safe: a NaN is not legal
      return fail("illegal-value" if pr is None else f"{pr['name']}-outside-bounds", f"column {j} inside {c}")
    big = inp.get("script", "real") == "real"
    if pr is None and c["t"] != "double" and big and len(col) >= 40 * card(c):
      missing = [e for e in own_elements(c) if not any(x == e for x in col)]
      if missing:  # P(false alarm) <= card * (1 - 1/card)^n <= card * e^-40
        return fail("support:" + c["t"], f"every value of component {j} drawn at least once in {len(col)} draws; missing {missing}",
                    why="each value has probability 1/card per draw")
    if pr is not None and big and len(col) >= 200:
      lo, w = c["lo"], c["hi"] - c["lo"]
      if pr["name"] == "normal":
        a, b = (lo - pr["mean"]) / pr["scale"], (c["hi"] - pr["mean"]) / pr["scale"]
        Z = _Phi(b) - _Phi(a)
        if Z < 1e-3:
          continue
        r1 = (_phi(a) - _phi(b)) / Z
        mean = pr["mean"] + pr["scale"] * r1
        var = pr["scale"] ** 2 * (1 + (a * _phi(a) - b * _phi(b)) / Z - r1 * r1)
      else:
        a, b = pr["a"], pr["b"]
        mean, var = lo + w * a / (a + b), w * w * a * b / ((a + b) ** 2 * (a + b + 1))
      se = math.sqrt(max(var, 0.0) / len(col))
      got = sum(col) / len(col)
      if not abs(got - mean) <= 7 * se + 1e-9 * (1 + abs(mean)):   # 7 standard errors: < 3e-12 per test
        return fail(f"{pr['name']}-prior-mean", f"sample mean of column {j} within 7 s.e. ({se:.4g}) of {mean:.6g}, got {got:.6g}",
                    why="closed-form mean / variance of the truncated normal (erf) and of the scaled beta")
  return None


def known_finding_case():
  comps = [dict(t="int", lo=0, hi=99), dict(t="cat", es=[1, 2, 5, 7, 9, 11, 12, 13, 14, 15]), dict(t="grid", es=[0.5, 1.5, 3, 7, 8])]
  return "distinct", dict(comps=comps, k=2, hist=[[0, 1, 0.5], [1, 2, 1.5], [0, 1, 0.5]], dp=None, none_hist=False, script="first", seed=0)


def search(ctx, hints, broken):
  fails, known, n = [], [], 0

  def run(kind, inp):
    nonlocal n
    n += 1
    r = oracle(kind, inp)
    if r:
      if r["signature"] == KNOWN_SIG:
        if not known:
          known.append(r)
      else:
        fails.append(r)

  for h in hints:
    if isinstance(h, dict) and "kind" in h and "input" in h:
      inp = dict(h["input"])
      inp.pop("kind", None)
      run(h["kind"], inp)
  rng = ctx.rng
  for kind, inp in fixed_cases(rng):   # includes the registered shortcut witness: exhibited on every run
    run(kind, inp)
  budget = ctx.n(600, 8000) * (3 if broken else 1)
  for _ in range(budget):
    if len(fails) >= 3:
      break
    kind, inp = gen_case(rng, wide=rng.random() < 0.7)
    if kind == "unique" and inp["cmp"] is None and rng.random() < 0.3:
      inp["tol"] = rng.choice([0.0, UNIQ_TOL])
    run(kind, inp)
  return dict(evaluations=n, failures=known + fails,
              oracle="enumeration of the configuration space (itertools.product) for count / membership / distinctness / unobservedness; "
                     "exact rational standardised distances for the kept set; value coverage in 60*card real draws; closed-form "
                     "truncated-normal / beta means (7 s.e.); dispatch rule of the three views, and of every random-suggestion route of whole SPE / SPE-search requests")


def replay(ctx, payload):
  inp = dict(payload["input"])
  kind = inp.pop("kind")
  return oracle(kind, inp)


LEVEL_TEXT = ("Coq theorems on an executable model of the counting of the configuration space, the mixed-radix index <-> configuration "
              "bijection, sampling without replacement, removal of out-of-domain rows, the tolerance-based duplicate filter and the batch "
              "repair, for all discrete domains, typed histories, counts, tolerances and draws outside the documented i.i.d. shortcut; the "
              "model is tied to the code by exact differential runs with scripted randomness whose comparison (logged random-library calls, "
              "outputs, decidable specification on the implementation's own output) is evaluated inside Coq")
LEVEL_NOTE = ("Exact arithmetic over Q (threshold cases within 1e-9 discarded for tol > 0); NumPy/SciPy generators are an explicit oracle with "
              "range contracts; full-support and prior clauses are proved about the requested calls (randint(lo, hi+1), choice over the "
              "elements, truncnorm/beta arguments) and checked statistically by the searcher; the i.i.d. shortcut below duplicate_prob is a "
              "registered known finding; harness and case printer trusted; no axioms")
TECHNIQUE = "Coq proof (bijection, counting, induction) on executable model + in-Coq differential correspondence with scripted randomness"
DESIGN_REF = "DESIGN.md section 7, C10"

# --- gap round (seeded C10_m12): additions to the claimed level
LEVEL_TEXT += ("; the view dispatch is owned for WHOLE requests: Model.Distinct.spe_view_sampler / spe_search_view_sampler say which sampler produces the suggestions of an SPE / SPE-search "
               "request (initialisation phase, many open suggestions - observations <= 1.7 x open -, too little data for the estimator, the estimator; the search view's three phases), proved: "
               "the estimator is sampled iff past initialisation, not swamped by open suggestions and formed, and EVERY other route draws from the priors iff priors are supplied and the "
               "domain is unconstrained (C10_spe_view_estimator_iff, C10_spe_view_random_routes, C10_spe_search_view_random_routes); tied by an exact correspondence on real "
               "SPENextPoints / SPESearchNextPoints requests (priors x constraints x route, recorders around the two samplers, the estimator sampling cut short); the searcher states the "
               "same on real requests without the model")
ASSUMPTIONS = ASSUMPTIONS + [
  "whole-request dispatch: the experiment phase (C14's selector) and whether the Parzen estimator could be formed (C16's split condition) are observed on the running view and handed to the "
  "model as inputs; the estimator's own sampling is cut short by the harness (uniform rows) - what it suggests is not C10's business; a search-view request refused by the library itself "
  "(explore / resolve phase with fewer than 10 observations: SPEInsufficientDataError without fallback) is outside the clause and skipped",
]
