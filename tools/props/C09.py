"""C09 — one-hot encoding and snapping of mixed parameters are faithful."""
import itertools
from fractions import Fraction as Fr

import numpy

from lib import common as C

PROP = "C09"
PROPS_FILES = ["Props/C09.v", "Props/C09_task.v"]
ASSUMPTIONS = [
  "exact arithmetic over Q: correspondence inputs are small integers / dyadic rationals so every double operation of the "
  "implementation that reaches a decision (rounding, nearest element, arg-max, constraint test) is exact",
  "numpy.power is a Section variable of the model (contract: pow 0 e = 0, pow 1 e = 1); the correspondence instantiates it "
  "for integer exponents 1/T and compares the probabilities passed to numpy.random.choice with the model's to 1e-12",
  "numpy.random.choice(cats, p) is modelled as inverse-cdf sampling of one uniform (cumsum + searchsorted side=right), "
  "numpy.random.shuffle as an arbitrary permutation; both are scripted inside the harness process",
  "the feasibility assertion of the constructor (HiGHS interior point) is outside the model; generated constraint sets "
  "are strictly satisfied at the box midpoint",
]
TRUSTED = ["tools/props/C09.py case generator, RNG scripting layer and Coq literal printer", "Model/DecodeCorr.v check function"]

HEADER = ("From Coq Require Import List QArith ZArith Bool.\nFrom LV Require Import Model.Domain Model.Decode Model.EndpointTail Model.DecodeCorr.\n"
          "Open Scope Q_scope.")


def _lib():
  from libsigopt.compute import domain as D
  from libsigopt.views import view as V
  from libsigopt.views.rest import gp_next_points_categorical as G
  return D, V, G


# ------------------------------------------------------------------------------------------ generators


def dy(rng, lo, hi, den=8):
  return rng.randint(int(lo * den), int(hi * den)) / den


def gen_component(rng, kind=None):
  kind = kind or rng.choice(["double", "int", "categorical", "quantized"])
  if kind == "double":
    lo = dy(rng, -6, 5, 4)
    return dict(var_type="double", elements=[lo, lo + rng.choice([0.25, 1, 2.5, 7])])
  if kind == "int":
    lo = rng.randint(-6, 5)
    return dict(var_type="int", elements=[lo, lo + rng.randint(1, 9)])
  if kind == "categorical":
    n = rng.randint(2, 4)
    if rng.random() < 0.15:   # labels are arbitrary distinct integers: large and next to each other too
      base = rng.choice([500123, -250000, 10 ** 9, 2 ** 40])
      return dict(var_type="categorical", elements=rng.sample([base + k for k in range(-2, 4)], n))
    return dict(var_type="categorical", elements=rng.sample([-7, -2, 0, 1, 2, 3, 5, 8, 13, 40], n))
  n = rng.randint(2, 5)
  vals = sorted(rng.sample([-4.5, -3, -1.25, -1, -0.5, 0, 0.25, 0.75, 1, 2.5, 4, 9], n))
  if rng.random() < 0.25:
    rng.shuffle(vals)
  return dict(var_type="quantized", elements=vals)


def gen_domain(rng, n_int_con=0, n_dbl_con=0, need=(), max_comps=5):
  kinds = list(need)
  while len(kinds) < max(len(need), rng.randint(1, max_comps)):
    kinds.append(rng.choice(["double", "int", "categorical", "quantized"]))
  rng.shuffle(kinds)
  comps = [gen_component(rng, k) for k in kinds]
  cons = []
  mid = [(c["elements"][0] + c["elements"][1]) / 2 if c["var_type"] in ("double", "int") else 0 for c in comps]
  for ty, cnt in (("int", n_int_con), ("double", n_dbl_con)):
    idx = [i for i, c in enumerate(comps) if c["var_type"] == ty]
    for _ in range(cnt):
      if not idx:
        break
      w = [0] * len(comps)
      for i in rng.sample(idx, rng.randint(1, min(3, len(idx)))):
        w[i] = rng.choice([-2, -1, 1, 1, 2])
      at_mid = sum(a * b for a, b in zip(w, mid))
      slack = rng.choice([0.5, 1, 1.5, 3])
      cons.append(dict(weights=w, rhs=at_mid - slack, var_type=ty))
  rng.shuffle(cons)   # int-typed and double-typed constraints in any order (positions in the list index the half-space rows)
  return dict(comps=comps, cons=cons)


def make_domain(dom):
  D, _, _ = _lib()
  return D.CategoricalDomain([dict(c) for c in dom["comps"]], [dict(c) for c in dom["cons"]] or None)


def oh_layout(dom):
  """[(kind, component)] per relaxed coordinate group (harness-side helper for generating relaxed points)."""
  return [(c["var_type"], c) for c in dom["comps"]]


def gen_valid_point(rng, dom, real=False):
  p = []
  for c in dom["comps"]:
    e = c["elements"]
    if c["var_type"] == "double":
      p.append(rng.uniform(e[0], e[1]) if real else rng.choice([e[0], e[1], e[0] + (e[1] - e[0]) * rng.randint(0, 8) / 8]))
    elif c["var_type"] == "int":
      p.append(rng.randint(int(e[0]), int(e[1])))
    else:
      p.append(rng.choice(e))
  return p


def gen_relaxed_point(rng, dom, style=None):
  """A point of the relaxed box: random dyadic, exact ties, corners."""
  style = style or rng.choice(["rand", "rand", "tie", "corner", "mixed"])
  x = []
  for c in dom["comps"]:
    e = c["elements"]
    s = style if style != "mixed" else rng.choice(["rand", "tie", "corner"])
    if c["var_type"] == "double":
      x.append(rng.choice([e[0], e[1]]) if s == "corner" else e[0] + (e[1] - e[0]) * rng.randint(0, 16) / 16)
    elif c["var_type"] == "int":
      if s == "corner":
        x.append(float(rng.choice(e)))
      elif s == "tie":
        x.append(rng.randint(int(e[0]), int(e[1]) - 1) + 0.5)
      else:
        x.append(min(e[1], max(e[0], rng.randint(int(e[0]) * 8, int(e[1]) * 8) / 8)))
    elif c["var_type"] == "quantized":
      lo, hi = min(e), max(e)
      if s == "corner":
        x.append(rng.choice([lo, hi]))
      elif s == "tie":
        a, b = rng.sample(e, 2)
        x.append((a + b) / 2)
      else:
        x.append(lo + (hi - lo) * rng.randint(0, 32) / 32)
    else:
      n = len(e)
      if s == "corner":
        k = rng.randrange(n)
        x.extend(rng.choice([[0.0] * n, [1.0] * n, [1.0 if i == k else 0.0 for i in range(n)]]))
      elif s == "tie":
        v = rng.randint(0, 8) / 8
        blk = [rng.choice([v, v, rng.randint(0, 8) / 8 * v]) for _ in range(n)]
        x.extend(blk)
      else:
        x.extend(rng.randint(0, 8) / 8 for _ in range(n))
  return x


def feasible_relaxed(rng, dom, style=None, tries=30, want=True):
  """Relaxed point satisfying (want) the double constraints; int constraints satisfied most of the time."""
  for _ in range(tries):
    x = gen_relaxed_point(rng, dom, style)
    if not want or relaxed_sat(dom, x, "double"):
      return x
  return None


def one_hot_weights(dom, w):
  out = []
  for a, c in zip(w, dom["comps"]):
    if c["var_type"] == "categorical":
      out.extend([0] * len(c["elements"]))
    else:
      out.append(a if c["var_type"] in ("double", "int") else 0)
  return out


def relaxed_sat(dom, x, ty=None):
  for k in dom["cons"]:
    if ty and k["var_type"] != ty:
      continue
    if sum(Fr(a) * Fr(b) for a, b in zip(one_hot_weights(dom, k["weights"]), x)) < Fr(k["rhs"]):
      return False
  return True


# ------------------------------------------------------------------------------------------ RNG scripting


class Script:
  """Replaces numpy.random.choice / shuffle inside the harness process; logs what the code asked for."""

  def __init__(self, rng):
    self.rng, self.draws, self.perms = rng, [], []

  def choice(self, a, size=None, replace=True, p=None):
    assert size is None and p is not None
    u = self.rng.choice([0.0, 1023 / 1024, self.rng.randint(0, 1023) / 1024, self.rng.randint(0, 1023) / 1024, self.rng.random()])
    pa = numpy.asarray(p, dtype=float)
    cdf = numpy.cumsum(pa)
    cdf = cdf / cdf[-1]
    idx = int(numpy.searchsorted(cdf, u, side="right"))
    near = bool(numpy.min(numpy.abs(cdf - u)) < 1e-9)
    self.draws.append(dict(u=u, p=[float(v) for v in pa], chosen=int(a[idx]), near=near))
    return a[idx]

  def shuffle(self, arr):
    # the permutation is logged relative to the model's neighbour order (floor/ceil choices in lexicographic order, first
    # constrained coordinate slowest): the order in which numpy.meshgrid / set iteration list the neighbours is not part of
    # the property
    n = len(arr)
    perm = list(range(n))
    self.rng.shuffle(perm)
    before = numpy.array(arr, copy=True)
    arr[:] = before[perm]
    dom, xs = self.ctx
    x = [float(v) for v in xs[len(self.perms)]]
    pos = oh_positions(dom)
    cidx = sorted({pos[i] for k in dom["cons"] if k["var_type"] == "int" for i, w in enumerate(k["weights"]) if w != 0})
    have = [tuple(r) for r in before.tolist()]
    canonical = []
    for combo in itertools.product(*[(float(numpy.floor(x[i])), float(numpy.ceil(x[i]))) for i in cidx]):
      y = list(x)
      for i, v in zip(cidx, combo):
        y[i] = v
      if tuple(y) in have:
        canonical.append(tuple(y))
    used, out = set(), []
    for r in arr.tolist():
      j = next((j for j, c in enumerate(canonical) if j not in used and c == tuple(r)), 10**6)
      used.add(j)
      out.append(j)
    self.perms.append(out)

  def __enter__(self):
    self.old = (numpy.random.choice, numpy.random.shuffle)
    numpy.random.choice, numpy.random.shuffle = self.choice, self.shuffle
    return self

  def __exit__(self, *a):
    numpy.random.choice, numpy.random.shuffle = self.old


class TailScript:
  """numpy.random.{choice, randint, uniform} scripted for the multitask tail of the GP endpoint: logs the category each decode call
  returned (inverse-cdf of a harness uniform over the p the code passes) and every column of the replacement draws, in call order."""

  def __init__(self, rng):
    self.rng, self.cats, self.cols = rng, [], []

  def choice(self, a, size=None, replace=True, p=None):
    if p is not None and size is None:   # decode: one category
      cdf = numpy.cumsum(numpy.asarray(p, dtype=float))
      idx = min(int(numpy.searchsorted(cdf / cdf[-1], self.rng.random(), side="right")), len(a) - 1)
      self.cats.append(int(a[idx]))
      return a[idx]
    assert p is None and replace and size is not None
    col = [self.rng.choice(list(a)) for _ in range(int(size))]   # one column of element draws (categorical / grid component)
    self.cols.append([float(v) for v in col])
    return numpy.array(col)

  def randint(self, lo, hi, n):
    col = [self.rng.randint(int(lo), int(hi) - 1) for _ in range(int(n))]
    self.cols.append([float(v) for v in col])
    return numpy.array(col)

  def uniform(self, lo, hi, n):
    col = [lo + (hi - lo) * self.rng.randint(0, 16) / 16 for _ in range(int(n))]   # dyadic: the raw task coordinate of a replacement
    self.cols.append([float(v) for v in col])
    return numpy.array(col)

  def __enter__(self):
    self.old = (numpy.random.choice, numpy.random.randint, numpy.random.uniform)
    numpy.random.choice, numpy.random.randint, numpy.random.uniform = self.choice, self.randint, self.uniform
    return self

  def __exit__(self, *a):
    numpy.random.choice, numpy.random.randint, numpy.random.uniform = self.old


class LinearAF:
  def __init__(self, coef):
    self.coef = numpy.array(coef, dtype=float)

  def evaluate_at_point_list(self, pts, **kw):
    return numpy.dot(numpy.atleast_2d(pts), self.coef)


def multitask_view(d, opts, hist, hist_costs):
  """a GP suggestion view reduced to what its conversion step reads: the domain, the task options, the relaxed history rows with their task column"""
  _, V, G = _lib()
  view = G.GpNextPointsCategorical.__new__(G.GpNextPointsCategorical)
  view.domain = d
  view.task_options = numpy.array(opts, dtype=float)
  view.task_cost_populated = view.task_options.size
  view.one_hot_points_sampled_points = V.form_one_hot_points_with_tasks(d, numpy.array(hist, dtype=float), numpy.array(hist_costs, dtype=float))
  return view


# ------------------------------------------------------------------------------------------ implementation runner

TEMPS = [None, None, 0, 1.0, 0.5, 0.25, 0.125, 0.001, -1.0]


def n_cats(dom):
  return sum(1 for c in dom["comps"] if c["var_type"] == "categorical")


def run_impl(kind, inp, rng=None):
  D, V, G = _lib()
  if kind == "task":
    out = G.snap_continuous_tasks_to_discrete_options(numpy.array(inp["costs"], dtype=float), numpy.array(inp["options"], dtype=float))
    return dict(out=[float(v) for v in out])
  d = make_domain(inp["dom"])
  if kind == "task_tail":
    view = multitask_view(d, inp["opts"], inp["hist"], inp["hist_costs"])
    hist_oh = numpy.asarray(view.one_hot_points_sampled_points, dtype=float).tolist()
    with TailScript(rng) as s:
      pts, costs = view.convert_one_hot_points_to_distinct_categorical_points(numpy.array(inp["xs"], dtype=float), LinearAF(inp["coef"]))
    k = n_cats(inp["dom"])
    nx, nh = len(inp["xs"]), len(inp["hist"])
    assert len(s.cats) == k * (nx + nh), "unexpected number of category draws"
    split = lambda flat, rows: [flat[i * k:(i + 1) * k] for i in range(rows)]
    return dict(pts=numpy.asarray(pts, dtype=float).tolist(), costs=[float(v) for v in costs], hist_oh=hist_oh,
                cats=split(s.cats[:k * nx], nx), hcats=split(s.cats[k * nx:], nh), cols=s.cols)
  if kind == "box":
    m = []
    for mp in d.one_hot_to_categorical_mapping:
      tag = ["double", "int", "categorical", "quantized"].index(mp["var_type"])
      if "input_ind" in mp:
        m.append((tag, int(mp["input_ind"]), []))
      else:
        items = [(int(k), int(v)) for k, v in mp["input_ind_value_map"].items()]
        m.append((tag, items[0][0], items))
    assert [mp["output_ind"] for mp in d.one_hot_to_categorical_mapping] == list(range(d.dim))
    assert d.one_hot_dim == len(d.one_hot_domain.domain_bounds)
    return dict(box=[[float(a), float(b)] for a, b in d.one_hot_domain.domain_bounds], map=m)
  if kind == "encode":
    tc = None if inp["task"] is None else numpy.array([inp["task"]], dtype=float)
    try:
      form = inp.get("form", "lists")   # the numeric form the caller's points arrive in: a list of lists, an array (integer typed when every entry is an int), an array of doubles
      arg = numpy.array([list(inp["p"])]) if form == "array" else numpy.array([list(inp["p"])], dtype=float) if form == "float_array" else [list(inp["p"])]
      out = V.form_one_hot_points_with_tasks(d, arg, tc)
    except AssertionError:
      return dict(error="AssertionError")
    return dict(out=[float(v) for v in out[0]])
  if kind == "encode_task":
    form = inp.get("form", "lists")
    arg = numpy.array([list(inp["p"])]) if form == "array" else numpy.array([list(inp["p"])], dtype=float) if form == "float_array" else [list(inp["p"])]
    enc = V.form_one_hot_points_with_tasks(d, arg, numpy.array([inp["c"]], dtype=float))
    dt = G.form_augmented_domain(d, task_cost_populated=True, task_options=numpy.array(inp["opts"], dtype=float))
    rounded = dt.round_one_hot_points_quantized_values(dt.round_one_hot_points_categorical_values(dt.round_one_hot_points_integer_values(numpy.array(enc, dtype=float))))
    snapped = G.snap_continuous_tasks_to_discrete_options(rounded[:, -1], numpy.array(inp["opts"], dtype=float))
    return dict(out=[float(v) for v in enc[0]], box=[[float(a), float(b)] for a, b in dt.one_hot_domain.domain_bounds],
                rounded=[float(v) for v in rounded[0]], snapped=float(snapped[0]))
  if kind == "round":
    xs = numpy.array(inp["xs"], dtype=float)
    x0 = xs.copy()
    if inp["which"] == 0:
      out = d.round_one_hot_points_integer_values(xs)
    elif inp["which"] == 1:
      out = d.round_one_hot_points_quantized_values(xs)
    elif inp["which"] == 2:
      out = d.round_one_hot_points_categorical_values(xs)
    else:
      out = d.round_one_hot_points_quantized_values(d.round_one_hot_points_categorical_values(d.round_one_hot_points_integer_values(xs)))
    assert (x0 == xs).all(), "rounding function modified its input"
    return dict(out=out.tolist())
  if kind == "decode":
    xs = numpy.array(inp["xs"], dtype=float)
    with Script(rng) as s:
      s.ctx = (inp["dom"], inp["xs"])
      try:
        out = d.map_one_hot_points_to_categorical(xs, temperature=inp["T"])
      except (AssertionError, ValueError, IndexError) as e:
        return dict(error=type(e).__name__)
    k = n_cats(inp["dom"])
    draws = [s.draws[i * k:(i + 1) * k] for i in range(len(out))] if k else [[] for _ in out]
    if not (k or any(c["var_type"] == "quantized" for c in inp["dom"]["comps"])):
      draws = []
    return dict(out=numpy.asarray(out, dtype=float).tolist(), draws=draws, perms=s.perms)
  if kind in ("intnbrs", "feasnbrs"):
    x = numpy.array(inp["x"], dtype=float)
    f = d.generate_integer_neighbors_for_integer_constraints if kind == "intnbrs" else d.generate_feasible_integer_neighbors
    return dict(out=f(x).tolist())
  if kind == "snapfeas":
    xs = numpy.array(inp["xs"], dtype=float)
    with Script(rng) as s:
      s.ctx = (inp["dom"], inp["xs"])
      out = d.snap_one_hot_points_to_integer_feasible(xs)
    return dict(out=out.tolist(), perms=s.perms)
  if kind == "lsto":
    return dict(out=[float(v) for v in d.map_categorical_length_scales_to_one_hot(inp["ls"])])
  if kind == "lsback":
    return dict(out=[[float(v) for v in l] for l in d.map_one_hot_length_scales_to_categorical(inp["l"])])
  if kind == "nbrint":
    return dict(out=G.generate_neighboring_integer_points(numpy.array(inp["x"], dtype=float), d).tolist())
  if kind == "nbrcat":
    return dict(out=G.generate_neighboring_categorical_points(numpy.array(inp["xs"], dtype=float), d).tolist())
  raise ValueError(kind)


# ------------------------------------------------------------------------------------------ case generation


def gen_case(rng):
  kind = rng.choice(["box", "encode", "encode", "round", "round", "decode", "decode", "decode", "decode", "decode_ic", "decode_ic",
                     "intnbrs", "feasnbrs", "snapfeas", "lsto", "lsback", "task", "nbrint", "nbrcat", "encode_err", "decode_err", "encode_task",
                     "task_tail", "task_tail"])
  if kind == "task_tail":
    return kind, gen_task_tail(rng)
  if kind == "task":
    opts = sorted(rng.sample([0.1, 0.125, 0.25, 0.3, 0.5, 0.75, 1.0], rng.randint(1, 4)))
    if rng.random() < 0.2:
      rng.shuffle(opts)
    costs = [rng.choice([rng.randint(0, 16) / 16, (opts[0] + opts[-1]) / 2, rng.choice(opts)]) for _ in range(rng.randint(1, 5))]
    return "task", dict(costs=costs, options=opts)
  if kind == "box":
    return kind, dict(dom=gen_domain(rng, rng.choice([0, 0, 1]), rng.choice([0, 0, 1])))
  if kind == "encode_task":
    # a valid point with its task cost through the views' encode entry point, in every numeric form, then the domain with the task dimension;
    # discrete-only domains (whose point arrays are integer typed) as often as mixed ones; the cost is one of the options (rarely not)
    if rng.random() < 0.5:
      comps = [gen_component(rng, rng.choice(["int", "categorical", "quantized"])) for _ in range(rng.randint(1, 4))]
      for c in comps:
        if c["var_type"] == "quantized":
          c["elements"] = sorted(rng.sample([-4, -3, -1, 0, 1, 2, 4, 9, 16], len(c["elements"])))
      dom = dict(comps=comps, cons=[])
    else:
      dom = gen_domain(rng, 0, rng.choice([0, 0, 1]))
    opts = sorted(rng.sample([0.125, 0.25, 0.5, 0.75, 1.0], rng.randint(2, 4)))
    return kind, dict(dom=dom, p=gen_valid_point(rng, dom), opts=opts, c=rng.choice(opts) if rng.random() < 0.9 else 0.375,
                      form=rng.choice(["lists", "array", "float_array"]))
  if kind in ("encode", "encode_err"):
    dom = gen_domain(rng, 0, rng.choice([0, 0, 1]), need=("categorical",) if kind == "encode_err" or rng.random() < 0.7 else ())
    p = gen_valid_point(rng, dom)
    if kind == "encode_err":
      i = rng.choice([i for i, c in enumerate(dom["comps"]) if c["var_type"] == "categorical"])
      p[i] = rng.choice([v for v in (-9, 4, 6, 11, 100) if v not in dom["comps"][i]["elements"]])
    elif rng.random() < 0.15:  # not a valid configuration (outside an interval / off the grid): still encodes
      i = rng.randrange(len(p))
      if dom["comps"][i]["var_type"] != "categorical":
        p[i] = p[i] + 0.375
    return "encode", dict(dom=dom, p=p, task=rng.choice([None, None, 0.5, 1.0, 0.25]), form=rng.choice(["lists", "lists", "array", "float_array"]))
  if kind == "round":
    dom = gen_domain(rng, 0, 0)
    xs = [gen_relaxed_point(rng, dom) for _ in range(rng.randint(1, 4))]
    if rng.random() < 0.2:  # a trailing task-cost column is left alone
      xs = [x + [rng.randint(0, 8) / 8] for x in xs]
    return kind, dict(dom=dom, xs=xs, which=rng.choice([0, 1, 2, 3, 3]))
  if kind in ("decode", "decode_err"):
    dom = gen_domain(rng, 0, rng.choice([0, 0, 1]), need=rng.choice([(), ("categorical",), ("categorical", "quantized"), ("quantized", "int")]))
    if kind == "decode_err":
      if not any(c["var_type"] in ("categorical", "quantized") for c in dom["comps"]):
        dom["comps"].append(gen_component(rng, "quantized"))
        for k in dom["cons"]:
          k["weights"].append(0)
      x = gen_relaxed_point(rng, dom)
      x = x[:-1] if rng.random() < 0.5 else x + [0.5]
      return "decode", dict(dom=dom, xs=[x], T=None, malformed=True)
    style = rng.choice([None, None, "encoded"])
    xs = []
    for _ in range(rng.randint(1, 3)):
      if style == "encoded":
        xs.append(encode_ref(dom, gen_valid_point(rng, dom)))
      else:
        xs.append(feasible_relaxed(rng, dom, want=rng.random() < 0.9) or gen_relaxed_point(rng, dom))
    # at the vertices of the relaxed box (encodings) the weights are 0 ** (1/T) and 1 ** (1/T): exact for EVERY temperature, also above 1
    return "decode", dict(dom=dom, xs=xs, T=rng.choice(TEMPS + ([2.0, 3.0, 64.0, 100.0, 1000.0, 1e6] if style == "encoded" else [])))
  if kind in ("decode_ic", "snapfeas", "intnbrs", "feasnbrs"):
    return gen_ic_case(rng, kind)
  if kind == "lsto":
    dom = gen_domain(rng, 0, 0)
    ls = []
    for c in dom["comps"]:
      if c["var_type"] == "categorical":
        ls.append([None] if rng.random() < 0.5 else [rng.randint(1, 40) / 8 for _ in c["elements"]])
      else:
        ls.append([rng.randint(1, 40) / 8])
    return kind, dict(dom=dom, ls=ls)
  if kind == "lsback":
    dom = gen_domain(rng, 0, 0)
    n = sum(len(c["elements"]) if c["var_type"] == "categorical" else 1 for c in dom["comps"])
    return kind, dict(dom=dom, l=[rng.randint(1, 40) / 8 for _ in range(n)])
  if kind == "nbrint":
    dom = gen_domain(rng, 0, 0, need=rng.choice([(), ("int",), ("int", "int"), ("int", "int", "int")]), max_comps=5)
    return kind, dict(dom=dom, x=gen_relaxed_point(rng, dom))
  if kind == "nbrcat":
    dom = gen_domain(rng, 0, 0, need=rng.choice([(), ("categorical",), ("categorical", "categorical"), ("categorical", "categorical", "categorical")]), max_comps=5)
    return "nbrcat", dict(dom=dom, xs=[gen_relaxed_point(rng, dom) for _ in range(rng.randint(1, 2))])


def gen_task_tail(rng, real=False):
  """A multitask request at the conversion step of the GP endpoint: proposals (relaxed rows with a task coordinate) that duplicate each other
  and / or observed points at the same task, next to distinct ones; the task coordinate of a proposal is an option or a raw value between the
  smallest and the largest option; the history holds points at several tasks.  Unconstrained domains (every replacement draw is scripted)."""
  discrete = rng.random() < 0.5
  kinds = ["int", "categorical", "quantized"] if discrete else ["double", "int", "categorical", "quantized"]
  comps = [gen_component(rng, rng.choice(kinds)) for _ in range(rng.randint(1, 3))]
  dom = dict(comps=comps, cons=[])
  opts = sorted(rng.sample([0.125, 0.25, 0.5, 0.75, 1.0], rng.randint(2, 4)))
  lo, hi = opts[0], opts[-1]
  pool = [gen_valid_point(rng, dom) for _ in range(rng.randint(1, 3))]
  hist = [list(rng.choice(pool)) if rng.random() < 0.7 else gen_valid_point(rng, dom) for _ in range(rng.randint(1, 5))]
  hist_costs = [rng.choice(opts) for _ in hist]
  style = rng.choice(["dup-history", "dup-each-other", "mixed", "mixed", "distinct"])
  xs = []
  for j in range(rng.randint(1, 4)):
    raw = (rng.uniform(lo, hi) if real else lo + (hi - lo) * rng.randint(0, 16) / 16)
    if style == "dup-history" or (style == "mixed" and rng.random() < 0.4):
      i = rng.randrange(len(hist))
      xs.append(encode_ref(dom, hist[i]) + [hist_costs[i]])
    elif xs and (style == "dup-each-other" or (style == "mixed" and rng.random() < 0.4)):
      xs.append(list(rng.choice(xs)))
    elif style == "distinct" and rng.random() < 0.3 and not real:
      xs.append(gen_relaxed_point(rng, dom) + [raw])
    else:
      xs.append(encode_ref(dom, rng.choice(pool) if rng.random() < 0.5 else gen_valid_point(rng, dom)) + [rng.choice([raw, raw, rng.choice(opts)])])
  W = len(xs[0])
  return dict(dom=dom, opts=opts, hist=hist, hist_costs=hist_costs, xs=xs, coef=[rng.choice([-2, -1, 0, 0, 1, 1, 3]) for _ in range(W)], style=style)


def gen_ic_case(rng, kind):
  # integer-constrained domains
  need = rng.choice([("int", "int"), ("int", "int", "double"), ("int", "int", "int", "categorical"), ("int", "quantized"), ("int", "int", "categorical"),
                     ("int", "int", "double", "double"), ("int", "double", "categorical")])
  dom = gen_domain(rng, rng.randint(1, 2), rng.choice([0, 1, 1, 2]), need=need, max_comps=4)
  if not any(k["var_type"] == "int" for k in dom["cons"]):
    return gen_ic_case(rng, kind)
  def pts(n):
    out = []
    for _ in range(n):
      x = feasible_relaxed(rng, dom, want=rng.random() < 0.9) or gen_relaxed_point(rng, dom)
      out.append(x)
    return out
  if kind == "decode_ic":
    return "decode", dict(dom=dom, xs=pts(rng.randint(1, 4)), T=rng.choice(TEMPS))
  if kind == "snapfeas":
    return kind, dict(dom=dom, xs=pts(rng.randint(1, 5)))
  if kind in ("intnbrs", "feasnbrs"):
    return kind, dict(dom=dom, x=pts(1)[0])
  raise ValueError(kind)


def encode_ref(dom, p):
  """Harness-side one-hot encoding used only to generate inputs (encoded valid points) for the decoders."""
  x = []
  for v, c in zip(p, dom["comps"]):
    if c["var_type"] == "categorical":
      x.extend(1.0 if v == e else 0.0 for e in c["elements"])
    else:
      x.append(float(v))
  return x


# ------------------------------------------------------------------------------------------ Coq printing


def comp_lit(c):
  e = c["elements"]
  if c["var_type"] == "double":
    return f"Double {C.qlit(e[0])} {C.qlit(e[1])}"
  if c["var_type"] == "int":
    return f"Int {C.zlit(e[0])} {C.zlit(e[1])}"
  if c["var_type"] == "categorical":
    return f"Cat {C.listlit(e, C.zlit)}%Z"
  return f"Grid {C.listlit(e, C.qlit)}"


def dom_lit(dom):
  ks = [f"{{| weights := {C.listlit(k['weights'], C.qlit)}; rhs := {C.qlit(k['rhs'])}; cty := {'CInt' if k['var_type'] == 'int' else 'CDouble'} |}}"
        for k in dom["cons"]]
  return f"{{| comps := {C.listlit([comp_lit(c) for c in dom['comps']])}; cons := {C.listlit(ks)} |}}"


def row_lit(r):
  return C.listlit(r, C.qlit)


def rows_lit(rs):
  return C.listlit([row_lit(r) for r in rs])


def coq_case(kind, inp, out):
  if kind == "task":
    return f"CTask {row_lit(inp['costs'])} {row_lit(inp['options'])} {row_lit(out['out'])}"
  d = "(" + dom_lit(inp["dom"]) + ")"
  if kind == "task_tail":
    dorc = lambda cats: f"{{| o_rnds := []; o_perms := []; o_cats := {C.listlit([C.listlit(r, C.zlit) + '%Z' for r in cats])} |}}"
    o = (f"{{| g_dec := {dorc(out['cats'])}; g_hdec := {dorc(out['hcats'])}; g_choice := []; "
         f"g_q := {{| q_cols := {rows_lit(out['cols'])}; q_rows := []; q_dec := {dorc([])} |}} |}}")
    return (f"CTaskTail {d} {row_lit(inp['opts'])} {row_lit(inp['coef'])} {rows_lit(inp['xs'])} {rows_lit(out['hist_oh'])} {o} "
            f"{rows_lit(out['pts'])} {row_lit(out['costs'])}")
  if kind == "box":
    box = C.listlit([f"({C.qlit(a)}, {C.qlit(b)})" for a, b in out["box"]])
    m = C.listlit([f"({t}%nat, {i}%nat, {C.listlit([f'({a}%nat, {C.zlit(b)}%Z)' for a, b in items])})" for t, i, items in out["map"]])
    return f"CBox {d} {box} {m}"
  if kind == "encode":
    if "error" in out:
      return f"CEncodeErr {d} {row_lit(inp['p'])}"
    return f"CEncode {d} {row_lit(inp['p'])} {C.optlit(inp['task'], C.qlit)} {row_lit(out['out'])}"
  if kind == "encode_task":
    box = C.listlit([f"({C.qlit(a)}, {C.qlit(b)})" for a, b in out["box"]])
    return f"CEncodeTask {d} {row_lit(inp['opts'])} {row_lit(inp['p'])} {C.qlit(inp['c'])} {row_lit(out['out'])} {box} {row_lit(out['rounded'])} {C.qlit(out['snapped'])}"
  if kind == "round":
    return f"CRound {inp['which']}%nat {d} {rows_lit(inp['xs'])} {rows_lit(out['out'])}"
  if kind == "decode":
    if "error" in out:
      return f"CDecodeErr {d} {row_lit(inp['xs'][0])}"
    perms = C.listlit([C.listlit(p, C.nlit) for p in out["perms"]])
    dr = C.listlit([C.listlit([f"{{| d_u := {C.qlit(x['u'])}; d_p := {row_lit(x['p'])}; d_chosen := {C.zlit(x['chosen'])}%Z; d_near := {C.blit(x['near'])} |}}"
                               for x in row]) for row in out["draws"]])
    return f"CDecode {d} {C.optlit(inp['T'], C.qlit)} {rows_lit(inp['xs'])} [] {perms} {dr} {rows_lit(out['out'])}"
  if kind == "intnbrs":
    return f"CIntNbrs {d} [] {row_lit(inp['x'])} {rows_lit(out['out'])}"
  if kind == "feasnbrs":
    return f"CFeasNbrs {d} [] {row_lit(inp['x'])} {rows_lit(out['out'])}"
  if kind == "snapfeas":
    return f"CSnapFeas {d} {rows_lit(inp['xs'])} {C.listlit([C.listlit(p, C.nlit) for p in out['perms']])} {rows_lit(out['out'])}"
  if kind == "lsto":
    ls = C.listlit([C.listlit(l, lambda v: C.optlit(v, C.qlit)) for l in inp["ls"]])
    return f"CLsTo {d} {ls} {C.listlit(out['out'], lambda v: C.optlit(v, C.qlit))}"
  if kind == "lsback":
    return f"CLsBack {d} {row_lit(inp['l'])} {rows_lit(out['out'])}"
  if kind == "nbrint":
    return f"CNbrInt {d} {row_lit(inp['x'])} {rows_lit(out['out'])}"
  if kind == "nbrcat":
    return f"CNbrCat {d} {rows_lit(inp['xs'])} {rows_lit(out['out'])}"
  raise ValueError(kind)


def nontrivial(kind, inp, out):
  if "error" in out:
    return True
  if kind == "task":
    return len(inp["options"]) >= 2
  if kind == "task_tail":
    return True
  if kind in ("decode", "snapfeas", "round"):
    return len(inp["dom"]["comps"]) >= 2
  return len(inp["dom"]["comps"]) >= 2


def correspondence(ctx):
  n = ctx.n(700, 8000)
  cases, meta, seen, dist = [], [], set(), {}
  nontriv = 0
  for _ in range(n):
    kind, inp = gen_case(ctx.rng)
    sub = random_fork(ctx.rng)
    out = run_impl(kind, inp, sub)
    cases.append(coq_case(kind, inp, out))
    meta.append((kind, inp, out))
    lab = kind + (":error" if "error" in out else "")
    if kind == "decode" and "error" not in out:
      lab += ":int-constrained" if any(k["var_type"] == "int" for k in inp["dom"]["cons"]) else ""
      if len(out["out"]) < len(inp["xs"]):
        dist["decode:rows-dropped"] = dist.get("decode:rows-dropped", 0) + 1
    if kind == "task_tail":
      lab += ":replaced-rows" if out["cols"] else ":all-kept"
    if kind == "snapfeas" and len(out["out"]) < len(inp["xs"]):
      dist["snapfeas:rows-dropped"] = dist.get("snapfeas:rows-dropped", 0) + 1
    dist[lab] = dist.get(lab, 0) + 1
    h = C.canon_hash([kind, inp])
    if h not in seen and nontrivial(kind, inp, out):
      nontriv += 1
    seen.add(h)
  bad = C.run_cases("C09", HEADER, "case", "check", cases, shard=60)
  dis = [dict(what=f"C09 correspondence case {i} ({meta[i][0]}): implementation output differs from Model.Decode / its specification",
              kind=meta[i][0], input=meta[i][1], observed=meta[i][2]) for i in bad]
  return dict(evaluations=n, distinct_nontrivial=nontriv,
              rule="domains of 1-5 components (doubles with negative bounds, ints, non-contiguous unsorted category labels, uneven sorted and "
                   "unsorted grids), optional double and int constraints strictly satisfied at the box midpoint; relaxed points dyadic: random, "
                   "exact ties (x.5 ints, grid midpoints, equal category maxima), box corners, encoded valid points; temperatures None/0/1/0.5/"
                   "0.25/0.125/below-minimum/negative; scripted uniforms incl. 0 and 1-2^-10, scripted shuffles; non-trivial = at least two "
                   "components (or two task options) or an error case; distinct by hash of the canonical input",
              samples=[dict(kind=k, input=i, impl_output=o) for k, i, o in meta[:3]], distribution=dist, disagreements=dis)


def random_fork(rng):
  import random
  return random.Random(rng.getrandbits(64))


# ------------------------------------------------------------------------------------------ independent oracle
# Plain-Python statement of the property with exact rationals; shares no code with the library or the Coq model.


def F(x):
  return Fr(float(x))


def ulp_tol(*vals):
  return Fr(4e-16) * max([abs(F(v)) for v in vals] + [Fr(1, 10**300)])


def member_checks(dom, x, q, fail, det_cat=False, moved_ints=()):
  """x relaxed point, q decoded configuration."""
  pos = 0
  if len(q) != len(dom["comps"]):
    return fail("decode:wrong-length", "decoded configuration has the wrong number of parameters")
  for ci, (c, v) in enumerate(zip(dom["comps"], q)):
    e = c["elements"]
    if c["var_type"] == "int" and ci in moved_ints:  # int-constrained coordinate: moved to floor or ceiling (checked by the caller)
      if F(v).denominator != 1 or not (e[0] <= v <= e[1]):
        return fail("decode:int-outside-range", f"int-constrained parameter {x[pos]!r} decoded to {v!r}, not an integer inside {e}")
      pos += 1
    elif c["var_type"] == "double":
      if float(v) != float(x[pos]):
        return fail("decode:double-changed", f"double parameter changed from {x[pos]!r} to {v!r}")
      pos += 1
    elif c["var_type"] == "int":
      if F(v).denominator != 1 or abs(F(v) - F(x[pos])) > Fr(1, 2) or not (e[0] <= v <= e[1]):
        return fail("decode:int-not-nearest", f"int parameter {x[pos]!r} decoded to {v!r}, not a nearest integer inside {e}")
      pos += 1
    elif c["var_type"] == "quantized":
      best = min(abs(F(x[pos]) - F(g)) for g in e)
      if not any(float(v) == float(g) for g in e) or abs(F(x[pos]) - F(v)) > best + ulp_tol(x[pos], *e):
        return fail("decode:grid-not-nearest", f"grid parameter {x[pos]!r} decoded to {v!r}, not a nearest element of {e}")
      pos += 1
    else:
      if not any(float(v) == float(g) for g in e):
        return fail("decode:category-not-element", f"categorical decoded to {v!r}, not in {e}")
      if det_cat:
        blk = [float(t) for t in x[pos:pos + len(e)]]
        if float(v) != float(e[blk.index(max(blk))]):
          return fail("decode:category-not-argmax", f"deterministic rounding of block {blk} gave {v!r}")
      pos += len(e)
  dbl_ok = relaxed_sat(dom, [float(v) for v in x], "double")  # the decode does not repair double constraints: they are a hypothesis
  for k in dom["cons"]:
    if k["var_type"] == "double" and not dbl_ok:
      continue
    lhs = sum(Fr(a) * F(b) for a, b in zip(k["weights"], q))
    if lhs < F(k["rhs"]) - Fr(1, 10**9) * max(1, abs(F(k["rhs"]))):
      return fail("decode:constraint-violated", f"{k['var_type']} constraint {k['weights']} . p >= {k['rhs']} violated by {list(q)}")
  return None


def oracle(kind, inp):
  D, V, G = _lib()
  def fail(sig, what, observed=None, expected=None):
    return dict(signature=f"C09:{sig}", what=what, input=dict(kind=kind, **inp), observed=observed, expected=expected,
                oracle="plain-Python statement of the property over exact rationals")
  try:
    if kind == "task":
      costs, opts = inp["costs"], inp["options"]
      out = G.snap_continuous_tasks_to_discrete_options(numpy.array(costs, dtype=float), numpy.array(opts, dtype=float))
      for c, o in zip(costs, out):
        best = min(abs(F(c) - F(t)) for t in opts)
        if float(o) not in [float(t) for t in opts] or abs(F(c) - F(o)) > best + ulp_tol(c, *opts):
          return fail("task:not-nearest", f"task cost {c!r} snapped to {float(o)!r}, not a nearest option of {opts}", [float(v) for v in out])
      return None if len(out) == len(costs) else fail("task:length", "wrong number of snapped tasks")
    dom = inp["dom"]
    d = make_domain(dom)
    comps = dom["comps"]
    if kind == "tasktail":
      # the conversion step of the multitask GP endpoint as the property states it: whatever route a suggestion took - kept as proposed, or
      # drawn afresh because the proposal duplicated another proposal / an observed point at the same task - the task cost returned with it
      # is one of the task options; a proposal that is kept is returned with an option nearest to its own continuous task value
      opts, xs, hist, hc = inp["opts"], inp["xs"], inp["hist"], inp["hist_costs"]
      view = multitask_view(d, opts, hist, hc)
      af = LinearAF(inp["coef"])
      numpy.random.seed(inp["seed"])
      pts, costs = view.convert_one_hot_points_to_distinct_categorical_points(numpy.array(xs, dtype=float), af)
      pts, costs = numpy.asarray(pts, dtype=float).tolist(), [float(v) for v in costs]
      if len(costs) != len(pts) or len(pts) != len(xs):   # the domain with the task dimension is never discrete: every rejected proposal is replaced
        return fail("task-tail:count", f"{len(xs)} proposals gave {len(pts)} points and {len(costs)} task costs", dict(points=pts, costs=costs))
      for j, c in enumerate(costs):
        if c not in [float(t) for t in opts]:
          return fail("task-tail:cost-not-an-option", f"suggestion #{j} is returned with task cost {c!r}, not one of the task options {opts}",
                      dict(points=pts, costs=costs), "every returned task cost is a task option")
      dd = dict(comps=comps, cons=[])
      for q in pts:
        f = None if valid_for_oracle("roundtrip", dict(dom=dd, p=q)) else fail("task-tail:point-not-admissible", f"returned point {q} is not a configuration of the domain", pts)
        if f:
          return f
      # Who is kept: the conversion (lattice neighbour search by the acquisition function, decode) never touches the task coordinate, a double.  When
      # the task values of the proposals are pairwise, and from every observed task cost, more than three times the duplicate threshold apart in that
      # coordinate alone (the library's documented metric: difference / sqrt(range of the task dimension), threshold 1e-2 * sqrt(#parameters + 1)),
      # no proposal can be rejected: all are kept, in order, and each is returned with an option nearest to its own task value.
      thr = 3 * 1e-2 * (len(comps) + 1) ** 0.5 * float(max(opts) - min(opts)) ** 0.5
      tv = [float(x[-1]) for x in xs]
      apart = all(abs(a - b) > thr for i, a in enumerate(tv) for b in tv[:i]) and all(abs(a - float(c)) > thr for a in tv for c in hc)
      if apart:
        for j, x in enumerate(xs):
          best = min(abs(F(x[-1]) - F(t)) for t in opts)
          if abs(F(x[-1]) - F(costs[j])) > best + ulp_tol(x[-1], *opts):
            return fail("task-tail:kept-cost-not-nearest", f"proposal #{j} (nothing to reject: all task values far apart) has task value {x[-1]!r} and is returned "
                        f"with cost {costs[j]!r}, not a nearest option of {opts}", dict(points=pts, costs=costs))
      return None
    if kind == "taskendpoint":
      return task_endpoint_oracle(inp, fail)
    if kind == "roundtrip":
      p = inp["p"]
      x = d.map_categorical_point_to_one_hot(list(p))
      box = d.one_hot_domain.domain_bounds
      if len(x) != len(box) or any(not (lo <= v <= hi) for v, (lo, hi) in zip(x, box)):
        return fail("encode:outside-relaxed-box", f"encoding of {p} leaves the relaxed box", list(map(float, x)))
      xs = numpy.array([x], dtype=float)
      det = d.round_one_hot_points_quantized_values(d.round_one_hot_points_categorical_values(d.round_one_hot_points_integer_values(xs)))
      if det.tolist() != xs.tolist():
        return fail("roundtrip:rounding-moves-encoded-point", f"deterministic rounding moved the encoding of the valid point {p}", det.tolist(), xs.tolist())
      numpy.random.seed(inp["seed"])
      q = d.map_one_hot_points_to_categorical(xs.copy(), temperature=inp["T"])
      if len(q) != 1 or [float(v) for v in q[0]] != [float(v) for v in p]:
        return fail("roundtrip:decode-encode", f"decode(encode(p)) != p for the valid point {p}", numpy.asarray(q).tolist(), list(p))
      return None
    if kind == "encode":
      # the encode entry point of the views (points of a request + their task costs -> relaxed one-hot rows), as the property states it: the
      # rows are the one-hot encodings, the task cost rides along unchanged, and decoding (task dimension included, then snapping the cost to
      # an option) returns the same points and the same costs - whatever numeric type the caller's points have: lists of Python ints,
      # an integer-typed array (what a discrete-only domain produces), a float array, a list of row arrays
      pts, form, costs, opts = inp["points"], inp.get("form", "lists"), inp.get("costs"), inp.get("options")
      if form == "int_array":
        arg = numpy.array(pts)
      elif form == "float_array":
        arg = numpy.array(pts, dtype=float)
      elif form == "row_arrays":
        arg = [numpy.array(q) for q in pts]
      else:
        arg = [list(q) for q in pts]
      enc = V.form_one_hot_points_with_tasks(d, arg, None if costs is None else numpy.array(costs, dtype=float))
      want = []
      for j, q in enumerate(pts):
        row = []
        for v, c in zip(q, comps):
          row.extend([1.0 if v == e else 0.0 for e in c["elements"]] if c["var_type"] == "categorical" else [float(v)])
        want.append(row + ([float(costs[j])] if costs is not None else []))
      got = [[float(v) for v in r] for r in numpy.asarray(enc).tolist()]
      if len(got) != len(want) or any(len(a) != len(b) for a, b in zip(got, want)):
        return fail("encode:shape", "encoded array has the wrong shape", got, want)
      if costs is not None and any(a[-1] != b[-1] for a, b in zip(got, want)):
        return fail("encode:task-cost-changed", f"task costs {costs} were encoded as {[a[-1] for a in got]} ({form})", got, want)
      if got != want:
        return fail("encode:not-the-one-hot-encoding", f"encoded rows differ from the one-hot encoding of the points ({form})", got, want)
      dd = d if costs is None else G.form_augmented_domain(d, task_cost_populated=True, task_options=numpy.array(opts, dtype=float))
      box = dd.one_hot_domain.domain_bounds
      for r in got:
        if len(r) != len(box) or any(not (lo <= v <= hi) for v, (lo, hi) in zip(r, box)):
          return fail("encode:outside-relaxed-box", f"an encoded row leaves the relaxed box (task dimension included)", r, [list(map(float, b)) for b in box])
      numpy.random.seed(inp["seed"])
      q = numpy.asarray(dd.map_one_hot_points_to_categorical(enc, temperature=inp["T"]), dtype=float)
      back = q[:, :len(comps)].tolist()
      if back != [[float(v) for v in r] for r in pts]:
        return fail("roundtrip:decode-encode", "decode(encode(points)) != points through the views' encode entry point", back, pts)
      if costs is not None:
        snapped = [float(v) for v in G.snap_continuous_tasks_to_discrete_options(q[:, -1], numpy.array(opts, dtype=float))]
        for c, o in zip(costs, snapped):   # a nearest option of the encoded cost: the cost itself when it is one of the options
          best = min(abs(F(c) - F(t)) for t in opts)
          if len(snapped) != len(costs) or o not in [float(t) for t in opts] or abs(F(c) - F(o)) > best + ulp_tol(c, *opts):
            return fail("roundtrip:task-cost", f"task costs {costs} came back as {snapped} after encode / decode / snap: not nearest options of {opts}", snapped, costs)
      return None
    if kind == "decode":
      xs = numpy.array(inp["xs"], dtype=float)
      numpy.random.seed(inp["seed"])
      q = d.map_one_hot_points_to_categorical(xs.copy(), temperature=inp["T"])
      int_con = [k for k in dom["cons"] if k["var_type"] == "int"]
      if not int_con:
        if len(q) != len(xs):
          return fail("decode:row-count", "number of decoded rows differs from the number of relaxed rows", len(q), len(xs))
        for x, r in zip(xs, q):
          f = member_checks(dom, x, r, fail)
          if f:
            return f
        return None
      # integer constraints: the unit cell of each row, by brute force
      cidx = sorted({i for k in int_con for i, w in enumerate(k["weights"]) if w != 0})
      ohpos = oh_positions(dom)
      def cell_ok(x):
        for combo in itertools.product(*[sorted({numpy.floor(x[ohpos[i]]), numpy.ceil(x[ohpos[i]])}) for i in cidx]):
          y = dict(zip(cidx, combo))
          if all(sum(Fr(k["weights"][i]) * F(y[i]) for i in cidx if k["weights"][i] != 0) >= F(k["rhs"]) for k in int_con):
            return True
        return False
      own = [cell_ok(x) for x in xs]
      if len(q) > len(xs) or (all(own) and len(q) != len(xs)):
        return fail("intsnap:row-count", "rows with a feasible integer neighbour were dropped (or rows were added)", len(q), len(xs))
      if any(own) and len(q) != len(xs) and sum(own) > len(q):
        return fail("intsnap:row-count", "fewer rows returned than rows having a feasible integer neighbour", len(q), sum(own))
      for j, r in enumerate(q):
        for k in dom["cons"]:
          if k["var_type"] == "int" and sum(Fr(a) * F(b) for a, b in zip(k["weights"], r)) < F(k["rhs"]):
            return fail("intsnap:constraint-violated", f"int constraint {k['weights']} . p >= {k['rhs']} violated by returned row {list(map(float, r))}")
        for i in cidx:
          if F(r[i]).denominator != 1:
            return fail("intsnap:not-integral", f"int-constrained coordinate {i} of returned row is {float(r[i])!r}")
      if len(q) == len(xs):
        for x, r, o in zip(xs, q, own):
          if not o:
            continue
          f = member_checks(dom, x, r, fail, moved_ints=set(cidx))
          if f:
            return f
          for i in cidx:
            if float(r[i]) not in (numpy.floor(x[ohpos[i]]), numpy.ceil(x[ohpos[i]])):
              return fail("intsnap:not-floor-or-ceil", f"constrained int {x[ohpos[i]]!r} moved to {float(r[i])!r}")
      return None
    if kind == "detround":
      xs = numpy.array(inp["xs"], dtype=float)
      out = d.round_one_hot_points_quantized_values(d.round_one_hot_points_categorical_values(d.round_one_hot_points_integer_values(xs)))
      if out.shape != xs.shape:
        return fail("round:shape", "rounded array has a different shape")
      for x, r in zip(xs, out):
        q, pos = [], 0
        for c in comps:
          if c["var_type"] == "categorical":
            blk = [float(v) for v in r[pos:pos + len(c["elements"])]]
            if sorted(blk) != [0.0] * (len(blk) - 1) + [1.0]:
              return fail("round:category-block-not-one-hot", f"rounded categorical block is {blk}")
            q.append(c["elements"][blk.index(1.0)])
            pos += len(blk)
          else:
            q.append(r[pos])
            pos += 1
        f = member_checks(dict(comps=comps, cons=[]), x, q, fail, det_cat=True)
        if f:
          return f
      return None
    if kind == "ls":
      ls = inp["ls"]
      oh = d.map_categorical_length_scales_to_one_hot(ls)
      back = d.map_one_hot_length_scales_to_categorical(oh)
      exp = [[1.0] * len(c["elements"]) if None in l else [float(v) for v in l] for l, c in zip(ls, comps)]
      if [[float(v) for v in l] for l in back] != exp:
        return fail("lengthscales:roundtrip", "length scales changed by categorical -> one-hot -> categorical", back, exp)
      return None
    if kind == "nbr":
      x = numpy.array(inp["x"], dtype=float)
      ohpos = oh_positions(dom)
      ints = [ohpos[i] for i, c in enumerate(comps) if c["var_type"] == "int"]
      got = sorted(map(tuple, G.generate_neighboring_integer_points(x, d).tolist()))
      exp = []
      for combo in itertools.product(*[(float(numpy.floor(x[i])), float(numpy.ceil(x[i]))) for i in ints]):
        y = list(map(float, x))
        for i, v in zip(ints, combo):
          y[i] = v
        exp.append(tuple(y))
      if got != sorted(exp):
        return fail("neighbours:int-lattice", "integer neighbours are not exactly the floor/ceil combinations", got, sorted(exp))
      cats = [(ohpos[i], len(c["elements"])) for i, c in enumerate(comps) if c["var_type"] == "categorical"]
      got = sorted(map(tuple, G.generate_neighboring_categorical_points(numpy.atleast_2d(x), d).tolist()))
      exp = []
      for combo in itertools.product(*[range(n) for _, n in cats]):
        y = list(map(float, x))
        for (s, n), kk in zip(cats, combo):
          y[s:s + n] = [1.0 if t == kk else 0.0 for t in range(n)]
        exp.append(tuple(y))
      if got != sorted(exp):
        return fail("neighbours:cat-lattice", "categorical neighbours are not exactly the joint one-hot assignments, each once", got, sorted(exp))
      return None
  except Exception as e:
    return fail(f"{kind}:raises:{type(e).__name__}", f"{kind} raised {type(e).__name__}: {e}", repr(e), "a result")
  raise ValueError(kind)


def decode_ref(dom, x):
  """harness-side inverse of encode_ref on exact one-hot rows"""
  q, pos = [], 0
  for c in dom["comps"]:
    if c["var_type"] == "categorical":
      blk = list(x[pos:pos + len(c["elements"])])
      q.append(c["elements"][blk.index(1.0)])
      pos += len(blk)
    else:
      q.append(x[pos])
      pos += 1
  return q


def task_endpoint_oracle(inp, fail):
  """the whole multitask GP suggestion endpoint on a small discrete domain every configuration of which was observed at every task (or all but a
  few): each proposal duplicates an observed point and is replaced; the returned task costs are task options, one per point, the points admissible"""
  from libsigopt.aux.adapter_info_containers import DomainInfo, GPModelInfo, MetricsInfo, PointsContainer
  from libsigopt.aux.constant import PARALLEL_CONSTANT_LIAR, TASK_SELECTION_STRATEGY_A_PRIORI
  from libsigopt.compute.misc.constant import NONZERO_MEAN_CONSTANT_MEAN_TYPE
  _, _, G = _lib()
  comps, opts = inp["dom"]["comps"], inp["opts"]
  elems = [list(range(int(c["elements"][0]), int(c["elements"][1]) + 1)) if c["var_type"] == "int" else list(c["elements"]) for c in comps]
  configs = [list(q) for q in itertools.product(*elems)]
  rs = numpy.random.RandomState(inp["seed"])
  rows = [(q, t) for q in configs for t in opts]
  rows = [r for i, r in enumerate(rows) if i not in set(inp.get("drop", []))]
  xs = numpy.array([r[0] for r in rows], dtype=float)
  ts = numpy.array([r[1] for r in rows], dtype=float)
  values = rs.uniform(-0.1, 0.1, (len(xs), 1))
  ls = [[1.0] * len(c["elements"]) if c["var_type"] == "categorical" else [1.0] for c in comps]
  view_input = dict(
    domain_info=DomainInfo(constraint_list=[], domain_components=[dict(c) for c in comps]),
    model_info=GPModelInfo(hyperparameters=[dict(alpha=0.1, length_scales=ls, tikhonov=None, task_length=0.19)], max_simultaneous_af_points=5432,
                           nonzero_mean_info=dict(mean_type=NONZERO_MEAN_CONSTANT_MEAN_TYPE, poly_indices=None),
                           task_selection_strategy=TASK_SELECTION_STRATEGY_A_PRIORI),
    num_to_sample=inp["n"], parallelism=PARALLEL_CONSTANT_LIAR,
    points_sampled=PointsContainer(points=xs, values=values, value_vars=numpy.full_like(values, 1e-4), failures=numpy.zeros(len(xs), dtype=bool), task_costs=ts),
    points_being_sampled=PointsContainer(points=numpy.empty((0, len(comps))), task_costs=numpy.empty(0)),
    tag=dict(experiment_id=-1),
    metrics_info=MetricsInfo(requires_pareto_frontier_optimization=False, observation_budget=100, user_specified_thresholds=numpy.full(1, numpy.nan),
                             objectives=["maximize"], optimized_metrics_index=[0], constraint_metrics_index=[]),
    task_options=numpy.array(opts, dtype=float))
  numpy.random.seed(inp["seed"])
  resp = G.GpNextPointsCategorical(view_input).call()
  pts = numpy.asarray(resp["points_to_sample"], dtype=float).tolist()
  costs = [float(t) for t in resp["task_costs"]]
  if len(costs) != len(pts) or len(pts) != inp["n"]:
    return fail("task-tail:count", f"{inp['n']} suggestions asked, {len(pts)} points and {len(costs)} task costs returned", dict(points=pts, costs=costs))
  for j, c in enumerate(costs):
    if c not in [float(t) for t in opts]:
      return fail("task-tail:cost-not-an-option", f"endpoint: suggestion #{j} is returned with task cost {c!r}, not one of the task options {opts}",
                  dict(points=pts, costs=costs), "every returned task cost is a task option")
  for q in pts:
    if not valid_for_oracle("roundtrip", dict(dom=dict(comps=comps, cons=[]), p=q)):
      return fail("task-tail:point-not-admissible", f"endpoint: returned point {q} is not a configuration of the domain", pts)
  return None


def oh_positions(dom):
  pos, out = 0, []
  for c in dom["comps"]:
    out.append(pos)
    pos += len(c["elements"]) if c["var_type"] == "categorical" else 1
  return out


def real_component(rng, kind):
  scale = 10.0 ** rng.randint(-3, 4)
  if kind == "double":
    lo = rng.uniform(-5, 5) * scale
    return dict(var_type="double", elements=[lo, lo + rng.uniform(0.01, 3) * scale])
  if kind == "int":
    lo = rng.randint(-50, 50)
    return dict(var_type="int", elements=[lo, lo + rng.randint(1, 40)])
  if kind == "categorical":
    if rng.random() < 0.15:
      base = rng.choice([500123, -250000, 10 ** 9, 2 ** 40])
      return dict(var_type="categorical", elements=rng.sample(range(base - 3, base + 6), rng.randint(2, 6)))
    return dict(var_type="categorical", elements=rng.sample(range(-20, 60), rng.randint(2, 6)))
  vals = sorted({round(rng.uniform(-5, 5) * scale, rng.randint(0, 6)) for _ in range(rng.randint(2, 7))})
  if len(vals) < 2:
    vals = [vals[0], vals[0] + scale]
  return dict(var_type="quantized", elements=vals)


def real_relaxed(rng, dom):
  x = []
  for c in dom["comps"]:
    e = c["elements"]
    r = rng.random()
    if c["var_type"] == "categorical":
      blk = [rng.choice([0.0, 1.0, rng.random(), rng.random()]) for _ in e]
      if r < 0.2:  # a near tie (not an exact one): the largest value sits AFTER a value smaller by a few ulps .. 1e-8 relative
        j = rng.randrange(1, len(e))
        i = rng.randrange(0, j)
        top = rng.choice([1.0, rng.uniform(0.05, 1.0)])
        blk = [min(v, top / 2) for v in blk]
        blk[j] = top
        blk[i] = rng.choice([float(numpy.nextafter(top, 0.0)), top * (1 - 2.0 ** -rng.randint(26, 50)), top - 1e-9])
      x.extend(blk)
    elif c["var_type"] == "quantized":
      lo, hi = min(e), max(e)
      x.append(lo if r < 0.1 else hi if r < 0.2 else (e[0] + e[1]) / 2 if r < 0.3 else rng.uniform(lo, hi))
    else:
      lo, hi = e
      v = lo if r < 0.1 else hi if r < 0.2 else rng.uniform(lo, hi)
      if c["var_type"] == "int" and 0.2 <= r < 0.4:
        v = min(hi, max(lo, numpy.floor(v) + 0.5))
      x.append(float(v))
  return x


def gen_encode_case(rng):
  """points of a request as the views encode them: 1-5 valid points, with or without task costs, on discrete-only domains (ints, categoricals,
  integer-valued grids: the natural point arrays are integer typed) and on mixed ones, in every numeric form a caller can hand over"""
  discrete = rng.random() < 0.6
  comps = []
  for _ in range(rng.randint(1, 6)):
    kd = rng.choice(["int", "categorical", "quantized"] if discrete else ["double", "int", "categorical", "quantized"])
    c = real_component(rng, kd)
    if kd == "quantized" and (discrete or rng.random() < 0.3):
      c = dict(var_type="quantized", elements=sorted(rng.sample(range(-20, 40), rng.randint(2, 6))))
    comps.append(c)
  dom = dict(comps=comps, cons=[])
  pts = [gen_valid_point(rng, dom, real=True) for _ in range(rng.randint(1, 5))]
  integral = all(isinstance(v, int) for q in pts for v in q)
  form = rng.choice(["lists", "int_array", "row_arrays", "float_array"] if integral else ["lists", "float_array", "row_arrays"])
  costs = opts = None
  if rng.random() < 0.7:
    # at least two distinct options: with one, the task dimension of the augmented domain is a zero-width interval, which the domain constructor refuses
    opts = sorted({round(rng.uniform(0.01, 0.95), rng.randint(1, 3)) for _ in range(rng.randint(1, 4))} | {1.0})
    costs = [rng.choice(opts) for _ in pts]
  T = rng.choice([None, None, 0, 0.2, 1.0, 0.01, 0.003, 50.0])
  return "encode", dict(dom=dom, points=pts, form=form, costs=costs, options=opts, T=T, seed=rng.randint(0, 2**31 - 1))


def gen_search_case(rng):
  kind = rng.choice(["roundtrip", "roundtrip", "decode", "decode", "decode_ic", "detround", "ls", "nbr", "task"])
  if rng.random() < 0.04:
    return gen_many_ints(rng)
  if rng.random() < 0.08:
    return gen_encode_case(rng)
  if rng.random() < 0.06:
    # multitask requests at the conversion step: proposals that duplicate each other / observed points at the same task, real-valued task coordinates
    inp = gen_task_tail(rng, real=True)
    return "tasktail", dict(dom=inp["dom"], opts=inp["opts"], hist=inp["hist"], hist_costs=inp["hist_costs"], xs=inp["xs"], coef=inp["coef"], seed=rng.randint(0, 2**31 - 1))
  if kind == "task":
    opts = sorted({round(rng.uniform(0.01, 1), rng.randint(1, 4)) for _ in range(rng.randint(1, 5))})
    return kind, dict(costs=[rng.choice([rng.random(), rng.choice(opts), (opts[0] + opts[-1]) / 2]) for _ in range(rng.randint(1, 6))], options=opts)
  T = rng.choice([None, None, 0, 0.2, 1.0, 0.5, 0.01, 0.003, 3.0, rng.uniform(0.01, 2), 50.0, 1000.0])
  seed = rng.randint(0, 2**31 - 1)
  if kind == "decode_ic":
    if rng.random() < 0.5:
      _, inp = gen_case_of(rng, "decode_ic")
      return "decode", dict(dom=inp["dom"], xs=inp["xs"], T=T, seed=seed)
    ncomp = rng.randint(2, 6)
    comps = [real_component(rng, rng.choice(["int", "int", "double", "categorical", "quantized"])) for _ in range(ncomp)]
    comps[0] = real_component(rng, "int")
    ints = [i for i, c in enumerate(comps) if c["var_type"] == "int"]
    cons = []
    for _ in range(rng.randint(1, 2)):
      w = [0] * ncomp
      for i in rng.sample(ints, rng.randint(1, min(3, len(ints)))):
        w[i] = rng.choice([-3, -1, 1, 2])
      mid = sum(w[i] * (comps[i]["elements"][0] + comps[i]["elements"][1]) / 2 for i in ints)
      cons.append(dict(weights=w, rhs=mid - rng.choice([0.5, 2, 5.5]), var_type="int"))
    dom = dict(comps=comps, cons=cons)
    xs = [real_relaxed(rng, dom) for _ in range(rng.randint(1, 5))]
    return "decode", dict(dom=dom, xs=xs, T=T, seed=seed)
  if rng.random() < 0.3:
    dom = gen_domain(rng, 0, 0, max_comps=6)
  else:
    dom = dict(comps=[real_component(rng, rng.choice(["double", "int", "categorical", "quantized"])) for _ in range(rng.randint(1, 7))], cons=[])
  if kind == "roundtrip":
    return kind, dict(dom=dom, p=gen_valid_point(rng, dom, real=True), T=T, seed=seed)
  if kind == "decode":
    return kind, dict(dom=dom, xs=[real_relaxed(rng, dom) for _ in range(rng.randint(1, 4))], T=T, seed=seed)
  if kind == "detround":
    return kind, dict(dom=dom, xs=[real_relaxed(rng, dom) if rng.random() < 0.7 else gen_relaxed_point(rng, dom) for _ in range(rng.randint(1, 4))])
  if kind == "ls":
    ls = []
    for c in dom["comps"]:
      if c["var_type"] == "categorical":
        ls.append([None] if rng.random() < 0.4 else [rng.uniform(0.01, 9) for _ in c["elements"]])
      else:
        ls.append([rng.uniform(0.01, 9)])
    return kind, dict(dom=dom, ls=ls)
  comps = dom["comps"]
  while sum(c["var_type"] == "int" for c in comps) > 4 or numpy.prod([len(c["elements"]) for c in comps if c["var_type"] == "categorical"] or [1]) > 60:
    comps.pop()
  if not comps:
    comps.append(real_component(rng, "int"))
  return "nbr", dict(dom=dom, x=real_relaxed(rng, dom))


def gen_task_endpoint(rng):
  while True:
    comps = []
    for _ in range(rng.randint(1, 2)):
      kd = rng.choice(["int", "categorical", "quantized"])
      if kd == "int":
        lo = rng.randint(-3, 3)
        comps.append(dict(var_type="int", elements=[lo, lo + rng.randint(1, 2)]))
      elif kd == "categorical":
        comps.append(dict(var_type="categorical", elements=rng.sample([-7, 1, 2, 4, 9], rng.randint(2, 3))))
      else:
        comps.append(dict(var_type="quantized", elements=sorted(rng.sample([-2.5, -1, 0.5, 3, 8], rng.randint(2, 3)))))
    total = 1
    for c in comps:
      total *= (c["elements"][1] - c["elements"][0] + 1) if c["var_type"] == "int" else len(c["elements"])
    if total <= 9:
      break
  opts = sorted(rng.sample([0.1, 0.25, 0.3, 0.5, 1.0], rng.randint(2, 3)))
  drop = rng.sample(range(total * len(opts)), rng.choice([0, 0, 1, 2])) if total * len(opts) > 6 else []
  return "taskendpoint", dict(dom=dict(comps=comps, cons=[]), opts=opts, n=rng.randint(1, 3), drop=drop, seed=rng.randint(0, 2**31 - 1))


def gen_many_ints(rng):
  """More than 13 integer parameters inside int constraints: the implementation leaves the exhaustive floor/ceil grid for
  randomly drawn neighbours.  Valid (integral) points must still come back unchanged and decoded points stay in the unit cell."""
  n_int = rng.randint(14, 17)
  comps = [real_component(rng, "int") for _ in range(n_int)] + [real_component(rng, rng.choice(["double", "categorical", "quantized"])) for _ in range(rng.randint(0, 2))]
  rng.shuffle(comps)
  ints = [i for i, c in enumerate(comps) if c["var_type"] == "int"]
  dom = dict(comps=comps, cons=[])
  corner = rng.random() < 0.4
  p = gen_valid_point(rng, dom, real=True)
  if corner:   # the upper (or lower) corner of the int box
    up = rng.random() < 0.7
    for i in ints:
      p[i] = comps[i]["elements"][1 if up else 0]
  cons, used = [], set()
  for _ in range(rng.randint(1, 2)):
    w = [0] * len(comps)
    for i in (ints if not used else rng.sample(ints, rng.randint(1, 4))):
      w[i] = rng.choice([-2, -1, 1, 1, 2])
      used.add(i)
    cons.append(dict(weights=w, rhs=sum(a * b for a, b in zip(w, p)) - rng.choice([0, 0, 1, 3.5, 10]), var_type="int"))
  dom["cons"] = cons
  try:
    make_domain(dom)
  except AssertionError:   # the constructor refuses a region without interior (e.g. a tight constraint through a corner): not a domain
    return gen_many_ints(rng)
  T = rng.choice([None, 0, 0.2, 1.0])
  seed = rng.randint(0, 2**31 - 1)
  if rng.random() < 0.6:
    return "roundtrip", dict(dom=dom, p=p, T=T, seed=seed)
  # relaxed rows: the encoding of the valid point with at most two int coordinates pushed off the lattice (a feasible neighbour, when one exists, is then missed by 100 random draws with probability <= 0.75^100)
  xs = []
  for _ in range(rng.randint(1, 3)):
    x = encode_ref(dom, p)
    ohpos = oh_positions(dom)
    for i in rng.sample(ints, rng.randint(0, 2)):
      lo, hi = comps[i]["elements"]
      x[ohpos[i]] = float(min(hi, max(lo, x[ohpos[i]] + rng.choice([-0.5, 0.25, 0.5, -0.125, rng.uniform(-1, 1)]))))
    xs.append(x)
  return "decode", dict(dom=dom, xs=xs, T=T, seed=seed)


def gen_case_of(rng, want):
  while True:
    sub = random_fork(rng)
    # draw correspondence-style cases until one of the requested family appears
    kind, inp = gen_case(sub)
    if want == "decode_ic" and kind == "decode" and any(k["var_type"] == "int" for k in inp["dom"]["cons"]) and "malformed" not in inp:
      return kind, inp


def hint_to_search(h):
  """Translate a disagreeing correspondence case into searcher inputs."""
  kind, inp = h.get("kind"), h.get("input") or {}
  out = []
  if kind == "task":
    out.append(("task", dict(costs=inp["costs"], options=inp["options"])))
  elif kind == "task_tail":
    for sd in range(3):
      out.append(("tasktail", dict(dom=inp["dom"], opts=inp["opts"], hist=inp["hist"], hist_costs=inp["hist_costs"], xs=inp["xs"], coef=inp["coef"], seed=sd)))
  elif kind == "encode" and "dom" in inp:
    out.append(("roundtrip", dict(dom=inp["dom"], p=inp["p"], T=None, seed=1)))
    task = inp.get("task")
    for form in ["lists"] + (["int_array"] if all(isinstance(v, int) for v in inp["p"]) else []) + ["float_array"]:
      out.append(("encode", dict(dom=dict(comps=inp["dom"]["comps"], cons=[]), points=[list(inp["p"])], form=form, costs=None if task is None else [task],
                                 options=None if task is None else sorted({0.125, float(task), 1.0}), T=None, seed=1)))
  elif kind == "encode_task":
    for form in ["lists"] + (["int_array"] if all(isinstance(v, int) for v in inp["p"]) else []) + ["float_array"]:
      out.append(("encode", dict(dom=dict(comps=inp["dom"]["comps"], cons=[]), points=[list(inp["p"])], form=form, costs=[inp["c"]], options=list(inp["opts"]), T=None, seed=1)))
  elif kind in ("decode", "snapfeas") and not inp.get("malformed"):
    for s in range(4):
      out.append(("decode", dict(dom=inp["dom"], xs=inp["xs"], T=inp.get("T"), seed=s)))
    out.append(("detround", dict(dom=dict(comps=inp["dom"]["comps"], cons=[]), xs=inp["xs"])))
  elif kind == "round":
    w = len(oh_positions(inp["dom"])) and sum(len(c["elements"]) if c["var_type"] == "categorical" else 1 for c in inp["dom"]["comps"])
    out.append(("detround", dict(dom=inp["dom"], xs=[x[:w] for x in inp["xs"]])))
  elif kind in ("intnbrs", "feasnbrs"):
    for s in range(4):
      out.append(("decode", dict(dom=inp["dom"], xs=[inp["x"]], T=None, seed=s)))
  elif kind in ("nbrint", "nbrcat"):
    for x in ([inp["x"]] if "x" in inp else inp["xs"]):
      out.append(("nbr", dict(dom=inp["dom"], x=x)))
  elif kind == "lsto":
    out.append(("ls", dict(dom=inp["dom"], ls=inp["ls"])))
  elif kind == "lsback":
    ls, pos = [], 0
    for c in inp["dom"]["comps"]:
      n = len(c["elements"]) if c["var_type"] == "categorical" else 1
      ls.append(inp["l"][pos:pos + n])
      pos += n
    out.append(("ls", dict(dom=inp["dom"], ls=ls)))
  return out


def valid_for_oracle(kind, inp):
  """The roundtrip law is stated for valid points only."""
  if kind == "encode":   # valid points; a task cost inside the range of the options (the task dimension of the relaxed box)
    if inp.get("costs") is not None and any(not (min(inp["options"]) <= c <= max(inp["options"])) for c in inp["costs"]):
      return False
    return all(valid_for_oracle("roundtrip", dict(dom=inp["dom"], p=q)) for q in inp["points"])
  if kind != "roundtrip":
    return True
  for v, c in zip(inp["p"], inp["dom"]["comps"]):
    e = c["elements"]
    if c["var_type"] in ("double", "int"):
      if not (e[0] <= v <= e[1]) or (c["var_type"] == "int" and v != int(v)):
        return False
    elif v not in e:
      return False
  return True


def search(ctx, hints, broken):
  fails, n = [], 0
  for h in hints:
    for kind, inp in hint_to_search(h):
      if not valid_for_oracle(kind, inp):
        continue
      n += 1
      r = oracle(kind, inp)
      if r:
        fails.append(r)
  budget = ctx.n(1500, 25000) * (2 if broken else 1)
  rng = ctx.rng
  for _ in range(ctx.n(3, 12)):   # the whole multitask endpoint on (almost) exhausted small discrete domains: every proposal is a duplicate
    kind, inp = gen_task_endpoint(rng)
    n += 1
    r = oracle(kind, inp)
    if r:
      fails.append(r)
  for _ in range(budget):
    kind, inp = gen_search_case(rng)
    n += 1
    r = oracle(kind, inp)
    if r:
      fails.append(r)
      if len(fails) >= 3:
        break
  return dict(evaluations=n, failures=fails, oracle="exact-rational membership / nearest-element / unit-cell brute force in plain Python")


def replay(ctx, payload):
  inp = dict(payload["input"])
  kind = inp.pop("kind")
  return oracle(kind, inp)


LEVEL_TEXT = ("Coq theorems on an executable model of CategoricalDomain's one-hot layout, encoder, the three rounding functions, the "
              "stochastic decode (category choice as an explicit oracle / inverse-cdf draw), the integer-feasible snapping with its "
              "padding rule, the length-scale maps, task snapping and the lattice neighbours, for all well-formed domains, points, "
              "temperatures, draws and shuffles; the model is tied to the code by exact differential runs evaluated inside Coq, and "
              "the implementation's outputs are also evaluated against the decidable specifications")
LEVEL_NOTE = ("Exact arithmetic over Q; numpy.power abstract (contract at 0 and 1); numpy.random.choice modelled as inverse-cdf of one "
              "uniform; HiGHS feasibility assertion of the constructor outside the model; harness and printer trusted; no axioms")
TECHNIQUE = "Coq proof (structural induction over the component list) on executable model + in-Coq differential correspondence"
DESIGN_REF = "DESIGN.md section 7, C09"

# --- second build round: additions to the claimed level
LEVEL_TEXT += ("; stochastic-decode round trip iff every draw lies in its window (two-sided 1e-300 tails), completeness of the integer-feasible snap, "
               "exact enumeration of the categorical neighbour lattice")

# --- gap round (seeded C09_m11): additions to the claimed level
LEVEL_TEXT += ("; the task-cost column of the views' encode entry point: appending the cost is the encoding in the domain with the task dimension, the encoded row of a valid "
               "point lies in the relaxed box, is a fixed point of the rounding functions, decodes to the point with its cost, and a cost that is one of the options snaps to itself "
               "(Props/C09_task.v; tied by exact correspondence through form_one_hot_points_with_tasks and form_augmented_domain on points handed over as lists of ints, integer-typed "
               "arrays and float arrays); the searcher states the same round trip on batches of points in every numeric form (discrete-only domains included) and re-evaluates "
               "disagreeing encode cases with their task cost")

# --- gap round (seeded C09_m12): additions to the claimed level
LEVEL_TEXT += ("; the task-cost clause on the multitask tail of the GP suggestion endpoint (_convert_one_hot_points_for_multitask): every returned cost is an option nearest to the raw "
               "task coordinate of the row it is returned with, for kept proposals and for the rows drawn to replace rejected duplicates alike (Props/C09_task.v: "
               "C09_task_tail_costs_snapped, C09_task_tail_rows_structure over Model.EndpointTail.gp_tail; tied by an exact correspondence through "
               "convert_one_hot_points_to_distinct_categorical_points on multitask requests whose proposals duplicate each other or observed points at the same task, all draws "
               "scripted); the searcher states it on the same entry point with real-valued task coordinates and on the whole multitask endpoint over (almost) exhausted discrete domains")
TRUSTED = TRUSTED + ["Model/TaskTail.v decidable clause task_costs_okb (proved sound: C09_task_costs_okb_sound)"]
