"""C02 — GP posterior equals the exact conditional Gaussian of the stated model."""
import numpy

from lib import common as C
from lib import gpgen
from py2v import units_gp

PROP = "C02"
PROPS_FILES = ["Props/C02.v", "Props/C02_poly.v", "Props/C02_se_psd.v", "Props/C02_matern_psd.v"]
ASSUMPTIONS = [
  "exact arithmetic over an abstract real field; 'up to conditioning-scaled rounding' is outside the model (searcher tolerance 1e-8 * cond)",
  "LAPACK contract: a successful cho_factor/cho_solve returns A^-1 b, solve_triangular with the Cholesky factor returns (chol A)^-1 b, chol A (chol A)^T = A",
  "positive semi-definiteness of the joint kernel Gram matrix is DISCHARGED for all four kernels (it is a hypothesis only of the abstract-field statement): Props/C02_se_psd.v and Props/C02_matern_psd.v instantiate "
  "the abstract-field theorems at Coq's R (Lib/RStruct.v), identify the joint block matrix with the regenerated Gram matrix of the concatenated point set and apply C03's n x n PSD theorems - the posterior "
  "covariance (noise, nugget, zero mean) is PSD and the pointwise variance non-negative before the floor, with only the Cholesky contract left; those theorems depend on the standard-library real-number / classical / epsilon axioms",
  "the posterior variance is k(x,x) - k*^T K^-1 k* as the library defines it (no correction for the estimated mean)",
]
TRUSTED = ["tools/py2v matrix back-end (validated on every run by evaluating the emitted terms with numpy against real GaussianProcess objects)"]
LEVEL_TEXT = ("MathComp theorems over the GP dataflow regenerated from gaussian_process.py / gaussian_process_sum.py on every run: the stored weights "
              "solve the universal-kriging saddle point K a + P b = y, P^T a = 0 and are its unique solution (noise or nugget on the diagonal, never both; "
              "zero-mean special case), mean closed form, agreement of the two variance code paths and closed form k(x,x) - k*^T K^-1 k* with a positive "
              "floor, joint covariance closed form, symmetry, PSD by Schur complement, weighted sums for the sum of GPs; independent-oracle search on the "
              "running code (saddle point solved in extended precision with refinement)")
LEVEL_NOTE = ("rounding/conditioning outside the model; LAPACK and kernel-PSD as contracts; permutation invariance and appended lie data are decided by the "
              "searcher (uniqueness of the saddle point is the proved core); the abstract-field theorems have no axioms (closed under the global context), the SquareExponential instance at R uses the standard-library real-number / classical / epsilon axioms")
TECHNIQUE = "MathComp matrix proofs on definitions regenerated from source (translator, matrix back-end) + independent-oracle search"
DESIGN_REF = "DESIGN.md section 7, C02"


def generate(ctx):
  from py2v import gen as _gen
  return units_gp.generate(ctx) + _gen.generate(ctx, ["GenCovariance"])   # Props/C02_se_psd.v is stated on the regenerated SE kernel entry points


def oracle(inp):
  """The stated kernel is the one whose hyperparameters were handed over.  When the caller has since written into the array it handed them
  over in (gpgen.WRITTEN_LIVES) the text leaves a second reading open - a model that consistently FOLLOWS the caller's array is the conditional
  of the kernel that array describes now - so a failure against the first reading is reported only if the second fails as well (the library
  copies: the first reading holds on the unchanged tree; a model that follows the array in one place and not in another satisfies neither)."""
  r = oracle_reading(inp, None)
  if r and inp["cov"].get("life") in gpgen.WRITTEN_LIVES:
    if oracle_reading(inp, dict(inp["cov"], hp=gpgen.other_hp(inp["cov"]["hp"]).tolist())) is None:
      return None
  return r


def bounds(model, scale):
  """reference posterior of the model `model` states (mean, unfloored variance, covariance) with the justified bounds of oracle_reading: forward error of
  the Cholesky solves (eps * cond), first-order effect of the kernel-entry rounding, forward error of the GLS coefficient solve"""
  rm, rv, rc, cond = gpgen.reference_posterior(model)
  ex, dk = gpgen.reference_posterior.extra, gpgen.kernel_entry_error(model)
  alpha = model["cov"]["hp"][0]
  tm = (1e-14 * cond * (alpha * ex["a_l1"] + float(numpy.abs(rm).max()) + scale) + 4 * dk * ex["a_l1"] + 1e-9 * scale
        + 1e-14 * ex["gls_cond"] * (1 + cond * 1e-6) * ex["pb_l1"])
  tv = 1e-14 * cond * alpha * (1 + ex["card_l1"]) ** 2 + 8 * dk * ex["card_l1"] + 1e-9 * alpha
  return rm, rv, rc, tm, tv


def gp_life(inp):
  """the steps of the life of the GP object after it was built: inp["history"] = [["lies", points] | ["replace", data] | ["core_copy", spec], ...];
  inputs recorded before the histories existed carry at most one "lies" and one "replace" (in that order)"""
  if "history" in inp:
    return inp["history"]
  return ([["lies", inp["lies"]]] if inp.get("lies") else []) + ([["replace", inp["replace"]]] if inp.get("replace") else [])


def oracle_reading(inp, ref_cov):
  def fail(what, observed, expected):
    return dict(signature=f"C02:{what}", what=what, input=inp, observed=observed, expected=expected, oracle="saddle-point system, extended precision + refinement")
  stated = (lambda d: dict(d, cov=ref_cov)) if ref_cov else (lambda d: d)   # the model the predictions are compared with
  gp = gpgen.make_gp(inp)
  xs = gpgen.handover(inp["xs"], inp.get("xs_style"))     # the query points in one of the forms a caller may hand them over in
  rm, rv, rc, cond = gpgen.reference_posterior(stated(inp))
  alpha = stated(inp)["cov"]["hp"][0]
  scale = max(1.0, float(numpy.abs(inp["values"]).max()))
  # conditioning-scaled rounding (1e-12*cond) plus the first-order effect of the kernel-entry rounding (see gpgen.kernel_entry_error)
  dk = gpgen.kernel_entry_error(stated(inp))
  ex = gpgen.reference_posterior.extra
  # forward error of the Cholesky solves: |da| <~ eps*cond*|a|, hence |dmean| <~ alpha*eps*cond*|a|_1 (same for the cardinal functions)
  tol_m = (1e-14 * cond * (alpha * ex["a_l1"] + float(numpy.abs(rm).max()) + scale) + 4 * dk * ex["a_l1"] + 1e-9 * scale
           + 1e-14 * ex["gls_cond"] * (1 + cond * 1e-6) * ex["pb_l1"])   # forward error of the GLS coefficient solve (nearly collinear polynomial columns)
  tol_v = 1e-14 * cond * alpha * (1 + ex["card_l1"]) ** 2 + 8 * dk * ex["card_l1"] + 1e-9 * alpha
  mean = gp.compute_mean_of_points(xs)
  var = gp.compute_variance_of_points(xs)
  m2, v2 = gp.compute_mean_and_variance_of_points(xs)
  cov = gp.compute_covariance_of_points(xs)
  if numpy.abs(mean - rm).max() > tol_m:
    return fail("posterior mean differs from the closed form", mean.tolist(), rm.tolist())
  if (var < 0).any():
    return fail("negative variance", var.tolist(), ">= 0")
  if numpy.abs(var - numpy.maximum(rv, 1e-100)).max() > tol_v:
    return fail("posterior variance differs from the closed form", var.tolist(), rv.tolist())
  if numpy.abs(m2 - mean).max() > tol_m or numpy.abs(v2 - var).max() > tol_v:
    return fail("compute_mean_and_variance_of_points disagrees with the separate entry points", [m2.tolist(), v2.tolist()], [mean.tolist(), var.tolist()])
  if gp.differentiable:
    m3, v3, _, _ = gp.compute_mean_variance_grad_of_points(xs)
    if numpy.abs(m3 - mean).max() > tol_m or numpy.abs(v3 - var).max() > 10 * tol_v:
      return fail("compute_mean_variance_grad_of_points disagrees with the separate entry points", [m3.tolist(), v3.tolist()], [mean.tolist(), var.tolist()])
  if numpy.abs(cov - rc).max() > tol_v:
    return fail("joint covariance differs from the closed form", cov.tolist(), rc.tolist())
  if numpy.abs(cov - cov.T).max() > tol_v:
    return fail("joint covariance not symmetric", None, None)
  if numpy.linalg.eigvalsh((cov + cov.T) / 2).min() < -10 * tol_v:
    return fail("joint covariance not positive semi-definite", float(numpy.linalg.eigvalsh((cov + cov.T) / 2).min()), ">= 0")
  # batch shape: one query at a time
  one = numpy.array([gp.compute_mean_of_points(xs[i:i + 1])[0] for i in range(len(xs))])
  if numpy.abs(one - mean).max() > tol_m:
    return fail("mean depends on the batch shape", one.tolist(), mean.tolist())
  # ordering of the observations
  perm = inp.get("perm")
  if perm:
    inp2 = dict(inp, points=[inp["points"][k] for k in perm], values=[inp["values"][k] for k in perm], noise=[inp["noise"][k] for k in perm])
    gp2 = gpgen.make_gp(inp2)
    if numpy.abs(gp2.compute_mean_of_points(xs) - mean).max() > 10 * tol_m or numpy.abs(gp2.compute_variance_of_points(xs) - var).max() > 10 * tol_v:
      return fail("prediction depends on the ordering of the observations", gp2.compute_mean_of_points(xs).tolist(), mean.tolist())
  # one big batch of query points (>= 1e5 point pairs in one call: code paths may switch with the size of the batch): mean and variance of
  # a seeded sample of its rows against the reference posterior of those rows
  if inp.get("big_batch"):
    rs = numpy.random.RandomState(inp["big_batch"]["seed"])
    dimx = xs.shape[1]
    big = rs.uniform(-0.2, 1.2, size=(inp["big_batch"]["n"], dimx)) * (xs.max(axis=0) - xs.min(axis=0) + 1.0) + xs.min(axis=0)
    mb, vb = gp.compute_mean_of_points(big), gp.compute_variance_of_points(big)
    pick = rs.choice(len(big), size=60, replace=False)
    sub = dict(inp, xs=big[pick].tolist())
    rmb, rvb, _, condb = gpgen.reference_posterior(stated(sub))
    exb, dkb = gpgen.reference_posterior.extra, gpgen.kernel_entry_error(stated(sub))
    tmb = (1e-14 * condb * (alpha * exb["a_l1"] + float(numpy.abs(rmb).max()) + scale) + 4 * dkb * exb["a_l1"] + 1e-9 * scale
           + 1e-14 * exb["gls_cond"] * (1 + condb * 1e-6) * exb["pb_l1"])
    tvb = 1e-14 * condb * alpha * (1 + exb["card_l1"]) ** 2 + 8 * dkb * exb["card_l1"] + 1e-9 * alpha
    if numpy.abs(mb[pick] - rmb).max() > tmb:
      return fail("posterior mean in a big batch differs from the closed form", mb[pick].tolist()[:5], rmb.tolist()[:5])
    if numpy.abs(vb[pick] - numpy.maximum(rvb, 1e-100)).max() > tvb:
      return fail("posterior variance in a big batch differs from the closed form", vb[pick].tolist()[:5], rvb.tolist()[:5])
  # sum of GPs
  w = inp.get("weights")
  if w:
    from libsigopt.compute.gaussian_process_sum import GaussianProcessSum
    inp3 = dict(inp, values=inp["values2"])
    gpb = gpgen.make_gp(inp3)
    if inp.get("weights_inplace"):   # the sum holds the caller's weight array by reference: it predicts with the weights that array holds NOW
      warr = numpy.array([wi * 3.0 + 1.0 for wi in w], dtype=float)
      s = GaussianProcessSum([gp, gpb], warr)
      _ = s.compute_variance_of_points(xs), s.compute_covariance_of_points(xs)
      warr[:] = w
    else:
      s = GaussianProcessSum([gp, gpb], w)
    mb, vb, cb = gpb.compute_mean_of_points(xs), gpb.compute_variance_of_points(xs), gpb.compute_covariance_of_points(xs)
    sm, sv = s.compute_mean_and_variance_of_points(xs)
    if numpy.abs(sm - (w[0] * mean + w[1] * mb)).max() > 1e-10 * scale or numpy.abs(s.compute_mean_of_points(xs) - sm).max() > 1e-10 * scale:
      return fail("sum of GPs: mean is not the weighted sum", sm.tolist(), (w[0] * mean + w[1] * mb).tolist())
    if numpy.abs(sv - (w[0] ** 2 * var + w[1] ** 2 * vb)).max() > 1e-10 * alpha or numpy.abs(s.compute_variance_of_points(xs) - sv).max() > 1e-10 * alpha:
      return fail("sum of GPs: variance is not the squared-weight sum", sv.tolist(), (w[0] ** 2 * var + w[1] ** 2 * vb).tolist())
    if numpy.abs(s.compute_covariance_of_points(xs) - (w[0] ** 2 * cov + w[1] ** 2 * cb)).max() > 1e-10 * alpha:
      return fail("sum of GPs: covariance is not the squared-weight sum", None, None)
    if gp.differentiable:   # whichever entry point is used: the joint value-and-gradient one as well
      jm, jv, jgm, jgv = s.compute_mean_variance_grad_of_points(xs)
      gm = w[0] * gp.compute_grad_mean_of_points(xs) + w[1] * gpb.compute_grad_mean_of_points(xs)
      gv = w[0] ** 2 * gp.compute_grad_variance_of_points(xs) + w[1] ** 2 * gpb.compute_grad_variance_of_points(xs)
      gs = max(1.0, float(numpy.abs(gm).max()), float(numpy.abs(gv).max()))
      if numpy.abs(jm - sm).max() > 1e-10 * scale or numpy.abs(jv - sv).max() > 10 * tol_v + 1e-10 * alpha:
        return fail("sum of GPs: joint value-and-gradient entry point disagrees on mean / variance", [jm.tolist(), jv.tolist()], [sm.tolist(), sv.tolist()])
      if (numpy.abs(jgm - gm).max() > 1e-9 * gs or numpy.abs(s.compute_grad_mean_of_points(xs) - gm).max() > 1e-9 * gs
          or numpy.abs(s.compute_grad_variance_of_points(xs) - gv).max() > 1e-9 * gs):
        return fail("sum of GPs: gradient entry points are not the weighted sums of the components' gradients", jgm.tolist(), gm.tolist())
  # ---- the life of the GP object after it was built (the quantifier: "any sequence of appended lie data"; a live GP is also handed new data as a
  # whole, and copies of its core data are taken and worked on): after EVERY step the object must be the conditional of the model it holds THEN
  cur = dict(inp)                                       # the model the object holds now (points / values / noise change along the life)
  for step in gp_life(inp):
    op = step[0]
    if op == "lies":
      # appended lie data: the model must be the posterior of the extended data set
      lies = step[1]
      gp.append_lie_data(numpy.array(lies, dtype=float))
      worst = max(cur["values"])
      cur = dict(cur, points=cur["points"] + lies, values=cur["values"] + [worst] * len(lies), noise=cur["noise"] + [1e-12] * len(lies))
      rm4, rv4, _, t4, tv4 = bounds(stated(cur), scale)   # the same justified bound as tol_m, for the extended data set
      if numpy.abs(gp.compute_mean_of_points(xs) - rm4).max() > t4 + tol_m:
        return fail("after append_lie_data the mean is not the posterior of the extended data", gp.compute_mean_of_points(xs).tolist(), rm4.tolist())
      if numpy.abs(gp.compute_variance_of_points(xs) - numpy.maximum(rv4, 1e-100)).max() > tv4 + tol_v:
        return fail("after append_lie_data the variance is not the posterior variance of the extended data", gp.compute_variance_of_points(xs).tolist(), rv4.tolist())
    elif op == "replace":
      # the data of a live GP replaced as a whole (update_historical_data - what append_lie_data itself ends with, and what happens when real
      # results replace lies): the model is the posterior of the data it holds NOW, nothing of the earlier data set may survive in a cache -
      # whether the new data sit elsewhere, at the SAME locations with other values / other noise variances (a re-measured campaign), or
      # extend / shorten the old point set
      new = step[1]
      from libsigopt.compute.misc.data_containers import HistoricalData
      hd = HistoricalData(xs.shape[1])
      hd.append_historical_data(numpy.array(new["points"], dtype=float), numpy.array(new["values"], dtype=float), numpy.array(new["noise"], dtype=float))
      gp.update_historical_data(hd)
      cur = dict(cur, points=new["points"], values=new["values"], noise=new["noise"])
      rm5, rv5, rc5, t5, tv5 = bounds(stated(cur), max(1.0, float(numpy.abs(new["values"]).max())))   # the justified bounds of tol_m / tol_v, for the new data set
      m5, v5 = gp.compute_mean_and_variance_of_points(xs)
      if numpy.abs(m5 - rm5).max() > t5:
        return fail("after update_historical_data the mean is not the posterior of the new data", m5.tolist(), rm5.tolist())
      if numpy.abs(v5 - numpy.maximum(rv5, 1e-100)).max() > tv5:
        return fail("after update_historical_data the variance is not the posterior variance of the new data", v5.tolist(), rv5.tolist())
      if numpy.abs(gp.compute_covariance_of_points(xs) - rc5).max() > tv5:
        return fail("after update_historical_data the joint covariance is not the posterior covariance of the new data", gp.compute_covariance_of_points(xs).tolist(), rc5.tolist())
    elif op == "core_copy":
      # somebody takes get_core_data_copy() and works on the COPY (what a model-selection loop does): other hyperparameters of the same size on
      # the copied kernel, possibly one more observation in the copied data, a second GP built from it.  The second GP is the conditional of ITS
      # model, and the first one - nobody touched it - still the conditional of its own; a weighted sum of the two predicts the weighted sums
      from libsigopt.compute.gaussian_process import GaussianProcess
      spec = step[1]
      cov2, hd2, idx2, tik2 = gp.get_core_data_copy()
      cov2.hyperparameters = numpy.array(spec["hp"], dtype=float)
      other = dict(cur, cov=dict(stated(cur)["cov"], hp=list(spec["hp"])))
      if spec.get("append"):
        px, py, pn = spec["append"]
        hd2.append_historical_data(numpy.array([px], dtype=float), numpy.array([py], dtype=float), numpy.array([pn], dtype=float))
        other = dict(other, points=cur["points"] + [px], values=cur["values"] + [py], noise=cur["noise"] + [pn])
      gp2 = GaussianProcess(cov2, hd2, mean_poly_indices=idx2, tikhonov_param=tik2)
      rm6, rv6, rc6, t6, tv6 = bounds(other, max(1.0, float(numpy.abs(other["values"]).max())))
      m6, v6 = gp2.compute_mean_and_variance_of_points(xs)
      if numpy.abs(m6 - rm6).max() > t6 or numpy.abs(v6 - numpy.maximum(rv6, 1e-100)).max() > tv6:
        return fail("a GP built from get_core_data_copy() with other hyperparameters is not the posterior of its own model", [m6.tolist(), v6.tolist()], [rm6.tolist(), rv6.tolist()])
      rm7, rv7, rc7, t7, tv7 = bounds(stated(cur), max(1.0, float(numpy.abs(cur["values"]).max())))
      m7, v7 = gp.compute_mean_and_variance_of_points(xs)
      if numpy.abs(m7 - rm7).max() > t7 + tol_m:
        return fail("after a copy of its core data was given other hyperparameters the mean of the ORIGINAL GP is no longer the posterior of its model", m7.tolist(), rm7.tolist())
      if numpy.abs(v7 - numpy.maximum(rv7, 1e-100)).max() > tv7 + tol_v or numpy.abs(gp.compute_covariance_of_points(xs) - rc7).max() > tv7 + tol_v:
        return fail("after a copy of its core data was given other hyperparameters the variance / covariance of the ORIGINAL GP is no longer the posterior of its model", v7.tolist(), rv7.tolist())
      ws = spec.get("weights")
      if ws and not spec.get("append"):
        from libsigopt.compute.gaussian_process_sum import GaussianProcessSum
        s2 = GaussianProcessSum([gp, gp2], list(ws))
        sm2, sv2 = s2.compute_mean_and_variance_of_points(xs)
        wm = ws[0] * rm7 + ws[1] * rm6
        wv = ws[0] ** 2 * numpy.maximum(rv7, 1e-100) + ws[1] ** 2 * numpy.maximum(rv6, 1e-100)
        if numpy.abs(sm2 - wm).max() > abs(ws[0]) * (t7 + tol_m) + abs(ws[1]) * t6 + 1e-10 * scale:
          return fail("sum of a GP and a GP built from its core-data copy: mean is not the weighted sum of the two closed-form posteriors", sm2.tolist(), wm.tolist())
        if numpy.abs(sv2 - wv).max() > ws[0] ** 2 * (tv7 + tol_v) + ws[1] ** 2 * tv6 + 1e-10 * alpha:
          return fail("sum of a GP and a GP built from its core-data copy: variance is not the squared-weight sum of the two closed-form posteriors", sv2.tolist(), wv.tolist())
        if numpy.abs(s2.compute_covariance_of_points(xs) - (ws[0] ** 2 * rc7 + ws[1] ** 2 * rc6)).max() > ws[0] ** 2 * (tv7 + tol_v) + ws[1] ** 2 * tv6 + 1e-10 * alpha:
          return fail("sum of a GP and a GP built from its core-data copy: covariance is not the squared-weight sum of the two closed-form posteriors", None, None)
    else:
      raise ValueError(f"unknown step {op!r} in the life of the GP")
  return None


def gen_life(rng, inp):
  """a life of the live GP object (see gp_life / oracle_reading): 1-3 steps; lie data with and without a nugget"""
  dim, terms = len(inp["points"][0]), len(inp.get("mean_idx") or [])
  pts, vals, noise = list(inp["points"]), list(inp["values"]), list(inp["noise"])
  shift = [0.0] * dim
  if any(abs(v) > 100 for v in pts[0]):   # keep new points in the region the (possibly offset) inputs live in
    shift = [pts[0][k] - (pts[0][k] % 20.0) if abs(pts[0][k]) > 100 else 0.0 for k in range(dim)]
  def newpt():
    return [shift[k] + (20.0 if shift[k] else 1.0) * rng.uniform(0, 1) for k in range(dim)]
  def newnoise(k, lvl):
    return [max(lvl, 1e-6) * rng.uniform(0.5, 2) for _ in range(k)]
  steps, replaced = [], False
  for _ in range(rng.choice([1, 1, 2, 2, 3])):
    n = len(pts)
    lvl = sum(noise) / n
    op = rng.choice(["lies", "replace", "replace", "core_copy"])
    if op == "lies":               # also on a GP with a nugget (the nugget replaces the lies' noise variance too: C02_m14)
      lies = [[rng.uniform(0, 1) for _ in range(dim)] for _ in range(rng.randint(1, 2))]
      steps.append(["lies", lies])
      pts, vals, noise = pts + lies, vals + [max(vals)] * len(lies), noise + [1e-12] * len(lies)
    elif op == "replace":
      how = rng.choice(["elsewhere", "same_points", "same_points", "values_only", "grown", "shrunk"] + (["back"] if replaced else []))
      if how == "elsewhere":         # fewer / as many / more points, elsewhere
        n2 = max(terms + 1, n + rng.choice([-2, -1, 0, 0, 1, 2]))
        new = dict(points=[newpt() for _ in range(n2)], values=[rng.uniform(-1, 1) for _ in range(n2)], noise=newnoise(n2, lvl))
      elif how == "same_points":     # a second campaign at the SAME locations: other values, other noise variances (much quieter / much noisier)
        new = dict(points=[list(p) for p in pts], values=[rng.uniform(-1, 1) for _ in range(n)], noise=newnoise(n, lvl * rng.choice([1e-2, 0.1, 10.0, 100.0, 1e3])))
      elif how == "values_only":     # the same locations and noise variances, other values
        new = dict(points=[list(p) for p in pts], values=[rng.uniform(-1, 1) for _ in range(n)], noise=list(noise))
      elif how == "grown":           # the old locations first, then more; everything re-measured
        k = rng.randint(1, 2)
        new = dict(points=[list(p) for p in pts] + [newpt() for _ in range(k)], values=[rng.uniform(-1, 1) for _ in range(n + k)], noise=newnoise(n + k, lvl * rng.choice([0.1, 1.0, 10.0])))
      elif how == "shrunk":          # a prefix of the old locations, re-measured
        n2 = max(terms + 1, n - rng.randint(1, 2))
        new = dict(points=[list(p) for p in pts[:n2]], values=[rng.uniform(-1, 1) for _ in range(n2)], noise=newnoise(n2, lvl * rng.choice([0.1, 1.0, 10.0])))
      else:                          # back to the data set the object was built on
        new = dict(points=[list(p) for p in inp["points"]], values=list(inp["values"]), noise=list(inp["noise"]))
      new["how"] = how
      steps.append(["replace", new])
      pts, vals, noise, replaced = new["points"], new["values"], new["noise"], True
    else:
      hp = inp["cov"]["hp"]
      spec = dict(hp=[v * rng.choice([0.5, 0.7, 1.5, 2.0]) * rng.uniform(0.9, 1.1) for v in hp])
      c = rng.random()
      if c < 0.3:
        spec["append"] = [newpt(), rng.uniform(-1, 1), max(lvl, 1e-6) * rng.uniform(0.5, 2)]
      elif c < 0.7:
        spec["weights"] = [rng.uniform(0.1, 0.9), rng.choice([rng.uniform(0.1, 0.9), -0.4, 1.5])]
      steps.append(["core_copy", spec])
  return steps


def gen_input(rng):
  inp = gpgen.gen_gp_input(rng, caller_writes=True)
  n = len(inp["points"])
  if rng.random() < 0.02:
    inp["big_batch"] = dict(seed=rng.randrange(10 ** 6), n=-(-100000 // n) + rng.randint(1, 500))   # n_query * n_observed >= 1e5
  if rng.random() < 0.5:
    perm = list(range(n))
    rng.shuffle(perm)
    inp["perm"] = perm
  if rng.random() < 0.3:
    inp["weights"] = [rng.uniform(0.1, 0.9), rng.uniform(0.1, 0.9)]
    style = rng.random()
    if style < 0.3:       # any weights: a difference of two models, a zero weight, tiny weights
      inp["weights"][rng.randrange(2)] = rng.choice([-0.4, -1.0, 0.0, 1e-15, -1e-15, 3.0])
    elif style < 0.4:
      inp["weights"] = [rng.choice([-2.0, 1e-16]), rng.choice([-0.3, 1e-20])]
    inp["values2"] = [rng.uniform(-1, 1) for _ in range(n)]
    inp["weights_inplace"] = rng.random() < 0.3
  if rng.random() < 0.45:
    inp["history"] = gen_life(rng, inp)
  if rng.random() < 0.25:    # how the arrays are handed over (same numbers): Fortran order, strided view, read-only, float32 / integer dtype
    inp["xs_style"], inp["data_style"] = rng.choice(gpgen.HANDOVER_STYLES), rng.choice(gpgen.HANDOVER_STYLES)
    if inp["xs_style"] in ("float32", "int") and not inp.get("big_batch"):
      g = 64.0 if inp["xs_style"] == "float32" else 1.0     # make the narrower dtype applicable: query points on a grid it represents exactly
      inp["xs"] = [[round(v * g) / g for v in x] for x in inp["xs"]]
  return inp


def correspondence(ctx):
  """Tie K for the one hand-written model in this property's cone: the polynomial builders of python_utils (Model/Poly.v)."""
  from lib import poly_corr
  return poly_corr.correspondence(ctx)


def search(ctx, hints, broken):
  fails, n = [], 0
  for _ in range(ctx.n(600, 8000) * (3 if broken else 1)):
    inp = gen_input(ctx.rng)
    n += 1
    try:
      r = oracle(inp)
    except numpy.linalg.LinAlgError:
      continue  # numerically singular Gram matrix (duplicate points with 1e-12 noise): the property is conditioned on the factorisation succeeding
    if r:
      fails.append(r)
      if len(fails) >= 3:
        break
  return dict(evaluations=n, failures=fails, oracle="independent kernel closed form + saddle-point solve with refinement",
              samples=[dict(kernel=inp["cov"]["cls"], n=len(inp["points"]), mean_terms=len(inp.get("mean_idx") or []), tikhonov=inp.get("tikhonov"))])


def replay(ctx, payload):
  return oracle(payload["input"])

# --- second build round: additions to the claimed level
LEVEL_TEXT += ("; the sum of GPs also through its gradient and joint entry points (regenerated); the polynomial matrix of the mean is the executable "
               "model Model/Poly.v (written over a generic carrier, run against python_utils.build_polynomial_matrix at Q, proved at R: entries are the "
               "monomials, shortcut branches included)")
LEVEL_NOTE = LEVEL_NOTE.replace("permutation invariance and appended lie data are decided by the", "appended lie data is decided by the")
TECHNIQUE += " + in-Coq differential correspondence for the polynomial builders"

# --- gap round A: how the hyperparameters are handed over
ASSUMPTIONS.append("'the stated kernel': the hyperparameters as handed over (constructor or setter).  When the caller later writes into the float64 array it "
                   "handed them over in, a failure is reported only if the predictions are the conditional of neither the kernel handed over nor the kernel "
                   "the array describes now (the library copies; gpgen.WRITTEN_LIVES: array written right after construction / after assignment / after the "
                   "GP was built on the kernel)")
LEVEL_NOTE += ("; object histories of the kernel (gpgen.make_cov) include hyperparameter arrays that their owner re-uses after handing them over, before "
               "and after the GP is built")
LEVEL_NOTE += ("; histories of the live GP include the replacement of its whole data set (update_historical_data); query points and data arrays are also "
               "handed over in the forms of gpgen.HANDOVER_STYLES")

# --- gap round B (seeded C02_m12, C02_m13): lives of the GP object
LEVEL_NOTE += ("; the life of a live GP is a SEQUENCE of steps (appended lies, whole-data replacement - elsewhere, at the SAME locations with other values and other "
               "noise variances, grown, shrunk, back to the first data set -, copies of its core data given other hyperparameters / more data and turned into a second GP, "
               "also summed with the first), every entry point stated again after every step against the closed form of the model held THEN")
