"""C06 — the EI endpoint reports the improvement of the documented model of the request."""
import copy
import math
import multiprocessing
import os

import numpy

from lib import c06_util as U
from lib import common as C

PROP = "C06"
PROPS_FILES = ["Props/C06.v"]
ASSUMPTIONS = [
  "exact arithmetic over Q in the reference (Model/Wiring.v); the correspondence compares labels, index choices, one-hot points, "
  "hyperparameter vectors, nuggets, mean polynomials, pending sets and batch sizes exactly and every number that went through the "
  "midpoint scaling (values, lies, noise variances, thresholds, incumbent) to 1e-12 relative",
  "the multimetric phase description (method, optimising/constraint metric, weights, epsilon) is the one the view object itself drew; "
  "how it is drawn is property C14",
  "the numeric tail (posterior mean/variance from the described data, EI / augmented EI / failure products) is not part of the Gallina "
  "reference (it is C02 and C05); it is decided here by the independent end-to-end Python reference of the searcher, tolerance "
  "|dEI| <= [sigma * (1e-5 + 1e-13 * cond(K)) + k(x,x)/sigma * (1e-15 + 1e-16 * cond(K))] / cost + 1e-15, requests with cond(K) > 1e9 or sitting on a decision boundary skipped and counted",
  "the Monte-Carlo parallel form is compared with an independent 200000-sample estimate to 6 standard errors + 2e-3 sigma; with failure models it "
  "is tied by introspection only (class, pending set, failure models, thresholds, incumbent data)",
  "requests are well-typed: finite numbers, positive task costs, value/variance matrices as wide as the objectives list",
]
TRUSTED = [
  "tools/props/C06.py + tools/lib/c06_util.py: request generator, the evaluator spy installed inside the harness process, the object reader and the Coq literal printer",
  "Model/WiringCorr.v check function",
]
HEADER = ("From Coq Require Import List QArith ZArith Bool.\n"
          "From LV Require Import Model.Domain Model.Midpoint Model.Phases Model.Wiring Model.WiringCorr.\nOpen Scope Q_scope.")
KCODE = {"c4_radial_matern": 0, "square_exponential": 1, "c2_radial_matern": 2, "c0_radial_matern": 3}
AFCODE = {"ExpectedImprovement": 0, "AugmentedExpectedImprovement": 1, "ExpectedImprovementWithFailures": 2,
          "ExpectedParallelImprovement": 3, "ExpectedParallelImprovementWithFailures": 4}
PFCODE = {"ProbabilisticFailures": 0, "ProbabilisticFailuresCDF": 1}

# ------------------------------------------------------------------------------------------ Coq literals

ql, zl, nl, bl, ll, ol = C.qlit, C.zlit, C.nlit, C.blit, C.listlit, C.optlit


def qrow(r):
  return ll(r, ql)


def qrows(rs):
  return ll(rs, qrow)


def comp_lit(c):
  if c["t"] == "double":
    return f"Double {ql(c['lo'])} {ql(c['hi'])}"
  if c["t"] == "int":
    return f"Int {zl(c['lo'])} {zl(c['hi'])}"
  if c["t"] == "cat":
    return f"Cat {ll(c['el'], lambda z: zl(z) + '%Z')}"
  return f"Grid {ll(c['el'], ql)}"


def info_lit(i):
  m = i.get("method")
  if m is None:
    return "NotMM"
  if m == "optimizing_one_metric":
    return f"(OptOne {nl(i['om'])} {nl(i['cm'])})"
  if m == "convex_combination":
    return f"(Convex {ql(i['weights'][0])} {ql(i['weights'][1])})"
  if m == "epsilon_constraint":
    return f"(EpsC {nl(i['om'])} {nl(i['cm'])} {ql(i['eps'])})"
  raise C.TieBroken(f"unknown multimetric method {m!r}")


def hyper_lit(h):
  ls = ll(h["ls"], lambda l: ll(l, lambda x: ol(x, ql)))
  return f"(mkhyper {ql(h['alpha'])} {ls} {ol(h['task_len'], ql)} {ol(h['tik'], ql)})"


def request_lit(raw, info):
  dom = "{| comps := " + ll(raw["comps"], comp_lit) + "; cons := [] |}"
  obj = lambda o: "Minimize" if o == "minimize" else "Maximize"
  mean = dict(zero="MeanZero", constant="MeanConstant", linear="MeanLinear", custom="MeanCustom")[raw["mean"]]
  poly = ol(raw["poly"], lambda rows: ll(rows, lambda r: ll(r, lambda z: zl(z) + "%Z")))
  par = "ConstantLiar" if raw["par"] == "constant_liar" else "QEI"
  f = [dom, qrows(raw["points"]), qrows(raw["values"]), qrows(raw["vars"]), ll(raw["fails"], bl), qrow(raw["costs"] or []),
       ll(raw["objs"], obj), ll(raw["opt_ix"], nl), ll(raw["con_ix"], nl), ll(raw["thr"], lambda t: ol(t, ql)), bl(raw["pareto"]),
       ll(raw["hypers"], hyper_lit), qrows(raw["pending"]), qrow(raw["pending_costs"] or []), qrows(raw["evalp"]),
       qrow(raw["eval_costs"] or []), par, qrow(raw["tasks"]), mean, poly, zl(raw["max_af"]) + "%Z", info_lit(info)]
  return "(mkreq " + " ".join(f"({x})" for x in f) + ")"


def gp_lit(g):
  codes = [KCODE.get(k, 9) for k in g["kernel"]]
  mean = ll(g["mean"], lambda r: ll(r, lambda z: zl(z) + "%Z"))
  return (f"(mkogp {qrows(g['pts'])} {qrow(g['vals'])} {qrow(g['noise'])} {ll(codes, nl)} {qrow(g['hyp'])} "
          f"{ol(g['tik'], ql)} {mean})")


def obs_lit(o):
  pfs = ll(o["pfs"], lambda p: f"(mkopf {nl(PFCODE.get(p['kind'], 9))} {ql(p['thr'])} {gp_lit(p['gp'])})")
  pend = o["qei_pending"] if o["qei_pending"] is not None else []
  return (f"(mkobs {nl(AFCODE.get(o['af'], 9))} {bl(o['wrapped'])} {ll(o['pred']['gps'], gp_lit)} {qrow(o['pred']['weights'])} {pfs} "
          f"{qrows(pend)} {qrows(o['eval_pts'])} ({zl(o['batch'] if o['batch'] is not None else -1)})%Z {ol(o['best'], ql)} "
          f"{qrow(o['raw_af'])} {qrow(o['response'])})")


# ------------------------------------------------------------------------------------------ running the implementation


def _observe(raw):
  try:
    return U.observe(raw)
  except Exception as e:  # noqa: BLE001  a crash of the reader itself: reported as a broken tie by the caller
    return dict(harness_error=f"{type(e).__name__}: {e}")


def run_many(raws, workers=8):
  if len(raws) < 400:
    return [_observe(r) for r in raws]
  ctxm = multiprocessing.get_context("fork")
  with ctxm.Pool(min(workers, 8)) as pool:
    res = pool.map(_observe, raws, chunksize=25)
    pool.close()
    pool.join()
    return res


# ------------------------------------------------------------------------------------------ correspondence


def case_of(raw, obs):
  """Coq term of one case, or a python-side disagreement (dict) when the observation cannot even be written down."""
  if obs.get("harness_error"):
    raise C.TieBroken("C06 object reader failed: " + obs["harness_error"])
  if obs["raised"]:
    return f"CRaised {request_lit(raw, dict(method=None))}", None
  for k in ("af", "eval_pts", "pred", "pfs", "raw_af"):
    if k not in obs:
      raise C.TieBroken(f"C06 introspection: evaluate_at_point_list of the endpoint's evaluator was not observed ({obs.get('spy_calls')} calls)")
  flat = obs["response"] + obs["raw_af"] + [x for g in obs["pred"]["gps"] for x in g["vals"] + g["noise"]]
  if any(x != x or abs(x) == float("inf") for x in flat):
    return None, dict(what="C06: the endpoint returned / built a non-finite number", kind="nonfinite", input=raw,
                      observed=dict(response=obs["response"]))
  if not obs["reeval_equal"]:
    return None, dict(what="C06: the response is not the introspected evaluator applied to the recorded query points with the recorded batch size",
                      kind="reeval", input=raw, observed=dict(response=obs["response"], returned=obs["returned"]))
  if obs.get("endpoint") != "gp_ei_categorical":
    return None, dict(what="C06: wrong endpoint name in the response", kind="endpoint", input=raw, observed=obs.get("endpoint"))
  return f"CObs {request_lit(raw, obs['info'])} {obs_lit(obs)}", None


def degenerate_mean_fit(raw):
  """a non-constant polynomial mean whose basis cannot be of full column rank on the data: a coordinate constant over the observations (all, or the
  successful ones), or fewer observations than 1 + #coordinates"""
  if raw.get("mean") not in ("linear", "custom") or not raw.get("points"):
    return False
  fails = raw.get("fails") or [False] * len(raw["points"])
  for rows in ([p for p in raw["points"]], [p for p, f in zip(raw["points"], fails) if not f]):
    if len(rows) < 1 + len(raw["points"][0]):
      return True
    if any(len({r[j] for r in rows}) <= 1 for j in range(len(rows[0]))):
      return True
  return False


def correspondence(ctx):
  n = ctx.n(840, 6000)
  rng = ctx.rng
  raws = []
  for i in range(n):
    raws.append(U.gen_malformed(rng) if i % 14 == 13 else U.gen_request(rng))
  obss = run_many(raws)
  cases, meta, dis, dist, seen, nontriv = [], [], [], {}, set(), 0
  for raw, obs in zip(raws, obss):
    if obs.get("raised") == "LinAlgError" and any(h.get("tik") == 0.0 for h in raw.get("hypers", [])):
      # a nugget of exactly 0 on noise-free data can make the Gram matrix numerically singular: the factorisation failing is not a
      # statement about the wiring (the cases that do factorise are compared in full)
      dist["skipped_singular_zero_nugget"] = dist.get("skipped_singular_zero_nugget", 0) + 1
      continue
    if obs.get("raised") == "LinAlgError" and degenerate_mean_fit(raw):
      # a linear / custom polynomial mean on observations that all share the value of a coordinate (or are fewer than the terms): P'K^-1 P is
      # singular, whether its factorisation raises is decided by rounding - no statement about the wiring either (quick tier, seed 44)
      dist["skipped_singular_mean_fit"] = dist.get("skipped_singular_mean_fit", 0) + 1
      continue
    term, d = case_of(raw, obs)
    if d:
      dis.append(d)
      continue
    cases.append(term)
    meta.append((raw, obs))
    if obs["raised"]:
      key = "raises:" + (raw.get("malformed") or "valid-request")
    else:
      key = f"{obs['af']}|{obs['info']['method']}|{'tasks' if raw['tasks'] else 'notasks'}"
    dist[key] = dist.get(key, 0) + 1
    h = C.canon_hash(raw)
    if h not in seen and not obs["raised"] and (len(obs["pred"]["gps"]) + len(obs["pfs"]) >= 1) and len(raw["points"]) >= 2:
      nontriv += 1
    seen.add(h)
  unexpected = [(raw, obs) for raw, obs in meta if obs["raised"] and not raw.get("malformed")]
  bad = C.run_cases("C06", HEADER, "case", "check", cases, shard=60)
  for i in bad:
    raw, obs = meta[i]
    what = ("the endpoint raised %s on a request the reference accepts (or vice versa)" % obs["raised"]) if obs["raised"] else \
           "the objects the endpoint built differ from the reference description (Model.Wiring.wire)"
    dis.append(dict(what=f"C06 correspondence case {i}: {what}", kind="wiring", input=raw,
                    observed=dict(info=obs.get("info"), af=obs.get("af"), raised=obs.get("raised"), response=obs.get("response"))))
  dist["valid_requests_that_raised"] = len(unexpected)
  weak = C.run_cases("C06w", HEADER, "case", "full_strength", cases, shard=60)
  dist["main_gp_compared_weakly(tie_or_boundary_in_epsilon_filter)"] = len(weak)
  dist["epsilon_constraint_cases"] = sum(1 for _, o in meta if not o["raised"] and o["info"]["method"] == "epsilon_constraint")
  return dict(evaluations=n, distinct_nontrivial=nontriv,
              rule="raw requests over 1-3 mixed parameters (double/int/categorical with non-contiguous labels/grid), 2-9 observations with ties, "
                   "constant columns, failures (none .. all), 1-3 optimised + 0-2 constraint + 0-2 stored metrics in a shuffled column layout, both "
                   "objectives, per-metric hyperparameters (default and explicit categorical length scales, nugget, task length), zero/constant/"
                   "linear/custom mean, noise on both sides of the augmented-EI threshold, 0-2 pending points under constant liar and qEI, "
                   "thresholds on constraint / optimised / stored metrics, task options, budgets hitting every multimetric phase, batch sizes "
                   "0/1/2/3/5432, plus a malformed stream (1 in 14); non-trivial = the endpoint answered, >= 2 observations; distinct by hash "
                   "of the raw request",
              samples=[dict(input=r, observed=dict(info=o.get("info"), af=o.get("af"), response=o.get("response"))) for r, o in meta[:2]],
              distribution=dist, disagreements=dis)


# ------------------------------------------------------------------------------------------ independent oracle

COND_MAX = 1e9


def oracle(raw, mc_seed=7):
  """The property as stated, on one raw request: run the endpoint, run the independent reference on the same raw request (and the
  phase parameters the view drew), compare.  Returns (failure dict | None, status string)."""
  obs = U.observe(raw)
  def fail(sig, what, observed, expected):
    return dict(signature=f"C06:{sig}", what=f"C06: {what}", input=raw, observed=observed, expected=expected,
                oracle="independent end-to-end reference pipeline (own scaling, encoding, kernel, numpy.linalg.solve posterior, EI with math.erf)")
  try:
    ref = U.ref_pipeline(raw, obs.get("info") or dict(method=None), numpy.random.default_rng(mc_seed))
    ref_err = None
  except U.Skip as e:
    return None, "skip:" + str(e)[:40]
  except (ValueError, IndexError, ZeroDivisionError, numpy.linalg.LinAlgError) as e:
    ref, ref_err = None, f"{type(e).__name__}: {e}"
  if obs["raised"]:
    if ref is None or raw.get("malformed"):
      return None, "both-reject"
    if obs["raised"] == "LinAlgError" and any(h.get("tik") == 0.0 for h in raw.get("hypers", [])):
      return None, "skip:singular-zero-nugget"
    if ref["cond"] > COND_MAX:
      return None, "skip:ill-conditioned"
    return fail("raises:" + obs["raised"], f"the endpoint raised {obs['raised']} on a request the documented pipeline answers",
                dict(raised=obs["raised"], message=obs.get("message")), dict(ei=ref["ei"])), "fail"
  if ref is None:
    if raw.get("malformed"):
      return fail("accepts-malformed:" + raw["malformed"], f"the endpoint answered a malformed request ({raw['malformed']}; reference: {ref_err})",
                  dict(response=obs["response"]), "an error"), "fail"
    return None, "skip:reference-rejects"
  resp = obs["response"]
  if len(resp) != len(raw["evalp"]):
    return fail("length", "the response does not have one entry per query point", dict(response=resp), len(raw["evalp"])), "fail"
  if any((x != x) or abs(x) == float("inf") or x < 0 for x in resp):
    return fail("range", "the response holds a negative or non-finite number", dict(response=resp), "finite, >= 0"), "fail"
  if ref["cond"] > COND_MAX:
    return None, "skip:ill-conditioned"
  # cancellation in the library's squared distances |x|^2 + |z|^2 - 2 x.z: absolute error ~ eps * sum_d (x_d / l_d)^2 in r^2 / l^2, hence in every kernel
  # entry (times alpha) - it matters where sigma is tiny, i.e. at a query point that is an observed one, in a domain far from the origin relative to
  # a length scale (thorough tier, seed 2718: coordinates -10 .. -9, length scale 0.309, sigma 1e-5: |d| 2.5e-9 on an EI of 3.5e-6)
  geo = 0.0
  try:
    for g in obs["pred"]["gps"]:
      ls = g["hyp"][1:]
      for row in list(g["pts"]) + list(obs.get("eval_oh") or []):
        geo = max(geo, sum((abs(x) / l) ** 2 for x, l in zip(row, ls)))
  except (KeyError, TypeError, ZeroDivisionError):
    geo = 0.0
  for k, (a, b) in enumerate(zip(resp, ref["ei"])):
    if b is None:
      continue
    s = ref["sigma"][k] / ref["costs"][k]
    # float rounding: relative error of the posterior (conditioning) plus the cancellation k(x,x) - k^T K^-1 k when sigma is tiny
    tol = s * (1e-5 + 1e-13 * ref["cond"]) + (ref["prior"][k] / ref["sigma"][k]) * (1e-15 + 1e-16 * ref["cond"] + 1e-16 * geo) / ref["costs"][k] + 1e-15
    if ref["mc_se"][k] is not None:
      # Monte-Carlo form: 6 standard errors, plus 2e-3 sigma because far in the tail (EI << sigma) the 10000-draw estimate is
      # Poisson-like and its standard error cannot be estimated reliably from samples
      tol += (6.0 * ref["mc_se"][k] + 2e-3 * ref["sigma"][k]) / ref["costs"][k]
    if abs(a - b) > tol:
      return fail(f"value:{ref['kind']}:{obs['info']['method']}",
                  f"query point {k}: endpoint {a!r}, documented pipeline {b!r} (|d| = {abs(a - b):.3e}, tolerance {tol:.3e}, posterior sigma {ref['sigma'][k]:.3e})",
                  dict(response=resp, info=obs["info"], af=obs.get("af")), dict(ei=ref["ei"], kind=ref["kind"])), "fail"
  return None, "ok:" + ref["kind"]


def _oracle_job(args):
  raw, seed = args
  try:
    return oracle(raw, seed)
  except Exception as e:  # noqa: BLE001
    return None, f"oracle-crash:{type(e).__name__}:{e}"[:120]


def search(ctx, hints, broken):
  fails, n, status = [], 0, {}
  jobs = []
  for h in hints:
    if isinstance(h.get("input"), dict) and "comps" in h["input"]:
      jobs.append((h["input"], 7))
  budget = ctx.n(2000, 12000) * (2 if broken else 1)
  rng = ctx.rng
  for i in range(budget):
    raw = U.gen_malformed(rng) if i % 25 == 24 else U.gen_request(rng, wide=(i % 3 != 0))
    jobs.append((raw, rng.randrange(1 << 30)))
  if len(jobs) >= 1500:
    with multiprocessing.get_context("fork").Pool(8) as pool:
      results = pool.map(_oracle_job, jobs, chunksize=50)
      pool.close()
      pool.join()
  else:
    results = [_oracle_job(j) for j in jobs]
  sigs = set()
  for (raw, _), (f, st) in zip(jobs, results):
    n += 1
    key = ":".join(st.split(":")[:2])
    status[key] = status.get(key, 0) + 1
    if f and f["signature"] not in sigs and len(fails) < 4:
      sigs.add(f["signature"])
      fails.append(f)
  crashed = sum(v for k, v in status.items() if k.startswith("oracle-crash"))
  if crashed:
    raise RuntimeError(f"C06 oracle crashed on {crashed} generated requests: {[k for k in status if k.startswith('oracle-crash')][:3]}")
  return dict(evaluations=n, failures=fails, status=status,
              oracle="independent end-to-end reference pipeline; |dEI| normalised by the posterior standard deviation")


def replay(ctx, payload):
  raw = payload.get("input")
  if raw is None:   # a "no-failing-input-found" replay: re-check the recorded disagreeing correspondence cases
    for b in payload.get("what_failed") or []:
      det = b.get("detail") if isinstance(b, dict) else None
      if isinstance(det, dict) and isinstance(det.get("input"), dict) and "comps" in det["input"]:
        r = replay(ctx, dict(input=det["input"]))
        if r:
          return r
    return None
  f, _ = oracle(raw, 7)
  if f:
    return f
  # a correspondence disagreement replayed: compare the introspected objects with the reference again
  obs = _observe(raw)
  term, d = case_of(raw, obs)
  if d:
    return dict(signature="C06:" + d["kind"], what=d["what"], input=raw, observed=d.get("observed"))
  bad = C.run_cases("C06r", HEADER, "case", "check", [term], shard=60)
  if bad:
    return dict(signature="C06:wiring", what="C06: the objects the endpoint built differ from the reference description (Model.Wiring.wire)",
                input=raw, observed=dict(info=obs.get("info"), af=obs.get("af"), raised=obs.get("raised"), response=obs.get("response")))
  return None


LEVEL_TEXT = ("Coq theorems about an executable Gallina reference of the documented EI pipeline up to the numeric model (which raw column and whose "
              "hyperparameters feed each Gaussian process, sign/scale law of the values via C12, lies for failures and constant-liar pending "
              "points, noise floor, one-hot encoding via C09, hyperparameter vector layout, choice of acquisition function, failure models and "
              "thresholds, cost division), for all requests; the reference is tied to the code on every run by introspection of the objects "
              "the endpoint really built, compared inside Coq; the numeric tail is decided by an independent end-to-end reference pipeline")
LEVEL_NOTE = ("The Gallina reference stops at the model description; posterior and EI formulas are C02/C05 and are checked here only numerically "
              "(independent pipeline, sigma-normalised tolerance). Phase parameters are taken as drawn by the view (C14). Floating point is outside "
              "the model; requests on a decision boundary are skipped and counted. Harness, spy and literal printer trusted; no axioms")
TECHNIQUE = "Coq proof on executable reference model + in-Coq introspection correspondence + independent end-to-end oracle"
DESIGN_REF = "DESIGN.md section 7, C06"
