"""C14 — Multi-metric scheduling and data filtering follow their contracts."""
import contextlib
import copy
import math
import random as _pyrandom
from fractions import Fraction as Fr

import numpy

from lib import common as C

PROP = "C14"
PROPS_FILES = ["Props/C14.v"]
ASSUMPTIONS = [
  "exact arithmetic over Q; the decimal constants of the source (0.15, 0.3, ...) are the rationals they denote",
  "a quotient of integers a/b and a decimal constant compare identically in double and in Q unless 0 < |a/b - c| < 2^-53 "
  "(impossible for budgets below ~1e13); generated cases whose rational margin to a boundary is below 1e-9 are discarded and counted - except EXACT ties of a singly-rounded quotient "
  "with the literal of the same rational, which are kept and judged by the rational comparison (both sides are the double nearest to the same rational: see _near)",
  "Halton sampler (qmcpy) contract: generate_halton_points(101, [[0.1, 0.9]], skip=1) returns 101 numbers in [0.1, 0.9]; "
  "numpy.random.random() returns a number in [0, 1); random.choice returns a member of its argument",
  "numpy.argsort is modelled as extraction of first minima (Model/Pareto.v); with ties in the optimising column the epsilon "
  "filters are compared through the decidable specification only",
  "phase monotonicity is read as: stage index non-decreasing in the observation count, other arguments fixed (DESIGN 7.0)",
  "'never modifies its inputs' is decided by deep comparison before/after every implementation call (runtime check, not a theorem)",
  "finite values (NaN/inf are removed by the callers before the filters); counts >= 0; the Parzen-estimator selector itself needs a budget >= 1 - "
  "that the request view supplies one for EVERY request (no budget, budget 0 as a Python int or a NumPy integer, positive budget) is "
  "C14_spe_view_budget / C14_spe_view_phase_total on Model.Phases.spe_view_budget, tied to the real SPENextPoints.view by the correspondence",
  "a Parzen-estimator request with budget 0 is read as a request without a budget (scheduled on 50 observations per parameter, the code's `or`); "
  "requests hold at least one observation (View.__init__ cannot be built on an empty history) and at least one parameter",
]
TRUSTED = ["tools/props/C14.py case generator, RNG scripting layer and the Q-literal printer", "Model/PhasesCorr.v check function"]

LABELS = dict(NOT_MULTIMETRIC="LNotMM", INITIALIZATION="LInit", OPTIMIZING_ONE_METRIC_OPTIMIZE_0="LOpt0",
              OPTIMIZING_ONE_METRIC_OPTIMIZE_1="LOpt1", CONVEX_COMBINATION_RANDOM_SPREAD="LRandom",
              CONVEX_COMBINATION_SEQUENTIAL="LSeq", EPSILON_CONSTRAINT_OPTIMIZE_0="LEps0",
              EPSILON_CONSTRAINT_OPTIMIZE_1="LEps1", COMPLETION="LCompletion")
MARGIN = Fr(1, 10**9)


def _mm():
  from libsigopt.compute.misc import multimetric as mm
  return mm


def label_name(obj):
  mm = _mm()
  for k in LABELS:
    if getattr(mm, k) is obj:
      return k
  raise ValueError(f"not a phase label: {obj!r}")


# ------------------------------------------------------------------------------------------ scripted randomness


@contextlib.contextmanager
def scripted(us=(), pick=False, uniform=None):
  """numpy.random.random() reads `us`; random.choice returns options[pick]; numpy.random.uniform returns `uniform`;
  the Halton sampler is wrapped (not replaced) so that the table it returned is recorded."""
  mm = _mm()
  log = dict(random_calls=0, choice_args=[], halton=None, halton_args=None, uniform_args=None)
  stream = list(us)

  def fake_random(*a, **k):
    log["random_calls"] += 1
    if not stream:
      raise RuntimeError("scripted numpy.random.random exhausted")
    return stream.pop(0)

  def fake_choice(options):
    log["choice_args"].append(options)
    return options[1 if pick else 0]

  def fake_uniform(lo, hi, *a, **k):
    log["uniform_args"] = (lo, hi)
    return uniform

  real_halton = mm.generate_halton_points

  def wrap_halton(n, interval, **kw):
    out = real_halton(n, interval, **kw)
    log["halton"] = [float(x) for x in out[:, 0]]
    log["halton_args"] = (int(n), numpy.asarray(interval).tolist(), dict(kw))
    return out

  saved = (numpy.random.random, _pyrandom.choice, numpy.random.uniform)
  numpy.random.random, _pyrandom.choice, numpy.random.uniform = fake_random, fake_choice, fake_uniform
  mm.generate_halton_points = wrap_halton
  try:
    with _quiet():
      yield log
  finally:
    numpy.random.random, _pyrandom.choice, numpy.random.uniform = saved
    mm.generate_halton_points = real_halton


@contextlib.contextmanager
def _quiet():
  import warnings
  with warnings.catch_warnings():
    warnings.simplefilter("ignore")
    yield


def info_to_py(info):
  mm = _mm()
  if info.method is None:
    return dict(method="none")
  p = info.params
  if info.method == mm.OPTIMIZING_ONE_METRIC:
    return dict(method="one", om=int(p.optimizing_metric), cm=int(p.constraint_metric))
  if info.method == mm.CONVEX_COMBINATION:
    return dict(method="convex", w=[float(x) for x in p.weights])
  if info.method == mm.EPSILON_CONSTRAINT:
    return dict(method="eps", om=int(p.optimizing_metric), cm=int(p.constraint_metric), eps=float(p.epsilon))
  raise ValueError(info.method)


def info_from_py(d):
  mm = _mm()
  if d["method"] == "none":
    return mm.MULTIMETRIC_INFO_NOT_MULTIMETRIC
  if d["method"] == "one":
    return mm.MultimetricInfo(mm.OPTIMIZING_ONE_METRIC, mm.OptimizeOneMetricParams(optimizing_metric=d["om"], constraint_metric=d["cm"]))
  if d["method"] == "convex":
    return mm.MultimetricInfo(mm.CONVEX_COMBINATION, mm.ConvexCombinationParams(weights=numpy.array(d["w"], dtype=float)))
  return mm.MultimetricInfo(mm.EPSILON_CONSTRAINT, mm.ProbabilisticFailuresParams(optimizing_metric=d["om"], constraint_metric=d["cm"], epsilon=d["eps"]))


class InputModified(Exception):
  pass


def _snapshot(arrs):
  return [None if a is None else numpy.array(a, copy=True) for a in arrs]


def _same(snap, arrs):
  for s, a in zip(snap, arrs):
    if s is None:
      continue
    if s.shape != numpy.shape(a) or not numpy.array_equal(s, a, equal_nan=(s.dtype.kind == "f")):
      return False
  return True


def build_view(inp):
  """A real View on a one-parameter domain whose request has the given counts (glue: View.form_multimetric_info)."""
  from libsigopt.aux.adapter_info_containers import DomainInfo, MetricsInfo, PointsContainer
  from libsigopt.views.view import View
  n, nf, no = inp["c"], inp["f"], inp["o"]
  rng = _pyrandom.Random(inp.get("data_seed", 0))
  pts = numpy.array([[rng.random()] for _ in range(n)]).reshape(n, 1)
  nm = 2 if inp["rp"] else 1
  vals = numpy.array([[rng.randint(-20, 20) + 0.5 * j for j in range(nm)] for _ in range(n)], dtype=float).reshape(n, nm)
  fails = numpy.array([i < nf for i in range(n)], dtype=bool)
  rng.shuffle(fails)
  thr = [(1.0 if inp["thr"] else None)] + [None] * (nm - 1)
  mi = MetricsInfo(requires_pareto_frontier_optimization=bool(inp["rp"]), observation_budget=inp["b"], user_specified_thresholds=thr,
                   objectives=["minimize"] * nm, optimized_metrics_index=list(range(nm)), constraint_metrics_index=[])
  params = dict(
    domain_info=DomainInfo(constraint_list=[], domain_components=[dict(var_type="double", elements=[0.0, 1.0])]),
    num_to_sample=1, tag={}, metrics_info=mi, task_options=[],
    points_sampled=PointsContainer(points=pts, values=vals, value_vars=numpy.zeros_like(vals), failures=fails),
    points_being_sampled=PointsContainer(points=numpy.array([[rng.random()] for _ in range(no)]).reshape(no, 1)),
  )
  before = copy.deepcopy(params)
  v = View(params)
  ps0, ps1 = before["points_sampled"], params["points_sampled"]
  if not _same(_snapshot([ps0.points, ps0.values, ps0.value_vars, ps0.failures]), [ps1.points, ps1.values, ps1.value_vars, ps1.failures]):
    raise InputModified("View constructor modified the request's points_sampled")
  return v


def request_flag(inp):
  """the documented flag of a request: some OPTIMISED metric column carries a threshold (plain loop)"""
  for col in inp["opt"]:
    if inp["thr"][col] is not None:
      return True
  return False


def build_request_view(inp):
  """A real View for a request whose metrics sit in any column order: `opt` / `con` list the columns of the optimised and the
  constraint metrics, the other columns are stored metrics; `thr` has one entry per column (None or a number)."""
  from libsigopt.aux.adapter_info_containers import DomainInfo, MetricsInfo, PointsContainer
  from libsigopt.views.view import View
  n, nf, no, nm = inp["c"], inp["f"], inp["o"], len(inp["thr"])
  rng = _pyrandom.Random(inp.get("data_seed", 0))
  pts = numpy.array([[rng.random()] for _ in range(n)]).reshape(n, 1)
  vals = numpy.array([[rng.randint(-20, 20) + 0.5 * j for j in range(nm)] for _ in range(n)], dtype=float).reshape(n, nm)
  fails = numpy.array([i < nf for i in range(n)], dtype=bool)
  rng.shuffle(fails)
  mi = MetricsInfo(requires_pareto_frontier_optimization=bool(inp["rp"]), observation_budget=inp["b"], user_specified_thresholds=list(inp["thr"]),
                   objectives=[rng.choice(["minimize", "maximize"]) for _ in range(nm)], optimized_metrics_index=list(inp["opt"]),
                   constraint_metrics_index=list(inp["con"]))
  params = dict(
    domain_info=DomainInfo(constraint_list=[], domain_components=[dict(var_type="double", elements=[0.0, 1.0])]),
    num_to_sample=1, tag={}, metrics_info=mi, task_options=[],
    points_sampled=PointsContainer(points=pts, values=vals, value_vars=numpy.zeros_like(vals), failures=fails),
  )
  if no is not None:   # a request without the key counts zero open suggestions
    params["points_being_sampled"] = PointsContainer(points=numpy.array([[rng.random()] for _ in range(no)]).reshape(no, 1))
  before = copy.deepcopy(params)
  v = View(params)
  ps0, ps1 = before["points_sampled"], params["points_sampled"]
  if not _same(_snapshot([ps0.points, ps0.values, ps0.value_vars, ps0.failures]), [ps1.points, ps1.values, ps1.value_vars, ps1.failures]):
    raise InputModified("View constructor modified the request's points_sampled")
  m0, m1 = before["metrics_info"], params["metrics_info"]
  if (m0.user_specified_thresholds, m0.optimized_metrics_index, m0.constraint_metrics_index) != (
      m1.user_specified_thresholds, m1.optimized_metrics_index, m1.constraint_metrics_index):
    raise InputModified("View constructor modified the request's metrics_info")
  return v, [bool(x) for x in fails]


def spe_budget_value(inp):
  """the observation_budget object of a Parzen-estimator request: absent (None), a Python int or a NumPy integer"""
  t = inp["obtype"]
  if t == "none":
    return None
  return {"int": int, "int64": numpy.int64, "int32": numpy.int32}[t](inp["ob"])


def spe_point(comps, rng):
  return [rng.random() * (c["elements"][1] - c["elements"][0]) + c["elements"][0] if c["var_type"] == "double"
          else float(rng.randint(c["elements"][0], c["elements"][1])) if c["var_type"] == "int" else float(rng.choice(c["elements"]))
          for c in comps]


def run_spe_view(inp):
  """The real SPENextPoints(params).view() of a request with `c` observations of which `f` failed, the budget object of
  spe_budget_value and the given parameters.  Only the two suggestion generators are stubbed (they receive the phase);
  get_experiment_phase is wrapped, not replaced, so that the budget the view hands to it is recorded."""
  from libsigopt.aux.adapter_info_containers import DomainInfo, MetricsInfo, PointsContainer
  from libsigopt.views.rest import spe_next_points as spe
  comps, n, nf = copy.deepcopy(inp["comps"]), inp["c"], inp["f"]
  d = len(comps)
  rng = _pyrandom.Random(inp.get("data_seed", 0))
  pts = numpy.array([spe_point(comps, rng) for _ in range(n)], dtype=float).reshape(n, d)
  vals = numpy.array([[float(rng.randint(-20, 20))] for _ in range(n)], dtype=float).reshape(n, 1)
  fails = numpy.array([i < nf for i in range(n)], dtype=bool)
  rng.shuffle(fails)
  ob = spe_budget_value(inp)
  mi = MetricsInfo(requires_pareto_frontier_optimization=False, observation_budget=ob, user_specified_thresholds=[None],
                   objectives=["minimize"], optimized_metrics_index=[0], constraint_metrics_index=[])
  params = dict(domain_info=DomainInfo(constraint_list=[], domain_components=comps), num_to_sample=1, tag={}, metrics_info=mi, task_options=[],
                points_sampled=PointsContainer(points=pts, values=vals, value_vars=numpy.zeros_like(vals), failures=fails),
                points_being_sampled=PointsContainer(points=numpy.zeros((0, d))))
  calls, served = [], []

  class Stubbed(spe.SPENextPoints):
    def create_random_suggestions(self, num_to_sample):
      served.append(("random", None, None))
      return {}

    def create_spe_suggestions(self, num_to_sample, phase, progress):
      served.append(("spe", phase, progress))
      return {}

  real = spe.get_experiment_phase

  def wrapped(budget, observation_count, failure_count):
    r = real(budget=budget, observation_count=observation_count, failure_count=failure_count)
    calls.append((budget, observation_count, failure_count, r))
    return r

  spe.get_experiment_phase = wrapped
  try:
    with _quiet():
      v = Stubbed(params)
      v.view()
  finally:
    spe.get_experiment_phase = real
  if mi.observation_budget is not ob or len(params["points_sampled"].points) != n:
    raise InputModified("SPENextPoints modified the request's metrics_info / points_sampled")
  names = {id(spe.INITIALIZATION_PHASE): "PInit", id(spe.SKO_PHASE): "PSko", id(spe.COMPLETION_PHASE): "PCompletion"}
  if len(calls) != 1 or len(served) != 1:
    raise AssertionError(f"the view called the selector {len(calls)} times and a suggestion generator {len(served)} times")
  budget, count, nfail, (phase, progress) = calls[0]
  tag = v.tag.get("spe_phase")
  if id(tag) not in names or tag is not phase:
    raise AssertionError("the phase tag of the response is not the selector's phase")
  if (served[0][0] == "random") != (names[id(phase)] == "PInit") or (served[0][0] == "spe" and (served[0][1] is not phase or not (served[0][2] is progress))):
    raise AssertionError("the suggestion generator does not match the selected phase / progress")
  if int(count) != n or int(nfail) != nf:
    raise AssertionError(f"the view counted {count} observations / {nfail} failures for a request with {n} / {nf}")
  integral = isinstance(budget, (int, numpy.integer)) and not isinstance(budget, bool)
  return dict(phase=names[id(phase)], progress=float(progress), budget=int(budget) if integral else repr(budget), dim=d)


def run_impl(kind, inp):
  """Run the implementation on one input; returns the observable output (plain python data)."""
  mm = _mm()
  if kind == "flag":
    from libsigopt.aux.adapter_info_containers import MetricsInfo
    mi = MetricsInfo(requires_pareto_frontier_optimization=len(inp["opt"]) == 2, observation_budget=10, user_specified_thresholds=list(inp["thr"]),
                     objectives=["maximize"] * len(inp["thr"]), optimized_metrics_index=list(inp["opt"]), constraint_metrics_index=list(inp["con"]))
    out = mi.has_optimized_metric_thresholds
    if not isinstance(out, bool):
      raise AssertionError(f"has_optimized_metric_thresholds returned {out!r}")
    return dict(flag=out)
  if kind == "request":
    with scripted(us=inp["us"], pick=inp["pick"]) as log:
      v, fails = build_request_view(inp)
    return dict(info=info_to_py(v.multimetric_info), halton=log["halton"], fails=fails)
  if kind == "mm":
    lbl, kw = mm.identify_multimetric_phase(inp["thr"], inp["b"], inp["c"], inp["f"], inp["o"])
    assert set(kw) <= {"fraction_of_phase_completed"}
    return dict(label=label_name(lbl), cf=(float(kw["fraction_of_phase_completed"]) if kw else None))
  if kind == "search":
    from libsigopt.views.rest import search_next_points as snp
    r = snp.identify_search_phase(inp["b"], inp["c"], inp["o"], inp["f"])
    names = {snp.SEARCH_INITIALIZATION_PHASE: "SInit", snp.SEARCH_EXPLOITATION_PHASE: "SExploit", snp.SEARCH_EXPLORE_RESOLVE_PHASE: "SResolve"}
    return dict(phase=names[r])
  if kind == "speview":
    return run_spe_view(inp)
  if kind in ("spe", "solver"):
    from libsigopt.views.rest import spe_next_points as spe
    names = {id(spe.INITIALIZATION_PHASE): "PInit", id(spe.SKO_PHASE): "PSko", id(spe.COMPLETION_PHASE): "PCompletion"}
    if kind == "spe":
      p, prog = spe.get_experiment_phase(inp["b"], inp["c"], inp["f"])
      return dict(phase=names[id(p)], progress=float(prog))
    obj = {v: k for k, v in names.items()}[inp["phase"]]
    ph = [x for x in (spe.INITIALIZATION_PHASE, spe.SKO_PHASE, spe.COMPLETION_PHASE) if id(x) == obj][0]
    with scripted(uniform=inp["u"]) as log:
      g, pf = spe.get_solver_options(ph, inp["progress"])
    if inp["phase"] != "PSko" and log["uniform_args"] != (0.0, 0.5):
      raise AssertionError(f"proposal factor drawn from uniform{log['uniform_args']}")
    return dict(gamma=float(g), pf=float(pf))
  if kind == "weights":
    ph = mm.CONVEX_COMBINATION_RANDOM_SPREAD if inp["rs"] else mm.CONVEX_COMBINATION_SEQUENTIAL
    with scripted(us=inp["us"]) as log:
      w = mm.form_convex_combination_weights(ph, inp["f"])
    return dict(w=[float(x) for x in w], halton=log["halton"], halton_args=log["halton_args"], shape=list(numpy.shape(w)))
  if kind == "epsilon":
    with scripted(us=inp["us"]):
      e = mm.form_epsilon_constraint_epsilon(inp["f"])
    return dict(eps=float(e))
  if kind in ("info", "infoerr"):
    kwargs = {} if inp.get("kw") is None else dict(fraction_of_phase_completed=inp["kw"])
    with scripted(us=inp["us"], pick=inp["pick"]) as log:
      try:
        info = mm.form_multimetric_info_from_phase(getattr(mm, inp["label"]), kwargs)
      except KeyError as e:
        return dict(error="KeyError", halton=log["halton"])
    return dict(info=info_to_py(info), halton=log["halton"])
  if kind == "view":
    with scripted(us=inp["us"], pick=inp["pick"]) as log:
      v = build_view(inp)
    return dict(info=info_to_py(v.multimetric_info), halton=log["halton"])
  if kind in ("filter_gp", "filter_spe"):
    info = info_from_py(inp["info"])
    n = len(inp["vals"])
    pts = numpy.array(inp["pts"], dtype=float).reshape(n, -1)
    vals = numpy.array(inp["vals"], dtype=float).reshape(n, -1)
    fails = numpy.array(inp["fails"], dtype=bool)
    lie = numpy.array(inp["lie"], dtype=float)
    if kind == "filter_gp":
      vars_ = numpy.array(inp["vars"], dtype=float).reshape(n, -1)
      args = [pts, vals, vars_, fails, lie]
    else:
      args = [pts, vals, fails, lie]
    w0 = None if inp["info"]["method"] != "convex" else numpy.array(info.params.weights, copy=True)
    snap = _snapshot(args)
    fn = mm.filter_multimetric_points_sampled if kind == "filter_gp" else mm.filter_multimetric_points_sampled_spe
    out = fn(info, *args)
    if not _same(snap, args) or (w0 is not None and not numpy.array_equal(w0, info.params.weights)):
      raise InputModified(f"{fn.__name__} modified one of its inputs")
    if kind == "filter_gp":
      p, v, s, l = out
      return dict(pts=numpy.asarray(p).tolist(), vals=numpy.asarray(v).tolist(), vars=numpy.asarray(s).tolist(), lie=numpy.asarray(l).tolist())
    p, v = out
    return dict(pts=numpy.asarray(p).tolist(), vals=numpy.asarray(v).tolist())
  if kind == "exceeds":
    from libsigopt.views.view import identify_scaled_values_exceeding_scaled_upper_thresholds as ex
    vals = numpy.array(inp["vals"], dtype=float).reshape(len(inp["vals"]), len(inp["thr"]))
    thr = numpy.array([numpy.nan if t is None else t for t in inp["thr"]], dtype=float)
    snap = _snapshot([vals, thr])
    out = ex(vals, thr)
    if not _same(snap, [vals, thr]):
      raise InputModified("identify_scaled_values_exceeding_scaled_upper_thresholds modified an input")
    return dict(mask=[bool(x) for x in out])
  if kind == "augment":
    from types import SimpleNamespace as NS
    from libsigopt.views.rest.spe_next_points import SPENextPoints
    n = len(inp["obs"])
    obs = numpy.array(inp["obs"], dtype=bool)
    af = numpy.array(inp["af"], dtype=float).reshape(n, len(inp["t1"]))
    pf = numpy.array(inp["pf"], dtype=float).reshape(n, len(inp["t2"]))
    t1 = numpy.array([numpy.nan if t is None else t for t in inp["t1"]], dtype=float)
    t2 = numpy.array([numpy.nan if t is None else t for t in inp["t2"]], dtype=float)
    me = NS(points_sampled_failures=obs, params=dict(metrics_info=NS(requires_pareto_frontier_optimization=inp["rp"])),
            has_constraint_metrics=inp["hc"], points_sampled_for_af_values=af, optimized_metrics_thresholds=t1,
            points_sampled_for_pf_values=pf, constraint_thresholds=t2)
    snap = _snapshot([obs, af, pf, t1, t2])
    out = SPENextPoints.augment_failures_with_user_specified_thresholds_violations(me)
    if not _same(snap, [obs, af, pf, t1, t2]):
      raise InputModified("augment_failures_with_user_specified_thresholds_violations modified an input")
    return dict(mask=[bool(x) for x in out])
  raise ValueError(kind)


# ------------------------------------------------------------------------------------------ margins (exact rationals)


def adjusted(b, f, o):
  return max(b - f, max(o, 1))


def _near(x, ts, zero_ok=True):
  """True when x is closer than MARGIN to one of ts, an EXACT hit excepted (zero_ok).

  Why the two are treated differently.  x is the rational a / b of two integer counts and t the rational a decimal literal of the source denotes.
  The code compares fl(a / b) with fl(t): ONE correctly rounded IEEE division of two integers below 2**53 (exactly representable, so the quotient is
  the double nearest to the rational a / b) against a literal that Python's parser rounds correctly too (the double nearest to t).  When a / b = t as
  rationals both sides are the double nearest to the SAME rational, hence the same double, and `<`, `<=`, `>` decide exactly as the rationals do:
  an exact tie is judged by the rational comparison, and the unchanged code is provably exact there.  For a near miss, 0 < |a / b - t| < MARGIN, no
  such argument is available at this level (it needs |a / b - t| >= 2**-53, true for budgets below ~1e13 but not checked per case): discarded.
  zero_ok = False is for quantities the code reaches by MORE than one rounded operation (1 - f / (1 + c)): there an exact rational tie says
  nothing about the doubles, so the tie is discarded as well."""
  for t in ts:
    d = abs(x - t)
    if d < MARGIN and not (zero_ok and d == 0):
      return True
  return False


def spe_effective_budget(inp):
  """the budget a Parzen-estimator request is scheduled on, as documented: its own budget, or - when none was given (None; a
  zero budget is no budget) - the phantom budget of 50 observations per parameter"""
  if inp["obtype"] != "none" and inp["ob"] >= 1:
    return inp["ob"]
  return 50 * len(inp["comps"])


def margin_discard(kind, inp):
  if kind == "request":
    return margin_discard("view", dict(b=inp["b"], c=inp["c"], f=inp["f"], o=inp["o"] or 0, thr=request_flag(inp)))
  if kind in ("mm", "search", "view"):
    adj = adjusted(inp["b"], inp["f"], inp["o"])
    fs, fc = Fr(inp["c"] + inp["o"], adj), Fr(inp["c"], adj)
    if kind == "search":
      return _near(fs, [Fr(2, 10), Fr(4, 10)])
    if _near(fs, [Fr(k, 100) for k in (15, 30, 45, 55, 65, 95)]) or _near(fc, [Fr(1, 10)]):
      return True
    if kind == "view":  # the table index int(100 * completed fraction) must be stable under rounding
      for lo, hi in ((Fr(30, 100), Fr(45, 100)), (Fr(45, 100), Fr(55, 100)), (Fr(55 if inp["thr"] else 65, 100), Fr(95, 100))):
        if lo < fs <= hi:
          x = 100 * (fs - lo) / (hi - lo)
          return abs(x - round(x)) < MARGIN
    return False
  if kind == "speview":
    return margin_discard("spe", dict(b=spe_effective_budget(inp), c=inp["c"], f=inp["f"]))
  if kind == "spe":
    b, c, f = inp["b"], inp["c"], inp["f"]
    return (_near(Fr(c - f, b), [Fr(15, 100), Fr(75, 100)]) or _near(Fr(c, b), [Fr(30, 100)])
            or _near(1 - Fr(f, 1 + c), [Fr(1, 10)], zero_ok=False))
  if kind in ("weights", "epsilon", "info"):
    f = inp.get("f", inp.get("kw"))
    cands = [] if f is None else [f]
    cands += list(inp["us"])
    for x in cands:
      q = Fr(x)
      if q.denominator <= 2**20:
        continue  # 100 * x is exact in double
      y = 100 * q
      if abs(y - round(y)) < MARGIN:
        return True
    return False
  return False


# ------------------------------------------------------------------------------------------ generators


def gen_counts(rng):
  style = rng.choice(["small", "small", "decimal", "decimal", "mid", "mid", "tiny_budget", "fail_heavy", "huge"])
  if style == "small":
    b = rng.randint(0, 60)
    c, f, o = rng.randint(0, 70), rng.randint(0, 20), rng.randint(0, 6)
  elif style == "decimal":  # fractions that hit the documented boundaries exactly
    b = rng.choice([20, 40, 100, 200, 1000])
    f, o = rng.choice([0, 0, b // 10, rng.randint(0, b // 2), rng.randint(0, b // 2)]), rng.choice([0, 0, 1, 2])   # any failure count: the tie moves with it
    adj = adjusted(b, f, o)
    k = rng.choice([10, 15, 20, 30, 40, 45, 55, 65, 75, 95, 100])
    return b, max(0, adj * k // 100 - o + rng.choice([-1, 0, 0, 1])), f, o
  elif style == "mid":
    b = rng.randint(50, 5000)
    c, f, o = rng.randint(0, b + 50), rng.randint(0, b // 3), rng.randint(0, 30)
  elif style == "tiny_budget":
    b = rng.randint(0, 5)
    c, f, o = rng.randint(0, 12), rng.randint(0, 12), rng.randint(0, 4)
  elif style == "fail_heavy":
    b = rng.randint(1, 100)
    f = rng.randint(b, 2 * b + 3)
    c, o = rng.randint(0, 2 * b), rng.randint(0, 5)
  else:
    b = rng.choice([10**6, 10**9, 10**12, 3 * 10**12 + 7])
    c, f, o = rng.randint(0, b), rng.randint(0, b // 5), rng.randint(0, 1000)
  if rng.random() < 0.75:  # spread the served fraction evenly over [0, 1.1] so that every phase is visited
    adj = adjusted(b, f, o)
    c = max(0, int(rng.uniform(0, 1.1) * adj) - o)
  return b, c, f, o


def spe_ties(b, fmax):
  """every (budget, observations, failures) triple EXACTLY on a documented fraction of the Parzen phase selector: success progress 15 % / 75 % of the
  budget for every failure count, total progress 30 % for every failure count (the corner of the initialisation test)"""
  out = []
  for f in range(0, fmax + 1):
    if (3 * b) % 20 == 0:
      out.append(dict(b=b, c=f + 3 * b // 20, f=f))
    if (3 * b) % 4 == 0:
      out.append(dict(b=b, c=f + 3 * b // 4, f=f))
    if (3 * b) % 10 == 0 and f <= 3 * b // 10:
      out.append(dict(b=b, c=3 * b // 10, f=f))
  return out


def served_ties(kind, b, f, o):
  """observation counts that put the served / completed fraction of the multimetric (or search) selector EXACTLY on a documented fraction"""
  adj = adjusted(b, f, o)
  out = []
  for k in ((20, 40) if kind == "search" else (15, 30, 45, 55, 65, 95)):
    if (k * adj) % 100 == 0 and k * adj // 100 - o >= 0:
      out.append(k * adj // 100 - o)
  if kind != "search" and adj % 10 == 0:
    out.append(adj // 10)
  return out


def gen_frac(rng):
  style = rng.choice(["dyadic", "dyadic", "midcell", "edge", "out", "decimal"])
  if style == "dyadic":
    return rng.randint(0, 1024) / 1024.0
  if style == "midcell":
    return (rng.randint(0, 99) + 0.5) / 100.0
  if style == "edge":
    return rng.choice([0.0, 1.0, 0.25, 0.5, 0.75, 1.0 / 1024, 1023.0 / 1024])
  if style == "out":
    return rng.choice([-0.5, 1.5, 2.0, -1.0 / 1024, 1.0 + 1.0 / 1024, -3.0, 100.0])
  return rng.randint(0, 100) / 100.0  # mostly discarded by the margin rule unless exact


def gen_draws(rng, k=2):
  return [rng.choice([rng.randint(0, 1023) / 1024.0, (rng.randint(0, 99) + 0.5) / 100.0, 0.0]) for _ in range(k)]


def gen_matrix(rng, n, m, hi, distinct_col=None):
  v = [[float(rng.randint(0, hi)) for _ in range(m)] for _ in range(n)]
  for _ in range(rng.randint(0, n // 2)):
    i, j = rng.randrange(n), rng.randrange(n)
    v[i][rng.randrange(m)] = v[j][rng.randrange(m)]
  if distinct_col is not None:
    col = rng.sample(range(0, max(hi, n) + n), n)
    for r, x in zip(v, col):
      r[distinct_col] = float(x)
  return v


def gen_info(rng):
  t = rng.choice(["none", "one", "convex", "eps", "eps"])
  if t == "none":
    return dict(method="none")
  om = rng.randint(0, 1)
  if t == "one":
    return dict(method="one", om=om, cm=1 - om)
  if t == "convex":
    k = rng.randint(1, 15)
    return dict(method="convex", w=[k / 16.0, 1 - k / 16.0])
  return dict(method="eps", om=om, cm=1 - om, eps=rng.randint(1, 15) / 16.0)


def gen_filter(rng, kind):
  info = gen_info(rng)
  n = rng.randint(1, 10)
  m = 1 if (info["method"] == "none" and rng.random() < 0.5) else 2
  ties = rng.random() < 0.25
  om = info.get("om", 0)
  vals = gen_matrix(rng, n, m, rng.choice([3, 8, 20]), None if ties else om)
  fails = [rng.random() < rng.choice([0.0, 0.3, 0.6, 0.9, 1.0]) for _ in range(n)]     # every observation failed included (all modes)
  inp = dict(info=info, pts=[[float(rng.randint(0, 9)), float(i)] for i in range(n)], vals=vals, fails=fails,
             lie=[float(1000 + j) for j in range(m)])
  if kind == "filter_gp":
    inp["vars"] = [[float(rng.randint(0, 7)) / 4 for _ in range(m)] for _ in range(n)]
  return inp


def gen_thresholds(rng, m, hi):
  return [None if rng.random() < 0.4 else float(rng.randint(-1, hi + 1)) + rng.choice([0.0, 0.5]) for _ in range(m)]


def gen_layout(rng, n_opt):
  """metric columns in any order: `n_opt` optimised, 0..2 constraint, 0..2 stored metrics, interleaved; thresholds on any subset
  (constraint metrics practically always carry one; stored metrics may)."""
  n_con, n_sto = rng.choice([0, 1, 1, 2]), rng.choice([0, 0, 1, 2])
  roles = ["o"] * n_opt + ["c"] * n_con + ["s"] * n_sto
  style = rng.choice(["shuffled", "shuffled", "optimised_last", "optimised_first"])
  if style == "shuffled":
    rng.shuffle(roles)
  elif style == "optimised_last":
    roles = ["c"] * n_con + ["s"] * n_sto + ["o"] * n_opt
  opt = [i for i, r in enumerate(roles) if r == "o"]
  con = [i for i, r in enumerate(roles) if r == "c"]
  if rng.random() < 0.3:
    rng.shuffle(opt)
  number = lambda: float(rng.randint(-8, 8)) / 4
  thr = []
  for r in roles:
    p = dict(o=0.35, c=0.9, s=0.4)[r]
    thr.append(number() if rng.random() < p else None)
  return opt, con, thr


def gen_request(rng):
  """a request for a real View: counts on both sides of every documented boundary (the 0.55 / 0.65 pair depends on the flag), metrics in
  any column order, thresholds on any subset of the columns, open suggestions present, zero or absent from the request"""
  rp = rng.random() < 0.9
  opt, con, thr = gen_layout(rng, 2 if rp else 1)
  o = rng.choice([0, 0, 1, 2, 3, None])
  oo = o or 0
  style = rng.choice(["boundary", "boundary", "boundary", "window", "window", "spread"])
  b = rng.choice([20, 40, 100, rng.randint(10, 120)])
  f = rng.choice([0, 0, 1, b // 10])
  adj = adjusted(b, f, oo)
  if style == "boundary":
    k = rng.choice([10, 15, 30, 45, 55, 55, 65, 65, 95, 100])
    c = adj * k // 100 - oo + rng.choice([-1, 0, 0, 1])
  elif style == "window":        # strictly inside (0.55, 0.65]: polish one metric xor epsilon constraint, by the flag alone
    c = int(adj * rng.uniform(0.56, 0.65)) - oo
  else:
    c = int(adj * rng.uniform(0.0, 1.1)) - oo
  c = max(c, f + 1, 2)
  return dict(rp=rp, b=b, c=c, f=f, o=o, opt=opt, con=con, thr=thr, pick=rng.random() < 0.5, us=gen_draws(rng), data_seed=rng.randint(0, 10**6))


def gen_spe_request(rng):
  """a Parzen-estimator request: the budget absent, zero (Python int or NumPy integer) or positive (either type); 1-3 parameters
  of any type (the phantom budget counts parameters, not one-hot columns); observation counts spread over all phases of the
  effective budget and one observation either side of its documented boundaries; failures none / few / most / all"""
  comps = []
  for _ in range(rng.randint(1, 3)):
    t = rng.choice(["double", "double", "int", "categorical"])
    comps.append(dict(var_type=t, elements=[0.0, 1.0] if t == "double" else ([0, 9] if t == "int" else [1, 2, 3][:rng.randint(2, 3)])))
  obtype = rng.choice(["none", "none", "int", "int", "int64", "int64", "int32"])
  zero = obtype != "none" and rng.random() < 0.55
  ob = None if obtype == "none" else (0 if zero else rng.choice([1, 2, rng.randint(3, 30), rng.randint(20, 150)]))
  inp = dict(ob=ob, obtype=obtype, comps=comps)
  eff = spe_effective_budget(inp)
  style = rng.choice(["spread", "spread", "boundary", "first"])
  if style == "spread":
    c = int(rng.uniform(0, 1.15) * eff)
  elif style == "boundary":
    c = eff * rng.choice([15, 30, 75]) // 100 + rng.choice([-1, 0, 1, 2])
  else:
    c = rng.randint(1, 3)
  c = max(1, min(c, 200))
  f = rng.choice([0, 0, rng.randint(0, max(0, c // 8)), rng.randint(0, c), max(0, c - rng.randint(0, 2)), c])
  inp.update(c=c, f=min(f, c), data_seed=rng.randint(0, 10**6))
  return inp


def gen_case(rng):
  kind = rng.choice(["mm"] * 5 + ["flag", "request", "request", "request"] + ["search"] * 2 + ["spe"] * 2 + ["speview"] * 3 + ["solver", "weights", "weights", "epsilon", "info", "info", "infoerr",
                     "view", "view", "filter_gp", "filter_gp", "filter_gp", "filter_spe", "filter_spe", "filter_spe", "exceeds", "augment", "augment"])
  if kind == "flag":
    opt, con, thr = gen_layout(rng, rng.choice([0, 1, 2, 2, 3]))
    return kind, dict(opt=opt, con=con, thr=thr)
  if kind == "request":
    return kind, gen_request(rng)
  if kind == "speview":
    return kind, gen_spe_request(rng)
  if kind in ("mm", "search"):
    b, c, f, o = gen_counts(rng)
    inp = dict(b=b, c=c, f=f, o=o)
    if kind == "mm":
      inp["thr"] = rng.random() < 0.5
    return kind, inp
  if kind == "spe" and rng.random() < 0.35:   # exactly ON a documented fraction, with any failure count
    b = rng.choice([4, 8, 20, 20, 40, 60, 100, 100, 120, 200, 340, 1000])
    return kind, rng.choice(spe_ties(b, rng.choice([5, b // 2, b + 5])))
  if kind == "spe":
    b, c, f, _ = gen_counts(rng)
    b = max(b, 1)
    if rng.random() < 0.8:
      f = min(f, c)
    if rng.random() < 0.3:  # near the success-proportion and 30 % corners
      c = max(c, b * 3 // 10 + rng.randint(0, 2))
      f = min(c, max(0, c - rng.randint(0, c // 8 + 1)))
    return kind, dict(b=b, c=c, f=f)
  if kind == "solver":
    return kind, dict(phase=rng.choice(["PInit", "PSko", "PSko", "PCompletion"]), progress=rng.randint(0, 96) / 128.0, u=rng.randint(0, 511) / 1024.0)
  if kind == "weights":
    return kind, dict(rs=rng.random() < 0.5, f=gen_frac(rng), us=gen_draws(rng))
  if kind == "epsilon":
    return kind, dict(f=gen_frac(rng), us=gen_draws(rng))
  if kind == "info":
    label = rng.choice(list(LABELS))
    needs = label in ("CONVEX_COMBINATION_RANDOM_SPREAD", "CONVEX_COMBINATION_SEQUENTIAL", "EPSILON_CONSTRAINT_OPTIMIZE_0", "EPSILON_CONSTRAINT_OPTIMIZE_1")
    return kind, dict(label=label, kw=(gen_frac(rng) if needs or rng.random() < 0.3 else None), pick=rng.random() < 0.5, us=gen_draws(rng))
  if kind == "infoerr":
    return kind, dict(label=rng.choice(["CONVEX_COMBINATION_RANDOM_SPREAD", "CONVEX_COMBINATION_SEQUENTIAL", "EPSILON_CONSTRAINT_OPTIMIZE_0",
                                        "EPSILON_CONSTRAINT_OPTIMIZE_1"]), kw=None, pick=rng.random() < 0.5, us=gen_draws(rng))
  if kind == "view":
    b = rng.choice([rng.randint(0, 40), rng.randint(20, 120), 0])      # a zero budget is a budget (the divisor is then max(o, 1))
    c = rng.randint(1, min(b + 5, 60))
    f = rng.randint(0, min(c - 1, c // 2 + 1)) if c > 1 else 0
    return kind, dict(rp=rng.random() < 0.85, thr=rng.random() < 0.5, b=b, c=c, f=f, o=rng.randint(0, 3), pick=rng.random() < 0.5,
                      us=gen_draws(rng), data_seed=rng.randint(0, 10**6))
  if kind in ("filter_gp", "filter_spe"):
    return kind, gen_filter(rng, kind)
  n, m = rng.randint(0, 12), rng.randint(1, 3)
  hi = rng.choice([2, 6, 12])
  if kind == "exceeds":
    return kind, dict(vals=gen_matrix(rng, n, m, hi), thr=gen_thresholds(rng, m, hi))
  m2 = rng.randint(1, 2)
  loose = rng.random() < 0.7  # thresholds mostly above the data and enough rows, so that the union branch is reached
  if loose:
    n, hi = rng.randint(5, 14), 12
  def th(mm_):
    return [None if rng.random() < 0.3 else float(hi + rng.randint(0, 2) if loose else rng.randint(0, hi)) for _ in range(mm_)]
  return kind, dict(rp=rng.random() < 0.6, hc=rng.random() < 0.6, obs=[rng.random() < rng.choice([0.0, 0.1, 0.4]) for _ in range(n)],
                    af=gen_matrix(rng, n, 2, hi), t1=th(2), pf=gen_matrix(rng, n, m2, hi), t2=th(m2))


# ------------------------------------------------------------------------------------------ Coq case printer

ql = lambda l: C.listlit(l, C.qlit)
rows = lambda v: C.listlit([ql(r if isinstance(r, list) else [r]) for r in v])
bl = lambda l: C.listlit(l, C.blit)
oq = lambda x: C.optlit(x, C.qlit)


def info_lit(d):
  if d["method"] == "none":
    return "NotMM"
  if d["method"] == "one":
    return f"(OptOne {d['om']} {d['cm']})"
  if d["method"] == "convex":
    return f"(Convex {C.qlit(d['w'][0])} {C.qlit(d['w'][1])})"
  return f"(EpsC {d['om']} {d['cm']} {C.qlit(d['eps'])})"


def arr_lit(x):
  if not isinstance(x, list):
    return f"(Sc {C.qlit(x)})"
  if x and isinstance(x[0], list):
    return f"(A2 {rows(x)})"
  return f"(A1 {ql(x)})"


def _ties(inp):
  if inp["info"]["method"] != "eps":
    return False
  col = [r[inp["info"]["om"]] for r in inp["vals"]]
  return len(set(col)) < len(col)


def coq_case(kind, inp, out):
  z = C.zlit
  if kind == "mm":
    return f"CMM {C.blit(inp['thr'])} {z(inp['b'])} {z(inp['c'])} {z(inp['f'])} {z(inp['o'])} {LABELS[out['label']]} {oq(out['cf'])}"
  if kind == "search":
    return f"CSearch {z(inp['b'])} {z(inp['c'])} {z(inp['o'])} {z(inp['f'])} {out['phase']}"
  if kind == "spe":
    return f"CSpe {z(inp['b'])} {z(inp['c'])} {z(inp['f'])} {out['phase']} {C.qlit(out['progress'])}"
  if kind == "speview":
    return (f"CSpeView {C.optlit(inp['ob'], lambda b: z(b) + '%Z')} {z(out['dim'])} {z(inp['c'])} {z(inp['f'])} {z(out['budget'])} "
            f"{out['phase']} {C.qlit(out['progress'])}")
  if kind == "solver":
    return f"CSolver {inp['phase']} {C.qlit(inp['progress'])} {C.qlit(inp['u'])} {C.qlit(out['gamma'])} {C.qlit(out['pf'])}"
  if kind == "weights":
    return f"CWeights {C.blit(inp['rs'])} {ql(out['halton'] or [])} {C.qlit(inp['f'])} {ql(inp['us'])} {C.qlit(out['w'][0])} {C.qlit(out['w'][1])}"
  if kind == "epsilon":
    return f"CEpsilon {C.qlit(inp['f'])} {ql(inp['us'])} {C.qlit(out['eps'])}"
  if kind == "info":
    return f"CInfo {LABELS[inp['label']]} {oq(inp['kw'])} {C.blit(inp['pick'])} {ql(inp['us'])} {ql(out['halton'] or [])} {info_lit(out['info'])}"
  if kind == "infoerr":
    return f"CInfoErr {LABELS[inp['label']]} {C.blit(inp['pick'])} {ql(inp['us'])} {ql(out['halton'] or [])}"
  if kind == "view":
    return (f"CView {C.blit(inp['rp'])} {C.blit(inp['thr'])} {z(inp['b'])} {z(inp['c'])} {z(inp['f'])} {z(inp['o'])} {C.blit(inp['pick'])} "
            f"{ql(inp['us'])} {ql(out['halton'] or [])} {info_lit(out['info'])}")
  if kind == "flag":
    return f"CFlag {C.listlit(inp['thr'], oq)} {C.listlit(inp['opt'], C.nlit)} {C.blit(out['flag'])}"
  if kind == "request":
    return (f"CRequest {C.blit(inp['rp'])} {z(inp['b'])} {C.listlit(inp['thr'], oq)} {C.listlit(inp['opt'], C.nlit)} {bl(out['fails'])} "
            f"{C.optlit(inp['o'], C.nlit)} {C.blit(inp['pick'])} {ql(inp['us'])} {ql(out['halton'] or [])} {info_lit(out['info'])}")
  if kind == "filter_gp":
    o = f"{{| o_pts := {rows(out['pts'])}; o_vals := {arr_lit(out['vals'])}; o_vars := {arr_lit(out['vars'])}; o_lie := {arr_lit(out['lie'])} |}}"
    return f"CFilterGP {info_lit(inp['info'])} {rows(inp['pts'])} {rows(inp['vals'])} {rows(inp['vars'])} {bl(inp['fails'])} {ql(inp['lie'])} {o} {C.blit(_ties(inp))}"
  if kind == "filter_spe":
    return (f"CFilterSPE {info_lit(inp['info'])} {rows(inp['pts'])} {rows(inp['vals'])} {bl(inp['fails'])} {ql(inp['lie'])} "
            f"{rows(out['pts'])} {ql(out['vals'])} {C.blit(_ties(inp))}")
  if kind == "exceeds":
    return f"CExceeds {rows(inp['vals'])} {C.listlit(inp['thr'], oq)} {bl(out['mask'])}"
  if kind == "augment":
    return (f"CAugment {C.blit(inp['rp'])} {C.blit(inp['hc'])} {bl(inp['obs'])} {rows(inp['af'])} {C.listlit(inp['t1'], oq)} "
            f"{rows(inp['pf'])} {C.listlit(inp['t2'], oq)} {bl(out['mask'])}")
  raise ValueError(kind)


def branch_of(kind, inp, out):
  if kind == "mm":
    return f"mm:{out['label']}"
  if kind in ("search", "spe"):
    return f"{kind}:{out['phase']}"
  if kind == "speview":
    b = "no-budget" if inp["obtype"] == "none" else (("zero-budget" if inp["ob"] == 0 else "positive-budget") + ":" + inp["obtype"])
    return f"speview:{b}:{out['phase']}"
  if kind == "solver":
    return f"solver:{inp['phase']}"
  if kind in ("weights", "epsilon"):
    f = inp["f"]
    return f"{kind}:{'random' if inp.get('rs') else 'grid'}:{'in' if 0 <= f <= 1 else 'fallback-draw'}"
  if kind in ("info", "view"):
    return f"{kind}:{inp.get('label', '')}:{out['info']['method']}"
  if kind == "flag":
    first = sorted(inp["opt"]) == list(range(len(inp["opt"])))
    return f"flag:{'optimised-columns-first' if first else 'optimised-columns-elsewhere'}:{out['flag']}"
  if kind == "request":
    first = sorted(inp["opt"]) == list(range(len(inp["opt"])))
    pos = [inp["thr"][i] is not None for i in range(len(inp["opt"]))]          # what a positional reading would see
    differs = any(pos) != request_flag(inp)
    return (f"request:{out['info']['method']}:{'optimised-columns-first' if first else 'optimised-columns-elsewhere'}"
            f"{':positions-differ-from-columns' if differs else ''}")
  if kind == "infoerr":
    return "info:KeyError"
  if kind in ("filter_gp", "filter_spe"):
    return f"{kind}:{inp['info']['method']}{':ties' if _ties(inp) else ''}"
  if kind == "exceeds":
    return "exceeds"
  changed = out["mask"] != inp["obs"]
  return f"augment:{'not-multimetric' if not (inp['rp'] or inp['hc']) else ('union' if changed else 'observed')}"


def nontrivial(kind, inp, out):
  if kind == "mm":
    return out["label"] != "INITIALIZATION"
  if kind in ("search", "spe", "speview"):
    return out["phase"] not in ("SInit", "PInit")
  if kind in ("filter_gp", "filter_spe"):
    return any(inp["fails"]) and not all(inp["fails"])
  if kind == "augment":
    return out["mask"] != inp["obs"]
  if kind == "exceeds":
    return any(out["mask"]) and not all(out["mask"])
  return True


HEADER = ("From Coq Require Import List QArith ZArith Bool.\nFrom LV Require Import Model.Pareto Model.Phases Model.Filters Model.PhasesCorr.\n"
          "Open Scope Q_scope.")


def correspondence(ctx):
  n = ctx.n(1600, 16000)
  cases, meta, seen, dist = [], [], set(), {}
  nontriv = discarded = 0
  dis = []
  # deterministic part of every run: the Parzen selector exactly ON its documented fractions, budgets 20 / 40 / 100, every failure count up to 30
  fixed = [("spe", t) for b in (20, 40, 100) for t in spe_ties(b, 30)]
  while len(cases) < n:
    kind, inp = fixed.pop() if fixed else gen_case(ctx.rng)
    if margin_discard(kind, inp):
      discarded += 1
      continue
    try:
      out = run_impl(kind, inp)
    except InputModified as e:
      dis.append(dict(what=f"C14 {kind}: {e}", kind=kind, input=inp, observed=str(e)))
      continue
    except Exception as e:  # the implementation must not fail on a valid input
      dis.append(dict(what=f"C14 {kind}: implementation raised {type(e).__name__}: {e}", kind=kind, input=inp, observed=repr(e)))
      if len(dis) > 20:
        break
      continue
    if kind == "speview" and not (isinstance(out["budget"], int) and math.isfinite(out["progress"])):
      dis.append(dict(what="C14 speview: the budget handed to the selector is not an integer or the served progress is not finite",
                      kind=kind, input=inp, observed=out))
      continue
    if kind == "infoerr" and out.get("error") != "KeyError":
      dis.append(dict(what="C14 infoerr: a phase that reads its fraction accepted empty kwargs", kind=kind, input=inp, observed=out))
      continue
    if kind == "weights" and (out["shape"] != [2] or (inp["rs"] and out["halton_args"] != (101, [[0.1, 0.9]], dict(skip=1)))):
      dis.append(dict(what="C14 weights: not two weights, or the Halton sampler was called with other arguments", kind=kind, input=inp, observed=out))
      continue
    cases.append(coq_case(kind, inp, out))
    meta.append((kind, inp, out))
    br = branch_of(kind, inp, out)
    dist[br] = dist.get(br, 0) + 1
    h = C.canon_hash([kind, inp])
    if h not in seen and nontrivial(kind, inp, out):
      nontriv += 1
    seen.add(h)
  bad = C.run_cases("C14", HEADER, "case", "check", cases)
  dis += [dict(what=f"C14 correspondence case {i} ({meta[i][0]}): implementation output differs from Model.Phases/Model.Filters or its specification",
               kind=meta[i][0], input=meta[i][1], observed=meta[i][2]) for i in bad]
  dist["discarded-by-margin-rule"] = discarded
  return dict(evaluations=len(cases), distinct_nontrivial=nontriv,
              rule="integer budgets/counts of six styles (small, exact documented boundaries +-1, mid, tiny budget, failures above the budget, "
                   "up to 3e12, exact ties with ANY failure count: the Parzen selector on 15 % / 75 % / 30 % for budgets 20, 40, 100 and every failure count up to 30 on every run), both threshold flags; fractions dyadic k/1024, mid-cell decimals, end points, out of range (fallback draw); "
                   "real SPENextPoints views (suggestion generation stubbed) on requests with no / zero (int, int64, int32) / positive budgets, 1-3 parameters "
                   "of any type, counts across all phases of the effective budget and either side of its boundaries, failures none to all; "
                   "real View objects for the wiring (budgets from 0), incl. requests whose optimised / constraint / stored metrics sit in any column order with thresholds "
                   "(None or a number) on any subset of the columns, counts one observation either side of every documented boundary and "
                   "inside (0.55, 0.65], open suggestions present / zero / absent; the real MetricsInfo flag for 0..3 optimised columns; "
                   "filters on n<=10 rows of small integers with forced ties, dyadic weights/epsilon, every mode "
                   "on both paths; thresholds inside/outside the data for the SPE augmentation. Cases closer than 1e-9 (rational margin) to a "
                   "phase or table boundary are discarded and counted, EXACT ties of singly-rounded quotients excepted (judged by the rational comparison). non-trivial = past initialisation (selectors), mixed failure mask (filters), "
                   "mask changed (augmentation); distinct by hash of the canonical input",
              samples=[dict(kind=k, input=i, impl_output=o) for k, i, o in meta[:3]], distribution=dist, disagreements=dis)


# ------------------------------------------------------------------------------------------ independent oracle
# Plain-Python statement of the property: documented fraction table over fractions.Fraction, closed-form weight table,
# loop-based filters.  Shares no code with the library or with the Coq model.

STAGES = ["I", "O", "R", "S", "P", "E", "C"]
CLASS = dict(INITIALIZATION="I", OPTIMIZING_ONE_METRIC_OPTIMIZE_0="O", OPTIMIZING_ONE_METRIC_OPTIMIZE_1="O",
             CONVEX_COMBINATION_RANDOM_SPREAD="R", CONVEX_COMBINATION_SEQUENTIAL="S", EPSILON_CONSTRAINT_OPTIMIZE_0="E",
             EPSILON_CONSTRAINT_OPTIMIZE_1="E", COMPLETION="C")


def doc_stage(thr, b, c, f, o):
  """(stage letter, completed fraction or None) from the documented fractions."""
  denom = max(b - f, o, 1)
  served, done = Fr(c + o, denom), Fr(c, denom)
  cuts = [("O", Fr(30, 100)), ("R", Fr(45, 100)), ("S", Fr(55, 100)), ("P", Fr(55, 100) if thr else Fr(65, 100)), ("E", Fr(95, 100))]
  if served <= Fr(15, 100) or done <= Fr(1, 10):
    return "I", None
  lo = Fr(15, 100)
  for name, hi in cuts:
    if served <= hi:
      return name, ((served - lo) / (hi - lo) if name in "RSE" else None)
    lo = hi
  return "C", None


def _fail(kind, what, inp, observed, expected, oracle_text):
  return dict(signature=f"C14:{kind}:{what}", what=f"{kind}: {what}", input=dict(kind=kind, **inp), observed=observed, expected=expected, oracle=oracle_text)


def _band(x, tol=1e-12):
  return isinstance(x, float) and 0.1 - tol <= x <= 0.9 + tol


def check_info(kind, inp, info):
  if info["method"] == "one" or info["method"] == "eps":
    if sorted([info["om"], info["cm"]]) != [0, 1]:
      return _fail(kind, "optimising and constraint metric are not the two metrics", inp, info, "{0, 1}", "definition")
  if info["method"] == "convex":
    w = info["w"]
    if not (len(w) == 2 and _band(w[0]) and _band(w[1]) and abs(w[0] + w[1] - 1) <= 1e-12):
      return _fail(kind, "weights are not two numbers in [0.1, 0.9] summing to 1", inp, info, "two weights in [0.1, 0.9], sum 1", "definition")
  if info["method"] == "eps" and not _band(info["eps"]):
    return _fail(kind, "epsilon outside [0.1, 0.9]", inp, info, "[0.1, 0.9]", "definition")
  return None


def eps_threshold(vals, succ_mask, cm, eps):
  best0 = best1 = None
  for r, ok in zip(vals, succ_mask):
    if ok:
      if best0 is None or r[0] < best0[0]:
        best0 = r
      if best1 is None or r[1] < best1[1]:
        best1 = r
  a, b = best0[cm], best1[cm]
  return (1 - eps) * min(a, b) + eps * max(a, b)


def oracle_filter(kind, inp, out):
  info, vals, fails, lie, pts = inp["info"], inp["vals"], inp["fails"], inp["lie"], inp["pts"]
  n, meth = len(vals), inp["info"]["method"]
  text = "loop-based statement of the filter contracts"
  gp = kind == "filter_gp"
  lens = [len(out["pts"]), len(out["vals"])] + ([len(out["vars"])] if gp else [])
  if len(set(lens)) != 1:
    return _fail(kind, "output arrays have different lengths", inp, out, lens, text)
  scale = max([1.0] + [abs(x) for r in vals for x in r] + [abs(x) for x in lie])
  tol = 1e-12 * scale

  def same(a, b):
    if isinstance(a, list) != isinstance(b, list):
      return False
    if isinstance(a, list):
      return len(a) == len(b) and all(same(x, y) for x, y in zip(a, b))
    return abs(a - b) <= tol

  if meth != "eps":
    om = info.get("om", 0)
    if gp and meth == "convex":
      exp = dict(pts=pts, vals=vals, vars=inp["vars"], lie=lie)
    elif gp:
      exp = dict(pts=pts, vals=[r[om] for r in vals], vars=[r[om] for r in inp["vars"]], lie=lie[om])
    elif meth == "convex":
      w = info["w"]
      liev = lie[0] * w[0] + lie[1] * w[1]
      exp = dict(pts=pts, vals=[liev if fl else r[0] * w[0] + r[1] * w[1] for r, fl in zip(vals, fails)])
    else:
      exp = dict(pts=pts, vals=[lie[om] if fl else r[om] for r, fl in zip(vals, fails)])
    for k, e in exp.items():
      if not same(out[k], e):
        return _fail(kind, f"{meth} mode: '{k}' is not built from the right metric columns", inp, out, exp, text)
    return None
  om, cm, eps = info["om"], info["cm"], info["eps"]
  if all(fails):     # no successful observation: no frontier to place the threshold on, nothing is labelled by it
    thr, near, viol = None, [False] * n, [False] * n
  else:
    thr = eps_threshold(vals, [not f for f in fails], cm, eps)
    near = [abs(r[cm] - thr) <= 1e-9 * max(1.0, abs(thr)) for r in vals]
    viol = [r[cm] >= thr for r in vals]
  base = viol if gp else [v or f for v, f in zip(viol, fails)]
  if gp:
    # recover which rows were kept: the points carry their row number in the last coordinate (generator) or are matched greedily
    kept, j = [], 0
    for i in range(n):
      if j < len(out["pts"]) and same(out["pts"][j], pts[i]) and same(out["vals"][j], vals[i][om]) and same(out["vars"][j], inp["vars"][i][om]):
        kept.append(i)
        j += 1
    if j != len(out["pts"]):
      return _fail(kind, "eps mode: an output row is not (point, optimising value, optimising variance) of an input row, in order", inp, out, None, text)
    lab = [i not in kept for i in range(n)]
    if not same(out["lie"], lie[om]):
      return _fail(kind, "eps mode: lie value is not the optimising metric's", inp, out, lie[om], text)
  else:
    if not same(out["pts"], pts):
      return _fail(kind, "eps mode: points changed", inp, out, pts, text)
    lab = []
    for i in range(n):
      if same(vals[i][om], lie[om]):
        if not same(out["vals"][i], lie[om]):
          return _fail(kind, "eps mode: a value is neither the optimising metric nor its lie value", inp, out, None, text)
        near[i] = True  # the row's value coincides with the lie value: its label cannot be read off the output
        lab.append(False)
      elif same(out["vals"][i], vals[i][om]):
        lab.append(False)
      elif same(out["vals"][i], lie[om]):
        lab.append(True)
      else:
        return _fail(kind, "eps mode: a value is neither the optimising metric nor its lie value", inp, out, None, text)
  if any(near):
    return None  # a row sits on the threshold within rounding: the labelling is not determined
  if any(l and not b for l, b in zip(lab, base)):
    return _fail(kind, "eps mode: a row that satisfies the constraint (and did not fail) was removed / lied", inp, out, dict(threshold=thr), text)
  before = sum(1 for b in base if not b)
  want = max(before, min(5, n))
  if sum(1 for l in lab if not l) != want:
    return _fail(kind, "eps mode: number of rows kept is not max(satisfying, min(5, n))", inp, out, want, text)
  restored = [vals[i][om] for i in range(n) if base[i] and not lab[i]]
  still = [vals[i][om] for i in range(n) if lab[i]]
  if restored and still and max(restored) > min(still) + tol:
    return _fail(kind, "eps mode: a restored row has a larger optimising value than a row left out", inp, out, None, text)
  return None


def oracle(kind, inp):
  """Direct statement of the property on the implementation's output. Returns a failure dict or None."""
  if kind == "monotone":
    return oracle_monotone(inp)
  try:
    out = run_impl(kind, inp)
  except InputModified as e:
    return _fail(kind, "input modified", inp, str(e), "inputs unchanged", "deep comparison before/after")
  except Exception as e:
    return dict(signature=f"C14:{kind}:raises:{type(e).__name__}", what=f"{kind} raised {type(e).__name__}: {e}", input=dict(kind=kind, **inp),
                observed=repr(e), expected="a result", oracle="no exception on valid input")
  text = "documented fraction table over exact rationals"
  if kind == "mm":
    if margin_discard(kind, inp):
      return None
    st, cf = doc_stage(inp["thr"], inp["b"], inp["c"], inp["f"], inp["o"])
    want = dict(I=["INITIALIZATION"], R=["CONVEX_COMBINATION_RANDOM_SPREAD"], S=["CONVEX_COMBINATION_SEQUENTIAL"], C=["COMPLETION"],
                O=["OPTIMIZING_ONE_METRIC_OPTIMIZE_%d" % (inp["c"] % 2)], P=["OPTIMIZING_ONE_METRIC_OPTIMIZE_%d" % (inp["c"] % 2)],
                E=["EPSILON_CONSTRAINT_OPTIMIZE_%d" % (inp["c"] % 2)])[st]
    if out["label"] not in want:
      return _fail(kind, "phase is not the one of the documented fractions", inp, out, want, text)
    if (cf is None) != (out["cf"] is None) or (cf is not None and not (abs(out["cf"] - float(cf)) <= 1e-12 and -1e-12 <= out["cf"] <= 1 + 1e-12)):
      return _fail(kind, "fraction of the phase completed is wrong or outside [0, 1]", inp, out, None if cf is None else float(cf), text)
    return None
  if kind == "search":
    if margin_discard(kind, inp):
      return None
    fs = Fr(inp["c"] + inp["o"], max(inp["b"] - inp["f"], inp["o"], 1))
    want = "SInit" if fs <= Fr(1, 5) else ("SExploit" if fs <= Fr(2, 5) else "SResolve")
    return None if out["phase"] == want else _fail(kind, "search phase is not the one of the documented fractions", inp, out, want, text)
  if kind == "spe":
    if margin_discard(kind, inp):
      return None
    b, c, f = inp["b"], inp["c"], inp["f"]
    sp, tp, prop = Fr(c - f, b), Fr(c, b), 1 - Fr(f, 1 + c)
    if sp < Fr(15, 100) and not (tp > Fr(30, 100) and prop > Fr(1, 10)):
      want = "PInit"
    else:
      want = "PSko" if sp < Fr(75, 100) else "PCompletion"
    if out["phase"] != want or abs(out["progress"] - float(sp)) > 1e-12 * max(1.0, abs(float(sp))):
      return _fail(kind, "SPE phase / progress is not the documented one", inp, out, dict(phase=want, progress=float(sp)), text)
    return None
  if kind == "speview":
    # totality first: a phase was served (exceptions are reported above) on a finite progress; then the documented schedule at the
    # request's own budget, or at 50 observations per parameter when it has none (None or zero)
    if not math.isfinite(out["progress"]) or not isinstance(out["budget"], int) or out["budget"] < 1:
      return _fail(kind, "no budget >= 1 reaches the selector: the served progress is not a finite fraction", inp, out, "a phase on a finite progress",
                   "totality over all budgets incl. none and zero")
    if margin_discard(kind, inp):
      return None
    b, c, f = spe_effective_budget(inp), inp["c"], inp["f"]
    sp, tp, prop = Fr(c - f, b), Fr(c, b), 1 - Fr(f, 1 + c)
    if sp < Fr(15, 100) and not (tp > Fr(30, 100) and prop > Fr(1, 10)):
      want = "PInit"
    else:
      want = "PSko" if sp < Fr(75, 100) else "PCompletion"
    if out["phase"] != want or not (abs(out["progress"] - float(sp)) <= 1e-12 * max(1.0, abs(float(sp)))):
      return _fail(kind, "the phase served by the request view is not the documented one at the request's budget (50 per parameter when it has none)",
                   inp, out, dict(phase=want, progress=float(sp), budget=b), text)
    return None
  if kind == "solver":
    if inp["phase"] == "PSko":
      g = 0.1 - (inp["progress"] - 0.15) / 0.6 * 0.04
      ok = abs(out["gamma"] - g) <= 1e-12 and out["pf"] == 1.0
    else:
      ok = abs(out["gamma"] - 0.06) <= 1e-15 and out["pf"] == inp["u"]
    return None if ok else _fail(kind, "solver options differ from the documented schedule", inp, out, None, "closed form")
  if kind in ("weights", "epsilon"):
    f = inp["f"] if 0 <= inp["f"] <= 1 else inp["us"][0]
    cell = math.floor(100 * Fr(f))
    grid = 0.1 + 0.8 * cell / 100
    stable = not margin_discard(kind, inp)
    if kind == "epsilon":
      if not _band(out["eps"]) or (stable and abs(out["eps"] - grid) > 1e-12):
        return _fail(kind, "epsilon is not the grid value of the cell in [0.1, 0.9]", inp, out, grid, "0.1 + 0.8 floor(100 f) / 100")
      return None
    r = check_info(kind, inp, dict(method="convex", w=out["w"]))
    if r:
      return r
    if out["shape"] != [2]:
      return _fail(kind, "weights are not two numbers in [0.1, 0.9] summing to 1", inp, out, "shape (2,)", "definition")
    if not inp["rs"] and stable and abs(out["w"][0] - grid) > 1e-12:
      return _fail(kind, "sequential weight is not the grid value of the cell", inp, out, grid, "0.1 + 0.8 floor(100 f) / 100")
    if inp["rs"] and (out["halton"] is None or out["w"][0] not in out["halton"]):
      return _fail(kind, "random-spread weight is not a member of the Halton table", inp, out, None, "membership")
    return None
  if kind == "infoerr":
    return None
  if kind == "flag":
    want = request_flag(inp)
    return None if out["flag"] == want else _fail(kind, "threshold flag is not 'some optimised metric column carries a threshold'", inp, out, want,
                                                  "loop over the optimised columns")
  if kind == "request":
    # the documented wiring: the schedule is driven by the thresholds of the OPTIMISED metrics only, wherever their columns are
    doc = dict(rp=inp["rp"], thr=request_flag(inp), b=inp["b"], c=inp["c"], f=inp["f"], o=inp["o"] or 0, pick=inp["pick"])
    info = out["info"]
    r = check_info(kind, inp, info)
    if r:
      return r
    if not doc["rp"]:
      want, om = "none", None
    elif margin_discard("mm", doc):
      return None
    else:
      st, _ = doc_stage(doc["thr"], doc["b"], doc["c"], doc["f"], doc["o"])
      want = dict(I="one", O="one", P="one", R="convex", S="convex", E="eps", C="eps")[st]
      om = int(doc["pick"]) if st in "IC" else (doc["c"] % 2 if st in "OPE" else None)
    if info["method"] != want or (om is not None and info.get("om") != om):
      return _fail(kind, "multimetric_info of the request does not match the documented phase (flag = some optimised metric column has a threshold)",
                   inp, out, dict(method=want, om=om, flag=doc["thr"]), "phase table")
    return None
  if kind in ("info", "view"):
    info = out["info"]
    r = check_info(kind, inp, info)
    if r:
      return r
    if kind == "info":
      want = dict(NOT_MULTIMETRIC="none", INITIALIZATION="one", OPTIMIZING_ONE_METRIC_OPTIMIZE_0="one", OPTIMIZING_ONE_METRIC_OPTIMIZE_1="one",
                  CONVEX_COMBINATION_RANDOM_SPREAD="convex", CONVEX_COMBINATION_SEQUENTIAL="convex", EPSILON_CONSTRAINT_OPTIMIZE_0="eps",
                  EPSILON_CONSTRAINT_OPTIMIZE_1="eps", COMPLETION="eps")[inp["label"]]
      om = {"OPTIMIZING_ONE_METRIC_OPTIMIZE_0": 0, "OPTIMIZING_ONE_METRIC_OPTIMIZE_1": 1, "EPSILON_CONSTRAINT_OPTIMIZE_0": 0,
            "EPSILON_CONSTRAINT_OPTIMIZE_1": 1}.get(inp["label"], int(inp["pick"]) if inp["label"] in ("INITIALIZATION", "COMPLETION") else None)
    else:
      if not inp["rp"]:
        want, om = "none", None
      elif margin_discard("mm", inp):
        return None
      else:
        st, _ = doc_stage(inp["thr"], inp["b"], inp["c"], inp["f"], inp["o"])
        want = dict(I="one", O="one", P="one", R="convex", S="convex", E="eps", C="eps")[st]
        om = int(inp["pick"]) if st in "IC" else (inp["c"] % 2 if st in "OPE" else None)
    if info["method"] != want or (om is not None and info.get("om") != om):
      return _fail(kind, "multimetric_info does not match the phase", inp, out, dict(method=want, om=om), "phase table")
    return None
  if kind in ("filter_gp", "filter_spe"):
    return oracle_filter(kind, inp, out)
  if kind == "exceeds":
    want = [any(t is not None and not (r[i] < t) for i, t in enumerate(inp["thr"])) for r in inp["vals"]]
    return None if out["mask"] == want else _fail(kind, "mask is not 'some thresholded metric is at or above its threshold'", inp, out, want, "loop")
  if kind == "augment":
    n, obs = len(inp["obs"]), inp["obs"]
    ex = lambda v, th: [any(t is not None and not (r[i] < t) for i, t in enumerate(th)) for r in v]
    bv = ex(inp["af"], inp["t1"]) if inp["rp"] else [False] * n
    cv = ex(inp["pf"], inp["t2"]) if inp["hc"] else [False] * n
    un = [a or b or c for a, b, c in zip(obs, bv, cv)]
    if not (inp["rp"] or inp["hc"]) or sum(bv) > n - 1 or sum(cv) > n - 5 or sum(un) > n - 5:
      want = obs
    else:
      want = un
    return None if out["mask"] == want else _fail(kind, "augmented failures are not the documented union / fallback", inp, out, want, "loop")
  raise ValueError(kind)


def oracle_monotone(inp):
  """Sweep the observation count with everything else fixed: the phase walks forward through the documented order."""
  sel = inp["selector"]
  pos, prev = 0, None
  order = dict(mm=STAGES, search=["SInit", "SExploit", "SResolve"], spe=["PInit", "PSko", "PCompletion"], speview=["PInit", "PSko", "PCompletion"])[sel]
  for c in range(inp["c0"], inp["c0"] + inp["steps"] * inp["stride"], inp["stride"]):
    one = dict(inp["base"], c=c) if sel == "speview" else dict(b=inp["b"], c=c, f=inp["f"], o=inp["o"], thr=inp.get("thr", False))
    try:
      out = run_impl(sel, one)
    except Exception as e:
      return dict(signature=f"C14:{sel}:raises:{type(e).__name__}", what=f"{sel} raised {type(e).__name__}: {e}", input=dict(kind=sel, **one),
                  observed=repr(e), expected="a phase", oracle="totality")
    cls = CLASS[out["label"]] if sel == "mm" else out["phase"]
    cands = [i for i in range(pos, len(order)) if order[i] == cls or (sel == "mm" and cls == "O" and order[i] in "OP")]
    if not cands:
      return _fail("monotone", f"{sel} phase went backwards as the observation count grew", inp, dict(at=c, phase=cls, previous=prev), "non-decreasing stage",
                   "sweep of the observation count")
    pos, prev = cands[0], cls
  return None


def gen_monotone(rng):
  sel = rng.choice(["mm", "mm", "search", "spe", "speview"])
  if sel == "speview":       # the same sweep through the real request view: budgets absent / zero / positive, failures fixed
    base = gen_spe_request(rng)
    eff = spe_effective_budget(base)
    base["f"] = rng.choice([0, 0, 1, min(3, eff)])
    steps = rng.randint(10, 40)
    stride = max(1, min(eff, 180) // steps + rng.choice([0, 1]))
    return "monotone", dict(selector=sel, base=base, c0=max(1, base["f"]), steps=steps, stride=stride)
  b, _, f, o = gen_counts(rng)
  if sel == "spe":
    b = max(b, 1)
  span = max(b, 10)
  stride = max(1, span // 60) if rng.random() < 0.7 else 1
  c0 = 0 if rng.random() < 0.7 else rng.randint(0, span)
  return "monotone", dict(selector=sel, b=b, f=f, o=o, thr=rng.random() < 0.5, c0=c0, steps=rng.randint(20, 90), stride=stride)


def widen(rng, kind, inp):
  """real floats of many magnitudes and larger sizes for the searcher"""
  if kind in ("filter_gp", "filter_spe") and rng.random() < 0.6:
    n = rng.randint(1, 40)
    scale = 10.0 ** rng.randint(-4, 5)
    info = inp["info"]
    m = 2 if info["method"] != "none" else rng.choice([1, 2])
    inp["vals"] = [[round(rng.gauss(0, 1), rng.choice([1, 6])) * scale for _ in range(m)] for _ in range(n)]
    inp["pts"] = [[rng.random(), float(i)] for i in range(n)]
    inp["fails"] = [rng.random() < rng.choice([0.4, 0.4, 0.4, 1.0]) for _ in range(n)]
    if info["method"] == "eps":
      info["eps"] = 0.1 + 0.8 * rng.randint(0, 100) / 100
    if info["method"] == "convex":
      w = 0.1 + 0.8 * rng.random()
      info["w"] = [w, 1 - w]
    inp["lie"] = [2 * max(abs(x) for r in inp["vals"] for x in r) + scale * (1 + j) for j in range(m)]  # distinct from every value
    if kind == "filter_gp":
      inp["vars"] = [[abs(rng.gauss(0, 1)) for _ in range(m)] for _ in range(n)]
  elif kind in ("weights", "epsilon") and rng.random() < 0.5:
    inp["f"] = rng.choice([rng.random(), rng.uniform(-1, 2)])
    inp["us"] = [rng.random(), rng.random()]
  elif kind == "info" and inp.get("kw") is not None and rng.random() < 0.5:
    inp["kw"] = rng.random()
    inp["us"] = [rng.random(), rng.random()]
  return inp


def search(ctx, hints, broken):
  fails, n = [], 0
  for h in hints:
    if "kind" in h and "input" in h:
      n += 1
      r = oracle(h["kind"], h["input"])
      if r and r["signature"] not in {x["signature"] for x in fails}:
        fails.append(r)
  # exhaustive sweep of the exact corners: every triple ON a documented fraction of the Parzen selector (budgets up to 200 / 1000, every failure count up
  # to the budget + 5), and of the multimetric / search selectors (budgets up to 60, every failure and open-suggestion count)
  def sweep(kind, inp):
    nonlocal n
    n += 1
    r = oracle(kind, inp)
    if r and r["signature"] not in {x["signature"] for x in fails}:
      fails.append(r)
  for b in range(4, ctx.n(200, 1000) + 1, 4):
    for t in spe_ties(b, b + 5):
      sweep("spe", t)
  for b in range(1, 61):
    for f in range(0, b + 3, 1 if b <= 30 else 3):
      for o in (0, 1, 3):
        for c in served_ties("search", b, f, o):
          sweep("search", dict(b=b, c=c, f=f, o=o))
        for c in served_ties("mm", b, f, o):
          sweep("mm", dict(b=b, c=c, f=f, o=o, thr=(b + f + o) % 2 == 0))
  budget = ctx.n(4000, 40000) * (2 if broken else 1)
  rng = ctx.rng
  for k in range(budget):
    if k % 12 == 0:
      kind, inp = gen_monotone(rng)
    else:
      kind, inp = gen_case(rng)
      inp = widen(rng, kind, inp)
    n += 1
    r = oracle(kind, inp)
    if r:
      if r["signature"] not in {x["signature"] for x in fails}:
        fails.append(r)
      if len(fails) >= 3:
        break
  return dict(evaluations=n, failures=fails, oracle="documented fraction table over exact rationals; exhaustive sweep of the counts exactly on a documented fraction; observation-count sweeps; closed-form weight "
              "table; loop-based filter contracts; deep comparison of inputs")


def replay(ctx, payload):
  inp = dict(payload["input"])
  kind = inp.pop("kind")
  return oracle(kind, inp)


LEVEL_TEXT = ("Coq theorems on an executable model of the three phase selectors, the weight/epsilon tables, "
              "form_multimetric_info_from_phase, MetricsInfo.has_optimized_metric_thresholds and View.form_multimetric_info (request level: "
              "which threshold entries are consulted), the budget SPENextPoints.view hands to its selector (none / zero / positive: always >= 1, "
              "the phantom budget 50 x parameters when the request's is missing or zero), the six filter functions, both dispatchers and the SPE failure "
              "augmentation: totality (divisor >= 1), the phase table, monotonicity of the stage in the observation count for all integers, "
              "fraction in (0,1], weights/epsilon in [0.1,0.9] summing to 1 for every fraction, draw and Halton table meeting its contract, "
              "aligned output lengths and the right metric columns per mode; the model is tied to the code by exact differential runs "
              "(labels, masks, arrays exact; divided quantities within 1e-12) evaluated inside Coq, including real View objects")
LEVEL_NOTE = ("Exact arithmetic over Q; double/rational agreement of threshold comparisons is argued (margin rule), not proved; Halton sampler, "
              "numpy.random.random and random.choice by contract; argsort tie order not modelled (specification-level comparison on ties); "
              "immutability of inputs is a runtime deep comparison; harness and case printer trusted; no axioms")
TECHNIQUE = "Coq proof (case analysis over the fraction table with lra, induction on lists) on executable model + in-Coq differential correspondence"
DESIGN_REF = "DESIGN.md section 7, C14"

# --- gap round (seeded C14_m13): additions to the claimed level
LEVEL_TEXT += ("; exact corners of the selectors: counts exactly ON a documented fraction with ANY failure / open-suggestion count are generated (correspondence: the Parzen selector on 15 % / 75 % / "
               "30 % for budgets 20, 40, 100 and every failure count up to 30 on every run, random ties beyond; searcher: exhaustive over budgets up to 200, every failure count, and over the "
               "multimetric / search selectors for budgets up to 60) and judged by the rational comparison - sound because the code's quantity is one correctly rounded division of the rational "
               "the literal denotes; near-ties that are not exact stay discarded")
