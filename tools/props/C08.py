"""C08 — restriction and sampling never leave the constrained region."""
import contextlib
import fractions
import math
import warnings

import numpy

from lib import common as C

PROP = "C08"
PROPS_FILES = ["Props/C08.v", "Props/C08_log.v", "Props/C08_hist.v"]
ASSUMPTIONS = [
  "exact arithmetic over Q in the model; the running code is compared to a relative 1e-9 on coordinates (it divides and multiplies doubles), "
  "exactly on counts, flags, strata and unchanged points; region membership on the running code within 1e-9 (DESIGN 7.0)",
  "every constraint has two or more non-zero weights (the property's precondition; rows with one non-zero weight are skipped by the code as bound rows)",
  "the stored Chebyshev centre is strictly inside every halfspace row (what HiGHS delivers when find_interior_point reports feasible with radius >= 1e-8; "
  "LP solver optimality is a contract, cross-checked by the searcher with an independent solve and inscribed-ball probes)",
  "Sobol / Halton unit-cube values are a contract: in [0,1] (checked on every recorded qmcpy output); numpy generators stay in their documented ranges",
  "hit-and-run directions are used unnormalised in the model (the move is invariant under positive rescaling), so no square root is needed",
  "rounding at faces (points within a few ulp of a face, boxes so large that the absolute 1e-8 margins fall below one ulp) is outside the exact model",
]
ASSUMPTIONS += [
  "histories on one live ContinuousDomain (Model/DomainHist.v, Props/C08_hist.v): 'the constraints of the domain' are those handed over by the LATEST "
  "set_constraint_list call (content of the list at the time of the call - a new list, or the list object passed before and edited in place since); a caller who "
  "edits its list and does NOT call set_constraint_list again is outside the reading (the domain keeps the caller's list by reference: its is_constrained / SciPy "
  "constraints would then follow the edit while its half-spaces would not)",
  "the LP result of find_interior_point and the result of a call into aux/samplers.py enter the history machine as oracle arguments (their contracts are the "
  "Chebyshev / sampler theorems of Props/C08.v); what the domain HANDS to the sampler (half-space rows, start point, box) is compared exactly",
  "coordinates are compared to 1e-9 relative to max(1, |value|, the bounds of that coordinate) - on a coordinate ranging over 1e9 a value that should be 0 comes out as 1e-8",
  "weights of magnitude <= 1e-9 are not generated (HiGHS drops LP coefficients that small); on boxes whose coordinate ranges differ by >= 1e5 the library's "
  "interior-point LP solve sometimes reports a feasible set infeasible or a radius that is not maximal (both safe: nothing leaves the region; signature "
  "C08:mixed-scales:chebyshev-lp-solved-inaccurately, reported only once registered as a known finding; ball-inside-polytope and centre-strictly-inside stay hard clauses)",
]
TRUSTED = ["tools/props/C08.py case generator, numpy.random / qmcpy / linprog scripting layer and the Q-literal printer",
           "Model/RestrictCorr.v and Model/DomainHistCorr.v check functions"]
HEADER = ("From Coq Require Import List QArith Bool ZArith.\nFrom LV Require Import Model.Restrict Model.Samplers Model.RestrictCorr.\n"
          "Open Scope Q_scope.")
HIST_HEADER = ("From Coq Require Import List QArith Bool ZArith.\nFrom LV Require Import Model.Restrict Model.Samplers Model.RestrictCorr "
               "Model.DomainHist Model.DomainHistCorr.\nOpen Scope Q_scope.")


# ------------------------------------------------------------------------------------------ implementation access
def _lib():
  from libsigopt.aux import geometry_utils, samplers
  from libsigopt.compute import domain
  return domain, samplers, geometry_utils


def make_domain(bounds, cons):
  dm, _, _ = _lib()
  d = dm.ContinuousDomain(numpy.array(bounds, dtype=float))
  if cons:
    d.set_constraint_list([dict(weights=numpy.array(w, dtype=float), rhs=float(r)) for w, r in cons])
  return d


def wrap_fixed(d, fixed):
  if not fixed:
    return d
  dm, _, _ = _lib()
  return dm.FixedIndicesOnContinuousDomain(d, {int(k): float(v) for k, v in fixed})


class Script:
  """Scripted numpy.random: queues of prepared return values, consumed in call order; records the calls."""

  def __init__(self, random=None, uniform=None, normal=None, shuffle=None, rand=None, pattern=None, fall_seed=None, us=None):
    self.us, self.used = (None if us is None else list(us)), 0
    self.q = dict(random=list(random or []), uniform=list(uniform or []), normal=list(normal or []), shuffle=list(shuffle or []),
                  rand=list(rand or []))
    self.pattern, self.pos = pattern, 0
    self.calls = []
    self.fall = numpy.random.RandomState(fall_seed) if fall_seed is not None else None

  def _take(self, name, shape, fall):
    self.calls.append((name, shape))
    if name == "random" and self.us is not None and shape is not None and len(shape) == 1:
      # numpy.random.random(k) inside restriction: the first k scripted uniforms, one per corrected point
      if shape[0] > len(self.us):
        raise C.TieBroken("more uniforms requested than points")
      self.used += shape[0]
      return numpy.array(self.us[:shape[0]], dtype=float)
    if self.q[name]:
      v = numpy.array(self.q[name].pop(0), dtype=float)
      return v.reshape(shape) if shape is not None else v
    if name == "random" and self.pattern is not None:
      n, dim = shape
      L = len(self.pattern)
      idx = (self.pos + numpy.arange(n)) % L
      self.pos = (self.pos + n) % L
      return numpy.array(self.pattern, dtype=float)[idx]
    if self.fall is not None:
      return fall(self.fall)
    raise C.TieBroken(f"numpy.random.{name} called more often than scripted (shape {shape})")

  @contextlib.contextmanager
  def active(self):
    nr = numpy.random
    saved = {k: getattr(nr, k) for k in ("random", "uniform", "normal", "shuffle", "rand", "randn", "choice")}
    me = self

    def random(size=None):
      shape = (size,) if isinstance(size, (int, numpy.integer)) else (tuple(size) if size is not None else None)
      return me._take("random", shape, lambda r: r.random_sample(size))

    def uniform(low=0.0, high=1.0, size=None):
      return me._take("uniform", tuple(size) if size is not None else None, lambda r: r.uniform(low, high, size))

    def normal(loc=0.0, scale=1.0, size=None):
      return me._take("normal", tuple(size) if size is not None else None, lambda r: r.normal(loc, scale, size))

    def rand(*shape):
      return me._take("rand", tuple(shape), lambda r: r.rand(*shape))

    def shuffle(x):
      me.calls.append(("shuffle", tuple(numpy.shape(x))))
      if me.q["shuffle"]:
        perm = me.q["shuffle"].pop(0)
        x[:] = numpy.array(x)[list(perm)]
        return
      if me.fall is not None:
        return me.fall.shuffle(x)
      raise C.TieBroken("numpy.random.shuffle called more often than scripted")

    def randn(*shape):
      me.calls.append(("randn", tuple(shape)))
      return (me.fall or numpy.random.RandomState(0)).randn(*shape)

    def choice(a, *args, **kw):
      me.calls.append(("choice", a if isinstance(a, (int, numpy.integer)) else None))
      return (me.fall or numpy.random.RandomState(0)).choice(a, *args, **kw)

    try:
      nr.random, nr.uniform, nr.normal, nr.shuffle, nr.rand, nr.randn, nr.choice = random, uniform, normal, shuffle, rand, randn, choice
      with warnings.catch_warnings():
        warnings.simplefilter("ignore")
        yield self
    finally:
      for k, v in saved.items():
        setattr(nr, k, v)


@contextlib.contextmanager
def record_qmcpy(rec):
  _, smp, _ = _lib()
  saved = []
  for cls in {smp.qmcpy.Sobol, smp.qmcpy.Halton}:
    orig = cls.gen_samples

    def wrapper(self, *a, __orig=orig, **k):
      r = __orig(self, *a, **k)
      rec.append(numpy.array(r, dtype=float).copy())
      return r
    saved.append((cls, orig))
    cls.gen_samples = wrapper
  try:
    with warnings.catch_warnings():
      warnings.simplefilter("ignore")
      yield
  finally:
    for cls, orig in saved:
      cls.gen_samples = orig


# ------------------------------------------------------------------------------------------ Coq printing
q = C.qlit


def pt(p):
  return C.listlit([float(x) if not isinstance(x, fractions.Fraction) else x for x in p], q)


def pts(ps):
  return C.listlit(list(ps), pt)


def domlit(bounds, cons):
  b = C.listlit(bounds, lambda lh: f"({q(lh[0])}, {q(lh[1])})")
  c = C.listlit(cons, lambda wr: f"({pt(wr[0])}, {q(wr[1])})")
  return f"(Dom {b} {c})"


def bslit(bounds):
  return C.listlit(bounds, lambda lh: f"({q(lh[0])}, {q(lh[1])})")


def fixlit(fixed):
  return C.listlit(fixed, lambda kv: f"({C.nlit(kv[0])}, {q(kv[1])})")


def hslit(A, b):
  return C.listlit(list(zip(A, b)), lambda ab: f"({pt(ab[0])}, {q(float(ab[1]))})")


# ------------------------------------------------------------------------------------------ generators (exact, structured)
def dy(rng, lo, hi, den):
  return rng.randint(int(lo * den), int(hi * den)) / den


def pow2(x):
  """a non-zero double that is plus or minus a power of two (dividing by it is exact)"""
  return x != 0 and math.frexp(abs(x))[0] == 0.5


TINY = 2.0 ** -28     # 3.7e-9: below NumPy's isclose tolerance 1e-8, above the 1e-9 under which HiGHS drops a coefficient
HUGE = 2.0 ** 27


def gen_box(rng, maxdim=4, mindim=1, allow_huge=True):
  """Box with small-integer / dyadic data at one of several scales and a strictly interior dyadic point q (sometimes next to a corner).
  `huge`: one coordinate whose range is 2^27 times that of the others - a constraint that mentions it does so with a weight of a few
  2^-28, so that weight * range is of the order of the other terms (a learning rate next to a number of steps)."""
  dim = rng.randint(mindim, maxdim)
  scale = rng.choice([0.125, 1.0, 1.0, 16.0, 1024.0])
  bounds = []
  for _ in range(dim):
    lo = rng.randint(-4, 4) * scale
    bounds.append([lo, lo + rng.randint(1, 8) * scale])
  huge = None
  if allow_huge and dim >= 2 and scale == 1.0 and rng.random() < 0.3:
    huge = rng.randrange(dim)
    lo = rng.randint(-4, 4) * HUGE
    bounds[huge] = [lo, lo + rng.randint(1, 8) * HUGE]
  corner = rng.random() < 0.25
  qpt = []
  for lo, hi in bounds:
    k = rng.choice([1, 15]) if corner else rng.randint(1, 15)
    qpt.append(lo + (hi - lo) * k / 16.0)
  return dict(bounds=bounds, q=qpt, scale=scale, huge=huge)


def gen_cons(rng, B):
  """A constraint set (possibly empty in dimension 1) around the interior point of the box B: 1-4 rows with two or more non-zero weights -
  small integers, or dyadic fractions whose absolute values sum to at most 1 (a weighted average), a tiny weight on the huge coordinate;
  thin slabs, nearly parallel faces, corners."""
  bounds, qpt, scale, huge = B["bounds"], B["q"], B["scale"], B["huge"]
  dim = len(bounds)
  cons = []
  if dim < 2:
    return cons
  style = rng.choice(["plain", "plain", "slab", "parallel"])
  wstyle = rng.choice(["int", "int", "frac", "frac", "mixed"])
  ncols = list(range(dim))
  if dim >= 3 and rng.random() < 0.5:
    ncols = sorted(rng.sample(range(dim), rng.randint(2, dim - 1)))
  if huge is not None and huge not in ncols and rng.random() < 0.7:
    ncols = sorted(ncols + [huge])

  def weight(j):
    if j == huge:
      return rng.choice([-2, -1, 0, 1, 2]) * TINY
    if wstyle == "frac" or (wstyle == "mixed" and rng.random() < 0.5):
      return rng.choice([-0.5, -0.25, -0.125, 0.0, 0.125, 0.25, 0.25, 0.5])
    return float(rng.randint(-3, 3))

  def row():
    while True:
      w = [0.0] * dim
      for j in ncols:
        w[j] = weight(j)
      if sum(1 for x in w if x) >= 2:
        return w

  def add(w, margin):
    mag = max(abs(x) for j, x in enumerate(w) if j != huge and x) if any(x for j, x in enumerate(w) if j != huge) else 1.0
    cons.append(([float(x) for x in w], sum(wi * qi for wi, qi in zip(w, qpt)) - margin * min(1.0, mag)))
  w = row()
  m = rng.choice([0.5, 1.0, 2.0, 0.0625]) * scale
  add(w, m)
  if style == "slab":
    add([-x for x in w], rng.choice([0.03125, 0.25]) * scale)
  elif style == "parallel":
    w2 = [8 * x for x in w]
    j = rng.choice([j for j in ncols if j != huge] or ncols)
    w2[j] += 1
    if sum(1 for x in w2 if x) >= 2:
      add(w2, 8 * m)
  for _ in range(rng.randint(0, 2)):
    add(row(), rng.choice([0.25, 1.0, 4.0]) * scale)
  return cons


def gen_domain(rng, constrained=None, maxdim=4):
  """Box and one constraint set. Returns dict(bounds, cons, q, free, scale, huge) with free = unconstrained columns."""
  B = gen_box(rng, maxdim, allow_huge=constrained is not False)   # (the unit-cube samplers compare coordinates near 0 to an absolute 1e-9)
  if constrained is None:
    constrained = rng.random() < 0.8
  cons = gen_cons(rng, B) if constrained else []
  free = [j for j in range(len(B["bounds"])) if all(w[j] == 0 for w, _ in cons)]
  return dict(bounds=B["bounds"], cons=cons, q=B["q"], free=free, scale=B["scale"], huge=B["huge"])


def gen_points(rng, D, n):
  """inside / interior point / on a constraint face / box corners / on box faces / far outside"""
  out = []
  b, cons, sc = D["bounds"], D["cons"], D["scale"]
  for _ in range(n):
    kind = rng.choice(["in", "q", "face", "corner", "boxface", "far", "out", "out"])
    if kind == "in":
      p = [lo + (hi - lo) * rng.randint(0, 16) / 16.0 for lo, hi in b]
    elif kind == "q":
      p = list(D["q"])
    elif kind == "corner":
      p = [rng.choice([lo, hi]) for lo, hi in b]
    elif kind == "boxface":
      p = [lo + (hi - lo) * rng.randint(0, 16) / 16.0 for lo, hi in b]
      j = rng.randrange(len(b))
      p[j] = rng.choice(b[j])
    elif kind == "far":
      p = [rng.choice([-1, 1]) * rng.randint(50, 1000) * sc for _ in b]
    elif kind == "face" and cons:
      w, r = rng.choice(cons)
      p = [lo + (hi - lo) * rng.randint(0, 16) / 16.0 for lo, hi in b]
      js = [j for j, x in enumerate(w) if pow2(x) and abs(x) >= 0.125]
      if js:
        j = rng.choice(js)
        rest = sum(w[i] * p[i] for i in range(len(p)) if i != j)
        p[j] = (r - rest) / w[j]
    else:
      p = [lo + (hi - lo) * rng.randint(-16, 32) / 16.0 for lo, hi in b]
    out.append([float(x) for x in p])
  return out


def face_point(rng, D):
  """The interior point D['q'] moved onto a face of the box (or kept when that leaves the constrained region): a feasible
  point at which one of the half-spaces is active."""
  for _ in range(6):
    p = list(D["q"])
    j = rng.randrange(len(p))
    p[j] = float(D["bounds"][j][rng.randrange(2)])
    if all(sum(wi * xi for wi, xi in zip(w, p)) >= r for w, r in D["cons"]):
      return p
  return list(D["q"])


def gen_fixed(rng, D):
  if not D["free"] or rng.random() < 0.6:
    return []
  ks = rng.sample(D["free"], rng.randint(1, min(2, len(D["free"]))))
  return [[k, D["bounds"][k][0] + (D["bounds"][k][1] - D["bounds"][k][0]) * rng.randint(0, 8) / 8.0] for k in sorted(ks)]


def gen_case(rng):
  kind = rng.choices(["restrict", "near", "cube", "qmc", "lhs", "rej", "hit", "grid", "spec", "chebylp", "chebyreal"],
                     weights=[34, 12, 6, 6, 10, 2, 3, 7, 6, 8, 6])[0]
  if kind == "restrict":
    D = gen_domain(rng)
    n = rng.randint(1, 7)
    vk = rng.choice(["none", "none", "q", "pt", "corner", "far", "face", "face", "nearface", "nearface"])
    vp = None if vk == "none" else (D["q"] if vk == "q" else gen_points(rng, D, 1)[0])
    if vk == "corner":
      vp = [float(rng.choice(lh)) for lh in D["bounds"]]
    points = gen_points(rng, D, n)
    if vk in ("face", "nearface"):
      # viable point on a constraint face (acceptable, hence pushed toward the centre) and a point beyond that face;
      # "nearface": strictly inside but within / just beyond the 1e-8 boundary tolerance of the face (2^-27 < 1e-8 < 2^-26)
      vp = list(D["q"])
      cand = [(w, r, j) for w, r in D["cons"] for j, x in enumerate(w) if pow2(x) and abs(x) >= 0.125]
      if cand:
        w, r, j = rng.choice(cand)
        vp[j] = (r - sum(w[i] * vp[i] for i in range(len(vp)) if i != j)) / w[j]
        points[0] = [vi - wi * rng.randint(1, 3) * D["scale"] / 4 for vi, wi in zip(vp, w)]
        if vk == "nearface":
          moved = vp[j] + w[j] * 2.0 ** -rng.choice([22, 25, 26, 27, 28, 30, 34, 40])
          if fractions.Fraction(moved) != fractions.Fraction(vp[j]):
            vp[j] = moved
    return kind, dict(bounds=D["bounds"], cons=D["cons"], points=points, viable=vp, on=rng.random() < 0.4,
                      us=[rng.randint(0, 63) / 64.0 for _ in range(n)], fixed=gen_fixed(rng, D))
  if kind == "near":
    D = gen_domain(rng)
    n = rng.randint(1, 5)
    center = D["q"] if rng.random() < 0.5 else gen_points(rng, D, 1)[0]
    return kind, dict(bounds=D["bounds"], cons=D["cons"], point=center, on=rng.random() < 0.4,
                      zs=[[rng.randint(-32, 32) / 16.0 for _ in D["bounds"]] for _ in range(n)],
                      us=[rng.randint(0, 63) / 64.0 for _ in range(n)], fixed=gen_fixed(rng, D), std=rng.choice([0.25, 1.0]),
                      seed=rng.randrange(10**6))
  if kind == "cube":
    D = gen_domain(rng, constrained=False)
    n = rng.randint(0, 6)
    return kind, dict(bounds=D["bounds"], rows=[[rng.randint(0, 63) / 64.0 for _ in D["bounds"]] for _ in range(n)], via=rng.choice(["direct", "domain"]))
  if kind == "qmc":
    D = gen_domain(rng, constrained=False)
    opts = dict(sampler=rng.choice(["sobol", "halton"]))
    if rng.random() < 0.6:
      opts["skip"] = rng.choice([0, 1, 5, 64])
    if rng.random() < 0.7:
      opts["seed"] = rng.randrange(1000)
    return kind, dict(bounds=D["bounds"], n=rng.randint(1, 8), opts=opts)
  if kind == "lhs":
    D = gen_domain(rng, constrained=False)
    n = rng.randint(1, 7)
    dim = len(D["bounds"])
    return kind, dict(bounds=D["bounds"], n=n, U=[[(1.0 / n) * rng.randint(1, 15) / 16.0 for _ in range(dim)] for _ in range(n)],
                      perms=[rng.sample(range(n), n) for _ in range(dim)], via=rng.choice(["direct", "direct_opts", "domain"]),
                      skip=rng.randint(0, 9), seed=rng.choice([None, 0, 7, rng.randrange(10 ** 6)]))
  if kind == "rej":
    D = gen_domain(rng, constrained=True, maxdim=3)
    while not D["cons"]:
      D = gen_domain(rng, constrained=True, maxdim=3)
    L = rng.randint(3, 9)
    pat = [[rng.randint(0, 15) / 16.0 for _ in D["bounds"]] for _ in range(L)]
    pat[rng.randrange(L)] = [(qi - lo) / (hi - lo) for qi, (lo, hi) in zip(D["q"], D["bounds"])]
    return kind, dict(bounds=D["bounds"], cons=D["cons"], num=rng.choice([1, 3, 7, 20]), pattern=pat)
  if kind == "hit":
    D = gen_domain(rng, constrained=True, maxdim=3)
    while not D["cons"]:
      D = gen_domain(rng, constrained=True, maxdim=3)
    num = rng.randint(2, 6)
    total = 35 * (len(D["bounds"]) + 1) + num
    x0 = rng.choice(["q", "cheby", "face"])
    return kind, dict(bounds=D["bounds"], cons=D["cons"], num=num, x0="q" if x0 != "cheby" else "cheby", q=D["q"] if x0 != "face" else face_point(rng, D),
                      us=[rng.randint(1, 63) / 64.0 for _ in range(total)], seed=rng.randrange(10**6))
  if kind == "grid":
    D = gen_domain(rng, constrained=False, maxdim=3)
    dim = len(D["bounds"])
    style = rng.choice(["scalar", "list", "list", "zero", "empty"])
    ppd = rng.randint(1, 4) if style == "scalar" else ([] if style == "empty" else [rng.randint(1, 4) for _ in range(dim)])
    if style == "zero":
      ppd[rng.randrange(dim)] = 0
    return kind, dict(bounds=D["bounds"], ppd=ppd, via=rng.choice(["direct", "domain"]))
  if kind == "spec":
    D = gen_domain(rng, constrained=True)
    return kind, dict(bounds=D["bounds"], cons=D["cons"], n=rng.randint(1, 6), force=rng.random() < 0.6, fixed=gen_fixed(rng, D), seed=rng.randrange(10**6))
  if kind == "chebylp":
    dim = rng.randint(1, 3)
    m = rng.randint(1, 5)
    hs = []
    for _ in range(m):
      a = [rng.randint(-4, 4) for _ in range(dim)]
      if rng.random() < 0.3:
        a = rng.choice([[3, 4, 0], [0, 5, 12], [1, 0, 0], [8, 15, 0]])[:dim]
      hs.append([float(x) for x in a] + [float(rng.randint(-5, 5))])
    success = rng.random() < 0.75
    return kind, dict(halfspaces=hs, success=success, status=rng.choice([0, 0, 2, 1, 4]),
                      sol=[rng.randint(-8, 8) / 4.0 for _ in range(dim)] + [rng.choice([0.0, 1e-9, 1e-8, 2e-8, 0.5, 3.0, 9.999e-9])])
  D = gen_domain(rng, constrained=True)
  degenerate = rng.random() < 0.3 and D["cons"]
  cons = list(D["cons"])
  if degenerate:
    w, r = cons[0]
    cons.append(([-x for x in w], -r + rng.choice([0.0, 1.0]) * D["scale"]))   # zero-width slab or empty set
  return "chebyreal", dict(bounds=D["bounds"], cons=cons)


# ------------------------------------------------------------------------------------------ histories on one live domain object
def gen_queries(rng, B, cons, k):
  """k operations that leave the constraint set alone: queries, the hit-and-run flag, constrained sampling"""
  out = []
  D = dict(bounds=B["bounds"], cons=cons, q=B["q"], scale=B["scale"])
  dim = len(B["bounds"])
  for _ in range(k):
    op = rng.choice(["restrict", "restrict", "near", "uncon", "fixok", "accept", "sample", "force"])
    if op == "restrict":
      n = rng.randint(1, 4)
      vk = rng.choice(["none", "none", "q", "pt", "corner"])
      vp = None if vk == "none" else (list(B["q"]) if vk == "q" else gen_points(rng, D, 1)[0])
      if vk == "corner":
        vp = [float(rng.choice(lh)) for lh in B["bounds"]]
      out.append(dict(op="restrict", points=gen_points(rng, D, n), viable=vp, on=rng.random() < 0.4, us=[rng.randint(0, 63) / 64.0 for _ in range(n)]))
    elif op == "near":
      n = rng.randint(1, 3)
      out.append(dict(op="near", point=list(B["q"]), on=rng.random() < 0.4, zs=[[rng.randint(-32, 32) / 16.0 for _ in range(dim)] for _ in range(n)],
                      us=[rng.randint(0, 63) / 64.0 for _ in range(n)], std=rng.choice([0.25, 1.0]), seed=rng.randrange(10 ** 6)))
    elif op == "uncon":
      out.append(dict(op="uncon"))
    elif op == "fixok":
      ks = rng.sample(range(dim), rng.randint(1, min(2, dim)))
      fx = []
      for j in sorted(ks):
        lo, hi = B["bounds"][j]
        fx.append([j, rng.choice([lo, hi, lo + (hi - lo) * rng.randint(0, 8) / 8.0, lo + (hi - lo) * rng.randint(0, 8) / 8.0, hi + (hi - lo)])])
      out.append(dict(op="fixok", fixed=fx))
    elif op == "accept":
      out.append(dict(op="accept", x=gen_points(rng, D, 1)[0]))
    elif op == "force":
      out.append(dict(op="force", value=rng.random() < 0.6))
    elif cons:
      out.append(dict(op="sample", n=rng.randint(1, 4), seed=rng.randrange(10 ** 6)))
  return out


def gen_hist(rng):
  """One box, 1-3 constraint sets in a row on the same domain object (all around the same interior point, so each is feasible), handed over
  as a new list, as the SAME list object re-filled in place, or as the same list whose entries were edited in place; now and then the
  constraints are cleared in between; queries after every set; now and then an infeasible set at the end (it must be refused)."""
  B = gen_box(rng, maxdim=4, mindim=2)
  steps, cons = [], []
  nsets = rng.randint(1, 3)
  for k in range(nsets):
    if k > 0 and rng.random() < 0.15:
      cons = []
      steps.append(dict(op="set", cons=[], how=rng.choice(["fresh", "same"]), feasible=True))
      steps += gen_queries(rng, B, cons, rng.randint(1, 2))
    cons = gen_cons(rng, B)
    steps.append(dict(op="set", cons=cons, how="fresh" if k == 0 else rng.choice(["fresh", "same", "same", "edit", "edit"]), feasible=True))
    steps += gen_queries(rng, B, cons, rng.randint(1, 4))
  if rng.random() < 0.2:
    w, r = cons[0]
    bad = list(cons) + [([-x for x in w], -r + rng.choice([0.0, 1.0]) * B["scale"])]     # zero-width slab or empty set
    steps.append(dict(op="set", cons=bad, how=rng.choice(["fresh", "same", "edit"]), feasible=False))
  return dict(bounds=B["bounds"], q=B["q"], steps=steps)


def run_hist(inp, probe=False):
  """Run the operations on ONE ContinuousDomain; one observation per operation (the run stops after a set_constraint_list that raised).
  probe: after an `uncon` / accepted `fixok` observation that lists a coordinate some current constraint gives a non-zero weight, also
  return the points the forced hit-and-run branch / the fixed wrapper hand out (for the independent oracle)."""
  dm, smp, geo = _lib()
  d = dm.ContinuousDomain(numpy.array(inp["bounds"], dtype=float))
  dim = len(inp["bounds"])
  L = []                         # the caller's list object
  cons_now, obs = [], []

  def entry(c):
    return dict(weights=numpy.array(c[0], dtype=float), rhs=float(c[1]))
  for st in inp["steps"]:
    op = st["op"]
    if op == "set":
      new = [entry(c) for c in st["cons"]]
      if st["how"] == "fresh":
        L = list(new)
      elif st["how"] == "same":
        L[:] = new
      else:                      # edit the entries the domain already holds, append / drop the rest
        for i, e in enumerate(new):
          if i < len(L):
            L[i]["weights"], L[i]["rhs"] = e["weights"], e["rhs"]
          else:
            L.append(e)
        del L[len(new):]
      try:
        with warnings.catch_warnings():
          warnings.simplefilter("ignore")
          d.set_constraint_list(L)
        raised = False
      except AssertionError:
        raised = True
      cons_now = list(st["cons"])
      obs.append(dict(op="set", raised=raised, centre=None if d._cheby_center is None else numpy.asarray(d._cheby_center, dtype=float).tolist()))
      if raised:
        break
    elif op == "force":
      d.force_hitandrun_sampling = bool(st["value"])
      obs.append(dict(op="force"))
    elif op == "restrict":
      P = numpy.array(st["points"], dtype=float)
      P0 = P.copy()
      vp = None if st["viable"] is None else numpy.array(st["viable"], dtype=float)
      vp0 = None if vp is None else vp.copy()
      sc = Script(us=st["us"]) if "us" in st else Script(fall_seed=st["seed"])
      with sc.active():
        out = d.restrict_points_to_domain(P, st["on"], vp)
      obs.append(dict(op="restrict", out=numpy.asarray(out).tolist(), used=sc.used,
                      inputs_unchanged=bool((P == P0).all() and (vp is None or (vp == vp0).all()))))
    elif op == "near":
      n = st["n"] if "n" in st else len(st["zs"])
      pt0 = numpy.array(st["point"], dtype=float)
      sc = Script(normal=[st["zs"]], us=st["us"], fall_seed=st["seed"]) if "zs" in st else Script(fall_seed=st["seed"])
      with sc.active():
        out = d.generate_random_points_near_point(n, pt0, st["std"], st["on"])
      obs.append(dict(op="near", out=numpy.asarray(out).tolist(), fellback=not any(c[0] == "normal" for c in sc.calls),
                      inputs_unchanged=bool((pt0 == numpy.array(st["point"], dtype=float)).all())))
    elif op == "accept":
      obs.append(dict(op="accept", value=bool(d.check_point_acceptable(numpy.array(st["x"], dtype=float)))))
    elif op == "uncon":
      idx = [int(i) for i in d.one_hot_unconstrained_indices]
      o = dict(op="uncon", idx=idx)
      if probe and any(any(float(c[0][j]) != 0.0 for c in cons_now) for j in idx):
        o["probe"] = _probe_forced(d, st.get("seed", 0))
      obs.append(o)
    elif op == "fixok":
      fx = {int(k): float(v) for k, v in st["fixed"]}
      try:
        w = dm.FixedIndicesOnContinuousDomain(d, fx)
        ok = True
      except AssertionError:
        ok = False
      o = dict(op="fixok", accepted=ok)
      if probe and ok and cons_now and any(any(float(c[0][j]) != 0.0 for c in cons_now) for j in fx):
        state = numpy.random.get_state()
        numpy.random.seed(st.get("seed", 0))
        try:
          with warnings.catch_warnings():
            warnings.simplefilter("ignore")
            pts = numpy.array([inp["q"]] + [[lo + (hi - lo) * t for lo, hi in inp["bounds"]] for t in (0.0, 0.5, 1.0)], dtype=float)
            o["probe"] = numpy.asarray(w.restrict_points_to_domain(pts)).tolist()
        finally:
          numpy.random.set_state(state)
      obs.append(o)
    elif op == "sample":
      rec = {}
      real = (dm.generate_hitandrun_random_points, dm.generate_uniform_random_points_rejection_sampling_with_hitandrun_padding,
              dm.generate_uniform_random_points)

      def spy_hit(num, x0, A, b, __f=real[0]):
        out = __f(num, x0, A, b)
        rec.update(kind="hit", A=numpy.array(A, dtype=float).tolist(), b=numpy.array(b, dtype=float).tolist(),
                   x0=numpy.array(x0, dtype=float).tolist(), raw=numpy.array(out, dtype=float).tolist(), ok=True)
        return out

      def spy_pad(num, bounds, A, b, x0=None, __f=real[1]):
        out, ok = __f(num, bounds, A, b, x0)
        rec.update(kind="pad", A=numpy.array(A, dtype=float).tolist(), b=numpy.array(b, dtype=float).tolist(), box=numpy.array(bounds, dtype=float).tolist(),
                   x0=[] if x0 is None else numpy.array(x0, dtype=float).tolist(), raw=numpy.array(out, dtype=float).tolist(), ok=bool(ok))
        return out, ok

      def spy_unif(num, bounds, *a, __f=real[2], **k):
        out = __f(num, bounds, *a, **k)
        rec.update(vals=numpy.array(out, dtype=float).reshape(num, -1).tolist(), box=numpy.array(bounds, dtype=float).reshape(-1, 2).tolist())
        return out
      forced = bool(d.force_hitandrun_sampling)
      state = numpy.random.get_state()
      numpy.random.seed(st["seed"])
      (dm.generate_hitandrun_random_points, dm.generate_uniform_random_points_rejection_sampling_with_hitandrun_padding,
       dm.generate_uniform_random_points) = spy_hit, spy_pad, spy_unif
      try:
        with warnings.catch_warnings():
          warnings.simplefilter("ignore")
          out = d.generate_quasi_random_points_in_domain(st["n"])
      finally:
        (dm.generate_hitandrun_random_points, dm.generate_uniform_random_points_rejection_sampling_with_hitandrun_padding,
         dm.generate_uniform_random_points) = real
        numpy.random.set_state(state)
      if "kind" not in rec:
        raise C.TieBroken("the constrained branch of generate_quasi_random_points_in_domain called neither the hit-and-run sampler nor rejection sampling with padding")
      obs.append(dict(op="sample", forced=forced, branch=rec["kind"], A=rec["A"], b=rec["b"], x0=rec["x0"], box=rec.get("box", []), raw=rec["raw"], ok=rec["ok"],
                      vals=rec.get("vals", [[] for _ in rec["raw"]]), out=numpy.asarray(out, dtype=float).tolist(), force_after=bool(d.force_hitandrun_sampling)))
    else:
      raise ValueError(op)
  return obs


def _probe_forced(d, seed):
  flag, state = d.force_hitandrun_sampling, numpy.random.get_state()
  numpy.random.seed(seed)
  d.force_hitandrun_sampling = True
  try:
    with warnings.catch_warnings():
      warnings.simplefilter("ignore")
      return numpy.asarray(d.generate_quasi_random_points_in_domain(24), dtype=float).tolist()
  finally:
    d.force_hitandrun_sampling = flag
    numpy.random.set_state(state)


def hist_case(inp, obs):
  """The Coq term of one history: (operation, observation) pairs for Model/DomainHistCorr.v."""
  dim = len(inp["bounds"])
  pairs = []
  for st, o in zip(inp["steps"], obs):
    op = st["op"]
    if op == "set":
      cl = C.listlit(st["cons"], lambda wr: f"({pt(wr[0])}, {q(wr[1])})")
      c = o["centre"] if (o["centre"] is not None and st["cons"]) else []
      pairs.append(f"(DSet {cl} {pt(c)} {C.blit(not o['raised'])}, {'BErr' if o['raised'] else 'BNone'})")
    elif op == "force":
      pairs.append(f"(DForce {C.blit(st['value'])}, BNone)")
    elif op == "restrict":
      pairs.append(f"(DRestrict {C.optlit(st['viable'], pt)} {C.blit(st['on'])} {pt(st['us'])} {pts(st['points'])}, BPts {pts(o['out'])} {C.nlit(o['used'])})")
    elif op == "near":
      pairs.append(f"(DNear {pt(st['point'])} {C.blit(st['on'])} {pts(st['zs'])} {pt(st['us'])}, BNear {pts(o['out'])} {C.blit(o['fellback'])})")
    elif op == "accept":
      pairs.append(f"(DAccept {pt(st['x'])}, BBool {C.blit(o['value'])})")
    elif op == "uncon":
      pairs.append(f"(DUncon, BIdx {C.listlit(o['idx'], C.nlit)})")
    elif op == "fixok":
      pairs.append(f"(DFixOk {fixlit(st['fixed'])}, BBool {C.blit(o['accepted'])})")
    elif op == "sample":
      pairs.append(f"(DSample {C.nlit(st['n'])} {pts(o['raw'])} {C.blit(o['ok'])} {pts(o['vals'])}, "
                   f"BSample {C.blit(o['branch'] == 'hit')} {hslit(o['A'], o['b'])} {pt(o['x0'])} {bslit(o['box'])} {pts(o['out'])} {C.blit(o['force_after'])})")
  return f"CHist {bslit(inp['bounds'])} {C.listlit(pairs)}"


def hist_branch(inp, obs):
  tags = set()
  first = True
  for st, o in zip(inp["steps"], obs):
    if st["op"] == "set":
      tags.add("hist:set:" + ("first" if first else st["how"]) + (":cleared" if not st["cons"] else "") + (":refused" if o["raised"] else ""))
      first = False
    elif st["op"] == "sample":
      tags.add("hist:sample:" + o["branch"])
    else:
      tags.add("hist:" + st["op"])
  return sorted(tags)


def judge_hist(inp, obs):
  """Independent oracle on one history: every point handed out lies in the box and satisfies the constraints of the LATEST
  set_constraint_list (plain-Python membership); a feasible set is accepted, an empty / zero-width one refused."""
  bounds = inp["bounds"]
  cons = []

  def bad_row(rows):
    for row in rows:
      if not all(math.isfinite(x) for x in row) or not region_ok(bounds, cons, row):
        return row
    return None
  for k, (st, o) in enumerate(zip(inp["steps"], obs)):
    op = st["op"]
    where = dict(history=inp)
    if op == "set":
      cons = [(list(c[0]), float(c[1])) for c in st["cons"]]
      how = "new list" if st["how"] == "fresh" else "same list object, edited in place"
      if o["raised"] and st["feasible"]:
        if mixed_scales(bounds):
          return refused_feasible("history", where, bounds, dict(step=k, how=how))
        return _fail("history", where, "set_constraint_list refused a feasible constraint set", dict(step=k, how=how), "accepted")
      if not o["raised"] and not st["feasible"]:
        return _fail("history", where, "an empty or zero-width constraint set was accepted on a live domain", dict(step=k, how=how), "AssertionError from set_constraint_list")
    elif op in ("restrict", "near", "sample"):
      if o.get("inputs_unchanged") is False:
        return _fail("history", where, "a caller-owned input array was modified", dict(step=k, op=op), "inputs left alone")
      r = bad_row(o["out"])
      if r is not None:
        return _fail("history", where, f"{op}: point outside the region of the constraints set last", dict(step=k, point=r), "inside bounds and the current constraints (1e-9)")
      want = len(st["points"]) if op == "restrict" else (st["n"] if "n" in st else len(st["zs"]))
      if len(o["out"]) != want:
        return _fail("history", where, f"{op}: wrong number of points", dict(step=k, got=len(o["out"])), want)
      if op == "restrict":
        for p, x in zip(st["points"], o["out"]):
          if strictly_inside(bounds, cons, p) and list(p) != list(x):
            return _fail("history", where, "strictly feasible point changed by projection", dict(step=k, point=p, out=x), p)
    elif op in ("uncon", "fixok") and o.get("probe") is not None:
      r = bad_row(o["probe"])
      if r is not None:
        what = ("forced hit-and-run sampling redraws a constrained coordinate: point outside the region" if op == "uncon"
                else "a fixed-coordinate wrapper admitted for a constrained coordinate returns a point outside the region")
        return _fail("history", where, what, dict(step=k, point=r), "inside bounds and the current constraints (1e-9)")
  return None


def halfspace_matrix(bounds, cons):
  dim = len(bounds)
  rows = [[-x for x in w] + [r] for w, r in cons]
  for j, (lo, hi) in enumerate(bounds):
    rows.append([-1.0 if i == j else 0.0 for i in range(dim)] + [lo])
  for j, (lo, hi) in enumerate(bounds):
    rows.append([1.0 if i == j else 0.0 for i in range(dim)] + [-hi])
  return numpy.array(rows, dtype=float)


# ------------------------------------------------------------------------------------------ run the implementation
def run_impl(kind, inp):
  """Returns the observable output of the implementation as plain python data."""
  dm, smp, geo = _lib()
  if kind == "restrict":
    d = make_domain(inp["bounds"], inp["cons"])
    w = wrap_fixed(d, inp["fixed"])
    P = numpy.array(inp["points"], dtype=float)
    P0 = P.copy()
    vp = None if inp["viable"] is None else numpy.array(inp["viable"], dtype=float)
    vp0 = None if vp is None else vp.copy()
    sc = Script(us=inp["us"])
    with sc.active():
      out = w.restrict_points_to_domain(P, inp["on"], vp)
    used = [sc.used]
    return dict(out=numpy.asarray(out).tolist(), used=used[0], center=None if d._cheby_center is None else d._cheby_center.tolist(),
                inputs_unchanged=bool((P == P0).all() and (vp is None or (vp == vp0).all())))
  if kind == "near":
    d = make_domain(inp["bounds"], inp["cons"])
    w = wrap_fixed(d, inp["fixed"])
    n = len(inp["zs"])
    sc = Script(normal=[inp["zs"]], us=inp["us"], fall_seed=inp["seed"])
    with sc.active():
      out = w.generate_random_points_near_point(n, numpy.array(inp["point"], dtype=float), inp["std"], inp["on"])
    fell = not any(c[0] == "normal" for c in sc.calls)
    return dict(out=numpy.asarray(out).tolist(), fellback=fell, center=None if d._cheby_center is None else d._cheby_center.tolist())
  if kind == "cube":
    B = numpy.array(inp["bounds"], dtype=float)
    n = len(inp["rows"])
    sc = Script(random=[inp["rows"]] if n else [])
    with sc.active():
      if inp["via"] == "direct":
        out = smp.generate_uniform_random_points(n, B)
      else:
        d = make_domain(inp["bounds"], [])
        d.set_quasi_random_sampler_opts(dict(sampler="uniform"))
        out = d.generate_quasi_random_points_in_domain(n)
    return dict(out=numpy.asarray(out).tolist())
  if kind == "qmc":
    d = make_domain(inp["bounds"], [])
    d.set_quasi_random_sampler_opts(dict(inp["opts"]))
    rec = []
    with record_qmcpy(rec):
      out = d.generate_quasi_random_points_in_domain(inp["n"])
    if len(rec) != 1:
      raise C.TieBroken(f"expected one qmcpy gen_samples call, saw {len(rec)}")
    return dict(out=numpy.asarray(out).tolist(), rows=rec[0].tolist())
  if kind == "lhs":
    B = numpy.array(inp["bounds"], dtype=float)
    sc = Script(uniform=[inp["U"]], shuffle=list(inp["perms"]))
    with sc.active():
      if inp["via"] == "direct":
        out = smp.generate_latin_hypercube_points(inp["n"], B)
      elif inp["via"] == "direct_opts":   # the sampler options skip / seed do not change which draws the strata use
        out = smp.generate_latin_hypercube_points(inp["n"], B, skip=inp.get("skip", 0), seed=inp.get("seed"))
      else:
        out = make_domain(inp["bounds"], []).generate_quasi_random_points_in_domain(inp["n"])
    shapes = [c for c in sc.calls if c[0] == "shuffle"]
    return dict(out=numpy.asarray(out).tolist(), shuffles=[list(s[1]) for s in shapes])
  if kind == "rej":
    d = make_domain(inp["bounds"], inp["cons"])
    sc = Script(pattern=inp["pattern"])
    with sc.active():
      out = d.generate_quasi_random_points_in_domain(inp["num"])
    return dict(out=numpy.asarray(out).tolist(), ok=not d.force_hitandrun_sampling, nblocks=sum(1 for c in sc.calls if c[0] == "random"))
  if kind == "hit":
    d = make_domain(inp["bounds"], inp["cons"])
    A, b = d._halfspaces[:, :-1], -d._halfspaces[:, -1]
    x0 = numpy.array(inp["q"], dtype=float) if inp["x0"] == "q" else d._cheby_center
    sc = Script(rand=[inp["us"]], fall_seed=inp["seed"])
    with sc.active():
      out = smp.generate_hitandrun_random_points(inp["num"], x0, A, b)
    return dict(out=numpy.asarray(out).tolist(), A=A.tolist(), b=b.tolist())
  if kind == "grid":
    B = numpy.array(inp["bounds"], dtype=float)
    if inp["via"] == "direct":
      out = smp.generate_grid_points(inp["ppd"], B)
    else:
      out = make_domain(inp["bounds"], []).generate_grid_points_in_domain(inp["ppd"])
    return dict(out=numpy.asarray(out).tolist())
  if kind == "spec":
    d = make_domain(inp["bounds"], inp["cons"])
    d.force_hitandrun_sampling = bool(inp["force"])
    w = wrap_fixed(d, inp["fixed"])
    st = numpy.random.get_state()
    numpy.random.seed(inp["seed"])
    try:
      with warnings.catch_warnings():
        warnings.simplefilter("ignore")
        out = w.generate_quasi_random_points_in_domain(inp["n"])
    finally:
      numpy.random.set_state(st)
    return dict(out=numpy.asarray(out).tolist())
  if kind == "chebylp":
    H = numpy.array(inp["halfspaces"], dtype=float)
    rec = {}

    class Res:
      pass

    def fake(c, A_ub=None, b_ub=None, bounds=None, method=None, **kw):
      rec.update(c=numpy.array(c).tolist(), A=numpy.array(A_ub).tolist(), b=numpy.array(b_ub).tolist(), bounds=list(bounds), method=method, extra=sorted(kw))
      r = Res()
      r.success, r.status, r.x = inp["success"], inp["status"], numpy.array(inp["sol"], dtype=float)
      return r
    saved = geo.linprog
    geo.linprog = fake
    try:
      H0 = H.copy()
      center, radius, feas = geo.find_interior_point(H)
    finally:
      geo.linprog = saved
    dim = H.shape[1] - 1
    return dict(lp=rec, center=None if center is None else numpy.asarray(center).tolist(), radius=float(radius), flag=bool(feas),
                bounds_ok=rec.get("bounds") == [(None, None)] * dim + [(0, None)] and not rec.get("extra"), inputs_unchanged=bool((H == H0).all()))
  if kind == "chebyreal":
    H = halfspace_matrix(inp["bounds"], inp["cons"])
    with warnings.catch_warnings():
      warnings.simplefilter("ignore")
      center, radius, feas = geo.find_interior_point(H)
    return dict(center=None if center is None else numpy.asarray(center).tolist(), radius=float(radius), flag=bool(feas), H=H.tolist())
  raise ValueError(kind)


def coq_case(kind, inp, out):
  if kind in ("restrict", "near", "rej", "spec"):
    d = domlit(inp["bounds"], inp["cons"])
  if kind == "restrict":
    c = out["center"] if out["center"] is not None else [0.0] * len(inp["bounds"])
    return (f"CRestrict {d} {pt(c)} {C.optlit(inp['viable'], pt)} {C.blit(inp['on'])} {pt(inp['us'])} {pts(inp['points'])} "
            f"{fixlit(inp['fixed'])} {pts(out['out'])} {C.nlit(out['used'])}")
  if kind == "near":
    c = out["center"] if out["center"] is not None else [0.0] * len(inp["bounds"])
    return (f"CNear {d} {pt(c)} {pt(inp['point'])} {C.blit(inp['on'])} {pts(inp['zs'])} {pt(inp['us'])} {fixlit(inp['fixed'])} "
            f"{pts(out['out'])} {C.blit(out['fellback'])}")
  if kind == "cube":
    return f"CCube true {bslit(inp['bounds'])} {pts(inp['rows'])} {pts(out['out'])}"
  if kind == "qmc":
    return f"CCube false {bslit(inp['bounds'])} {pts(out['rows'])} {pts(out['out'])}"
  if kind == "lhs":
    perms = C.listlit(inp["perms"], lambda p: C.listlit(p, C.nlit))
    return f"CLhs {bslit(inp['bounds'])} {C.nlit(inp['n'])} {pts(inp['U'])} {perms} {pts(out['out'])}"
  if kind == "rej":
    return f"CRej {d} {C.nlit(inp['num'])} {C.nlit(out['nblocks'])} {pts(inp['pattern'])} {pts(out['out'])} {C.blit(out['ok'])}"
  if kind == "hit":
    dim = len(inp["bounds"])
    us = inp["us"][35 * (dim + 1) + 1:]
    return f"CHit {hslit(out['A'], out['b'])} {pt(us)} {pts(out['out'])}"
  if kind == "grid":
    ppd = inp["ppd"] if isinstance(inp["ppd"], list) else [inp["ppd"]]
    return f"CGrid {bslit(inp['bounds'])} {C.listlit(ppd, C.nlit)} {pts(out['out'])}"
  if kind == "spec":
    return f"CSpec {d} {fixlit(inp['fixed'])} {pts(out['out'])}"
  if kind == "chebylp":
    H = inp["halfspaces"]
    hs = hslit([r[:-1] for r in H], [-r[-1] for r in H])
    lp = out["lp"]
    return (f"CChebyLP {hs} {pt(lp['c'])} {pts(lp['A'])} {pt(lp['b'])} {C.blit(inp['success'])} {C.zlit(inp['status'])} {pt(inp['sol'])} "
            f"{C.optlit(out['center'], pt)} {q(out['radius'])} {C.blit(out['flag'])}")
  if kind == "chebyreal":
    H = out["H"]
    hs = hslit([r[:-1] for r in H], [-r[-1] for r in H])
    c = out["center"] if out["center"] is not None else []
    return f"CChebyReal {hs} {pt(c)} {q(out['radius'])} {C.blit(out['flag'])}"
  raise ValueError(kind)


def region_ok(bounds, cons, x, rel=1e-9):
  """Independent membership test (plain Python): inside the bounds and weights . x >= rhs, with a rounding allowance."""
  for (lo, hi), xi in zip(bounds, x):
    t = rel * max(1.0, abs(lo), abs(hi))
    if not (lo - t <= xi <= hi + t):
      return False
  for w, r in cons:
    s = math.fsum(wi * xi for wi, xi in zip(w, x))
    t = rel * max(1.0, abs(r), math.fsum(abs(wi * xi) for wi, xi in zip(w, x)))
    if s < r - t:
      return False
  return True


def strictly_inside(bounds, cons, x, rel=1e-6):
  for (lo, hi), xi in zip(bounds, x):
    if not (lo <= xi <= hi):
      return False
  for w, r in cons:
    s = math.fsum(wi * xi for wi, xi in zip(w, x))
    if s <= r + rel * max(1.0, abs(r), math.fsum(abs(wi * xi) for wi, xi in zip(w, x))):
      return False
  return True


def nontrivial(kind, inp, out):
  if kind == "restrict":
    return bool(inp["cons"]) and any(a != b for a, b in zip(inp["points"], out["out"]))
  if kind == "near":
    return not out["fellback"] and bool(inp["cons"])
  if kind in ("cube", "qmc", "lhs", "grid"):
    return len(out["out"]) >= 2
  if kind == "chebylp":
    return True
  return bool(out.get("out") or out.get("flag"))


def branch(kind, inp, out):
  if kind == "restrict":
    moved = sum(1 for a, b in zip(inp["points"], out["out"]) if a != b)
    return f"restrict:{'cons' if inp['cons'] else 'box'}:{'on' if inp['on'] else 'rand'}:viable={'none' if inp['viable'] is None else 'given'}:{'fixed' if inp['fixed'] else 'plain'}:{'moved' if moved else 'kept'}"
  if kind == "near":
    return f"near:{'fallback' if out['fellback'] else 'restricted'}"
  if kind == "qmc":
    return f"qmc:{inp['opts']['sampler']}:{'skip' if 'skip' in inp['opts'] else 'noskip'}"
  if kind == "chebylp":
    return f"chebylp:{'ok' if inp['success'] else 'fail'}:status{inp['status']}:{'feasible' if out['flag'] else 'infeasible'}"
  if kind == "chebyreal":
    return f"chebyreal:{'feasible' if out['flag'] else 'infeasible'}"
  if kind == "rej":
    return f"rej:blocks{out['nblocks']}"
  if kind in ("cube", "lhs", "grid"):
    return f"{kind}:{inp['via']}"
  return kind


def correspondence(ctx):
  n = ctx.n(420, 6000)
  cases, meta, seen, dist, dis = [], [], set(), {}, []
  nontriv = 0
  for _ in range(n):
    kind, inp = gen_case(ctx.rng)
    try:
      out = run_impl(kind, inp)
    except C.TieBroken as e:
      dis.append(dict(what=f"C08 correspondence ({kind}): the scripted run no longer matches the code's use of its random sources: {e}", kind=kind, input=inp, observed=str(e)))
      continue
    except Exception as e:
      if isinstance(e, AssertionError) and kind != "chebyreal" and inp.get("cons") and mixed_scales(inp["bounds"]):
        dist["skipped:mixed-scales-set-refused"] = dist.get("skipped:mixed-scales-set-refused", 0) + 1    # see refused_feasible
        continue
      dis.append(dict(what=f"C08 correspondence ({kind}): implementation raised {type(e).__name__}: {e}", kind=kind, input=inp, observed=repr(e)))
      continue
    if out.get("inputs_unchanged") is False:
      dis.append(dict(what=f"C08 correspondence ({kind}): a caller-owned input array was modified", kind=kind, input=inp, observed=out))
    if out.get("bounds_ok") is False:
      dis.append(dict(what="C08 correspondence (chebylp): variable bounds / extra arguments handed to linprog changed", kind=kind, input=inp, observed=out))
    if kind == "lhs" and any(len(s) != 1 for s in out["shuffles"]):
      dis.append(dict(what="C08 correspondence (lhs): shuffle applied to whole rows, not to each dimension on its own", kind=kind, input=inp, observed=out))
    cases.append(coq_case(kind, inp, out))
    meta.append((kind, inp, out))
    b = branch(kind, inp, out)
    dist[b] = dist.get(b, 0) + 1
    h = C.canon_hash([kind, inp])
    if h not in seen and nontrivial(kind, inp, out):
      nontriv += 1
    seen.add(h)
  bad = C.run_cases("C08", HEADER, "case", "check", cases, shard=30)
  for i in bad:
    k, inp, out = meta[i]
    dis.append(dict(what=f"C08 correspondence case {i} ({k}): implementation output differs from Model.Restrict / Model.Samplers or fails its specification",
                    kind=k, input=inp, observed=out))
  # histories on one live domain object against the state machine of Model/DomainHist.v
  hcases, hmeta = [], []
  for _ in range(ctx.n(80, 1200)):
    inp = gen_hist(ctx.rng)
    try:
      obs = run_hist(inp)
    except C.TieBroken as e:
      dis.append(dict(what=f"C08 correspondence (hist): {e}", kind="hist", input=inp, observed=str(e)))
      continue
    except Exception as e:
      dis.append(dict(what=f"C08 correspondence (hist): implementation raised {type(e).__name__}: {e}", kind="hist", input=inp, observed=repr(e)))
      continue
    if any(o.get("inputs_unchanged") is False for o in obs):
      dis.append(dict(what="C08 correspondence (hist): a caller-owned input array was modified", kind="hist", input=inp, observed=obs))
    hcases.append(hist_case(inp, obs))
    hmeta.append((inp, obs))
    for b in hist_branch(inp, obs):
      dist[b] = dist.get(b, 0) + 1
    h = C.canon_hash(["hist", inp])
    if h not in seen and sum(1 for st in inp["steps"] if st["op"] == "set") >= 2:
      nontriv += 1
    seen.add(h)
  for i in C.run_cases("C08h", HIST_HEADER, "DomainHistCorr.case", "DomainHistCorr.check", hcases, shard=12):
    inp, obs = hmeta[i]
    dis.append(dict(what=f"C08 correspondence history {i}: a live domain object answers differently from Model.DomainHist (the constraints set last) or leaves their region",
                    kind="hist", input=inp, observed=obs))
  n += len(hcases)
  return dict(evaluations=n, distinct_nontrivial=nontriv,
              rule="boxes of 1-4 dimensions at scales 1/8..1024 with dyadic data; 0-4 integer-weight constraints (>= 2 non-zero weights) around an interior "
                   "dyadic point: thin slabs, nearly parallel faces, corners, unconstrained columns; points inside / on faces / corners / far outside; viable "
                   "point none / interior / boundary / infeasible; on_constraint both ways; scripted uniforms k/64, normals k/16, permutations, cyclic candidate "
                   "blocks, recorded qmcpy rows, scripted and real LP solver; non-trivial = a constrained restriction that moved a point, a restricted "
                   "perturbation, >= 2 sampled points, any LP case; distinct by hash of the canonical input; weights are small integers, dyadic fractions "
                   "with absolute row sum <= 1, or a few 2^-28 on a coordinate whose range is 2^27 times the others'; HISTORIES on one live domain object: 1-3 "
                   "constraint sets in a row (new list / the same list object re-filled or edited in place / cleared / an infeasible one), queries, the "
                   "hit-and-run flag and constrained sampling (what is handed to the sampler is compared) in between; non-trivial = at least two sets",
              samples=[dict(kind=k, input=i, impl_output=o) for k, i, o in meta[:3]], distribution=dist, disagreements=dis)


# ------------------------------------------------------------------------------------------ independent oracle (searcher)
def real_box(rng, maxdim=6):
  """Real-valued box over many scales with an interior point (sometimes next to a corner).  A quarter of the boxes mix coordinate scales:
  one or more coordinates range over 1e3 / 1e6 / 2e8 times the width of the others (constraints then carry correspondingly small weights)."""
  dim = rng.randint(2, maxdim)
  scale = 10.0 ** rng.randint(-3, 5)
  ratio = [1.0] * dim
  if rng.random() < 0.25:
    scale = 1.0
    for j in rng.sample(range(dim), rng.randint(1, dim - 1)):
      ratio[j] = rng.choice([1e3, 1e6, 2e8, 2e8])
  bounds = []
  for j in range(dim):
    lo = rng.uniform(-5, 5) * scale * ratio[j]
    bounds.append([lo, lo + rng.uniform(0.1, 10) * scale * ratio[j]])
  if rng.random() < 1.0 / 6:
    qp = [lo + (hi - lo) * rng.choice([0.02, 0.98]) for lo, hi in bounds]
  else:
    qp = [lo + (hi - lo) * rng.uniform(0.1, 0.9) for lo, hi in bounds]
  return dict(bounds=bounds, q=qp, scale=scale, ratio=ratio)


def real_weight(rng, B, j, frac=False):
  """a non-zero weight for coordinate j: of order 1 (0.02 .. 0.3 when frac: absolute row sums at most 1), divided by the coordinate's scale
  ratio (never below 2e-9: HiGHS drops LP coefficients of 1e-9 and less)"""
  r = B["ratio"][j]
  if r > 1e7:
    return rng.choice([-1, 1]) * rng.uniform(0.4, 2.0) / r
  return rng.choice([-1, 1]) * rng.uniform(0.2, 3) * (0.1 if frac and r == 1.0 else 1.0) / r


def real_cons(rng, B, style=None):
  """1-4 constraints with >= 2 non-zero real weights around the interior point of B (the point keeps a known distance from every face)."""
  bounds, qp, scale = B["bounds"], B["q"], B["scale"]
  dim = len(bounds)
  cons = []
  style = style or rng.choice(["plain", "plain", "slab", "parallel"])
  frac = rng.random() < 0.3

  def row():
    w = [0.0] * dim
    for j in rng.sample(range(dim), rng.randint(2, dim)):
      w[j] = real_weight(rng, B, j, frac)
    return w

  def add(w, margin):
    nrm = math.sqrt(sum((x * r) ** 2 for x, r in zip(w, B["ratio"])))
    cons.append((w, sum(wi * qi for wi, qi in zip(w, qp)) - margin * nrm))
  w = row()
  m = rng.uniform(0.01, 0.5) * scale
  add(w, m)
  if style == "slab":
    add([-x for x in w], rng.uniform(0.001, 0.05) * scale)
  if style == "parallel":
    add([x * (1 + rng.uniform(-1e-3, 1e-3)) for x in w], m)
  for _ in range(rng.randint(0, 2)):
    add(row(), rng.uniform(0.01, 1) * scale)
  return cons


def real_domain(rng, maxdim=6):
  """A box and (five times out of six) one constraint set."""
  B = real_box(rng, maxdim)
  style = rng.choice(["none", "plain", "plain", "slab", "parallel", "plain"])
  cons = [] if style == "none" else real_cons(rng, B, style)
  return dict(bounds=B["bounds"], cons=cons, q=B["q"], scale=B["scale"], ratio=B["ratio"])


def real_points(rng, D, n):
  out = []
  for _ in range(n):
    k = rng.random()
    if k < 0.3:
      out.append([lo + (hi - lo) * rng.random() for lo, hi in D["bounds"]])
    elif k < 0.4:
      out.append(list(D["q"]))
    elif k < 0.55:
      out.append([rng.choice([lo, hi]) for lo, hi in D["bounds"]])
    elif k < 0.75:
      out.append([rng.choice([-1, 1]) * rng.uniform(10, 1e4) * D["scale"] * r for r in D["ratio"]])
    else:
      out.append([lo + (hi - lo) * rng.uniform(-1, 2) for lo, hi in D["bounds"]])
  return out


def real_queries(rng, B, cons, k):
  out = []
  D = dict(bounds=B["bounds"], cons=cons, q=B["q"], scale=B["scale"], ratio=B["ratio"])
  dim = len(B["bounds"])
  for _ in range(k):
    op = rng.choice(["restrict", "restrict", "near", "uncon", "fixok", "sample", "sample", "force"])
    seed = rng.randrange(2 ** 31)
    if op == "restrict":
      vk = rng.random()
      out.append(dict(op="restrict", points=real_points(rng, D, rng.randint(1, 8)), viable=None if vk < 0.5 else (list(B["q"]) if vk < 0.7 else real_points(rng, D, 1)[0]),
                      on=rng.random() < 0.4, seed=seed))
    elif op == "near":
      out.append(dict(op="near", point=list(B["q"]), n=rng.randint(1, 8), std=10.0 ** rng.randint(-3, 1), on=rng.random() < 0.4, seed=seed))
    elif op == "uncon":
      out.append(dict(op="uncon", seed=seed))
    elif op == "fixok":
      fx = []
      for j in sorted(rng.sample(range(dim), rng.randint(1, min(2, dim)))):
        lo, hi = B["bounds"][j]
        fx.append([j, lo + (hi - lo) * rng.choice([0.0, 0.25, 1.0, rng.random()])])
      out.append(dict(op="fixok", fixed=fx, seed=seed))
    elif op == "force":
      out.append(dict(op="force", value=rng.random() < 0.6))
    elif cons:
      out.append(dict(op="sample", n=rng.randint(1, 10), seed=seed))
  return out


def real_hist(rng):
  """Searcher counterpart of gen_hist: real-valued constraint sets replaced on one live domain (new list / same list object re-filled or
  edited in place / cleared), an infeasible set now and then (at any position: it must be refused), queries after every set."""
  B = real_box(rng, maxdim=5)
  steps, cons = [], []
  for k in range(rng.randint(2, 3)):
    if k > 0 and rng.random() < 0.12:
      cons = []
      steps.append(dict(op="set", cons=[], how=rng.choice(["fresh", "same"]), feasible=True))
      steps += real_queries(rng, B, cons, 1)
    if k > 0 and rng.random() < 0.15:
      base = cons or real_cons(rng, B)
      w, r = base[0]
      gap = rng.choice([0.0, rng.uniform(1e-3, 1) * B["scale"] * math.sqrt(sum((x * t) ** 2 for x, t in zip(w, B["ratio"])))])
      steps.append(dict(op="set", cons=list(base) + [([-x for x in w], -r + gap)], how=rng.choice(["fresh", "same", "edit"]), feasible=False))
      break
    cons = real_cons(rng, B)
    steps.append(dict(op="set", cons=cons, how="fresh" if k == 0 else rng.choice(["fresh", "same", "same", "edit", "edit"]), feasible=True))
    steps += real_queries(rng, B, cons, rng.randint(1, 4))
  return dict(bounds=B["bounds"], q=B["q"], steps=steps)


def gen_search(rng):
  kind = rng.choices(["restrict", "near", "sampler", "sampler_cons", "lhs", "grid", "direct", "cheby", "cheby_bad", "fixed_cons", "history"],
                     weights=[30, 12, 12, 10, 8, 5, 12, 10, 7, 6, 12])[0]
  if kind == "history":
    return kind, dict(history=real_hist(rng))
  D = real_domain(rng)
  if kind == "fixed_cons":
    # a fixed-coordinate wrapper asked to fix SEVERAL coordinates of a constrained domain, a constrained one among them in any position of the
    # dict: it must either refuse (the library asserts that fixed coordinates are unconstrained) or still return points that satisfy everything
    while not D["cons"] or len(D["bounds"]) < 2:
      D = real_domain(rng)
    dim = len(D["bounds"])
    ks = rng.sample(range(dim), rng.randint(2, min(3, dim)))
    con_idx = [j for j in range(dim) if any(w[j] != 0 for w, _ in D["cons"])]
    if con_idx and not any(k in con_idx for k in ks):
      ks[rng.randrange(len(ks))] = rng.choice(con_idx)
    ks = list(dict.fromkeys(ks))
    fx = [[k, D["bounds"][k][0] + (D["bounds"][k][1] - D["bounds"][k][0]) * rng.choice([0.0, 0.25, 0.5, 1.0, rng.random()])] for k in ks]
    return kind, dict(bounds=D["bounds"], cons=D["cons"], seed=rng.randrange(2**31), fixed=fx, n=rng.randint(1, 8), point=D["q"], std=0.3 * D["scale"])
  inp = dict(bounds=D["bounds"], cons=D["cons"], seed=rng.randrange(2**31))
  free = [j for j in range(len(D["bounds"])) if all(w[j] == 0 for w, _ in D["cons"])]
  fixed = []
  if free and rng.random() < 0.3:
    k = rng.choice(free)
    fixed = [[k, D["bounds"][k][0] + (D["bounds"][k][1] - D["bounds"][k][0]) * rng.random()]]
  if kind == "restrict":
    vk = rng.random()
    vp = None if vk < 0.4 else (D["q"] if vk < 0.55 else real_points(rng, D, 1)[0])
    points = real_points(rng, D, rng.randint(1, 12))
    if vk > 0.8 and D["cons"]:
      # viable point on a constraint face (projection of the interior point), and a point beyond that face
      w, r = rng.choice(D["cons"])
      t = (sum(wi * qi for wi, qi in zip(w, D["q"])) - r) / sum(wi * wi for wi in w)
      vp = [qi - t * wi for qi, wi in zip(D["q"], w)]
      points[0] = [vi - wi * rng.uniform(0.01, 1) * D["scale"] for vi, wi in zip(vp, w)]
      if rng.random() < 0.5:   # strictly inside, within rounding distance ... 1e-9 of the face (inside the 1e-8 boundary tolerance)
        back = 10.0 ** -rng.randint(9, 15) * max(1.0, max(abs(v) for v in vp))
        nw = math.sqrt(sum(wi * wi for wi in w))
        vp = [vi + back * wi / nw for vi, wi in zip(vp, w)]
    inp.update(points=points, viable=vp, on=rng.random() < 0.4, fixed=fixed)
  elif kind == "near":
    inp.update(point=D["q"] if rng.random() < 0.6 else real_points(rng, D, 1)[0], n=rng.randint(1, 10), std=10.0 ** rng.randint(-3, 1),
               on=rng.random() < 0.4, fixed=fixed)
  elif kind == "sampler":
    opts = dict(sampler=rng.choice(["latin_hypercube", "halton", "sobol", "uniform"]))
    if rng.random() < 0.5:
      opts["skip"] = rng.randint(0, 100)
    if rng.random() < 0.5:
      opts["seed"] = rng.randrange(10**6)
    inp.update(cons=[], opts=opts, n=rng.randint(0, 20), fixed=[])
    if rng.random() < 0.3:   # log-uniform sampling (hyperparameter search): strictly positive bounds over several decades
      lo = [10.0 ** rng.uniform(-8, 2) for _ in inp["bounds"]]
      inp.update(bounds=[[l, l * 10.0 ** rng.uniform(0.01, 6)] for l in lo], log_sample=True)
  elif kind == "sampler_cons":
    if not D["cons"]:
      kind = "sampler"
      inp.update(opts=dict(sampler="latin_hypercube"), n=rng.randint(0, 20), fixed=[])
    else:
      inp.update(n=rng.randint(1, 15), force=rng.random() < 0.5, fixed=fixed)
      if rng.random() < 0.3 and D["scale"] >= 0.5:
        # a slab through the interior point so thin that the DOMAIN's rejection sampling gives up (or finds part of the points): the rows come from
        # the hit-and-run padding the domain asks for, and the next call goes straight to hit-and-run (two calls are made)
        dim = len(D["bounds"])
        w = [rng.choice([-1, 1]) * rng.uniform(0.5, 2) / D["ratio"][j] if j < 2 or rng.random() < 0.5 else 0.0 for j in range(dim)]
        r = sum(wi * qi for wi, qi in zip(w, D["q"]))
        half = rng.uniform(1.5e-7, 6e-7) * max(abs(x * t) for x, t in zip(w, D["ratio"]))
        inp.update(cons=list(D["cons"]) + [(w, r - half), ([-x for x in w], -r - half)], thin=half, force=False, fixed=[])
      # the sampler option is set on constrained domains as well (it must not take precedence over the constraints)
      if rng.random() < 0.5:
        o = dict(sampler=rng.choice(["latin_hypercube", "uniform", "halton", "sobol"]))
        if rng.random() < 0.5:
          o["skip"] = rng.randint(0, 100)
        if rng.random() < 0.5:
          o["seed"] = rng.randrange(10**6)
        inp["opts"] = o
  elif kind == "lhs":
    inp.update(cons=[], n=rng.choice([1, 2, 5, 12, 13, 20, 31]), lhs_opts=rng.choice([None, dict(skip=rng.randint(0, 20), seed=rng.choice([None, 3, rng.randrange(10 ** 6)]))]))
  elif kind == "grid":
    dim = len(D["bounds"])
    inp.update(bounds=D["bounds"][:3], cons=[], ppd=rng.choice([rng.randint(0, 4), [rng.randint(1, 4) for _ in range(min(3, dim))]]))
    if rng.random() < 0.6:
      # bounds that are not dyadic (two decimals, any scale), more levels: lo + k * step rounds, the last level must still BE the upper bound (C08_m14)
      sc = 10.0 ** rng.randint(-3, 4)
      inp["bounds"] = [sorted([round(rng.uniform(-9, 9), 2) * sc, round(rng.uniform(-9, 9), 2) * sc + 0.01 * sc]) for _ in inp["bounds"]]
      k = len(inp["bounds"])
      inp["ppd"] = rng.choice([rng.randint(2, 9), [rng.randint(1, 9) for _ in range(k)]])
  elif kind == "direct":
    inp.update(which=rng.choice(["uniform", "sobol", "halton", "lhs", "rejection", "padding", "padding", "hitandrun"]), n=rng.randint(1, 12),
               q=D["q"] if rng.random() < 0.6 else face_point(rng, D),   # the chain may start on a face of the polytope
               skip=rng.randint(0, 50), qseed=rng.randrange(10**6))
    if inp["which"] == "padding":
      # the padding fallback: rejection sampling must give up (or find only part of the points) for it to run at all, so some of the
      # polytopes carry a slab through the interior point q so thin that the default number of trials finds (almost) nothing; the start of
      # the chain is then the caller's interior point, or omitted (the sampler computes a Chebyshev centre of its own)
      inp["x0_given"] = rng.random() < 0.5
      if rng.random() < 0.75 and D["scale"] >= 0.5:   # (an inscribed radius below 1e-8 is "degenerate" for the library: keep the slab above it)
        dim = len(D["bounds"])
        w = [rng.choice([-1, 1]) * rng.uniform(0.5, 2) / D["ratio"][j] if j < 2 or rng.random() < 0.5 else 0.0 for j in range(dim)]
        r = sum(wi * qi for wi, qi in zip(w, D["q"]))
        half = rng.uniform(1.5e-7, 6e-7) * max(abs(x * t) for x, t in zip(w, D["ratio"]))
        inp.update(cons=list(D["cons"]) + [(w, r - half), ([-x for x in w], -r - half)], q=D["q"], thin=half)
  elif kind == "cheby":
    inp.update(q=D["q"])
  elif kind == "cheby_bad":
    dim = len(D["bounds"])
    w = [rng.choice([-1, 1]) * rng.uniform(0.4, 2) / D["ratio"][j] if j < 2 or rng.random() < 0.5 else 0.0 for j in range(dim)]
    r = sum(wi * qi for wi, qi in zip(w, D["q"]))
    gap = rng.choice([0.0, 0.0, rng.uniform(1e-3, 1) * D["scale"]])          # zero-width slab, or empty by `gap`
    inp.update(cons=list(D["cons"]) + [(w, r), ([-x for x in w], -r + gap)], gap=gap)
  return kind, inp


MIXED_SIG = "C08:mixed-scales:chebyshev-lp-solved-inaccurately"
THIN_MIXED_SIG = "C08:mixed-scales:hit-and-run-leaves-a-thin-slab"


def mixed_scales(bounds):
  """coordinate ranges differing by 1e5 or more"""
  ws = [hi - lo for lo, hi in bounds if hi > lo]
  return bool(ws) and max(ws) >= 1e5 * min(ws)


def lp_inaccurate(kind, inp, bounds, what, observed, expected, oracle="independent dual-simplex solve of the Chebyshev LP"):
  """The library's verdict on a FEASIBLE set falls short of the optimum of the Chebyshev LP: the set is refused (feasible = False / AssertionError
  from set_constraint_list), or the reported radius is not maximal.  On boxes whose coordinate ranges differ by five or more orders of magnitude
  this happens on the UNCHANGED tree: find_interior_point solves the LP with HiGHS' interior-point method, which on such badly scaled LPs stops
  early or declares them infeasible (the simplex methods solve them).  Both outcomes are safe - a refused set hands out no point, a smaller ball
  is still inside the polytope (that, and the centre being strictly inside, stay hard clauses) - so on such boxes they are reported under ONE
  exact signature, and only once that signature is registered in KNOWN_FINDINGS.json (until then: void).  Elsewhere they are failures."""
  if mixed_scales(bounds):
    if any(f.get("signature") == MIXED_SIG for f in C.load_findings()):
      return dict(signature=MIXED_SIG, what="mixed coordinate scales: " + what, input=dict(kind=kind, **inp), observed=observed, expected=expected, oracle=oracle)
    return None
  return _fail(kind, inp, what, observed, expected, oracle)


def refused_feasible(kind, inp, bounds, observed):
  return lp_inaccurate(kind, inp, bounds, "feasible set reported infeasible", observed, "feasible = True")


def _fail(kind, inp, what, observed, expected, oracle="direct membership test in plain Python"):
  return dict(signature=f"C08:{kind}:{what}", what=f"{kind}: {what}", input=dict(kind=kind, **inp), observed=observed, expected=expected, oracle=oracle)


def cheby_reference(H):
  """Independent solve of the Chebyshev LP (dual simplex, own LP assembly)."""
  from scipy.optimize import linprog
  H = numpy.asarray(H, dtype=float)
  A = H[:, :-1]
  nrm = numpy.sqrt((A * A).sum(axis=1))
  res = linprog(numpy.r_[numpy.zeros(A.shape[1]), -1.0], A_ub=numpy.c_[A, nrm], b_ub=-H[:, -1],
                bounds=[(None, None)] * A.shape[1] + [(0, None)], method="highs-ds")
  return (res.x[:-1], float(res.x[-1])) if res.status == 0 else (None, None)


def oracle_hist(inp):
  """a history on one live domain object (searcher / replay): run it with the property-level probes switched on and judge it"""
  try:
    obs = run_hist(inp, probe=True)
  except Exception as e:
    return _fail("history", dict(history=inp), f"raises:{type(e).__name__}", repr(e), "a result")
  return judge_hist(inp, obs)


def oracle(kind, inp):
  if kind == "history":
    return oracle_hist(inp["history"])
  dm, smp, geo = _lib()
  bounds, cons = inp["bounds"], inp["cons"]
  st = numpy.random.get_state()
  numpy.random.seed(inp["seed"] % (2**32))
  try:
    with warnings.catch_warnings():
      warnings.simplefilter("ignore")
      if cons and kind != "cheby_bad" and mixed_scales(bounds):
        H = halfspace_matrix(bounds, cons)
        if not geo.find_interior_point(H.copy())[2] and (cheby_reference(H)[1] or 0.0) >= 1e-7:
          return refused_feasible(kind, inp, bounds, "feasible = False")
      return _oracle(kind, inp, dm, smp, geo, bounds, cons)
  except AssertionError as e:
    if kind == "cheby_bad":
      return None
    return _fail(kind, inp, "raises:AssertionError", repr(e), "a result")
  except Exception as e:
    return _fail(kind, inp, f"raises:{type(e).__name__}", repr(e), "a result")
  finally:
    numpy.random.set_state(st)


def _check_points(kind, inp, out, n_expected, bounds, cons, fixed=()):
  out = numpy.asarray(out, dtype=float)
  if n_expected is not None and out.shape != (n_expected, len(bounds)):
    return _fail(kind, inp, "wrong number or shape of points", list(out.shape), [n_expected, len(bounds)])
  for row in out.tolist():
    if not all(math.isfinite(x) for x in row) or not region_ok(bounds, cons, row):
      return _fail(kind, inp, "point outside the constrained region", row, "inside bounds and constraints (1e-9)")
    for k, v in fixed:
      if row[k] != v:
        return _fail(kind, inp, "fixed coordinate not kept", row, [k, v])
  return None


def _oracle(kind, inp, dm, smp, geo, bounds, cons):
  B = numpy.array(bounds, dtype=float)
  if kind in ("cheby", "cheby_bad"):
    H = halfspace_matrix(bounds, cons)
    center, radius, feas = geo.find_interior_point(H.copy())
    ref_x, ref_r = cheby_reference(H)
    scale = max(1.0, float(numpy.abs(H).max()))
    if kind == "cheby_bad":
      if feas:
        return _fail(kind, inp, "empty or zero-width set reported feasible", dict(radius=float(radius)), "feasible = False")
      try:   # ... and the domain that is handed such a constraint set refuses it (it does not go on with a "centre" on a face)
        make_domain(bounds, cons)
      except AssertionError:
        return None
      return _fail(kind, inp, "a domain was built on an empty or zero-width constraint set", None, "AssertionError from set_constraint_list")
    if not feas:
      return refused_feasible(kind, inp, bounds, dict(radius=float(radius)))
    A, b = H[:, :-1], -H[:, -1]
    nrm = numpy.sqrt((A * A).sum(axis=1))
    slack = b - A @ center
    if (slack < radius * nrm - 1e-7 * scale).any() or radius < 0:
      return _fail(kind, inp, "reported ball is not inside the polytope", dict(center=center.tolist(), radius=float(radius)), "a_i.x + r|a_i| <= b_i")
    if ref_r is not None and radius < ref_r - 1e-6 * max(1.0, ref_r):
      r = lp_inaccurate(kind, inp, bounds, "reported radius is not maximal", dict(radius=float(radius)), dict(reference_radius=ref_r), "independent dual-simplex solve")
      if r:
        return r
    # ball probes: points of B(center, radius) are feasible
    rs = numpy.random.RandomState(inp["seed"] % 1000)
    for _ in range(8):
      v = rs.normal(size=len(bounds))
      y = center + radius * (1 - 1e-9) * v / numpy.linalg.norm(v)
      if not region_ok(bounds, cons, y.tolist(), rel=1e-7):
        return _fail(kind, inp, "a point of the reported ball is infeasible", y.tolist(), "inside")
    return None
  if kind == "grid":
    out = smp.generate_grid_points(inp["ppd"], B)
    ppd = inp["ppd"]
    exp = 0 if (ppd == [] or (isinstance(ppd, list) and 0 in ppd) or ppd == 0) else (ppd ** len(bounds) if not isinstance(ppd, list) else math.prod(ppd))
    r = _check_points(kind, inp, out, exp, bounds, [])
    if r or exp == 0:
      return r
    # the grid is EXACTLY inside the box (no tolerance: nothing is computed that could round outwards - the extreme levels are the bounds themselves)
    arr = numpy.asarray(out, dtype=float).reshape(exp, len(bounds))
    for j, (lo, hi) in enumerate(bounds):
      n_j = ppd[j] if isinstance(ppd, list) else ppd
      col = arr[:, j]
      if float(col.min()) < lo or float(col.max()) > hi:
        return _fail(kind, inp, "grid: a level lies outside the bounds (by rounding)", dict(dim=j, min=float(col.min()), max=float(col.max())), [lo, hi])
      if float(col.min()) != lo or (n_j >= 2 and float(col.max()) != hi):
        return _fail(kind, inp, "grid: the extreme levels are not the bounds", dict(dim=j, min=float(col.min()), max=float(col.max())), [lo, hi])
      if hi > lo and len(set(col.tolist())) != n_j:
        return _fail(kind, inp, "grid: number of distinct levels", dict(dim=j, levels=len(set(col.tolist()))), n_j)
    return None
  if kind == "lhs":
    n = inp["n"]
    out = numpy.asarray(smp.generate_latin_hypercube_points(n, B, **(inp.get("lhs_opts") or {})))
    r = _check_points(kind, inp, out, n, bounds, [])
    if r:
      return r
    strata = []
    for j, (lo, hi) in enumerate(bounds):
      s = sorted(min(n - 1, max(0, int(math.floor((x - lo) / (hi - lo) * n)))) for x in out[:, j])
      if s != list(range(n)):
        return _fail(kind, inp, "latin hypercube: a stratum is empty or doubly occupied", dict(dim=j, strata=s), "one point per stratum")
      strata.append([int(math.floor((x - lo) / (hi - lo) * n)) for x in out[:, j]])
    if n >= 12 and all(s == strata[0] for s in strata[1:]):
      return _fail(kind, inp, "latin hypercube: strata are permuted jointly across dimensions", strata[:2], "independent permutations (n! orders)")
    return None
  if kind == "direct":
    n, which = inp["n"], inp["which"]
    d = make_domain(bounds, cons)
    H = halfspace_matrix(bounds, cons)
    A, b = H[:, :-1], -H[:, -1]
    if which == "uniform":
      return _check_points(kind, inp, smp.generate_uniform_random_points(n, B), n, bounds, [])
    if which == "sobol":
      return _check_points(kind, inp, smp.generate_sobol_points(n, B, skip=inp["skip"], seed=inp["qseed"]), n, bounds, [])
    if which == "halton":
      return _check_points(kind, inp, smp.generate_halton_points(n, B, skip=inp["skip"], seed=inp["qseed"]), n, bounds, [])
    if which == "lhs":
      return _check_points(kind, inp, smp.generate_latin_hypercube_points(n, B), n, bounds, [])
    if which == "rejection":
      out, ok = smp.generate_uniform_random_points_rejection_sampling(n, B, A, b, rejection_count=20000)
      return _check_points(kind, inp, out, n if ok else None, bounds, cons)
    if which == "padding":
      x0 = numpy.array(inp["q"]) if inp.get("x0_given", True) else None
      if inp.get("thin") and (cheby_reference(H)[1] or 0.0) < 2e-8:
        return None     # degenerate for the library (inscribed radius below its 1e-8 threshold): outside "feasible set"
      if x0 is None and mixed_scales(bounds) and not geo.find_interior_point(H.copy())[2]:
        return refused_feasible(kind, inp, bounds, "the sampler's own find_interior_point: feasible = False")
      out, ok = smp.generate_uniform_random_points_rejection_sampling_with_hitandrun_padding(n, B, A, b, x0)
      return _check_points(kind, inp, out, n, bounds, cons)
    out = smp.generate_hitandrun_random_points(n, numpy.array(inp["q"]), A, b)
    return _check_points(kind, inp, out, n, bounds, cons)
  if inp.get("thin") and (cheby_reference(halfspace_matrix(bounds, cons))[1] or 0.0) < 2e-8:
    return None     # degenerate for the library (inscribed radius below its 1e-8 threshold): outside "feasible set"
  d = make_domain(bounds, cons)
  fixed = [(int(k), float(v)) for k, v in inp.get("fixed", [])]
  if kind == "fixed_cons":
    try:
      w = wrap_fixed(d, fixed)
    except AssertionError:
      return None                                   # refused: nothing is returned that could leave the region
    state = numpy.random.get_state()
    numpy.random.seed(inp["seed"] % (2 ** 32))
    try:
      d.set_quasi_random_sampler_opts(dict(sampler="uniform"))
      r = _check_points(kind, inp, w.generate_quasi_random_points_in_domain(inp["n"]), inp["n"], bounds, cons, fixed)
      r = r or _check_points(kind, inp, w.generate_random_points_near_point(inp["n"], numpy.array(inp["point"], dtype=float), inp["std"]), inp["n"], bounds, cons, fixed)
    finally:
      numpy.random.set_state(state)
    return r
  w = wrap_fixed(d, fixed)
  if kind == "sampler":
    d.set_quasi_random_sampler_opts(dict(inp["opts"]))
    if inp.get("log_sample"):   # exp(sample of the box [log lo, log hi]): inside [lo, hi] up to the rounding of log and exp
      out = numpy.asarray(d.generate_quasi_random_points_in_domain(inp["n"], log_sample=True), dtype=float)
      if out.shape != (inp["n"], len(bounds)):
        return _fail(kind, inp, "log sampling: wrong number of points", list(out.shape), [inp["n"], len(bounds)])
      for row in out:
        for x, (lo, hi) in zip(row, bounds):
          if not (lo * (1 - 1e-12) <= x <= hi * (1 + 1e-12)):
            return _fail(kind, inp, "log sampling: point outside the bounds", [float(v) for v in row], bounds)
      return None
    return _check_points(kind, inp, w.generate_quasi_random_points_in_domain(inp["n"]), inp["n"], bounds, [])
  if kind == "sampler_cons":
    d.force_hitandrun_sampling = bool(inp["force"])
    if inp.get("opts"):
      d.set_quasi_random_sampler_opts(dict(inp["opts"]))
    r = _check_points(kind, inp, w.generate_quasi_random_points_in_domain(inp["n"]), inp["n"], bounds, cons, fixed)
    if inp.get("thin") and not r:     # ... and once more on the same object (after a failed rejection run it is in hit-and-run mode)
      r = _check_points(kind, inp, w.generate_quasi_random_points_in_domain(inp["n"]), inp["n"], bounds, cons, fixed)
    if r and inp.get("thin") and mixed_scales(bounds) and "outside the constrained region" in r.get("signature", ""):
      # a registered finding of the UNCHANGED tree (thorough tier, seed 31337): on a slab of width ~1e-6 inside a box whose coordinate ranges
      # differ by five or more orders of magnitude the hit-and-run chain (started at a feasible centre) leaves the slab by ~0.05 and never
      # returns; reported under one exact signature - on boxes of one scale, or without the thin slab, a point outside stays a violation
      r = dict(r, signature=THIN_MIXED_SIG, what="mixed coordinate scales, thin slab: " + r["what"])
    return r
  if kind == "near":
    out = w.generate_random_points_near_point(inp["n"], numpy.array(inp["point"], dtype=float), inp["std"], inp["on"])
    return _check_points(kind, inp, out, inp["n"], bounds, cons, fixed)
  if kind == "restrict":
    P = numpy.array(inp["points"], dtype=float)
    P0 = P.copy()
    vp = None if inp["viable"] is None else numpy.array(inp["viable"], dtype=float)
    out = numpy.asarray(w.restrict_points_to_domain(P, inp["on"], vp))
    if not (P == P0).all():
      return _fail(kind, inp, "input points modified", P.tolist(), P0.tolist())
    r = _check_points(kind, inp, out, len(P0), bounds, cons, fixed)
    if r:
      return r
    if not fixed:
      for p, o in zip(P0.tolist(), out.tolist()):
        if strictly_inside(bounds, cons, p) and p != o:
          return _fail(kind, inp, "strictly feasible point changed by projection", dict(point=p, out=o), p)
    return None
  raise ValueError(kind)


# deterministic instance of MIXED_SIG: a slab of width 0.16 in [2.8, 5.8] x [-7e8, 6.2e8] (the interior point keeps a distance of 0.05 from both faces);
# the library's interior-point LP solve declares it infeasible (the dual simplex finds radius 0.079)
MIXED_WITNESS = dict(bounds=[[2.8148518750380545, 5.752661214128637], [-696176850.9030386, 619721278.424471]], q=[5.293953994768371, -324727485.40485626],
                     steps=[dict(op="set", cons=[[[-2.221074315602849, 3.870803265271501e-09], -13.254932750890225],
                                                 [[2.221074315602849, -3.870803265271501e-09], 12.904375745938289]], how="fresh", feasible=True)])


def search(ctx, hints, broken):
  fails, n = [], 0
  rng = ctx.rng
  r = oracle("history", dict(history=MIXED_WITNESS))     # emits MIXED_SIG (only once it is a registered known finding, see lp_inaccurate)
  n += 1
  if r:
    fails.append(r)
  for h in hints:
    if "kind" in h and "input" in h:
      n += 1
      r = hint_oracle(h["kind"], h["input"])
      if r:
        fails.append(r)
  budget = ctx.n(700, 12000) * (2 if broken else 1)
  for _ in range(budget):
    kind, inp = gen_search(rng)
    n += 1
    r = oracle(kind, inp)
    if r:
      fails.append(r)
      if len(fails) >= 3:
        break
  return dict(evaluations=n, failures=fails, oracle="plain-Python membership test; strata counting; independent dual-simplex Chebyshev solve and ball probes")


def hint_oracle(kind, inp):
  """A disagreeing correspondence case, re-judged by the independent oracle on the implementation's fresh output."""
  if kind == "hist":
    return oracle_hist(inp)
  try:
    out = run_impl(kind, inp)
  except Exception as e:
    return _fail("corr-" + kind, dict(case=inp), f"raises:{type(e).__name__}", repr(e), "a result")
  bounds, cons = inp.get("bounds"), inp.get("cons", [])
  if kind in ("restrict", "near", "rej", "spec", "cube", "qmc", "lhs", "grid", "hit"):
    for row in out["out"]:
      if not region_ok(bounds, cons, row):
        return _fail("corr-" + kind, dict(case=inp), "point outside the constrained region", row, "inside bounds and constraints (1e-9)")
    for k, v in inp.get("fixed", []) or []:
      if any(row[k] != v for row in out["out"]):
        return _fail("corr-" + kind, dict(case=inp), "fixed coordinate not kept", out["out"], [k, v])
  if kind == "restrict" and not inp["fixed"]:
    for p, o in zip(inp["points"], out["out"]):
      if strictly_inside(bounds, cons, p) and p != o:
        return _fail("corr-" + kind, dict(case=inp), "strictly feasible point changed by projection", dict(point=p, out=o), p)
  if kind == "lhs":
    n = inp["n"]
    for j, (lo, hi) in enumerate(bounds):
      s = sorted(int(math.floor((row[j] - lo) / (hi - lo) * n)) for row in out["out"])
      if s != list(range(n)):
        return _fail("corr-" + kind, dict(case=inp), "latin hypercube: a stratum is empty or doubly occupied", s, "one point per stratum")
    if any(len(s) != 1 for s in out["shuffles"]):
      return _fail("corr-" + kind, dict(case=inp), "latin hypercube: strata are permuted jointly across dimensions", out["shuffles"], "one shuffle per dimension")
  if kind == "chebylp":
    exp = bool(inp["success"] and inp["status"] != 2 and inp["sol"][-1] >= 1e-8)
    if out["flag"] != exp:
      return _fail("corr-" + kind, dict(case=inp), "feasibility flag differs from (success, status != 2, radius >= 1e-8)", out["flag"], exp)
  if kind == "chebyreal" and out["flag"]:
    H = numpy.array(out["H"])
    A, b = H[:, :-1], -H[:, -1]
    c = numpy.array(out["center"])
    if ((b - A @ c) < out["radius"] * numpy.sqrt((A * A).sum(axis=1)) - 1e-7 * max(1.0, numpy.abs(H).max())).any():
      return _fail("corr-" + kind, dict(case=inp), "reported ball is not inside the polytope", out, "a_i.x + r|a_i| <= b_i")
  return None


def replay(ctx, payload):
  inp = dict(payload["input"])
  kind = inp.pop("kind")
  if kind.startswith("corr-"):
    return hint_oracle(kind[5:], inp["case"])
  inp["cons"] = [tuple(c) for c in inp.get("cons", [])]
  return oracle(kind, inp)


LEVEL_TEXT = ("Coq theorems for all boxes, constraint sets, interior centres, viable points, flags, draws and inputs on an executable model of "
              "ContinuousDomain restriction / perturbation / fixed-index wrappers, of every sampler of aux/samplers.py and of the Chebyshev LP of "
              "find_interior_point (per-constraint multiplier lemma + convexity; strata by floor arithmetic and permutations; loop invariants for "
              "rejection and hit-and-run; Cauchy-Schwarz over finite sums for the inscribed ball); the model is tied to the code by differential runs "
              "with scripted randomness whose comparison and decidable specification are evaluated inside Coq")
LEVEL_NOTE = ("Exact arithmetic over Q; running code compared to 1e-9 relative on coordinates, exactly on counts / flags / strata / unchanged points; HiGHS optimality, "
              "qmcpy values in [0,1] and numpy generator ranges are contracts (checked on recorded outputs, LP cross-checked by the searcher); rounding at faces "
              "outside the model; harness and case printer trusted; no axioms")
TECHNIQUE = "Coq proof (convexity, induction, loop invariants) on executable model + in-Coq differential correspondence"
DESIGN_REF = "DESIGN.md section 7, C08"

# --- second build round: additions to the claimed level
LEVEL_TEXT += "; log-uniform sampling returns points inside the bounds (theorem over R)"
# --- fifth session: histories on a live domain object
LEVEL_TEXT += ("; HISTORIES on one live domain object (Model/DomainHist.v: the entry points written over the STORED half-spaces / unconstrained indices / centre / "
               "hit-and-run flag): after any sequence of set_constraint_list calls (new list, the same list object edited in place, cleared, refused), flag changes, "
               "samples and queries, every query answers what a freshly built domain with the constraints set LAST answers, hence the region clauses hold for them; the "
               "unconstrained-index list is exactly the coordinates every constraint gives weight zero; an accepted fixed-coordinate wrapper fixes only such coordinates; "
               "the constrained sampling entry point hands the sampler the full half-space system and overwrites only unconstrained columns (exact op-sequence correspondence)")
