"""C13 — Pareto frontier and epsilon-constraint thresholds are exact."""
import numpy

from lib import common as C

PROP = "C13"
PROPS_FILES = ["Props/C13.v"]
ASSUMPTIONS = [
  "exact arithmetic over Q: inputs are small integers / dyadic rationals so every double operation of the implementation is exact",
  "finite values (NaN/inf are removed by the callers before these routines)",
  "numpy.argsort is modelled as extraction of first minima; with ties at the cut the implementation is checked against the decidable specification only",
]
TRUSTED = ["tools/props/C13.py case generator and the Q-literal printer", "Model/ParetoCorr.v check function"]


def _impl():
  from libsigopt.aux.multimetric import find_pareto_frontier_observations_for_maximization as pf
  from libsigopt.compute.misc import multimetric as mm
  return pf, mm


def rows(v):
  return C.listlit([C.listlit(r, C.qlit) for r in v])


def gen_values(rng, n, m, hi):
  base = [[rng.randint(0, hi) for _ in range(m)] for _ in range(n)]
  # force duplicates and ties
  for _ in range(rng.randint(0, n // 2)):
    i, j = rng.randrange(n), rng.randrange(n)
    if rng.random() < 0.5:
      base[i] = list(base[j])
    else:
      base[i][rng.randrange(m)] = base[j][rng.randrange(m)]
  return base


def run_impl(kind, inp):
  """Run the implementation on one input; returns the observable output (python lists)."""
  pf, mm = _impl()
  vals = numpy.array(inp["vals"], dtype=float)
  if kind == "pareto":
    f, d = pf(vals, numpy.arange(len(vals)))
    return dict(front=[int(x) for x in f], dominated=[int(x) for x in d])
  if kind == "eps":
    th = tuple(inp["thresholds"])
    out = mm.find_epsilon_constraint_value(inp["eps"], inp["cm"], vals, th)
    return dict(value=float(out))
  fails = numpy.array(inp["fails"], dtype=bool)
  if kind == "epsfail":
    out = mm._create_epsilon_constraint_failures(inp["eps"], inp["cm"], vals, fails)
    return dict(mask=[bool(x) for x in out])
  if kind == "force":
    f0 = fails.copy()
    out = mm.force_minimum_successful_points(inp["om"], vals, fails)
    assert (f0 == fails).all(), "input mask modified"
    return dict(mask=[bool(x) for x in out])
  if kind == "label":
    from libsigopt.compute.misc.multimetric import MultimetricInfo, ProbabilisticFailuresParams, EPSILON_CONSTRAINT, filter_epsilon_contraint
    info = MultimetricInfo(method=EPSILON_CONSTRAINT, params=ProbabilisticFailuresParams(optimizing_metric=inp["om"], constraint_metric=inp["cm"], epsilon=inp["eps"]))
    lie = numpy.array([1e6 + 1, 1e6 + 2])
    pts = numpy.zeros((len(vals), 1))
    _, mv, _, _ = filter_epsilon_contraint(info, pts, vals, numpy.ones_like(vals), fails, lie)
    return dict(mask=[bool(x == lie[inp["om"]]) for x in mv])
  raise ValueError(kind)


def gen_case(rng):
  kind = rng.choice(["pareto", "pareto", "eps", "eps", "epsfail", "force", "label"])
  if kind == "pareto":
    n, m = rng.randint(1, 9), rng.randint(1, 3)
    return kind, dict(vals=gen_values(rng, n, m, rng.choice([1, 2, 4, 9])))
  n = rng.randint(1, 10)
  vals = gen_values(rng, n, 2, rng.choice([2, 5, 12]))
  eps = rng.randint(1, 15) / 16.0
  cm = rng.randint(0, 1)
  if kind == "eps":
    def th():
      return None if rng.random() < 0.4 else rng.randint(-2, 14) + rng.choice([0, 0.5])
    return kind, dict(vals=vals, eps=eps, cm=cm, thresholds=[th(), th()])
  fails = [rng.random() < rng.choice([0.2, 0.5, 0.9]) for _ in range(n)]
  if kind == "epsfail":
    if all(fails):
      fails[rng.randrange(n)] = False
    return kind, dict(vals=vals, eps=eps, cm=cm, fails=fails)
  if kind == "force":
    return kind, dict(vals=vals, om=cm, fails=fails)
  if all(fails):
    fails[rng.randrange(n)] = False
  return kind, dict(vals=vals, eps=eps, om=1 - cm, cm=cm, fails=fails)


def coq_case(kind, inp, out):
  v = rows(inp["vals"])
  bl = lambda l: C.listlit(l, C.blit)
  if kind == "pareto":
    return f"CPareto {v} {C.listlit(out['front'], C.nlit)} {C.listlit(out['dominated'], C.nlit)}"
  if kind == "eps":
    t0, t1 = (C.optlit(t, C.qlit) for t in inp["thresholds"])
    return f"CEps {C.qlit(inp['eps'])} {inp['cm']} {v} {t0} {t1} {C.qlit(out['value'])}"
  if kind == "epsfail":
    return f"CEpsFail {C.qlit(inp['eps'])} {inp['cm']} {v} {bl(inp['fails'])} {bl(out['mask'])}"
  if kind == "force":
    col = [r[inp["om"]] for r, f in zip(inp["vals"], inp["fails"]) if f]
    ties = len(set(col)) < len(col)
    return f"CForce {inp['om']} {v} {bl(inp['fails'])} {bl(out['mask'])} {C.blit(ties)}"
  if kind == "label":
    col = [r[inp["om"]] for r in inp["vals"]]
    ties = len(set(col)) < len(col)
    return f"CLabel {C.qlit(inp['eps'])} {inp['om']} {inp['cm']} {v} {bl(inp['fails'])} {bl(out['mask'])} {C.blit(ties)}"


def nontrivial(kind, inp, out):
  if kind == "pareto":
    return bool(out["front"]) and bool(out["dominated"])
  if kind == "eps":
    return len(inp["vals"]) >= 2
  return any(inp["fails"]) and not all(inp["fails"])


def correspondence(ctx):
  n = ctx.n(600, 12000)
  cases, meta, seen, dist = [], [], set(), {}
  nontriv = 0
  for _ in range(n):
    kind, inp = gen_case(ctx.rng)
    out = run_impl(kind, inp)
    cases.append(coq_case(kind, inp, out))
    meta.append((kind, inp, out))
    dist[kind] = dist.get(kind, 0) + 1
    h = C.canon_hash([kind, inp])
    if h not in seen and nontrivial(kind, inp, out):
      nontriv += 1
    seen.add(h)
  bad = C.run_cases("C13", "From Coq Require Import List QArith Bool.\nFrom LV Require Import Model.Pareto Model.ParetoCorr.\nOpen Scope Q_scope.",
                    "case", "check", cases)
  dis = [dict(what=f"C13 correspondence case {i} ({meta[i][0]}): implementation output differs from Model.Pareto / its specification",
              kind=meta[i][0], input=meta[i][1], observed=meta[i][2]) for i in bad]
  return dict(evaluations=n, distinct_nontrivial=nontriv,
              rule="value matrices n<=10 rows, m<=3 metrics (2 for epsilon routines), small integers with forced ties and duplicates, "
                   "dyadic epsilon k/16, thresholds inside/outside the data range; non-trivial = both a dominated and a non-dominated row "
                   "(pareto), >=2 rows (epsilon), mixed failure mask (repair); distinct by hash of the canonical input",
              samples=[dict(kind=k, input=i, impl_output=o) for k, i, o in meta[:3]], distribution=dist, disagreements=dis)


# ------------------------------------------------------------------------------------------ independent oracle


def gen_view_request(rng):
  """A two-metric request of the EI endpoint (generator of property C06) in the epsilon-constraint phase with user thresholds on none, one
  or both optimised metrics - the anchored use of the threshold 'when building failure models' (views/view.py)."""
  from lib import c06_util as U6
  for _ in range(400):
    raw = U6.gen_request(rng, wide=rng.random() < 0.5)
    if not raw["pareto"]:
      continue
    n, npend, nf = len(raw["points"]), len(raw["pending"]), sum(raw["fails"])
    raw["budget"] = max(1, int(round((n + npend) / rng.choice([0.8, 0.8, 1.2])))) + nf       # epsilon-constraint / completion phase
    vals = [r[c] for r in raw["values"] for c in raw["opt_ix"]]
    lo, hi = min(vals), max(vals)
    style = rng.choice(["both", "both", "one", "none"])
    for k, c in enumerate(raw["opt_ix"]):
      raw["thr"][c] = None
      if style == "both" or (style == "one" and k == 0):
        raw["thr"][c] = lo + (hi - lo) * rng.choice([-0.5, 0.1, 0.5, 0.9, 1.5])             # inside and outside the data range
    return raw
  return None


def oracle_view(raw):
  """C13 at its use site: the threshold given to the failure model of the constrained metric stays within the range of that metric's
  (scaled) values over the observations, whatever user thresholds are present."""
  from lib import c06_util as U6
  obs = U6.observe(raw)
  if obs.get("raised") or (obs.get("info") or {}).get("method") != "epsilon_constraint" or not obs.get("pfs"):
    return None
  info = obs["info"]
  nthr = sum(raw["thr"][c] is not None for c in raw["opt_ix"])
  cm = info["cm"]
  pf = obs["pfs"][cm] if (nthr == 2 and len(obs["pfs"]) >= 2) else obs["pfs"][0]
  col = pf["gp"]["vals"][: len(raw["points"])]          # that metric's scaled values over the observations (lies of pending points come after)
  lo, hi = min(col), max(col)
  tol = 1e-9 * max(1.0, abs(lo), abs(hi))
  if not (lo - tol <= pf["thr"] <= hi + tol):
    return dict(signature="C13:view:failure-model threshold of the constrained metric outside the range of that metric", what="view: the epsilon-constraint "
                "threshold handed to the failure model of the constrained metric is outside the range of that metric over the observations",
                input=dict(kind="view", raw=raw), observed=dict(threshold=pf["thr"], info=info), expected=[lo, hi], oracle="range of the model's own data column")
  return None


def oracle(kind, inp):
  """Direct statement of the property on the implementation's output. Returns a failure dict or None."""
  if kind == "view":
    return oracle_view(inp["raw"])
  try:
    out = run_impl(kind, inp)
  except Exception as e:
    return dict(signature=f"C13:{kind}:raises:{type(e).__name__}", what=f"{kind} raised {type(e).__name__}: {e}", input=dict(kind=kind, **inp),
                observed=repr(e), expected="a result", oracle="no exception on valid input")
  v = numpy.array(inp["vals"], dtype=float)
  n = len(v)
  def fail(what, expected):
    return dict(signature=f"C13:{kind}:{what}", what=f"{kind}: {what}", input=dict(kind=kind, **inp), observed=out, expected=expected,
                oracle="brute-force definition")
  if kind == "pareto":
    nd = [j for j in range(n) if not any((v[k] >= v[j]).all() and (v[k] > v[j]).any() for k in range(n))]
    dm = [j for j in range(n) if j not in nd]
    if out["front"] != nd or out["dominated"] != dm:
      return fail("frontier is not the set of non-dominated rows", dict(front=nd, dominated=dm))
  elif kind == "eps":
    cm, eps = inp["cm"], inp["eps"]
    col = v[:, cm]
    tol = 1e-12 * max(1.0, numpy.abs(col).max())
    if all(t is None for t in inp["thresholds"]):
      a, b = v[int(numpy.argmin(v[:, 0])), cm], v[int(numpy.argmin(v[:, 1])), cm]
      exp = (1 - eps) * min(a, b) + eps * max(a, b)
      if abs(out["value"] - exp) > tol:
        return fail("threshold without bounds is not the convex combination at the two optima", exp)
    if not (col.min() - tol <= out["value"] <= col.max() + tol):
      return fail("threshold outside the range of the constrained metric", [float(col.min()), float(col.max())])
  elif kind in ("force", "label"):
    fails = numpy.array(inp["fails"], dtype=bool)
    if kind == "label":
      succ = v[~fails]
      cm, eps = inp["cm"], inp["eps"]
      a, b = succ[int(numpy.argmin(succ[:, 0])), cm], succ[int(numpy.argmin(succ[:, 1])), cm]
      thr = (1 - eps) * min(a, b) + eps * max(a, b)
      fails = fails | (v[:, cm] >= thr)
    o = numpy.array(out["mask"], dtype=bool)
    before = int((~fails).sum())
    if len(o) != n or (o & ~fails).any():
      return fail("repair turned a success into a failure", None)
    if int((~o).sum()) != max(before, min(5, n)):
      return fail("number of successes after repair is not max(before, min(5, n))", max(before, min(5, n)))
    flipped, still = v[fails & ~o, inp["om"]], v[o, inp["om"]]
    if len(flipped) and len(still) and flipped.max() > still.min():
      return fail("a flipped row is larger than a row left failed", None)
  elif kind == "epsfail":
    fails = numpy.array(inp["fails"], dtype=bool)
    succ = v[~fails]
    cm, eps = inp["cm"], inp["eps"]
    a, b = succ[int(numpy.argmin(succ[:, 0])), cm], succ[int(numpy.argmin(succ[:, 1])), cm]
    thr = (1 - eps) * min(a, b) + eps * max(a, b)
    exp = [bool(x >= thr) for x in v[:, cm]]
    near = numpy.abs(v[:, cm] - thr) < 1e-9 * max(1.0, abs(thr))
    if any(e != o and not nr for e, o, nr in zip(exp, out["mask"], near)):
      return fail("epsilon failures are not the rows at or above the threshold", exp)
  return None


def search(ctx, hints, broken):
  fails, n = [], 0
  for h in hints:
    if "kind" in h and "input" in h:
      n += 1
      r = oracle(h["kind"], h["input"])
      if r:
        fails.append(r)
  budget = ctx.n(1500, 30000) * (3 if broken else 1)
  rng = ctx.rng
  for _ in range(budget):
    kind, inp = gen_case(rng)
    if rng.random() < 0.5:  # real-valued data of many magnitudes, larger sizes
      nrow = rng.randint(1, 40)
      m = rng.randint(1, 4) if kind == "pareto" else 2
      scale = 10.0 ** rng.randint(-6, 6)
      inp["vals"] = [[round(rng.gauss(0, 1), rng.choice([0, 1, 6])) * scale for _ in range(m)] for _ in range(nrow)]
      if "fails" in inp:
        inp["fails"] = [rng.random() < 0.6 for _ in range(nrow)]
        if kind in ("epsfail", "label") and all(inp["fails"]):
          inp["fails"][0] = False
    n += 1
    r = oracle(kind, inp)
    if r:
      fails.append(r)
      if len(fails) >= 3:
        break
  for _ in range(ctx.n(60, 800)):
    raw = gen_view_request(rng)
    if raw is None or len(fails) >= 3:
      break
    n += 1
    r = oracle("view", dict(raw=raw))
    if r and r["signature"] not in {f["signature"] for f in fails}:
      fails.append(r)
  return dict(evaluations=n, failures=fails, oracle="brute-force dominance / closed-form threshold / counting; range clause at the view's failure models")


def replay(ctx, payload):
  inp = dict(payload["input"])
  kind = inp.pop("kind")
  return oracle(kind, inp)

LEVEL_TEXT = ("Coq theorems (loop invariant + transitivity of dominance; first-minimum semantics of argmin; range of the thresholds; "
              "counting argument for the repair) on an executable model of the dominance filter, both epsilon routines and the "
              "minimum-success repair, for all value matrices, thresholds and masks; the model is tied to the code by exact "
              "differential runs whose comparison is evaluated inside Coq, and the implementation's outputs are also checked "
              "against the decidable specification proved equivalent to the theorem's statement")
LEVEL_NOTE = ("Exact arithmetic over Q (finite doubles are rationals; comparisons agree); NaN/inf excluded as in the callers; "
              "numpy.argsort tie order is not modelled (spec-level comparison on ties); harness and case printer trusted; no axioms")
TECHNIQUE = "Coq proof (loop invariant, induction) on executable model + in-Coq differential correspondence"
DESIGN_REF = "DESIGN.md section 7, C13"
