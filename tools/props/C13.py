"""C13 — Pareto frontier and epsilon-constraint thresholds are exact."""
import numpy

from lib import common as C

PROP = "C13"
PROPS_FILES = ["Props/C13.v"]
ASSUMPTIONS = [
  "exact arithmetic over Q: inputs are small integers / dyadic rationals so every double operation of the implementation is exact",
  "finite values (NaN/inf are removed by the callers before these routines)",
  "numpy.argsort is modelled as extraction of first minima; with ties at the cut the implementation is checked against the decidable specification only",
]
TRUSTED = ["tools/props/C13.py case generator and the Q-literal printer", "Model/ParetoCorr.v check function"]


def _impl():
  from libsigopt.aux.multimetric import find_pareto_frontier_observations_for_maximization as pf
  from libsigopt.compute.misc import multimetric as mm
  return pf, mm


def rows(v):
  return C.listlit([C.listlit(r, C.qlit) for r in v])


def gen_values(rng, n, m, hi):
  base = [[rng.randint(0, hi) for _ in range(m)] for _ in range(n)]
  # force duplicates and ties
  for _ in range(rng.randint(0, n // 2)):
    i, j = rng.randrange(n), rng.randrange(n)
    if rng.random() < 0.5:
      base[i] = list(base[j])
    else:
      base[i][rng.randrange(m)] = base[j][rng.randrange(m)]
  return base


def run_impl(kind, inp):
  """Run the implementation on one input; returns the observable output (python lists)."""
  pf, mm = _impl()
  vals = numpy.array(inp["vals"], dtype=float)
  if kind == "pareto":
    f, d = pf(vals, numpy.arange(len(vals)))
    return dict(front=[int(x) for x in f], dominated=[int(x) for x in d])
  if kind == "sorted_front":
    v0 = vals.copy()
    out = mm._find_sorted_pareto_frontier_values_minimization(vals)
    assert numpy.array_equal(v0, vals), "input matrix modified"
    return dict(rows=numpy.asarray(out, dtype=float).reshape(-1, vals.shape[1]).tolist())
  if kind == "eps":
    th = tuple(inp["thresholds"])
    out = mm.find_epsilon_constraint_value(inp["eps"], inp["cm"], vals, th)
    return dict(value=float(out))
  fails = numpy.array(inp["fails"], dtype=bool)
  if kind == "epsfail":
    out = mm._create_epsilon_constraint_failures(inp["eps"], inp["cm"], vals, fails)
    return dict(mask=[bool(x) for x in out])
  if kind == "force":
    f0 = fails.copy()
    out = mm.force_minimum_successful_points(inp["om"], vals, fails)
    assert (f0 == fails).all(), "input mask modified"
    return dict(mask=[bool(x) for x in out])
  if kind == "label":
    from libsigopt.compute.misc.multimetric import MultimetricInfo, ProbabilisticFailuresParams, EPSILON_CONSTRAINT, filter_epsilon_contraint
    info = MultimetricInfo(method=EPSILON_CONSTRAINT, params=ProbabilisticFailuresParams(optimizing_metric=inp["om"], constraint_metric=inp["cm"], epsilon=inp["eps"]))
    lie = numpy.array([1e6 + 1, 1e6 + 2])
    pts = numpy.zeros((len(vals), 1))
    _, mv, _, _ = filter_epsilon_contraint(info, pts, vals, numpy.ones_like(vals), fails, lie)
    return dict(mask=[bool(x == lie[inp["om"]]) for x in mv])
  if kind in ("wrap_gp", "wrap_spe"):
    info = mm.MultimetricInfo(method=mm.EPSILON_CONSTRAINT, params=mm.ProbabilisticFailuresParams(
      optimizing_metric=inp["om"], constraint_metric=inp["cm"], epsilon=inp["eps"]))
    n = len(inp["vals"])
    vals2 = vals.reshape(n, 2)
    pts = numpy.array(inp["pts"], dtype=float).reshape(n, -1)
    lie = numpy.array(inp["lie"], dtype=float)
    args = [pts, vals2] + ([numpy.array(inp["vars"], dtype=float).reshape(n, 2)] if kind == "wrap_gp" else []) + [fails, lie]
    snap = [a.copy() for a in args]
    fn = mm.filter_multimetric_points_sampled if kind == "wrap_gp" else mm.filter_multimetric_points_sampled_spe
    out = fn(info, *args)
    assert all(numpy.array_equal(a, b) for a, b in zip(snap, args)), f"{fn.__name__} modified one of its inputs"
    if kind == "wrap_gp":
      p, v, s, l = out
      return dict(pts=numpy.asarray(p).tolist(), vals=numpy.asarray(v).tolist(), vars=numpy.asarray(s).tolist(), lie=float(l))
    p, v = out
    return dict(pts=numpy.asarray(p).tolist(), vals=numpy.asarray(v).tolist())
  if kind == "wrap_view":
    return run_view(inp)
  raise ValueError(kind)


def view_request(inp):
  """A two-metric request (two optimised metrics, no thresholds, unit square) with `n` observations of which the first `nfail` are
  reported failures and a budget of n + 1, so that the request is in the completion phase (epsilon-constraint method)."""
  from libsigopt.aux.adapter_info_containers import DomainInfo, GPModelInfo, MetricsInfo, PointsContainer
  from libsigopt.aux.constant import PARALLEL_CONSTANT_LIAR
  n = inp["n"]
  rng = numpy.random.RandomState(inp["seed"])
  values = rng.uniform(-1, 1, size=(n, 2))
  hyper = {"alpha": 1.0, "length_scales": [[0.3], [0.3]], "tikhonov": 1e-6, "task_length": None}
  return {
    "domain_info": DomainInfo(constraint_list=[], domain_components=[{"var_type": "double", "elements": (0.0, 1.0)} for _ in range(2)]),
    "num_to_sample": 1,
    "points_sampled": PointsContainer(points=rng.random_sample((n, 2)), values=values, value_vars=numpy.full_like(values, 1e-10),
                                      failures=numpy.array([i < inp["nfail"] for i in range(n)], dtype=bool)),
    "points_being_sampled": PointsContainer(points=numpy.zeros((0, 2))),
    "tag": {},
    "metrics_info": MetricsInfo(requires_pareto_frontier_optimization=True, observation_budget=n + 1, user_specified_thresholds=[None, None],
                                objectives=["maximize", "maximize"], optimized_metrics_index=[0, 1], constraint_metrics_index=[]),
    "task_options": numpy.array([]),
    "model_info": GPModelInfo(hyperparameters=[dict(hyper), dict(hyper)], max_simultaneous_af_points=200,
                              nonzero_mean_info={"mean_type": "constant", "poly_indices": None}),
    "parallelism": PARALLEL_CONSTANT_LIAR,
  }


def run_view(inp):
  """The two real next-points views on such a request: the data they hand to their model goes through the two wrappers."""
  import warnings
  from libsigopt.views.rest.gp_next_points_categorical import GpNextPointsCategorical
  from libsigopt.views.rest.spe_next_points import SPENextPoints
  cls = dict(spe=SPENextPoints, gp=GpNextPointsCategorical)[inp["view"]]
  state = numpy.random.get_state()
  numpy.random.seed(inp["seed"])
  try:
    with warnings.catch_warnings():
      warnings.simplefilter("ignore")
      view = cls(view_request(inp))
      method = view.multimetric_info.method
      resp = view.call()
  finally:
    numpy.random.set_state(state)
  return dict(method=method, points=numpy.asarray(resp["points_to_sample"], dtype=float).tolist())


def gen_view(rng):
  n = rng.randint(1, 9)
  return dict(view=rng.choice(["spe", "gp"]), n=n, nfail=(n if rng.random() < 0.7 or n == 1 else n - 1), seed=rng.randint(0, 10**6))


def gen_wrapper(rng, kind):
  """Histories for the two wrappers with the epsilon-constraint method.  Classes: 0..4 good observations plus several reported
  failures (the repair has to promote reported failures; 0 good = every observation failed), fewer than five observations with any
  mask, general masks; lie values distinct from every value or, as the views pass them, carried by the reported failures and possibly
  tying with an observed value."""
  style = rng.choice(["few_good", "few_good", "few_good", "short", "short", "general", "general", "all_failed"])
  hi = rng.choice([2, 5, 12])
  if style == "few_good":
    good, bad = rng.randint(0, 4), rng.randint(1, 7)
    fails = [False] * good + [True] * bad
    rng.shuffle(fails)
  elif style == "short":
    n = rng.randint(1, 4)
    fails = [rng.random() < rng.choice([0.0, 0.5, 1.0]) for _ in range(n)]
  elif style == "all_failed":
    fails = [True] * rng.randint(1, 8)
  else:
    n = rng.randint(1, 12)
    fails = [rng.random() < rng.choice([0.0, 0.2, 0.5, 0.9]) for _ in range(n)]
  n = len(fails)
  vals = gen_values(rng, n, 2, hi)
  om = rng.randint(0, 1)
  if rng.random() < 0.6:      # no ties in the optimising column: the output is compared exactly
    col = rng.sample(range(0, max(hi, n) + n + 1), n)
    for r, x in zip(vals, col):
      r[om] = x
  lie_style = rng.choice(["distinct", "distinct", "view", "view_tie"])
  if lie_style == "distinct":
    lie = [1000.0 + rng.randint(0, 3), 2000.0 + rng.randint(0, 3)]
  else:                        # as views/view.py passes them: reported failures carry the lie value in both metrics
    top = [max(r[j] for r in vals) for j in range(2)]
    lie = [float(t + (0 if lie_style == "view_tie" else 1)) for t in top]
    for r, f in zip(vals, fails):
      if f:
        r[0], r[1] = lie[0], lie[1]
  inp = dict(vals=[[float(x) for x in r] for r in vals], eps=rng.randint(1, 15) / 16.0, om=om, cm=1 - om, fails=fails,
             pts=[[float(rng.randint(0, 9)), float(i)] for i in range(n)], lie=lie, style=style + ":" + lie_style)
  if kind == "wrap_gp":
    inp["vars"] = [[rng.randint(0, 7) / 4.0 for _ in range(2)] for _ in range(n)]
  return inp


def gen_case(rng):
  kind = rng.choice(["pareto", "pareto", "sorted_front", "eps", "eps", "epsfail", "force", "label", "wrap_gp", "wrap_spe", "wrap_spe"])
  if kind in ("wrap_gp", "wrap_spe"):
    return kind, gen_wrapper(rng, kind)
  if kind == "pareto":
    n, m = rng.randint(1, 9), rng.randint(1, 3)
    return kind, dict(vals=gen_values(rng, n, m, rng.choice([1, 2, 4, 9])))
  n = rng.randint(1, 10)
  vals = gen_values(rng, n, 2, rng.choice([2, 5, 12]))
  if kind == "sorted_front":
    return kind, dict(vals=vals)
  eps = rng.randint(1, 15) / 16.0
  cm = rng.randint(0, 1)
  if kind == "eps":
    def th():
      return None if rng.random() < 0.4 else rng.randint(-2, 14) + rng.choice([0, 0.5])
    return kind, dict(vals=vals, eps=eps, cm=cm, thresholds=[th(), th()])
  fails = [rng.random() < rng.choice([0.2, 0.5, 0.9, 1.0]) for _ in range(n)]     # every observation failed included
  if kind == "epsfail":
    return kind, dict(vals=vals, eps=eps, cm=cm, fails=fails)
  if kind == "force":
    return kind, dict(vals=vals, om=cm, fails=fails)
  return kind, dict(vals=vals, eps=eps, om=1 - cm, cm=cm, fails=fails)


def coq_case(kind, inp, out):
  v = rows(inp["vals"])
  bl = lambda l: C.listlit(l, C.blit)
  if kind == "pareto":
    return f"CPareto {v} {C.listlit(out['front'], C.nlit)} {C.listlit(out['dominated'], C.nlit)}"
  if kind == "sorted_front":
    return f"CSortedFront {v} {rows(out['rows'])}"
  if kind == "eps":
    t0, t1 = (C.optlit(t, C.qlit) for t in inp["thresholds"])
    return f"CEps {C.qlit(inp['eps'])} {inp['cm']} {v} {t0} {t1} {C.qlit(out['value'])}"
  if kind == "epsfail":
    return f"CEpsFail {C.qlit(inp['eps'])} {inp['cm']} {v} {bl(inp['fails'])} {bl(out['mask'])}"
  if kind == "force":
    col = [r[inp["om"]] for r, f in zip(inp["vals"], inp["fails"]) if f]
    ties = len(set(col)) < len(col)
    return f"CForce {inp['om']} {v} {bl(inp['fails'])} {bl(out['mask'])} {C.blit(ties)}"
  if kind == "label":
    col = [r[inp["om"]] for r in inp["vals"]]
    ties = len(set(col)) < len(col)
    return f"CLabel {C.qlit(inp['eps'])} {inp['om']} {inp['cm']} {v} {bl(inp['fails'])} {bl(out['mask'])} {C.blit(ties)}"
  if kind in ("wrap_gp", "wrap_spe"):
    ql = lambda l: C.listlit(l, C.qlit)
    om, lie = inp["om"], inp["lie"]
    head = f"{C.qlit(inp['eps'])} {om} {inp['cm']} {rows(inp['pts'])} {v}"
    col = [r[om] for r in inp["vals"]]
    if kind == "wrap_gp":
      o = (f"{{| o_pts := {rows(out['pts'])}; o_vals := A1 {ql(out['vals'])}; o_vars := A1 {ql(out['vars'])}; "
           f"o_lie := Sc {C.qlit(out['lie'])} |}}")
      kept = [int(p[-1]) for p in out["pts"]]          # the generator numbers the rows in the last coordinate of the point
      ties = len(set(col)) < len(col)
      return f"CWrapGP {head} {rows(inp['vars'])} {bl(inp['fails'])} {ql(lie)} {o} {C.listlit(kept, C.nlit)} {C.blit(ties)}"
    o = f"{rows(out['pts'])} {ql(out['vals'])}"
    rest = [x for x in col if x != lie[om]]              # rows whose value is the lie value read the same whatever their label
    ties = len(set(rest)) < len(rest)
    return f"CWrapSPE {head} {bl(inp['fails'])} {ql(lie)} {o} {C.blit(ties)}"


def nontrivial(kind, inp, out):
  if kind == "pareto":
    return bool(out["front"]) and bool(out["dominated"])
  if kind == "sorted_front":
    return 2 <= len(out["rows"]) < len(inp["vals"])
  if kind == "eps":
    return len(inp["vals"]) >= 2
  if kind in ("wrap_gp", "wrap_spe"):
    return any(inp["fails"])
  return any(inp["fails"])


def wrapper_branch(kind, inp, out):
  """which part of the wrapper's data flow a case exercises (reported in the distribution)"""
  if all(inp["fails"]):
    return f"{kind}:every-observation-failed"
  good = sum(1 for f in inp["fails"] if not f)
  n = len(inp["fails"])
  if n < 5:
    return f"{kind}:n<5"
  return f"{kind}:{'repair-must-promote-reported-failures' if good < 5 else 'five-or-more-good'}"


def correspondence(ctx):
  n = ctx.n(800, 14000)
  cases, meta, seen, dist = [], [], set(), {}
  nontriv = 0
  crashed = []
  for _ in range(n):
    kind, inp = gen_case(ctx.rng)
    try:
      out = run_impl(kind, inp)
    except Exception as e:  # the implementation must not fail on a valid input
      crashed.append(dict(what=f"C13 {kind}: implementation raised {type(e).__name__}: {e}", kind=kind, input=inp, observed=repr(e)))
      if len(crashed) > 20:
        break
      continue
    cases.append(coq_case(kind, inp, out))
    meta.append((kind, inp, out))
    br = wrapper_branch(kind, inp, out) if kind in ("wrap_gp", "wrap_spe") else kind
    dist[br] = dist.get(br, 0) + 1
    h = C.canon_hash([kind, inp])
    if h not in seen and nontrivial(kind, inp, out):
      nontriv += 1
    seen.add(h)
  bad = C.run_cases("C13", "From Coq Require Import List QArith Bool.\nFrom LV Require Import Model.Pareto Model.Phases Model.Filters Model.ParetoCorr.\nOpen Scope Q_scope.",
                    "case", "check", cases)
  dis = [dict(what=f"C13 correspondence case {i} ({meta[i][0]}): implementation output differs from Model.Pareto / its specification",
              kind=meta[i][0], input=meta[i][1], observed=meta[i][2]) for i in bad]
  dis = crashed + dis
  return dict(evaluations=len(cases), distinct_nontrivial=nontriv,
              rule="value matrices n<=10 rows, m<=3 metrics (2 for epsilon routines), small integers with forced ties and duplicates, "
                   "dyadic epsilon k/16, thresholds inside/outside the data range; non-trivial = both a dominated and a non-dominated row "
                   "(pareto), a frontier of >= 2 rows and a dominated row (sorted frontier), >=2 rows (epsilon), mixed failure mask (repair), some reported failure (wrappers); the two wrappers "
                   "filter_multimetric_points_sampled / _spe with the epsilon-constraint method on histories with 0..4 good observations plus "
                   "1..7 reported failures, n < 5, every observation failed (also at the labelling level), general masks, lie values distinct "
                   "from the data or carried by the failures as the views pass them; distinct by hash of the canonical input",
              samples=[dict(kind=k, input=i, impl_output=o) for k, i, o in meta[:3]], distribution=dist, disagreements=dis)


# ------------------------------------------------------------------------------------------ independent oracle


def gen_view_request(rng):
  """A two-metric request of the EI endpoint (generator of property C06) in the epsilon-constraint phase with user thresholds on none, one
  or both optimised metrics - the anchored use of the threshold 'when building failure models' (views/view.py)."""
  from lib import c06_util as U6
  for _ in range(400):
    raw = U6.gen_request(rng, wide=rng.random() < 0.5)
    if not raw["pareto"]:
      continue
    n, npend, nf = len(raw["points"]), len(raw["pending"]), sum(raw["fails"])
    raw["budget"] = max(1, int(round((n + npend) / rng.choice([0.8, 0.8, 1.2])))) + nf       # epsilon-constraint / completion phase
    vals = [r[c] for r in raw["values"] for c in raw["opt_ix"]]
    lo, hi = min(vals), max(vals)
    style = rng.choice(["both", "both", "one", "none"])
    for k, c in enumerate(raw["opt_ix"]):
      raw["thr"][c] = None
      if style == "both" or (style == "one" and k == 0):
        raw["thr"][c] = lo + (hi - lo) * rng.choice([-0.5, 0.1, 0.5, 0.9, 1.5])             # inside and outside the data range
    return raw
  return None


def oracle_view(raw):
  """C13 at its use site: the threshold given to the failure model of the constrained metric stays within the range of that metric's
  (scaled) values over the observations, whatever user thresholds are present."""
  from lib import c06_util as U6
  obs = U6.observe(raw)
  if obs.get("raised") or (obs.get("info") or {}).get("method") != "epsilon_constraint" or not obs.get("pfs"):
    return None
  info = obs["info"]
  nthr = sum(raw["thr"][c] is not None for c in raw["opt_ix"])
  cm = info["cm"]
  pf = obs["pfs"][cm] if (nthr == 2 and len(obs["pfs"]) >= 2) else obs["pfs"][0]
  col = pf["gp"]["vals"][: len(raw["points"])]          # that metric's scaled values over the observations (lies of pending points come after)
  lo, hi = min(col), max(col)
  tol = 1e-9 * max(1.0, abs(lo), abs(hi))
  if not (lo - tol <= pf["thr"] <= hi + tol):
    return dict(signature="C13:view:failure-model threshold of the constrained metric outside the range of that metric", what="view: the epsilon-constraint "
                "threshold handed to the failure model of the constrained metric is outside the range of that metric over the observations",
                input=dict(kind="view", raw=raw), observed=dict(threshold=pf["thr"], info=info), expected=[lo, hi], oracle="range of the model's own data column")
  return None


def oracle_wrapper(kind, inp):
  """The clause 'labelling by that threshold never leaves fewer than the guaranteed minimum of successful points (five, or all when
  fewer exist)' on the data the two wrappers hand on (epsilon-constraint method).  Plain counting; shares nothing with the library or
  the Coq model.  GP path: rows handed on.  Parzen path: rows that still carry their own value / are not the lie value."""
  n, om = len(inp["vals"]), inp["om"]
  need = min(5, n)
  def fail(what, observed, expected):
    return dict(signature=f"C13:{kind}:{what}", what=f"{kind}: {what}", input=dict(kind=kind, **inp), observed=observed, expected=expected,
                oracle="counting the rows handed on")
  try:
    out = run_impl(kind, inp)
  except Exception as e:
    return dict(signature=f"C13:{kind}:raises:{type(e).__name__}", what=f"{kind} raised {type(e).__name__}: {e}", input=dict(kind=kind, **inp),
                observed=repr(e), expected="a result", oracle="no exception on valid input")
  own = [r[om] for r in inp["vals"]]
  lie = inp["lie"][om]
  if kind == "wrap_gp":
    lens = [len(out["pts"]), len(out["vals"]), len(out["vars"])]
    if len(set(lens)) != 1:
      return fail("points, values and variances handed to the GP have different lengths", lens, "equal lengths")
    ids = [int(p[-1]) for p in out["pts"]]
    ok = ids == sorted(set(ids)) and all(0 <= i < n for i in ids) and all(
      out["pts"][k] == inp["pts"][i] and out["vals"][k] == own[i] and out["vars"][k] == inp["vars"][i][om] for k, i in enumerate(ids))
    if not ok:
      return fail("a row handed to the GP is not (point, optimising value, optimising variance) of an observation, in order", out, None)
    if len(ids) < need:
      return fail("fewer than min(5, n) rows are handed to the GP after epsilon-constraint labelling", dict(rows=len(ids), n=n), need)
    return None
  if out["pts"] != inp["pts"] or len(out["vals"]) != n:
    return fail("points changed or values of another length on the Parzen-estimator path", out, None)
  if any(o != v and o != lie for o, v in zip(out["vals"], own)):
    return fail("a value handed to the Parzen estimator is neither the observation's optimising value nor the lie value", out, None)
  keep_own = sum(1 for o, v in zip(out["vals"], own) if o == v)
  not_lie = sum(1 for o in out["vals"] if o != lie)
  if keep_own < need or (lie not in own and not_lie < need):
    return fail("fewer than min(5, n) observations keep their value after epsilon-constraint labelling on the Parzen-estimator path",
                dict(keep_their_value=keep_own, not_the_lie=not_lie, n=n, values=out["vals"]), need)
  return None


def oracle_wrap_view(inp):
  """The same clause at the use site: a real next-points view on a request whose observations are (almost) all reported failures, in the
  epsilon-constraint phase, must get its data through the wrapper and answer with one finite point of the unit square."""
  full = dict(kind="wrap_view", **inp)
  try:
    out = run_view(inp)
  except Exception as e:
    return dict(signature=f"C13:wrap_view:raises:{type(e).__name__}", what=f"{inp['view']} next-points view with {inp['nfail']} of {inp['n']} "
                f"observations reported failed raised {type(e).__name__}: {e}", input=full, observed=repr(e), expected="one suggested point",
                oracle="no exception on a valid request")
  if out["method"] != "epsilon_constraint":
    return None
  p = numpy.asarray(out["points"], dtype=float)
  if p.shape != (1, 2) or not numpy.isfinite(p).all() or (p < 0).any() or (p > 1).any():
    return dict(signature="C13:wrap_view:suggestion is not one finite point of the domain", what="view: the suggestion is not one finite point of the "
                "unit square", input=full, observed=out, expected="shape (1, 2) inside [0, 1]^2", oracle="range check")
  return None


def oracle(kind, inp):
  """Direct statement of the property on the implementation's output. Returns a failure dict or None."""
  if kind == "view":
    return oracle_view(inp["raw"])
  if kind in ("wrap_gp", "wrap_spe"):
    return oracle_wrapper(kind, inp)
  if kind == "wrap_view":
    return oracle_wrap_view(inp)
  try:
    out = run_impl(kind, inp)
  except Exception as e:
    return dict(signature=f"C13:{kind}:raises:{type(e).__name__}", what=f"{kind} raised {type(e).__name__}: {e}", input=dict(kind=kind, **inp),
                observed=repr(e), expected="a result", oracle="no exception on valid input")
  v = numpy.array(inp["vals"], dtype=float)
  n = len(v)
  def fail(what, expected):
    return dict(signature=f"C13:{kind}:{what}", what=f"{kind}: {what}", input=dict(kind=kind, **inp), observed=out, expected=expected,
                oracle="brute-force definition")
  if kind == "pareto":
    nd = [j for j in range(n) if not any((v[k] >= v[j]).all() and (v[k] > v[j]).any() for k in range(n))]
    dm = [j for j in range(n) if j not in nd]
    if out["front"] != nd or out["dominated"] != dm:
      return fail("frontier is not the set of non-dominated rows", dict(front=nd, dominated=dm))
  elif kind == "sorted_front":
    # exactly the rows no row dominates under minimisation, every copy kept, non-decreasing in the first metric
    nd = [tuple(v[j]) for j in range(n) if not any((v[k] <= v[j]).all() and (v[k] < v[j]).any() for k in range(n))]
    got = [tuple(r) for r in out["rows"]]
    if sorted(got) != sorted(nd):
      return fail("sorted frontier is not exactly the non-dominated rows with every tied copy kept", sorted(nd))
    if any(got[i][0] > got[i + 1][0] for i in range(len(got) - 1)):
      return fail("sorted frontier is not ordered along the first metric", sorted(nd))
  elif kind == "eps":
    cm, eps = inp["cm"], inp["eps"]
    col = v[:, cm]
    tol = 1e-12 * max(1.0, numpy.abs(col).max())
    if all(t is None for t in inp["thresholds"]):
      a, b = v[int(numpy.argmin(v[:, 0])), cm], v[int(numpy.argmin(v[:, 1])), cm]
      exp = (1 - eps) * min(a, b) + eps * max(a, b)
      if abs(out["value"] - exp) > tol:
        return fail("threshold without bounds is not the convex combination at the two optima", exp)
    if not (col.min() - tol <= out["value"] <= col.max() + tol):
      return fail("threshold outside the range of the constrained metric", [float(col.min()), float(col.max())])
  elif kind in ("force", "label"):
    fails = numpy.array(inp["fails"], dtype=bool)
    if kind == "label" and not fails.all():       # with no successful observation nothing is labelled by the threshold
      succ = v[~fails]
      cm, eps = inp["cm"], inp["eps"]
      a, b = succ[int(numpy.argmin(succ[:, 0])), cm], succ[int(numpy.argmin(succ[:, 1])), cm]
      thr = (1 - eps) * min(a, b) + eps * max(a, b)
      fails = fails | (v[:, cm] >= thr)
    o = numpy.array(out["mask"], dtype=bool)
    before = int((~fails).sum())
    if len(o) != n or (o & ~fails).any():
      return fail("repair turned a success into a failure", None)
    if int((~o).sum()) != max(before, min(5, n)):
      return fail("number of successes after repair is not max(before, min(5, n))", max(before, min(5, n)))
    flipped, still = v[fails & ~o, inp["om"]], v[o, inp["om"]]
    if len(flipped) and len(still) and flipped.max() > still.min():
      return fail("a flipped row is larger than a row left failed", None)
  elif kind == "epsfail":
    fails = numpy.array(inp["fails"], dtype=bool)
    if fails.all():                                  # no successful observation: no frontier, nothing is labelled by the threshold
      if any(out["mask"]) or len(out["mask"]) != n:
        return fail("rows are labelled by the threshold although no observation is successful", [False] * n)
      return None
    succ = v[~fails]
    cm, eps = inp["cm"], inp["eps"]
    a, b = succ[int(numpy.argmin(succ[:, 0])), cm], succ[int(numpy.argmin(succ[:, 1])), cm]
    thr = (1 - eps) * min(a, b) + eps * max(a, b)
    exp = [bool(x >= thr) for x in v[:, cm]]
    near = numpy.abs(v[:, cm] - thr) < 1e-9 * max(1.0, abs(thr))
    if any(e != o and not nr for e, o, nr in zip(exp, out["mask"], near)):
      return fail("epsilon failures are not the rows at or above the threshold", exp)
  return None


def search(ctx, hints, broken):
  fails, n = [], 0
  for h in hints:
    if "kind" in h and "input" in h:
      n += 1
      r = oracle(h["kind"], h["input"])
      if r:
        fails.append(r)
  # the two real views on requests whose observations are all (or all but one) reported failures: two fixed requests, then random ones
  for vin in [dict(view="spe", n=8, nfail=8, seed=1), dict(view="gp", n=8, nfail=8, seed=1)] + [gen_view(ctx.rng) for _ in range(ctx.n(3, 30))]:
    n += 1
    r = oracle("wrap_view", vin)
    if r and r["signature"] not in {f["signature"] for f in fails}:
      fails.append(r)
  budget = ctx.n(1500, 30000) * (3 if broken else 1)
  rng = ctx.rng
  for _ in range(budget):
    kind, inp = gen_case(rng)
    if kind in ("wrap_gp", "wrap_spe"):
      if rng.random() < 0.5:  # real-valued data of many magnitudes, more rows; the failure pattern of the generated history is kept
        scale = 10.0 ** rng.randint(-6, 6)
        extra = rng.randint(0, 25) if rng.random() < 0.4 else 0
        inp["fails"] = inp["fails"] + [rng.random() < 0.6 for _ in range(extra)]
        nrow = len(inp["fails"])
        inp["vals"] = [[round(rng.gauss(0, 1), rng.choice([0, 1, 6])) * scale for _ in range(2)] for _ in range(nrow)]
        top = max(abs(x) for r in inp["vals"] for x in r)
        inp["lie"] = [2 * top + scale, 2 * top + 2 * scale]          # distinct from every value
        if rng.random() < 0.4:                                        # as the views pass them: failures carry the lie value
          inp["vals"] = [list(inp["lie"]) if f else r for r, f in zip(inp["vals"], inp["fails"])]
        inp["pts"] = [[rng.random(), float(i)] for i in range(nrow)]
        if kind == "wrap_gp":
          inp["vars"] = [[abs(rng.gauss(0, 1)) for _ in range(2)] for _ in range(nrow)]
    elif rng.random() < 0.5:  # real-valued data of many magnitudes, larger sizes
      nrow = rng.randint(1, 40)
      m = rng.randint(1, 4) if kind == "pareto" else 2   # the sorted frontier and the epsilon routines are two-metric
      scale = 10.0 ** rng.randint(-6, 6)
      inp["vals"] = [[round(rng.gauss(0, 1), rng.choice([0, 1, 6])) * scale for _ in range(m)] for _ in range(nrow)]
      if "fails" in inp:
        inp["fails"] = [rng.random() < rng.choice([0.6, 0.6, 1.0]) for _ in range(nrow)]
    n += 1
    r = oracle(kind, inp)
    if r:
      fails.append(r)
      if len(fails) >= 3:
        break
  for _ in range(ctx.n(60, 800)):
    raw = gen_view_request(rng)
    if raw is None or len(fails) >= 3:
      break
    n += 1
    r = oracle("view", dict(raw=raw))
    if r and r["signature"] not in {f["signature"] for f in fails}:
      fails.append(r)
  res = dict(evaluations=n, failures=fails, oracle="brute-force dominance / closed-form threshold / counting; range clause at the view's failure models; "
             "rows handed on by the two wrappers (epsilon-constraint method) counted against min(5, n), every-observation-failed masks included; "
             "the two real next-points views on requests whose observations are all (or all but one) reported failures")
  return res


def replay(ctx, payload):
  inp = dict(payload["input"])
  kind = inp.pop("kind")
  return oracle(kind, inp)

LEVEL_TEXT = ("Coq theorems (loop invariant + transitivity of dominance; first-minimum semantics of argmin; range of the thresholds; "
              "counting argument for the repair; the sorted frontier is a permutation of the non-dominated rows; the guaranteed minimum "
              "survives the data flow of both wrappers that consume the labelling) on an executable model of the dominance filter, the "
              "sorted frontier, both epsilon routines, the minimum-success repair and the epsilon-constraint branch of "
              "filter_multimetric_points_sampled / filter_multimetric_points_sampled_spe, for all value matrices, thresholds and masks; the "
              "model is tied to the code by exact differential runs whose comparison is evaluated inside Coq, and the implementation's "
              "outputs are also checked against the decidable specification proved equivalent to the theorem's statement")
LEVEL_NOTE = ("Exact arithmetic over Q (finite doubles are rationals; comparisons agree); NaN/inf excluded as in the callers; "
              "numpy.argsort tie order is not modelled (spec-level comparison on ties); harness and case printer trusted; no axioms")
TECHNIQUE = "Coq proof (loop invariant, induction) on executable model + in-Coq differential correspondence"
DESIGN_REF = "DESIGN.md section 7, C13"
