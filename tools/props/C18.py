"""C18 — multi-solution best assignments are distinct, valid and best in their cluster."""
import math
from fractions import Fraction

import numpy

from lib import common as C

PROP = "C18"
PROPS_FILES = ["Props/C18.v"]
ASSUMPTIONS = [
  "exact arithmetic over Q: coordinates are small integers / dyadic rationals (down to multiples of 2^-34 for nearly coincident "
  "observations), parameter widths are powers of two and the relaxed dimension is a perfect square when categoricals are present; "
  "the generator keeps a case only when every squared distance the implementation computes is exact in double (all terms of "
  "|x|^2 + |z|^2 - 2 x.z multiples of one granule and their total below 2^53 granules)",
  "the code compares squared distances only; argmax/argmin of a distance and of its square coincide (x -> x^2 is increasing on x >= 0), "
  "so 'farthest' and 'nearest' are stated on squared distances",
  "scaled values: v -> negate*scale*(v - midpoint) with one positive double `scale` is injective and order preserving on the few-bit "
  "values generated (ties stay ties, distinct values stay distinct - also for the nearly tied values base + j 2^-30, whose differences from "
  "the midpoint are exact in double by Sterbenz), so comparisons on doubles and on the exact rationals of the model agree",
  "one optimised metric, no task costs (the endpoint asserts that no Pareto optimisation is required); the values of SUCCESSFUL "
  "observations are finite; what a FAILED observation stores is arbitrary (ordinary numbers, powers of two up to 2^70, sentinels such as "
  "+-1e30 and the largest double, +-inf, NaN): the model never reads it (C18_view_ignores_failed_values), the oracle never reads it, and "
  "the implementation runs on it as stored",
  "'overall best observation' / 'best-valued observation of its cluster' are read strictly: a SUCCESSFUL observation with the best raw "
  "value (the view compares failed observations as +inf); a failed observation is returned only for a cluster without any success",
]
TRUSTED = ["tools/props/C18.py case generator, endpoint driver and the Q-literal printer", "Model/KCenterCorr.v check function"]

# The two former findings (a failed observation tied with the worst success: only failed observations returned / a failed
# representative of a cluster that holds a success) were repaired in the view (failed observations are compared as +inf);
# their witnesses are corpus/C18/*.json and the first two deterministic cases of the searcher.  The strict reading is now
# simply part of the oracle.
STATS = dict(cluster_check_decided=0, cluster_check_undecided_ties=0)


# ------------------------------------------------------------------------------------------ implementation drivers


def run_kc(inp):
  from libsigopt.views.rest.multisolution_best_assignments import k_center_clustering
  pts = numpy.array(inp["points"], dtype=float)
  p0 = pts.copy()
  try:
    centres, part = k_center_clustering(pts, inp["first"], inp["k"])
  except AssertionError:
    return None
  assert (p0 == pts).all(), "k_center_clustering modified its input points"
  return dict(centres=[int(c) for c in centres], partition=[int(p) for p in part])


def _components(comps):
  out = []
  for c in comps:
    t, e = c["var_type"], c["elements"]
    out.append(dict(var_type=t, elements=[int(x) for x in e] if t == "categorical" else list(e)))
  return out


def run_view(inp):
  """Drive the real endpoint. Returns best_indices, or None when it raised AssertionError."""
  from libsigopt.aux.adapter_info_containers import DomainInfo, MetricsInfo, PointsContainer
  from libsigopt.views.rest.multisolution_best_assignments import MultisolutionBestAssignments
  n = len(inp["points"])
  m = int(inp.get("num_metrics", 1))
  oi = int(inp.get("opt_index", 0))
  vals = numpy.zeros((n, m))
  for j in range(m):
    vals[:, j] = [float(v) for v in inp["values"]] if j == oi else [(7 * i + 3 * j) % 5 for i in range(n)]
  objectives = ["maximize" if inp["maximize"] else "minimize"] * m
  if m > 1:  # the other metrics are stored metrics with the opposite objective
    objectives = [o if j == oi else ("minimize" if inp["maximize"] else "maximize") for j, o in enumerate(objectives)]
  points = numpy.array(inp["points"], dtype=float)
  failures = numpy.array(inp["failures"], dtype=bool)
  params = dict(
    tag={"probe": PROP},
    domain_info=DomainInfo(constraint_list=[], domain_components=_components(inp["components"]), force_hitandrun_sampling=False, priors=None),
    task_options=[],
    metrics_info=MetricsInfo(requires_pareto_frontier_optimization=False, observation_budget=100, user_specified_thresholds=[None] * m,
                             objectives=objectives, optimized_metrics_index=[oi], constraint_metrics_index=[]),
    points_sampled=PointsContainer(points=points, values=vals, value_vars=numpy.full((n, m), 1e-10), failures=failures, task_costs=None),
    num_solutions=inp["k"],
  )
  p0, v0, f0 = points.copy(), vals.copy(), failures.copy()
  try:
    resp = MultisolutionBestAssignments(params).view()
  except AssertionError:
    return None
  assert (p0 == points).all() and numpy.array_equal(v0, vals, equal_nan=True) and (f0 == failures).all(), "the endpoint modified the caller's history"
  return [int(i) for i in resp["best_indices"]]


def one_hot_dim(comps):
  return sum(len(c["elements"]) if c["var_type"] == "categorical" else 1 for c in comps)


# ------------------------------------------------------------------------------------------ generators


U53 = Fraction(1, 2 ** 53)


def _dyadic(q):
  return q.denominator & (q.denominator - 1) == 0


def _is_double(q):
  """the rational q is a double"""
  try:
    return Fraction(float(q)) == q
  except OverflowError:
    return False


def exact_in_double(rows):
  """Sufficient condition for sum(x**2) + sum(z**2) - 2 x.z being computed WITHOUT ANY ROUNDING for every pair of the given
  rows (Fractions), whatever the order of summation (NumPy pairwise sums, BLAS dot): all terms x_k^2, z_k^2, 2 x_k z_k of a pair are
  multiples of one granule g = 2^-G and the sum of their magnitudes is below 2^53 g, so every partial sum is a multiple of g
  of magnitude < 2^53 g, hence a double."""
  for r in rows:
    if not all(_dyadic(x) for x in r):
      return False
  sq = [[x * x for x in r] for r in rows]
  for i, a in enumerate(rows):
    for j in range(i, len(rows)):
      b = rows[j]
      terms = [t for t in sq[i] + sq[j] + [2 * x * z for x, z in zip(a, b)] if t != 0]
      if not terms:
        continue
      den = max(t.denominator for t in terms)          # powers of two: the largest denominator is the granule
      if sum(abs(t) for t in terms) * den >= 2 ** 53:
        return False
  return True


def search_rows(inp):
  """The search-space rows of a view input as exact rationals, or None when some step of the normalisation
  (x - lower) / (upper - lower) rounds in double arithmetic or sqrt(one_hot_dim) is not an integer."""
  comps = inp["components"]
  D = one_hot_dim(comps)
  has_cat = any(c["var_type"] == "categorical" for c in comps)
  r = math.isqrt(D)
  if has_cat and r * r != D:
    return None
  rows = []
  for p in inp["points"]:
    row = []
    for x, c in zip(p, comps):
      e = c["elements"]
      if c["var_type"] == "categorical":
        row += [Fraction(r) if x == el else Fraction(0) for el in e]
        continue
      lo, hi = Fraction(min(e)), Fraction(max(e))
      num, den = Fraction(x) - lo, hi - lo
      if den == 0 or not (_is_double(num) and _is_double(den) and _is_double(num / den)):
        return None
      row.append(num / den)
    rows.append(row)
  return rows


def view_is_exact(inp):
  rows = search_rows(inp)
  return rows is not None and exact_in_double(rows)


def gen_points_grid(rng, n, dim):
  hi = rng.choice([1, 2, 4, 8])
  half = rng.random() < 0.3
  pts = [[rng.randint(-hi, hi) + (rng.choice([0, 0.5]) if half else 0) for _ in range(dim)] for _ in range(n)]
  for _ in range(rng.randint(0, n // 2)):  # duplicated points, shared coordinates
    i, j = rng.randrange(n), rng.randrange(n)
    if rng.random() < 0.6:
      pts[i] = list(pts[j])
    else:
      pts[i][rng.randrange(dim)] = pts[j][rng.randrange(dim)]
  return pts


# spacings of nearly coincident observations, normalised units: 2^-20 ~ 9.5e-7 ... 2^-34 ~ 5.8e-11 (squared: 9.1e-13 ... 3.4e-21)
FINE_EXPONENTS = [20, 20, 21, 22, 23, 24, 25, 27, 30, 34]


def gen_points_coincident(rng, n, dim):
  """Nearly coincident points: `groups` far-apart locations (multiples of 1/8), every point sits at a location plus a few
  multiples of 2^-e per coordinate.  Returns (points, number of groups) with every squared distance exact in double
  (exact_in_double), or None."""
  for _ in range(8):
    e = rng.choice(FINE_EXPONENTS)
    if rng.random() < 0.25:  # the whole set inside one tiny neighbourhood of the origin: small integers times 2^-e
      pts = [[x * 2.0 ** -e for x in p] for p in gen_points_grid(rng, n, dim)]
      groups = 1
    else:
      groups = rng.randint(1, min(3, n - 1))
      bases = [[rng.choice([0, 0, 0.5, 1, 0.125, 0.75, -0.5, 1.5]) for _ in range(dim)] for _ in range(groups)]
      pts = []
      for i in range(n):
        g = 0 if (i < 3 or rng.random() < 0.4) else rng.randrange(groups)
        pts.append([b + rng.choice([0, 0, 1, -1, 2, 3, -3, 4, 7]) * 2.0 ** -e for b in bases[g]])
      rng.shuffle(pts)
    if exact_in_double([[Fraction(x) for x in p] for p in pts]):
      return pts, groups
  return None


def gen_kc(rng, malformed=False):
  n, dim = rng.randint(2, 12), rng.randint(1, 4)
  pts = gen_points_grid(rng, n, dim)
  groups = None
  if rng.random() < 0.08:
    pts = [list(pts[0]) for _ in range(n)]  # all points equal
  if rng.random() < 0.12 and n >= 3:
    # candidates that are ALMOST equidistant (squared distances differing by 2^-27 .. 2^-40 relative): exactly representable in double
    # arithmetic, so the farthest / nearest choice is decided, but only just
    e = 2.0 ** -rng.choice([27, 28, 30, 34, 40])
    pts = [[0.0] * dim, [1.0] + [0.0] * (dim - 1), [0.5 + rng.choice([-1, 1]) * e] + [0.0] * (dim - 1)] + [[rng.choice([0.25, 0.75, 2.0, -1.0 + e])] + [0.0] * (dim - 1)
                                                                                                               for _ in range(n - 3)]
  elif rng.random() < 0.2 and n >= 4:
    # several NEARLY COINCIDENT points (spacing 2^-20 .. 2^-34: squared distances far below 1e-12, exact in double)
    got = gen_points_coincident(rng, n, dim)
    if got:
      pts, groups = got
  first, k = rng.randrange(n), rng.randint(1, n - 1)
  if groups is not None and rng.random() < 0.8:  # more centres than far-apart groups: centres are chosen among the coincident points
    k = rng.randint(min(groups + 1, n - 1), n - 1)
  if malformed:
    first, k = rng.choice([(first, 0), (first, n), (first, n + 2), (n, k), (n + 3, k)])
  return dict(points=pts, first=first, k=k)


def gen_domain(rng, square=True):
  comps = []
  ncat = rng.choice([0, 0, 1, 1, 2])
  for _ in range(ncat):
    m = rng.randint(2, 4)
    comps.append(dict(var_type="categorical", elements=rng.sample(range(0, 8), m)))
  def numeric():
    t = rng.choice(["double", "int", "quantized"])
    lo, w = rng.randint(-4, 4), rng.choice([1, 2, 4, 8])
    if t == "quantized":
      inner = sorted(set(lo + w * j / 8 for j in rng.sample(range(1, 8), rng.randint(0, 3))))
      el = [lo] + inner + [lo + w]
      rng.shuffle(el)
      return dict(var_type=t, elements=el)
    return dict(var_type=t, elements=[lo, lo + w])
  for _ in range(rng.randint(0 if ncat else 1, 3)):
    comps.append(numeric())
  if ncat and square:
    while one_hot_dim(comps) not in (4, 9, 16):
      comps.append(numeric())
  rng.shuffle(comps)
  return comps


def gen_point(rng, comps):
  p = []
  for c in comps:
    t, e = c["var_type"], c["elements"]
    if t == "categorical" or t == "quantized":
      p.append(rng.choice(e))
    elif t == "int":
      p.append(rng.randint(e[0], e[1]))
    else:
      p.append(e[0] + (e[1] - e[0]) * rng.randint(0, 8) / 8)
  return p


def out_of_bounds_value(rng, c):
  """A value of the right type outside the CURRENT bounds of a numeric parameter (the bounds were tightened, or elements of a
  quantized parameter removed, after the observation had been reported): up to two widths out, a multiple of width/8."""
  t, e = c["var_type"], c["elements"]
  lo, hi = min(e), max(e)
  w = hi - lo
  if t == "int":
    return rng.choice([rng.randint(lo - 2 * w, lo - 1), rng.randint(hi + 1, hi + 2 * w)])
  j = rng.choice([rng.randint(-16, -1), rng.randint(9, 24)])
  return lo + w * j / 8


# nearly tied values: base + sign * j * 2^-30 (2^-30 ~ 9.3e-10).  (max - min) / 2 < 1e-8  <=>  spread <= 21 * 2^-30, so j <= 21 enters
# the degenerate-scale branch of SingleMetricMidpointInfo and j >= 22 does not; inside it, min(|max|, |min|) > 1 selects
# scale = 1 / max(|min|, |max|), midpoint = min, otherwise scale = 1, midpoint = 0.
TIE_STEP = 2.0 ** -30
TIE_BASES = [-5, -5, -3, -2, -1.5, -1, -1, -0.5, 0, 0.5, 1, 1, 1.5, 2, 5, 5, 1000, -1000]


def gen_values_near_tied(rng, n):
  base = rng.choice(TIE_BASES)
  sign = rng.choice([1, -1])
  jmax = rng.choice([3, 7, 7, 15, 21, 21, 22, 24, 40])
  js = [rng.randint(0, jmax) for _ in range(n)]
  if rng.random() < 0.5:
    js[rng.randrange(n)] = jmax
    js[rng.randrange(n)] = 0
  if base == 0 and rng.random() < 0.5:  # mixed signs around 0
    return [rng.choice([1, -1]) * j * TIE_STEP for j in js]
  return [base + sign * j * TIE_STEP for j in js]


def gen_values(rng, n):
  style = rng.choice(["ints", "ints", "tight", "halves", "const", "const_small", "two", "near", "near"])
  if style == "ints":
    v = [rng.randint(-6, 6) for _ in range(n)]
  elif style == "tight":
    v = [rng.randint(0, 2) for _ in range(n)]
  elif style == "halves":
    v = [rng.randint(-8, 8) / 2 for _ in range(n)]
  elif style == "const":
    v = [rng.choice([-3, 2, 5])] * n
  elif style == "const_small":
    v = [rng.choice([0, 0.5, -1, 1])] * n
  elif style == "near":
    v = gen_values_near_tied(rng, n)
  else:
    a, b = rng.randint(-4, 4), rng.randint(-4, 4)
    v = [rng.choice([a, b]) for _ in range(n)]
  return v


# What a FAILED observation stores in its value slot is arbitrary: the client reports "failed" and some number comes along - an
# ordinary value, a number far outside the range of the successful ones, a sentinel (1e30, the largest double, -999999), an
# infinity or NaN.  The property quantifies over all histories with failures and names the successful values only, so none of
# these may matter.  Non-finite numbers are written as the strings "inf" / "-inf" / "nan" (plain JSON; float() reads them back).
FLOAT_MAX = 1.7976931348623157e308
FAILED_SENTINELS = [1e30, -1e30, FLOAT_MAX, -FLOAT_MAX, 1e308, -999999.0, 9.9e99, -1e100, 3.4028234663852886e38]
FAILED_STORED_CLASSES = ["as-generated", "as-generated", "far", "sentinel", "sentinel", "inf", "nan", "mixed", "mixed"]


def _one_failed_stored(rng, cls):
  if cls == "far":       # a power of two far outside the successful values (2^20 .. 2^70): an exact double and rational
    return rng.choice([1, -1]) * 2.0 ** rng.randint(20, 70)
  if cls == "sentinel":
    return rng.choice(FAILED_SENTINELS)
  if cls == "inf":
    return rng.choice(["inf", "-inf"])
  return "nan"


def store_with_failed(rng, values, failures):
  """the value list in which the failed observations store something else (successes untouched); returns (values, class)"""
  if not any(failures):
    return list(values), "none-failed"
  cls = rng.choice(FAILED_STORED_CLASSES)
  if cls == "as-generated":
    return list(values), cls
  out = list(values)
  for i, f in enumerate(failures):
    if f:
      c = rng.choice(["as-generated", "far", "sentinel", "inf", "nan"]) if cls == "mixed" else cls
      if c != "as-generated":
        out[i] = _one_failed_stored(rng, c)
  return out, cls


def is_finite_number(v):
  return not isinstance(v, str) and v == v and abs(v) != float("inf")


def gen_view_points(rng, comps, n, geo):
  """Observed configurations.  geo: 'grid' (inside the bounds, multiples of width/8), 'oob' (some numeric coordinates outside the
  current bounds), 'coincident' (groups of nearly coincident observations: double parameters differ by a few multiples of
  width * 2^-e), 'oob+coincident'.  Returns (points, number of far-apart groups or None)."""
  doubles = [j for j, c in enumerate(comps) if c["var_type"] == "double"]
  groups = None
  if "coincident" in geo and doubles:
    groups = rng.randint(1, min(3, n - 1))
    bases = [gen_point(rng, comps) for _ in range(groups)]
    if "oob" in geo:
      for b in bases:
        for j, c in enumerate(comps):
          if c["var_type"] != "categorical" and rng.random() < 0.4:
            b[j] = out_of_bounds_value(rng, c)
    e = rng.choice(FINE_EXPONENTS)
    pts = []
    for i in range(n):
      g = 0 if (i < 3 or rng.random() < 0.4) else rng.randrange(groups)
      p = list(bases[g])
      for j in doubles:
        w = comps[j]["elements"][1] - comps[j]["elements"][0]
        p[j] = p[j] + w * rng.choice([0, 0, 1, -1, 2, 3, -3, 4, 7]) * 2.0 ** -e
      pts.append(p)
    rng.shuffle(pts)
    return pts, groups
  pts = [gen_point(rng, comps) for _ in range(n)]
  if "oob" in geo:
    numeric = [j for j, c in enumerate(comps) if c["var_type"] != "categorical"]
    for _ in range(rng.randint(1, max(1, n // 2))):
      if numeric:
        j = rng.choice(numeric)
        pts[rng.randrange(n)][j] = out_of_bounds_value(rng, comps[j])
  return pts, groups


def gen_view(rng, malformed=False, square=True):
  comps = gen_domain(rng, square)
  n = rng.randint(3, 10)
  geo = rng.choice(["grid"] * 5 + ["oob"] * 2 + ["coincident"] * 2 + ["oob+coincident"])
  if "coincident" in geo and n < 4:
    n = rng.randint(4, 10)
  for _ in range(8):  # the correspondence compares exactly: keep only histories whose squared distances are exact in double
    base, groups = gen_view_points(rng, comps, n, geo)
    if not square or view_is_exact(dict(components=comps, points=base)):
      break
  else:
    base, groups = gen_view_points(rng, comps, n, "grid")
  for _ in range(rng.randint(0, n // 2)):  # duplicated configurations
    base[rng.randrange(n)] = list(base[rng.randrange(n)])
  pf = rng.choice([0, 0, 0.3, 0.7, 1.0])
  failures = [rng.random() < pf for _ in range(n)]
  if rng.random() < 0.1:  # exactly one success
    failures = [True] * n
    failures[rng.randrange(n)] = False
  k = rng.randint(2, n - 1)
  if groups is not None and rng.random() < 0.8:  # more solutions than far-apart groups
    k = rng.randint(min(max(2, groups + 1), n - 1), n - 1)
  if malformed:
    k = rng.choice([0, 1, n, n + 1])
  m = rng.choice([1, 1, 2, 3])
  values, _ = store_with_failed(rng, gen_values(rng, n), failures)
  return dict(components=comps, points=base, values=values, failures=failures, maximize=rng.random() < 0.5, k=k,
              num_metrics=m, opt_index=rng.randrange(m))


# ------------------------------------------------------------------------------------------ Coq case printer


def pts_lit(pts):
  return C.listlit([C.listlit(p, C.qlit) for p in pts])


def comp_lit(c):
  t, e = c["var_type"], c["elements"]
  if t == "categorical":
    return f"CCat {C.listlit(e, C.qlit)}"
  if t == "quantized":
    return f"CQuant {C.listlit(e, C.qlit)}"
  return f"CNum {C.qlit(e[0])} {C.qlit(e[1])}"


def coq_case(kind, inp, out):
  nl = lambda l: C.listlit(l, C.nlit)
  if kind == "kc":
    o = "None" if out is None else f"(Some ({nl(out['centres'])}, {nl(out['partition'])}))"
    return f"CKC {pts_lit(inp['points'])} {C.nlit(inp['first'])} {C.nlit(inp['k'])} {o}"
  tgt = float(numpy.sqrt(one_hot_dim(inp["components"])))
  o = "None" if out is None else f"(Some {nl(out)})"
  # The model runs on the history as stored (a finite sentinel such as 1e30 or the largest double is a rational like any other).
  # An infinity or NaN stored with a FAILED observation is not a rational: the case handed to Coq carries 0 in its place, which by
  # C18_view_ignores_failed_values does not change the model's answer; the implementation ran on the real stored value.
  vals = [v if (is_finite_number(v) or not f) else 0 for v, f in zip(inp["values"], inp["failures"])]
  return (f"CView {C.listlit([comp_lit(c) for c in inp['components']])} {C.qlit(tgt)} {pts_lit(inp['points'])} "
          f"{C.listlit(vals, C.qlit)} {C.listlit(inp['failures'], C.blit)} {C.blit(inp['maximize'])} {C.nlit(inp['k'])} {o}")


def _spread_class(vals):
  """which branch of the midpoint normalisation the successful values enter"""
  if not vals:
    return "values:no-success"
  mn, mx = min(vals), max(vals)
  if mx == mn:
    return "values:all-equal"
  if (mx - mn) * 0.5 >= 1e-8:
    return "values:ordinary-spread" if mx - mn > 1e-6 else "values:nearly-tied:ordinary-branch"
  if min(abs(mx), abs(mn)) > 1:
    return "values:nearly-tied:degenerate-scale:" + ("below-minus-1" if mx < 0 else "above-plus-1")
  return "values:nearly-tied:degenerate-unit-scale"


def _failed_stored_class(v, ok):
  """what a failed observation stores, relative to the successful values `ok`"""
  if isinstance(v, str) or v != v or abs(v) == float("inf"):
    return "failed-stores:" + ("nan" if (v == "nan" or v != v) else "infinity")
  if not ok:
    return "failed-stores:finite(no-success)"
  lo, hi = min(ok), max(ok)
  if lo <= v <= hi:
    return "failed-stores:inside-success-range"
  ref = max(abs(lo), abs(hi), hi - lo, 1e-300)
  if abs(v) >= 2.0 ** 53 * ref:
    return "failed-stores:beyond-2^53-times-the-successes"     # successes are below the rounding unit of this number
  return "failed-stores:far-outside(>=2^20x)" if abs(v) >= 2.0 ** 20 * ref else "failed-stores:outside-success-range"


def _min_gap2(rows):
  """least non-zero squared distance between two rows"""
  best = None
  for i, a in enumerate(rows):
    for b in rows[i + 1:]:
      d = sum((Fraction(x) - Fraction(y)) ** 2 for x, y in zip(a, b))
      if d != 0 and (best is None or d < best):
        best = d
  return best


def features(kind, inp, out):
  f = [kind, "error" if out is None else "ok"]
  if kind == "kc":
    pts = [tuple(p) for p in inp["points"]]
    f.append("dup-points" if len(set(pts)) < len(pts) else "distinct-points")
    f.append("k>distinct-locations" if inp["k"] > len(set(pts)) else "k<=distinct-locations")
    g = _min_gap2(inp["points"])
    if g is not None and g < Fraction(1, 10 ** 12):
      f.append("nearly-coincident-points(d2<1e-12)")
  else:
    f.append("categorical" if any(c["var_type"] == "categorical" for c in inp["components"]) else "numeric-only")
    fl = inp["failures"]
    f.append("all-failed" if all(fl) else "some-failed" if any(fl) else "no-failed")
    ok = [v for v, b in zip(inp["values"], fl) if not b]
    f.append("successes-all-tied" if ok and len(set(ok)) == 1 else "tied-values" if len(set(map(str, inp["values"]))) < len(fl) else "distinct-values")
    f += sorted(set(_failed_stored_class(v, ok) for v, b in zip(inp["values"], fl) if b))
    f.append(_spread_class(ok))
    pts = [tuple(p) for p in inp["points"]]
    f.append("dup-points" if len(set(pts)) < len(pts) else "distinct-points")
    f.append("maximize" if inp["maximize"] else "minimize")
    f.append("stored-metrics" if inp.get("num_metrics", 1) > 1 else "single-metric")
    if any(c["var_type"] != "categorical" and not min(c["elements"]) <= p[j] <= max(c["elements"])
           for p in inp["points"] for j, c in enumerate(inp["components"])):
      f.append("observation-outside-bounds")
    rows = search_rows(inp)
    g = _min_gap2(rows) if rows else None
    if g is not None and g < Fraction(1, 10 ** 12):
      f.append("nearly-coincident-observations(d2<1e-12)")
  return f


HEADER = ("From Coq Require Import List QArith Bool.\nFrom LV Require Import Model.KCenter Model.KCenterCorr.\nOpen Scope Q_scope.")


def correspondence(ctx):
  n = ctx.n(600, 8000)
  rng = ctx.rng
  cases, meta, seen, dist, dis = [], [], set(), {}, []
  nontriv = 0
  for _ in range(n):
    kind = "kc" if rng.random() < 0.4 else "view"
    mal = rng.random() < 0.06
    inp = gen_kc(rng, mal) if kind == "kc" else gen_view(rng, mal)
    try:
      out = run_kc(inp) if kind == "kc" else run_view(inp)
    except Exception as e:  # anything but AssertionError is outside the model's error type
      dis.append(dict(what=f"C18 correspondence ({kind}): implementation raised {type(e).__name__}: {e}", kind=kind, input=inp, observed=repr(e)))
      continue
    cases.append(coq_case(kind, inp, out))
    meta.append((kind, inp, out))
    for ft in features(kind, inp, out):
      dist[ft] = dist.get(ft, 0) + 1
    h = C.canon_hash([kind, inp])
    if h not in seen and out is not None and inp["k"] >= 2:
      nontriv += 1
    seen.add(h)
  bad = C.run_cases("C18", HEADER, "case", "check", cases)
  dis += [dict(what=f"C18 correspondence case {i} ({meta[i][0]}): implementation output differs from Model.KCenter / its specification",
               kind=meta[i][0], input=meta[i][1], observed=meta[i][2]) for i in bad]
  return dict(evaluations=n, distinct_nontrivial=nontriv,
              rule="k_center_clustering on <=12 points in <=4 dimensions (small integers / halves, forced duplicates, all-equal sets, almost "
                   "equidistant candidates, nearly coincident points with spacings 2^-20..2^-34 around up to three far-apart locations and k "
                   "above the number of locations, every first index and 1<=k<n) and the whole endpoint on mixed domains (double/int/quantized "
                   "with power-of-two widths, up to two categoricals, relaxed dimension 4/9/16 when categorical) with 3..10 observations, "
                   "duplicated configurations, observations outside the current bounds of numeric parameters (up to two widths), groups of "
                   "nearly coincident observations on the double parameters, tied / constant / nearly tied values (steps of 2^-30 around "
                   "-1000..1000: both sub-branches of the degenerate-scale branch and the 1e-8 half-width boundary), zero/some/all failures, failed "
                   "observations storing ordinary values / powers of two far outside the successes / sentinels (1e30, float max) / inf / NaN, "
                   "both objectives, stored metrics beside the optimised one, every 2<=k<n; every squared distance of every case is exact in "
                   "double (checked per case: all terms multiples of one granule, total below 2^53 granules); a malformed stream "
                   "(k in {0,1,n,n+1}, first index out of range) for the assertion branches; non-trivial = the implementation returned a "
                   "result for k>=2; distinct by hash of the canonical input",
              samples=[dict(kind=k, input=i, impl_output=o) for k, i, o in meta[:3]], distribution=dist, disagreements=dis)


# ------------------------------------------------------------------------------------------ independent oracle
# Shares nothing with the library or the Coq model: exact Fractions, brute-force farthest-first, direct definitions.


def _fr(x):
  return Fraction(x)


def _d2(a, b):
  return sum((x - y) ** 2 for x, y in zip(a, b))


def _err_const(dim):
  """Rounding of the squared distance fmax(0, |x|^2 + |z|^2 - 2 x.z) in double: the three sums carry at most dim roundings each on
  terms bounded by |x|^2 + |z|^2, two more additions follow, and each normalised coordinate (x - lower) / (upper - lower) carries
  three roundings (relative 3u, i.e. at most 12u (|x|^2 + |z|^2) on the squared distance; sqrt(one_hot_dim) one more):
  |computed - exact| <= (2 dim + 15) u (|x|^2 + |z|^2), u = 2^-53.  The oracle allows twice that."""
  return (4 * dim + 32) * U53


class _Dist:
  """exact squared distances with the rounding bound of the double computation: interval [lo, hi] per pair"""

  def __init__(self, d2, sq, dim, exact):
    self.d2, self.sq, self.c = d2, sq, (Fraction(0) if exact else _err_const(dim))

  def lo(self, i, j):
    return self.d2(i, j) - self.c * (self.sq[i] + self.sq[j])

  def hi(self, i, j):
    return self.d2(i, j) + self.c * (self.sq[i] + self.sq[j])


def oracle_kc(inp):
  def fail(sig, what, expected=None, observed=None):
    return dict(signature=f"C18:kc:{sig}", what=f"k_center_clustering: {what}", input=dict(kind="kc", **inp), observed=observed,
                expected=expected, oracle="brute-force farthest-first / nearest-centre definition in exact rational arithmetic")
  try:
    out = run_kc(inp)
  except Exception as e:
    return fail(f"raises:{type(e).__name__}", f"raised {type(e).__name__}: {e}", "a result", repr(e))
  pts = [[_fr(x) for x in p] for p in inp["points"]]
  n, k, first = len(pts), inp["k"], inp["first"]
  valid = 0 < k < n and 0 <= first < n
  if out is None:
    return fail("rejects-valid-input", "AssertionError on valid input", "a result", "AssertionError") if valid else None
  if not valid:
    return fail("accepts-invalid-input", "no AssertionError on k or first index out of range", "AssertionError", out)
  cs, part = out["centres"], out["partition"]
  if len(cs) != k or cs[0] != first:
    return fail("first-centre", "the centres do not start at the given first index / are not k many", dict(first=first, k=k), out)
  if len(set(cs)) != k or any(not 0 <= c < n for c in cs):
    return fail("centres-not-distinct-valid", "the centres are not distinct indices in range", None, out)
  D = _Dist(lambda i, j: _d2(pts[i], pts[j]), [sum(x * x for x in p) for p in pts], len(pts[0]) if pts else 0, exact_in_double(pts))
  for i in range(1, k):
    pre = cs[:i]
    rest = [t for t in range(n) if t not in pre]
    md_lo = {t: min(D.lo(c, t) for c in pre) for t in rest}
    md_hi = {t: min(D.hi(c, t) for c in pre) for t in rest}
    best = max(md_lo.values())
    if md_hi[cs[i]] < best:   # certainly not a farthest point, whatever the rounding did
      return fail("next-centre-not-farthest", f"centre {i} (index {cs[i]}) is not at maximal distance from the chosen centres",
                  dict(max_sq_distance=float(best), attained_by=[t for t in rest if md_lo[t] == best]), out)
  if len(part) != n or any(not 0 <= p < k for p in part):
    return fail("partition-shape", "the partition is not one cluster label in range per point", None, out)
  for t in range(n):  # centres included: a centre's nearest centre is itself or one at the same location
    nearest = min(D.hi(c, t) for c in cs)
    if D.lo(cs[part[t]], t) > nearest:
      ds = [_d2(pts[c], pts[t]) for c in cs]
      return fail("partition-not-nearest", f"point {t} is assigned to centre {part[t]} which is not a nearest centre", ds.index(min(ds)), out)
  return None


def _search_coords(inp):
  """Own statement of the normalised search space: numeric coordinates scaled by (x - lower) / (upper - lower) (NOT clipped: an
  observation outside the current bounds keeps its distance); two points differing in a categorical parameter get
  2*one_hot_dim added to their squared distance (each of the two one-hot slots is sqrt(dim)).  Returns the distance object."""
  comps = inp["components"]
  D = one_hot_dim(comps)
  num, cat = [], []
  for p in inp["points"]:
    a, b = [], []
    for x, c in zip(p, comps):
      e = c["elements"]
      if c["var_type"] == "categorical":
        b.append(int(x))
      else:
        lo, hi = (_fr(min(e)), _fr(max(e)))
        a.append((_fr(x) - lo) / (hi - lo))
    num.append(a)
    cat.append(b)
  def d2(i, j):
    return _d2(num[i], num[j]) + 2 * D * sum(1 for x, y in zip(cat[i], cat[j]) if x != y)
  sq = [sum(x * x for x in a) + D * len(b) for a, b in zip(num, cat)]
  return _Dist(d2, sq, D, view_is_exact(inp))


def oracle_view(inp):
  def fail(sig, what, expected=None, observed=None):
    return dict(signature=sig if sig.startswith("C18:") else f"C18:view:{sig}", what=f"best-assignments endpoint: {what}",
                input=dict(kind="view", **inp), observed=observed, expected=expected,
                oracle="direct statement of the property; brute-force farthest-first clustering in exact rational arithmetic")
  try:
    out = run_view(inp)
  except Exception as e:
    return fail(f"raises:{type(e).__name__}", f"raised {type(e).__name__}: {e}", "a result", repr(e))
  n, k = len(inp["points"]), inp["k"]
  valid = 2 <= k < n
  if out is None:
    return fail("rejects-valid-request", "AssertionError on a valid request", "k indices", "AssertionError") if valid else None
  if not valid:
    return fail("accepts-invalid-request", "no AssertionError although not 2 <= k < n", "AssertionError", out)
  if len(out) != k or len(set(out)) != k or any((not isinstance(i, int)) or not 0 <= i < n for i in out):
    return fail("not-k-distinct-valid-indices", "the result is not k distinct observation indices in range", k, out)
  fails = list(inp["failures"])
  sgn = -1 if inp["maximize"] else 1
  # smaller is better; the value stored with a FAILED observation is never read (it may be a sentinel, an infinity, NaN)
  raw = [None if fails[i] else sgn * _fr(v) for i, v in enumerate(inp["values"])]
  succ = [i for i in range(n) if not fails[i]]
  # what "best-valued" means: every successful observation is better than every failed one; successes are ordered by their raw
  # value for the objective; failed observations are all alike.  eff is that order as a sortable key.
  eff = [(1, Fraction(0)) if fails[i] else (0, raw[i]) for i in range(n)]
  # The rescaling v -> negate * scale * (v - midpoint) is monotone in double arithmetic (a subtraction of one constant and a
  # multiplication by one positive constant, both monotone under rounding), so a better raw value never gets a worse scaled
  # value; two DISTINCT raw values can collapse to one scaled value only when they differ by a few ulps of the largest
  # magnitude involved (|v| or |midpoint| <= max |v|): such pairs are undecidable, everything else is decided.
  vtol = 8 * U53 * max([abs(raw[i]) for i in succ] or [Fraction(0)])
  best = min(eff)
  if succ and not any((not fails[i]) and raw[i] - best[1] <= vtol for i in out):
    return fail("overall-best-missing", "no returned index is a best observation (a successful observation with the best value)",
                [i for i in range(n) if eff[i] == best], out)
  vs = sorted(set(raw[i] for i in succ))
  fuzzy_vals = any(b - a <= vtol for a, b in zip(vs, vs[1:]))
  D = _search_coords(inp)

  def clusters_from(f):
    """Farthest-first clusters started at f, or None when some choice is tied or within the rounding of the double computation
    (the property fixes no tie rule and doubles may order such candidates either way)."""
    cs = [f]
    for _ in range(1, k):
      rest = [t for t in range(n) if t not in cs]
      md_lo = {t: min(D.lo(c, t) for c in cs) for t in rest}
      md_hi = {t: min(D.hi(c, t) for c in cs) for t in rest}
      top = max(md_lo.values())
      cand = [t for t in rest if md_hi[t] >= top]
      if len(cand) > 1:
        return None
      cs.append(cand[0])
    part = []
    for t in range(n):
      if t in cs:
        part.append(cs.index(t))
        continue
      near = min(D.hi(c, t) for c in cs)
      cand = [j for j in range(k) if D.lo(cs[j], t) <= near]
      if len(cand) > 1:
        return None
      part.append(cand[0])
    return cs, part

  if not fuzzy_vals:
    verdicts = []
    for f in [i for i in range(n) if eff[i] == best]:  # the clustering starts at a best observation (any of them, on ties)
      cl = clusters_from(f)
      if cl is None:
        verdicts.append(None)
        continue
      cs, part = cl
      ok = sorted(part[i] for i in out) == list(range(k)) and all(eff[i] == min(eff[t] for t in range(n) if part[t] == part[i]) for i in out)
      verdicts.append((ok, cs, part))
    STATS["cluster_check_decided" if verdicts and all(v is not None for v in verdicts) else "cluster_check_undecided_ties"] += 1
    if verdicts and all(v is not None and not v[0] for v in verdicts):
      _, cs, part = verdicts[0]
      return fail("best-indices-are-not-the-cluster-minima-of-farthest-first",
                  "the result is not one best-valued observation from each farthest-first cluster started at the best observation",
                  dict(centres=cs, partition=part), out)
  return None


def oracle(inp):
  inp = dict(inp)
  kind = inp.pop("kind")
  return oracle_kc(inp) if kind == "kc" else oracle_view(inp)


def gen_float_kc(rng):
  n, dim = rng.randint(2, 40), rng.randint(1, 6)
  scale = 10.0 ** rng.randint(-3, 3)
  off = rng.choice([0.0, 0.0, 10.0, -1000.0]) * scale
  pts = [[off + round(rng.gauss(0, 1), rng.choice([1, 3, 9])) * scale for _ in range(dim)] for _ in range(n)]
  for _ in range(rng.randint(0, n // 3)):
    pts[rng.randrange(n)] = list(pts[rng.randrange(n)])
  k = rng.randint(1, n - 1)
  if rng.random() < 0.25 and n >= 5:
    # nearly coincident points (spacing 1e-6 .. 1e-9, not dyadic) around a few far-apart locations, more centres than locations.
    # Around the origin the expansion |x|^2 + |z|^2 - 2 x.z has no cancellation and every spacing is decided; around a location
    # of size 1 squared distances below ~1e-14 drown in the rounding and the oracle calls those choices undecided.
    groups = rng.randint(1, min(3, n - 2))
    sp = 10.0 ** -rng.uniform(6.0, 9.3)
    bases = [[0.0] * dim if (g == 0 and rng.random() < 0.5) else [round(rng.uniform(-1, 2), 2) for _ in range(dim)] for g in range(groups)]
    pts = []
    for i in range(n):
      g = 0 if (i < 3 or rng.random() < 0.4) else rng.randrange(groups)
      pts.append([x + sp * round(rng.uniform(-4, 4), 1) for x in bases[g]])
    rng.shuffle(pts)
    k = rng.randint(min(groups + 1, n - 1), n - 1)
  return dict(points=pts, first=rng.randrange(n), k=k)


def gen_float_view(rng):
  comps = []
  for _ in range(rng.randint(0, 3)):
    comps.append(dict(var_type="categorical", elements=rng.sample(range(0, 9), rng.randint(2, 5))))
  for _ in range(rng.randint(0 if comps else 1, 4)):
    t = rng.choice(["double", "int", "quantized"])
    if t == "double":
      lo = round(rng.uniform(-50, 50), 2)
      comps.append(dict(var_type=t, elements=[lo, lo + round(rng.uniform(0.1, 30), 2)]))
    elif t == "int":
      lo = rng.randint(-20, 20)
      comps.append(dict(var_type=t, elements=[lo, lo + rng.randint(1, 30)]))
    else:
      comps.append(dict(var_type=t, elements=sorted(set(round(rng.uniform(-5, 5), 1) for _ in range(rng.randint(3, 6))) | {-6.5, 7.25})))
  rng.shuffle(comps)
  n = rng.randint(3, 30)
  def point():
    p = []
    for c in comps:
      e = c["elements"]
      if c["var_type"] in ("categorical", "quantized"):
        p.append(rng.choice(e))
      elif c["var_type"] == "int":
        p.append(rng.randint(e[0], e[1]))
      else:
        p.append(round(rng.uniform(e[0], e[1]), 3))
    return p
  pts = [point() for _ in range(n)]
  k = rng.randint(2, n - 1)
  doubles = [j for j, c in enumerate(comps) if c["var_type"] == "double"]
  geo = rng.random()
  if geo < 0.2 and doubles and n >= 5:
    # nearly coincident observations (late stage of an optimisation): spacing 1e-6 .. 1e-9 in normalised units on the double
    # parameters, a few far-apart groups, more solutions than groups; half of the time the first group sits at the lower bounds
    # (normalised origin: no cancellation in the distance expansion, every spacing is decided)
    groups = rng.randint(1, min(3, n - 2))
    sp = 10.0 ** -rng.uniform(6.0, 9.3)
    bases = [point() for _ in range(groups)]
    if rng.random() < 0.5:
      for j, c in enumerate(comps):
        if c["var_type"] != "categorical":
          bases[0][j] = min(c["elements"])
    pts = []
    for i in range(n):
      g = 0 if (i < 3 or rng.random() < 0.4) else rng.randrange(groups)
      p = list(bases[g])
      for j in doubles:
        e = comps[j]["elements"]
        p[j] = p[j] + (e[1] - e[0]) * sp * round(rng.uniform(-4, 4), 1)
      pts.append(p)
    rng.shuffle(pts)
    k = rng.randint(min(groups + 1, n - 1), n - 1)
  elif geo < 0.45:
    # observations outside the current bounds of numeric parameters (bounds tightened after they were reported)
    numeric = [j for j, c in enumerate(comps) if c["var_type"] != "categorical"]
    for _ in range(rng.randint(1, max(1, n // 3))):
      if not numeric:
        break
      j = rng.choice(numeric)
      c = comps[j]
      lo, hi = min(c["elements"]), max(c["elements"])
      w = hi - lo
      out = rng.choice([lo - rng.uniform(0.05, 1.5) * w, hi + rng.uniform(0.05, 1.5) * w])
      pts[rng.randrange(n)][j] = int(math.floor(out)) if c["var_type"] == "int" else round(out, 3)
  for _ in range(rng.randint(0, n // 3)):
    pts[rng.randrange(n)] = list(pts[rng.randrange(n)])
  scale = 10.0 ** rng.randint(-4, 4)
  off = rng.choice([0, 0, 100, -3]) * scale
  vals = [off + round(rng.gauss(0, 1), rng.choice([0, 1, 2])) * scale for _ in range(n)]
  if rng.random() < 0.25:
    # nearly tied values (a converged metric): spread below or just above 2e-8, i.e. inside / just outside the degenerate-scale
    # branch of the midpoint normalisation; all below -1, all above +1, inside [-1, 1], around 0 with mixed signs
    base = rng.choice([-5.0, -5.0, -1.5, -50.0, -1.0, -0.7, 0.0, 0.3, 1.0, 1.5, 5.0, 50.0, -1234.5])
    step = rng.choice([1e-9, 2e-9, 3e-10, 2.5e-9, 4e-9])
    sign = rng.choice([1, -1])
    vals = [base + sign * step * rng.randint(0, 7) for _ in range(n)]
    if base == 0.0 and rng.random() < 0.5:
      vals = [rng.choice([1, -1]) * v for v in vals]
  pf = rng.choice([0, 0.2, 0.6])
  fails = [rng.random() < pf for _ in range(n)]
  m = rng.choice([1, 2])
  vals, _ = store_with_failed(rng, vals, fails)
  return dict(components=comps, points=pts, values=vals, failures=fails, maximize=rng.random() < 0.5, k=k,
              num_metrics=m, opt_index=rng.randrange(m))


def search(ctx, hints, broken):
  fails, n, sigs = [], 0, set()
  def add(r):
    if r and r["signature"] not in sigs:
      sigs.add(r["signature"])
      fails.append(r)
  for h in hints:
    if "kind" in h and "input" in h:
      n += 1
      add(oracle(dict(kind=h["kind"], **h["input"])))
  # deterministic cases: the witnesses of the two repaired defects (one success among failures; a cluster whose only success is
  # the worst success overall and is preceded by a failed member), both objectives, and a cluster without any success
  one = [dict(var_type="double", elements=[0.0, 4.0])]
  for pts, vals, fl in (([[0.0], [4.0], [1.0]], [5.0, 7.0, 3.0], [True, True, False]),
                        ([[0.0], [4.0], [1.0], [3.0]], [5.0, 7.0, 3.0, 6.0], [False, True, False, False]),
                        ([[0.0], [4.0], [1.0], [3.0]], [5.0, 7.0, 3.0, 6.0], [False, True, False, True])):
    for mx in (False, True):
      n += 1
      add(oracle(dict(kind="view", components=one, points=pts, values=[-v for v in vals] if mx else vals, failures=fl, maximize=mx, k=2,
                      num_metrics=1, opt_index=0)))
  # a failed observation storing a sentinel / infinity / NaN (every class of store_with_failed, both objectives): five observations
  # on a line, the best success (index 2) is neither the first observation nor the first of its cluster
  for stored in FAILED_SENTINELS[:4] + [2.0 ** 60, -2.0 ** 60, "inf", "-inf", "nan"]:
    for mx in (False, True):
      vals = [5.0, 0.0, 3.0, 6.0, 4.0]
      vals = [-v for v in vals] if mx else vals
      vals[1] = stored
      n += 1
      add(oracle(dict(kind="view", components=one, points=[[0.0], [4.0], [1.0], [3.0], [0.5]], values=vals,
                      failures=[False, True, False, False, False], maximize=mx, k=2, num_metrics=1, opt_index=0)))
  budget = ctx.n(1500, 25000) * (2 if broken else 1)
  rng = ctx.rng
  for _ in range(budget):
    u = rng.random()
    if u < 0.15:
      inp = dict(kind="kc", **gen_kc(rng, rng.random() < 0.05))
    elif u < 0.3:
      inp = dict(kind="kc", **gen_float_kc(rng))
    elif u < 0.55:
      inp = dict(kind="view", **gen_view(rng, rng.random() < 0.05, square=rng.random() < 0.5))
    else:
      inp = dict(kind="view", **gen_float_view(rng))
    n += 1
    add(oracle(inp))
    if len(fails) >= 3:
      break
  return dict(evaluations=n, failures=fails, oracle="brute-force farthest-first clustering and direct property statement over exact Fractions", **STATS)


def replay(ctx, payload):
  return oracle(payload["input"])


LEVEL_TEXT = ("Coq theorems (loop invariant of the farthest-first loop with its -inf self-distance trick, first-extremum semantics of "
              "argmax/argmin, pigeonhole for distinctness, invariant of the per-cluster strict-< scan) on an executable model of "
              "k_center_clustering and of the endpoint body, for all point sets, values, first indices and 0 < k < n; the model (including "
              "the one-hot / unit-cube / category-separation glue, the value scaling and the +inf the view puts in place of a failed observation's value) is tied to the code "
              "by exact differential runs of the real endpoint whose comparison is evaluated inside Coq, and the implementation's outputs "
              "are also checked against the decidable specifications")
LEVEL_NOTE = ("Exact arithmetic over Q; squared distances compared (same argmax/argmin as distances); sqrt(one_hot_dim) enters as an explicit "
              "argument; the values the view compares are extended values (scaled value, +inf for a failed observation), so 'overall best "
              "observation' and 'best-valued observation of its cluster' are proved in the strict reading on the raw values for every history "
              "with at least one success (C18_view_strict, C18_overall_best_strict, C18_never_only_failures); harness and case printer "
              "trusted; no axioms")
TECHNIQUE = "Coq proof (loop invariants, induction) on executable model + in-Coq differential correspondence through the real endpoint"
DESIGN_REF = "DESIGN.md section 7, C18"

# --- second build round: additions to the claimed level
LEVEL_TEXT += ("; the link to raw values: the first returned index is the first successful observation with the best raw value, every "
               "returned index is the first best success of its cluster, a failed observation is returned only for a cluster without "
               "any success (C18_view_strict); the strict specification is also evaluated in Coq on the implementation's own output")

# --- gap round: what a failed observation stores
LEVEL_TEXT += ("; the number stored with a FAILED observation never matters: scale, midpoint, lie, compared values and the answer are functions of the successful "
               "values and the failure mask alone (C18_scaled_values_ignore_failed_values, C18_view_ignores_failed_values, C18_view_depends_on_successes_only), and "
               "the generated histories store ordinary numbers, far-away powers of two, sentinels (1e30, the largest double), infinities and NaN there")
