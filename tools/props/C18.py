"""C18 — multi-solution best assignments are distinct, valid and best in their cluster."""
import math
from fractions import Fraction

import numpy

from lib import common as C

PROP = "C18"
PROPS_FILES = ["Props/C18.v"]
ASSUMPTIONS = [
  "exact arithmetic over Q: coordinates are small integers / dyadic rationals, parameter widths are powers of two and the relaxed "
  "dimension is a perfect square when categoricals are present, so every squared distance the implementation computes is exact",
  "the code compares squared distances only; argmax/argmin of a distance and of its square coincide (x -> x^2 is increasing on x >= 0), "
  "so 'farthest' and 'nearest' are stated on squared distances",
  "scaled values: v -> negate*scale*(v - midpoint) with one positive double `scale` is injective and order preserving on the few-bit "
  "values generated (ties stay ties, distinct values stay distinct), so comparisons on doubles and on the exact rationals of the model agree",
  "one optimised metric, no task costs (the endpoint asserts that no Pareto optimisation is required); finite values",
  "'overall best observation' is read on the scaled values (failures carry the lie value), see LEVEL_NOTE",
]
TRUSTED = ["tools/props/C18.py case generator, endpoint driver and the Q-literal printer", "Model/KCenterCorr.v check function"]

# signature of the one finding on the unchanged tree (strict reading of 'the overall best observation'); see the report
KNOWN_SIG = "C18:view:overall-best:only-failed-observations-returned-when-successes-tie-with-lie"
REPORT_STRICT_OVERALL_BEST = True
CLUSTER_SIG = "C18:view:cluster-best:failed-observation-returned-although-its-cluster-has-a-success-tying-with-the-lie"
KNOWN_SIGS = (KNOWN_SIG, CLUSTER_SIG)
STATS = dict(cluster_check_decided=0, cluster_check_undecided_ties=0)


# ------------------------------------------------------------------------------------------ implementation drivers


def run_kc(inp):
  from libsigopt.views.rest.multisolution_best_assignments import k_center_clustering
  pts = numpy.array(inp["points"], dtype=float)
  p0 = pts.copy()
  try:
    centres, part = k_center_clustering(pts, inp["first"], inp["k"])
  except AssertionError:
    return None
  assert (p0 == pts).all(), "k_center_clustering modified its input points"
  return dict(centres=[int(c) for c in centres], partition=[int(p) for p in part])


def _components(comps):
  out = []
  for c in comps:
    t, e = c["var_type"], c["elements"]
    out.append(dict(var_type=t, elements=[int(x) for x in e] if t == "categorical" else list(e)))
  return out


def run_view(inp):
  """Drive the real endpoint. Returns best_indices, or None when it raised AssertionError."""
  from libsigopt.aux.adapter_info_containers import DomainInfo, MetricsInfo, PointsContainer
  from libsigopt.views.rest.multisolution_best_assignments import MultisolutionBestAssignments
  n = len(inp["points"])
  m = int(inp.get("num_metrics", 1))
  oi = int(inp.get("opt_index", 0))
  vals = numpy.zeros((n, m))
  for j in range(m):
    vals[:, j] = inp["values"] if j == oi else [(7 * i + 3 * j) % 5 for i in range(n)]
  objectives = ["maximize" if inp["maximize"] else "minimize"] * m
  if m > 1:  # the other metrics are stored metrics with the opposite objective
    objectives = [o if j == oi else ("minimize" if inp["maximize"] else "maximize") for j, o in enumerate(objectives)]
  points = numpy.array(inp["points"], dtype=float)
  failures = numpy.array(inp["failures"], dtype=bool)
  params = dict(
    tag={"probe": PROP},
    domain_info=DomainInfo(constraint_list=[], domain_components=_components(inp["components"]), force_hitandrun_sampling=False, priors=None),
    task_options=[],
    metrics_info=MetricsInfo(requires_pareto_frontier_optimization=False, observation_budget=100, user_specified_thresholds=[None] * m,
                             objectives=objectives, optimized_metrics_index=[oi], constraint_metrics_index=[]),
    points_sampled=PointsContainer(points=points, values=vals, value_vars=numpy.full((n, m), 1e-10), failures=failures, task_costs=None),
    num_solutions=inp["k"],
  )
  p0, v0, f0 = points.copy(), vals.copy(), failures.copy()
  try:
    resp = MultisolutionBestAssignments(params).view()
  except AssertionError:
    return None
  assert (p0 == points).all() and (v0 == vals).all() and (f0 == failures).all(), "the endpoint modified the caller's history"
  return [int(i) for i in resp["best_indices"]]


def one_hot_dim(comps):
  return sum(len(c["elements"]) if c["var_type"] == "categorical" else 1 for c in comps)


# ------------------------------------------------------------------------------------------ generators


def gen_points_grid(rng, n, dim):
  hi = rng.choice([1, 2, 4, 8])
  half = rng.random() < 0.3
  pts = [[rng.randint(-hi, hi) + (rng.choice([0, 0.5]) if half else 0) for _ in range(dim)] for _ in range(n)]
  for _ in range(rng.randint(0, n // 2)):  # duplicated points, shared coordinates
    i, j = rng.randrange(n), rng.randrange(n)
    if rng.random() < 0.6:
      pts[i] = list(pts[j])
    else:
      pts[i][rng.randrange(dim)] = pts[j][rng.randrange(dim)]
  return pts


def gen_kc(rng, malformed=False):
  n, dim = rng.randint(2, 12), rng.randint(1, 4)
  pts = gen_points_grid(rng, n, dim)
  if rng.random() < 0.08:
    pts = [list(pts[0]) for _ in range(n)]  # all points equal
  if rng.random() < 0.12 and n >= 3:
    # candidates that are ALMOST equidistant (squared distances differing by 2^-27 .. 2^-40 relative): exactly representable in double
    # arithmetic, so the farthest / nearest choice is decided, but only just
    e = 2.0 ** -rng.choice([27, 28, 30, 34, 40])
    pts = [[0.0] * dim, [1.0] + [0.0] * (dim - 1), [0.5 + rng.choice([-1, 1]) * e] + [0.0] * (dim - 1)] + [[rng.choice([0.25, 0.75, 2.0, -1.0 + e])] + [0.0] * (dim - 1)
                                                                                                               for _ in range(n - 3)]
  first, k = rng.randrange(n), rng.randint(1, n - 1)
  if malformed:
    first, k = rng.choice([(first, 0), (first, n), (first, n + 2), (n, k), (n + 3, k)])
  return dict(points=pts, first=first, k=k)


def gen_domain(rng, square=True):
  comps = []
  ncat = rng.choice([0, 0, 1, 1, 2])
  for _ in range(ncat):
    m = rng.randint(2, 4)
    comps.append(dict(var_type="categorical", elements=rng.sample(range(0, 8), m)))
  def numeric():
    t = rng.choice(["double", "int", "quantized"])
    lo, w = rng.randint(-4, 4), rng.choice([1, 2, 4, 8])
    if t == "quantized":
      inner = sorted(set(lo + w * j / 8 for j in rng.sample(range(1, 8), rng.randint(0, 3))))
      el = [lo] + inner + [lo + w]
      rng.shuffle(el)
      return dict(var_type=t, elements=el)
    return dict(var_type=t, elements=[lo, lo + w])
  for _ in range(rng.randint(0 if ncat else 1, 3)):
    comps.append(numeric())
  if ncat and square:
    while one_hot_dim(comps) not in (4, 9, 16):
      comps.append(numeric())
  rng.shuffle(comps)
  return comps


def gen_point(rng, comps):
  p = []
  for c in comps:
    t, e = c["var_type"], c["elements"]
    if t == "categorical" or t == "quantized":
      p.append(rng.choice(e))
    elif t == "int":
      p.append(rng.randint(e[0], e[1]))
    else:
      p.append(e[0] + (e[1] - e[0]) * rng.randint(0, 8) / 8)
  return p


def gen_values(rng, n):
  style = rng.choice(["ints", "ints", "tight", "halves", "const", "const_small", "two"])
  if style == "ints":
    v = [rng.randint(-6, 6) for _ in range(n)]
  elif style == "tight":
    v = [rng.randint(0, 2) for _ in range(n)]
  elif style == "halves":
    v = [rng.randint(-8, 8) / 2 for _ in range(n)]
  elif style == "const":
    v = [rng.choice([-3, 2, 5])] * n
  elif style == "const_small":
    v = [rng.choice([0, 0.5, -1, 1])] * n
  else:
    a, b = rng.randint(-4, 4), rng.randint(-4, 4)
    v = [rng.choice([a, b]) for _ in range(n)]
  return v


def gen_view(rng, malformed=False, square=True):
  comps = gen_domain(rng, square)
  n = rng.randint(3, 10)
  base = [gen_point(rng, comps) for _ in range(n)]
  for _ in range(rng.randint(0, n // 2)):  # duplicated configurations
    base[rng.randrange(n)] = list(base[rng.randrange(n)])
  pf = rng.choice([0, 0, 0.3, 0.7, 1.0])
  failures = [rng.random() < pf for _ in range(n)]
  if rng.random() < 0.1:  # exactly one success
    failures = [True] * n
    failures[rng.randrange(n)] = False
  k = rng.randint(2, n - 1)
  if malformed:
    k = rng.choice([0, 1, n, n + 1])
  m = rng.choice([1, 1, 2, 3])
  return dict(components=comps, points=base, values=gen_values(rng, n), failures=failures, maximize=rng.random() < 0.5, k=k,
              num_metrics=m, opt_index=rng.randrange(m))


# ------------------------------------------------------------------------------------------ Coq case printer


def pts_lit(pts):
  return C.listlit([C.listlit(p, C.qlit) for p in pts])


def comp_lit(c):
  t, e = c["var_type"], c["elements"]
  if t == "categorical":
    return f"CCat {C.listlit(e, C.qlit)}"
  if t == "quantized":
    return f"CQuant {C.listlit(e, C.qlit)}"
  return f"CNum {C.qlit(e[0])} {C.qlit(e[1])}"


def coq_case(kind, inp, out):
  nl = lambda l: C.listlit(l, C.nlit)
  if kind == "kc":
    o = "None" if out is None else f"(Some ({nl(out['centres'])}, {nl(out['partition'])}))"
    return f"CKC {pts_lit(inp['points'])} {C.nlit(inp['first'])} {C.nlit(inp['k'])} {o}"
  tgt = float(numpy.sqrt(one_hot_dim(inp["components"])))
  o = "None" if out is None else f"(Some {nl(out)})"
  return (f"CView {C.listlit([comp_lit(c) for c in inp['components']])} {C.qlit(tgt)} {pts_lit(inp['points'])} "
          f"{C.listlit(inp['values'], C.qlit)} {C.listlit(inp['failures'], C.blit)} {C.blit(inp['maximize'])} {C.nlit(inp['k'])} {o}")


def features(kind, inp, out):
  f = [kind, "error" if out is None else "ok"]
  if kind == "kc":
    pts = [tuple(p) for p in inp["points"]]
    f.append("dup-points" if len(set(pts)) < len(pts) else "distinct-points")
    f.append("k>distinct-locations" if inp["k"] > len(set(pts)) else "k<=distinct-locations")
  else:
    f.append("categorical" if any(c["var_type"] == "categorical" for c in inp["components"]) else "numeric-only")
    fl = inp["failures"]
    f.append("all-failed" if all(fl) else "some-failed" if any(fl) else "no-failed")
    ok = [v for v, b in zip(inp["values"], fl) if not b]
    f.append("successes-all-tied" if ok and len(set(ok)) == 1 else "tied-values" if len(set(inp["values"])) < len(fl) else "distinct-values")
    pts = [tuple(p) for p in inp["points"]]
    f.append("dup-points" if len(set(pts)) < len(pts) else "distinct-points")
    f.append("maximize" if inp["maximize"] else "minimize")
    f.append("stored-metrics" if inp.get("num_metrics", 1) > 1 else "single-metric")
  return f


HEADER = ("From Coq Require Import List QArith Bool.\nFrom LV Require Import Model.KCenter Model.KCenterCorr.\nOpen Scope Q_scope.")


def correspondence(ctx):
  n = ctx.n(600, 8000)
  rng = ctx.rng
  cases, meta, seen, dist, dis = [], [], set(), {}, []
  nontriv = 0
  for _ in range(n):
    kind = "kc" if rng.random() < 0.4 else "view"
    mal = rng.random() < 0.06
    inp = gen_kc(rng, mal) if kind == "kc" else gen_view(rng, mal)
    try:
      out = run_kc(inp) if kind == "kc" else run_view(inp)
    except Exception as e:  # anything but AssertionError is outside the model's error type
      dis.append(dict(what=f"C18 correspondence ({kind}): implementation raised {type(e).__name__}: {e}", kind=kind, input=inp, observed=repr(e)))
      continue
    cases.append(coq_case(kind, inp, out))
    meta.append((kind, inp, out))
    for ft in features(kind, inp, out):
      dist[ft] = dist.get(ft, 0) + 1
    h = C.canon_hash([kind, inp])
    if h not in seen and out is not None and inp["k"] >= 2:
      nontriv += 1
    seen.add(h)
  bad = C.run_cases("C18", HEADER, "case", "check", cases)
  dis += [dict(what=f"C18 correspondence case {i} ({meta[i][0]}): implementation output differs from Model.KCenter / its specification",
               kind=meta[i][0], input=meta[i][1], observed=meta[i][2]) for i in bad]
  return dict(evaluations=n, distinct_nontrivial=nontriv,
              rule="k_center_clustering on <=12 points in <=4 dimensions (small integers / halves, forced duplicates, all-equal sets, every first "
                   "index and 1<=k<n) and the whole endpoint on mixed domains (double/int/quantized with power-of-two widths, up to two "
                   "categoricals, relaxed dimension 4/9/16 when categorical) with 3..10 observations, duplicated configurations, tied / constant "
                   "values, zero/some/all failures, both objectives, stored metrics beside the optimised one, every 2<=k<n; a malformed stream "
                   "(k in {0,1,n,n+1}, first index out of range) for the assertion branches; non-trivial = the implementation returned a "
                   "result for k>=2; distinct by hash of the canonical input",
              samples=[dict(kind=k, input=i, impl_output=o) for k, i, o in meta[:3]], distribution=dist, disagreements=dis)


# ------------------------------------------------------------------------------------------ independent oracle
# Shares nothing with the library or the Coq model: exact Fractions, brute-force farthest-first, direct definitions.


def _fr(x):
  return Fraction(x)


def _d2(a, b):
  return sum((x - y) ** 2 for x, y in zip(a, b))


def _near(a, b, scale):
  return abs(a - b) <= Fraction(1, 10 ** 9) * max(1, scale)


def oracle_kc(inp):
  def fail(sig, what, expected=None, observed=None):
    return dict(signature=f"C18:kc:{sig}", what=f"k_center_clustering: {what}", input=dict(kind="kc", **inp), observed=observed,
                expected=expected, oracle="brute-force farthest-first / nearest-centre definition in exact rational arithmetic")
  try:
    out = run_kc(inp)
  except Exception as e:
    return fail(f"raises:{type(e).__name__}", f"raised {type(e).__name__}: {e}", "a result", repr(e))
  pts = [[_fr(x) for x in p] for p in inp["points"]]
  n, k, first = len(pts), inp["k"], inp["first"]
  valid = 0 < k < n and 0 <= first < n
  if out is None:
    return fail("rejects-valid-input", "AssertionError on valid input", "a result", "AssertionError") if valid else None
  if not valid:
    return fail("accepts-invalid-input", "no AssertionError on k or first index out of range", "AssertionError", out)
  cs, part = out["centres"], out["partition"]
  if len(cs) != k or cs[0] != first:
    return fail("first-centre", "the centres do not start at the given first index / are not k many", dict(first=first, k=k), out)
  if len(set(cs)) != k or any(not 0 <= c < n for c in cs):
    return fail("centres-not-distinct-valid", "the centres are not distinct indices in range", None, out)
  scale = max(sum(x * x for x in p) for p in pts) + 1
  for i in range(1, k):
    pre = cs[:i]
    md = {t: min(_d2(pts[c], pts[t]) for c in pre) for t in range(n) if t not in pre}
    best = max(md.values())
    if md[cs[i]] < best and not _near(md[cs[i]], best, scale):
      return fail("next-centre-not-farthest", f"centre {i} (index {cs[i]}) is not at maximal distance from the chosen centres",
                  dict(max_sq_distance=float(best), attained_by=[t for t in md if md[t] == best]), out)
  if len(part) != n or any(not 0 <= p < k for p in part):
    return fail("partition-shape", "the partition is not one cluster label in range per point", None, out)
  for t in range(n):  # centres included: a centre's nearest centre is itself or one at the same location
    ds = [_d2(pts[c], pts[t]) for c in cs]
    if ds[part[t]] > min(ds) and not _near(ds[part[t]], min(ds), scale):
      return fail("partition-not-nearest", f"point {t} is assigned to centre {part[t]} which is not a nearest centre", ds.index(min(ds)), out)
  return None


def _search_coords(inp):
  """Own statement of the normalised search space: numeric coordinates scaled to [0,1]; two points differing in a
  categorical parameter get 2*one_hot_dim added to their squared distance (each of the two one-hot slots is sqrt(dim))."""
  comps = inp["components"]
  D = one_hot_dim(comps)
  num, cat = [], []
  for p in inp["points"]:
    a, b = [], []
    for x, c in zip(p, comps):
      e = c["elements"]
      if c["var_type"] == "categorical":
        b.append(int(x))
      else:
        lo, hi = (_fr(min(e)), _fr(max(e)))
        a.append((_fr(x) - lo) / (hi - lo))
    num.append(a)
    cat.append(b)
  def d2(i, j):
    return _d2(num[i], num[j]) + 2 * D * sum(1 for x, y in zip(cat[i], cat[j]) if x != y)
  has_cat = any(c["var_type"] == "categorical" for c in comps)
  dyadic = all(q.denominator & (q.denominator - 1) == 0 and q.denominator <= 1024 for a in num for q in a)
  exact = dyadic and (not has_cat or math.isqrt(D) ** 2 == D)
  return d2, exact, len(num[0]) + 2 * D * len(cat[0]) + 1


def oracle_view(inp):
  def fail(sig, what, expected=None, observed=None):
    return dict(signature=sig if sig.startswith("C18:") else f"C18:view:{sig}", what=f"best-assignments endpoint: {what}",
                input=dict(kind="view", **inp), observed=observed, expected=expected,
                oracle="direct statement of the property; brute-force farthest-first clustering in exact rational arithmetic")
  try:
    out = run_view(inp)
  except Exception as e:
    return fail(f"raises:{type(e).__name__}", f"raised {type(e).__name__}: {e}", "a result", repr(e))
  n, k = len(inp["points"]), inp["k"]
  valid = 2 <= k < n
  if out is None:
    return fail("rejects-valid-request", "AssertionError on a valid request", "k indices", "AssertionError") if valid else None
  if not valid:
    return fail("accepts-invalid-request", "no AssertionError although not 2 <= k < n", "AssertionError", out)
  if len(out) != k or len(set(out)) != k or any((not isinstance(i, int)) or not 0 <= i < n for i in out):
    return fail("not-k-distinct-valid-indices", "the result is not k distinct observation indices in range", k, out)
  fails = list(inp["failures"])
  sgn = -1 if inp["maximize"] else 1
  raw = [sgn * _fr(v) for v in inp["values"]]          # smaller is better
  succ = [i for i in range(n) if not fails[i]]
  if succ:
    lie = max(raw[i] for i in succ)                    # a failure is as good as the worst success
    eff = [lie if fails[i] else raw[i] for i in range(n)]
  else:
    eff = [Fraction(0)] * n
  best = min(eff)
  if not any(eff[i] == best for i in out):
    return fail("overall-best-missing", "no returned index attains the best value", [i for i in range(n) if eff[i] == best], out)
  # every value comparison below must be robust to the rounding of the affine rescaling: values that are distinct but
  # closer than 1e-9 relative are treated as undecidable
  vs = sorted(set(eff))
  spread = max(1, max(abs(v) for v in vs))
  fuzzy_vals = any(b - a <= Fraction(1, 10 ** 9) * spread for a, b in zip(vs, vs[1:]))
  d2, exact, scale = _search_coords(inp)

  def clusters_from(f):
    """Farthest-first clusters started at f, or None when some choice is tied / nearly tied (the property fixes no tie rule
    and doubles may order near-ties differently)."""
    cs = [f]
    for _ in range(1, k):
      md = {t: min(d2(c, t) for c in cs) for t in range(n) if t not in cs}
      mx = max(md.values())
      if len([t for t in md if md[t] == mx or _near(md[t], mx, scale)]) > 1:
        return None
      cs.append(max(md, key=lambda t: md[t]))
    part = []
    for t in range(n):
      if t in cs:
        part.append(cs.index(t))
        continue
      ds = [d2(c, t) for c in cs]
      mn = min(ds)
      if len([j for j in range(k) if ds[j] == mn or _near(ds[j], mn, scale)]) > 1:
        return None
      part.append(ds.index(mn))
    return cs, part

  if not fuzzy_vals:
    verdicts = []
    for f in [i for i in range(n) if eff[i] == best]:  # the clustering starts at a best observation (any of them, on ties)
      cl = clusters_from(f)
      if cl is None:
        verdicts.append(None)
        continue
      cs, part = cl
      ok = sorted(part[i] for i in out) == list(range(k)) and all(eff[i] == min(eff[t] for t in range(n) if part[t] == part[i]) for i in out)
      verdicts.append((ok, cs, part))
    STATS["cluster_check_decided" if verdicts and all(v is not None for v in verdicts) else "cluster_check_undecided_ties"] += 1
    if verdicts and all(v is not None and not v[0] for v in verdicts):
      _, cs, part = verdicts[0]
      return fail("best-indices-are-not-the-cluster-minima-of-farthest-first",
                  "the result is not one best-valued observation from each farthest-first cluster started at the best observation",
                  dict(centres=cs, partition=part), out)
    # strict reading per cluster (same root cause as the overall-best finding, theorem C18_cluster_min_scaled_is_best_raw, failure
    # branch): a FAILED observation is returned for a cluster that contains a successful one (which then ties with the lie value)
    decided = [v for v in verdicts if v is not None]
    if REPORT_STRICT_OVERALL_BEST and verdicts and len(decided) == len(verdicts) and all(v[0] for v in decided):
      _, cs, part = decided[0]
      for i in out:
        mates = [t for t in range(n) if part[t] == part[i] and not fails[t]]
        if fails[i] and mates and any((not fails[j]) and raw[j] == min(raw[q] for q in succ) for j in out):
          return fail(CLUSTER_SIG, "a failed observation is returned for a cluster that contains a successful observation (the success has the worst "
                      "successful value, so the failure's lie value ties with it and the earlier index wins)", dict(cluster_successes=mates, partition=part), out)
  # strict reading of 'the overall best observation': a successful observation with the best raw value is returned
  if REPORT_STRICT_OVERALL_BEST and succ:
    braw = min(raw[i] for i in succ)
    if not any((not fails[i]) and raw[i] == braw for i in out):
      r = fail(KNOWN_SIG, "every successful observation has the same value, so failed observations (carrying the lie value) tie with them; "
               "the first such index is taken as the best and no best successful observation is returned",
               [i for i in succ if raw[i] == braw], out)
      if len(set(raw[i] for i in succ)) != 1:
        r["signature"] = "C18:view:overall-best-successful-observation-missing"
      return r
  return None


def oracle(inp):
  inp = dict(inp)
  kind = inp.pop("kind")
  return oracle_kc(inp) if kind == "kc" else oracle_view(inp)


def gen_float_kc(rng):
  n, dim = rng.randint(2, 40), rng.randint(1, 6)
  scale = 10.0 ** rng.randint(-3, 3)
  off = rng.choice([0.0, 0.0, 10.0, -1000.0]) * scale
  pts = [[off + round(rng.gauss(0, 1), rng.choice([1, 3, 9])) * scale for _ in range(dim)] for _ in range(n)]
  for _ in range(rng.randint(0, n // 3)):
    pts[rng.randrange(n)] = list(pts[rng.randrange(n)])
  return dict(points=pts, first=rng.randrange(n), k=rng.randint(1, n - 1))


def gen_float_view(rng):
  comps = []
  for _ in range(rng.randint(0, 3)):
    comps.append(dict(var_type="categorical", elements=rng.sample(range(0, 9), rng.randint(2, 5))))
  for _ in range(rng.randint(0 if comps else 1, 4)):
    t = rng.choice(["double", "int", "quantized"])
    if t == "double":
      lo = round(rng.uniform(-50, 50), 2)
      comps.append(dict(var_type=t, elements=[lo, lo + round(rng.uniform(0.1, 30), 2)]))
    elif t == "int":
      lo = rng.randint(-20, 20)
      comps.append(dict(var_type=t, elements=[lo, lo + rng.randint(1, 30)]))
    else:
      comps.append(dict(var_type=t, elements=sorted(set(round(rng.uniform(-5, 5), 1) for _ in range(rng.randint(3, 6))) | {-6.5, 7.25})))
  rng.shuffle(comps)
  n = rng.randint(3, 30)
  pts = []
  for _ in range(n):
    p = []
    for c in comps:
      e = c["elements"]
      if c["var_type"] in ("categorical", "quantized"):
        p.append(rng.choice(e))
      elif c["var_type"] == "int":
        p.append(rng.randint(e[0], e[1]))
      else:
        p.append(round(rng.uniform(e[0], e[1]), 3))
    pts.append(p)
  for _ in range(rng.randint(0, n // 3)):
    pts[rng.randrange(n)] = list(pts[rng.randrange(n)])
  scale = 10.0 ** rng.randint(-4, 4)
  off = rng.choice([0, 0, 100, -3]) * scale
  vals = [off + round(rng.gauss(0, 1), rng.choice([0, 1, 2])) * scale for _ in range(n)]
  pf = rng.choice([0, 0.2, 0.6])
  fails = [rng.random() < pf for _ in range(n)]
  m = rng.choice([1, 2])
  return dict(components=comps, points=pts, values=vals, failures=fails, maximize=rng.random() < 0.5, k=rng.randint(2, n - 1),
              num_metrics=m, opt_index=rng.randrange(m))


def search(ctx, hints, broken):
  fails, n, sigs = [], 0, set()
  def add(r):
    if r and r["signature"] not in sigs:
      sigs.add(r["signature"])
      fails.append(r)
  for h in hints:
    if "kind" in h and "input" in h:
      n += 1
      add(oracle(dict(kind=h["kind"], **h["input"])))
  # deterministic instances of the two registered findings (KNOWN_FINDINGS.json)
  for det in (dict(kind="view", components=[dict(var_type="double", elements=[0.0, 4.0])], points=[[0.0], [4.0], [1.0]], values=[5.0, 7.0, 3.0],
                   failures=[True, True, False], maximize=False, k=2, num_metrics=1, opt_index=0),
              dict(kind="view", components=[dict(var_type="double", elements=[0.0, 4.0])], points=[[0.0], [4.0], [1.0], [3.0]], values=[5.0, 7.0, 3.0, 6.0],
                   failures=[False, True, False, False], maximize=False, k=2, num_metrics=1, opt_index=0)):
    n += 1
    add(oracle(det))
  budget = ctx.n(1500, 25000) * (2 if broken else 1)
  rng = ctx.rng
  for _ in range(budget):
    u = rng.random()
    if u < 0.15:
      inp = dict(kind="kc", **gen_kc(rng, rng.random() < 0.05))
    elif u < 0.3:
      inp = dict(kind="kc", **gen_float_kc(rng))
    elif u < 0.55:
      inp = dict(kind="view", **gen_view(rng, rng.random() < 0.05, square=rng.random() < 0.5))
    else:
      inp = dict(kind="view", **gen_float_view(rng))
    n += 1
    add(oracle(inp))
    if len([f for f in fails if f["signature"] not in KNOWN_SIGS]) >= 3:
      break
  return dict(evaluations=n, failures=fails, oracle="brute-force farthest-first clustering and direct property statement over exact Fractions", **STATS)


def replay(ctx, payload):
  return oracle(payload["input"])


LEVEL_TEXT = ("Coq theorems (loop invariant of the farthest-first loop with its -inf self-distance trick, first-extremum semantics of "
              "argmax/argmin, pigeonhole for distinctness, invariant of the per-cluster strict-< scan) on an executable model of "
              "k_center_clustering and of the endpoint body, for all point sets, values, first indices and 0 < k < n; the model (including "
              "the one-hot / unit-cube / category-separation glue and the value scaling with failures set to the lie) is tied to the code "
              "by exact differential runs of the real endpoint whose comparison is evaluated inside Coq, and the implementation's outputs "
              "are also checked against the decidable specifications")
LEVEL_NOTE = ("Exact arithmetic over Q; squared distances compared (same argmax/argmin as distances); sqrt(one_hot_dim) enters as an explicit "
              "argument; 'overall best observation' is proved for the scaled values (failures = lie). Under the strict reading (a successful "
              "observation with the best raw value is returned) the clause fails exactly when all successful observations tie: reported with a "
              "fixed signature; harness and case printer trusted; no axioms")
TECHNIQUE = "Coq proof (loop invariants, induction) on executable model + in-Coq differential correspondence through the real endpoint"
DESIGN_REF = "DESIGN.md section 7, C18"

# --- second build round: additions to the claimed level
LEVEL_TEXT += ("; the link to raw values: the first minimum of the scaled values is a successful observation with the best raw value unless all "
               "successes tie, overall and per cluster (C18_view_best_raw)")
