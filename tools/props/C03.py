"""C03 — covariance kernels are valid, correctly parameterised kernels."""
import math

import numpy

from lib import common as C
from py2v import gen

PROP = "C03"
PROPS_FILES = ["Props/C03.v", "Props/C03_psd.v", "Props/C03_se_psd.v", "Props/C03_c0_1d_psd.v", "Props/C03_matern_psd.v", "Props/C03_matern_psd_c0.v", "Props/C03_matern_psd_c2.v", "Props/C03_matern_psd_c4.v"]
ASSUMPTIONS = [
  "real arithmetic (Coq R); float rounding outside the model - the searcher compares every entry with 1e-9 * alpha absolutely AND, wherever phi(r) is a normal double (> 1e-280), "
  "relatively to alpha*phi(r) itself (1e-9 plus the first-order effect of the rounding of the squared distance through the entry point used: pairwise, pdist, or the "
  "|x|^2+|z|^2-2x.z expansion); entries whose closed form underflows (r beyond ~745 for the Matern profiles, ~38 for the square exponential) are compared absolutely only",
  "scipy.spatial.distance pdist 'sqeuclidean' + squareform computes sum_k (u_k - v_k)^2 (translated as that contract)",
  "positive semi-definiteness of n x n Gram matrices is PROVED for all four kernels, for all n, dimensions, point sets and length scales, the three entry points, with noise: SquareExponential by the "
  "exponential series and Schur multipliers (Props/C03_se_psd.v); the Matern kernels C0, C2, C4 as positive scale mixtures of Gaussians - exp(-r), (1+r)exp(-r), (1+r+r^2/3)exp(-r) are the integrals of "
  "u^k exp(-u^2) exp(-r^2/(4u^2)) over (0, oo), k = 0, 2, 4, up to positive constants, proved from the Gaussian integral by the Cauchy-Schloemilch substitution and two integrations by parts - and closure of Schur "
  "multipliers under integration (Props/C03_matern_psd.v; Props/C03_c0_1d_psd.v is an independent elementary route in dimension 1). Multitask Gram matrices (physical kernel x SE task kernel, the library's "
  "default C4 x SE included) are PSD unconditionally. Nothing about positive semi-definiteness is assumed any more; the searcher's eigenvalue test remains as a check of the running code",
  "hyperparameter values enter the model as exact rationals or NaN/inf tags",
]
TRUSTED = ["tools/py2v translator (validated on every run by dual rendering against the vectorised code)", "Model/Hyper.v check function and the harness"]
LEVEL_TEXT = ("Coq theorems over the definitions regenerated from covariance.py / covariance_base.py / geometry_utils.py / multitask_covariance.py "
              "on every run: documented closed forms alpha*phi(r) for the four kernels, agreement of the pairwise, cross-matrix and symmetric-matrix "
              "entry points (the clamped expansion is the squared distance), noise on the diagonal only, k(x,x)=alpha, symmetry, translation "
              "invariance, 0<phi<=1 and monotone decrease via the sign of phi', n x n positive semi-definiteness of every Gram matrix of all four kernels (with noise; they are even Schur multipliers: the entrywise "
              "product with any PSD matrix is PSD - SE by the exponential series, the Matern kernels as positive scale mixtures of Gaussians), multitask = product and PSD unconditionally; "
              "hyperparameter validation/read-back proved on an executable model tied by exact correspondence")
LEVEL_NOTE = ("PSD of n x n Gram matrices proved for all four kernels in every dimension; translator and harness trusted; "
              "axioms: the standard-library real-number axioms (sig_not_dec, sig_forall_dec, functional_extensionality_dep, classic)")
TECHNIQUE = "Coq/Coquelicot proofs on definitions regenerated from source (translator) + in-Coq correspondence for hyperparameter handling"
DESIGN_REF = "DESIGN.md section 7, C03"

KERNELS = ["SquareExponential", "C0RadialMatern", "C2RadialMatern", "C4RadialMatern"]
DIFF = ["SquareExponential", "C2RadialMatern", "C4RadialMatern"]


def generate(ctx):
  return gen.generate(ctx, ["GenCovariance", "GenMultitask"])


# ------------------------------------------------------------------------------------------ correspondence: hyperparameters


def xlit(v):
  if v != v:
    return "NaN"
  if v == float("inf"):
    return "PInf"
  if v == float("-inf"):
    return "NInf"
  return f"(Fin {C.qlit(v)})"


def gen_hp(rng, n):
  hp = [rng.choice([0.5, 1.0, 2.0, 0.125, 3.0, 1e-3, 1e3]) for _ in range(n)]
  r = rng.random()
  if r < 0.55:
    k = rng.randrange(n)
    hp[k] = rng.choice([0.0, -1.0, -0.5, float("nan"), float("inf"), float("-inf"), -1e-300, 1e-300])
  return hp


def run_hp(kind, cls, hp):
  import libsigopt.compute.covariance as cv
  from libsigopt.compute.covariance_base import HyperparameterInvalidError
  from libsigopt.compute.multitask_covariance import MultitaskTensorCovariance
  try:
    if kind == "radial":
      k = getattr(cv, cls)(numpy.array(hp))
    else:
      k = MultitaskTensorCovariance(numpy.array(hp), getattr(cv, cls[0]), getattr(cv, cls[1]))
    return True, [float(x) for x in k.hyperparameters], None
  except HyperparameterInvalidError:
    return False, [], "HyperparameterInvalidError"
  except Exception as e:  # any other exception type is reported as a disagreement
    return False, [], type(e).__name__


# ---- live objects: hyperparameters assigned (accepted / rejected), read back and used on ONE kernel object

LIVE_GOOD = [0.5, 1.0, 2.0, 0.125, 3.0, 1e-3, 1e3, 0.75, 1.5]
LIVE_BAD = [0.0, -1.0, -0.5, float("nan"), float("inf"), float("-inf"), -1e-300]


def admissible(hp):
  return all(h == h and not math.isinf(h) and h > 0 for h in hp)


def build_kernel(kind, cls, hp):
  import libsigopt.compute.covariance as cv
  from libsigopt.compute.multitask_covariance import MultitaskTensorCovariance
  if kind == "radial":
    return getattr(cv, cls)(numpy.array(hp, dtype=float))
  return MultitaskTensorCovariance(numpy.array(hp, dtype=float), getattr(cv, cls[0]), getattr(cv, cls[1]))


def probe_points(ncol):
  """dyadic probe points (last column: a task value in (0, 1] when the kernel is a tensor kernel - any column will do for a radial one)"""
  x = numpy.array([[0.5 * (1 + (i + 2 * j) % 3) * (-1) ** (i + j) for j in range(ncol)] for i in range(3)], dtype=float)
  z = numpy.array([[0.25 * (1 + (2 * i + j) % 4) for j in range(ncol)] for i in range(3)], dtype=float)
  x[:, -1], z[:, -1] = [0.25, 0.5, 1.0], [1.0, 0.25, 0.25]
  return x, z


def computes_as_read_back(k, kind, cls, x, z):
  """the live kernel gives, bit for bit, what a kernel FRESHLY BUILT from the hyperparameters it reads back gives (all three entry points)"""
  try:
    fresh = build_kernel(kind, cls, [float(v) for v in k.hyperparameters])
  except Exception:
    return False
  nz = numpy.array([0.0, 0.5, 1.0])
  return all(numpy.array_equal(a, b, equal_nan=True) for a, b in (
    (k.covariance(x, z), fresh.covariance(x, z)), (k.build_kernel_matrix(z, x), fresh.build_kernel_matrix(z, x)),
    (k.build_kernel_matrix(z, noise_variance=nz), fresh.build_kernel_matrix(z, noise_variance=nz))))


def run_live(kind, cls, hp0, ops):
  """ops on one live kernel: ["set", vector] (HyperparameterInvalidError caught - an optimiser stepping outside the admissible region),
  ["get"], ["probe"] (k(x, x) and the comparison with a freshly built kernel).  Any other exception propagates."""
  from libsigopt.compute.covariance_base import HyperparameterInvalidError
  k = build_kernel(kind, cls, hp0)
  x, z = probe_points(len(hp0) - 1)
  outs = []
  for op in ops:
    if op[0] == "set":
      try:
        k.hyperparameters = numpy.array([float(v) for v in op[1]], dtype=float)
        outs.append(["set", True])
      except HyperparameterInvalidError:
        outs.append(["set", False])
    elif op[0] == "get":
      outs.append(["get", [float(v) for v in k.hyperparameters]])
    else:
      outs.append(["probe", float(k.covariance(x[:1], x[:1])[0]), bool(computes_as_read_back(k, kind, cls, x, z))])
  return outs


def gen_live(rng):
  kind = rng.choice(["radial", "multi"])
  cls = rng.choice(KERNELS) if kind == "radial" else (rng.choice(DIFF), rng.choice(DIFF))
  n = rng.randint(2, 5) if kind == "radial" else rng.randint(3, 5)
  good = lambda: [rng.choice(LIVE_GOOD) for _ in range(n)]
  def bad():
    v = good()
    for _ in range(rng.choice([1, 1, 1, 2])):
      v[rng.choice([0, 0, rng.randrange(n), n - 1])] = rng.choice(LIVE_BAD)
    return v
  ops = []
  for _ in range(rng.randint(2, 7)):
    c = rng.random()
    ops.append(["set", bad()] if c < 0.35 else ["set", good()] if c < 0.55 else ["get"] if c < 0.8 else ["probe"])
  if not any(o[0] == "set" and not admissible(o[1]) for o in ops):
    ops.insert(rng.randrange(len(ops) + 1), ["set", bad()])
  ops += [["probe"], ["get"]]
  return kind, cls, good(), ops


# the input that showed the defect repaired by 65c6caf (a tensor kernel took part of a rejected vector; corpus/C03/multitask_rejected_partially_taken.json), its
# variants and a radial companion: ordinary cases
LIVE_FIXED = [
  ("multi", ("C4RadialMatern", "SquareExponential"), [1.5, 0.5, 2.0, 0.25], [["set", [3.0, 1.0, 1.0, 0.0]], ["get"], ["probe"]]),
  ("multi", ("SquareExponential", "C2RadialMatern"), [1.5, 0.5, 2.0, 0.25], [["set", [3.0, 0.5, -2.0, 0.25]], ["probe"], ["get"], ["set", [-1.0, 9.0, 9.0, 9.0]], ["get"]]),
  ("radial", "C4RadialMatern", [1.5, 0.5, 2.0], [["set", [3.0, 1.0, 0.0]], ["get"], ["probe"], ["set", [3.0, float("nan"), 1.0]], ["probe"], ["get"]]),
]


def live_term(kind, hp0, ops, outs):
  opl = C.listlit([f"(HSet {C.listlit(o[1], xlit)})" if o[0] == "set" else "HGet" if o[0] == "get" else "HProbe" for o in ops])
  outl = C.listlit([f"(OSet {C.blit(o[1])})" if o[0] == "set" else f"(OGet {C.listlit(o[1], xlit)})" if o[0] == "get" else f"(OProbe {xlit(o[1])} {C.blit(o[2])})" for o in outs])
  return f"{'CLiveRadial' if kind == 'radial' else 'CLiveMulti'} {C.listlit(hp0, xlit)} {opl} {outl}"


def correspondence(ctx):
  n = ctx.n(400, 6000)
  rng = ctx.rng
  cases, meta, dist, seen, nontriv, dis = [], [], {}, set(), 0, []
  for _ in range(n):
    if rng.random() < 0.5:
      kind, cls, hp = "radial", rng.choice(KERNELS), gen_hp(rng, rng.randint(2, 5))
    else:
      kind, cls, hp = "multi", (rng.choice(DIFF), rng.choice(DIFF)), gen_hp(rng, rng.randint(3, 5))
    acc, rb, err = run_hp(kind, cls, hp)
    if err not in (None, "HyperparameterInvalidError"):
      dis.append(dict(what=f"C03 hyperparameter case raised {err} instead of HyperparameterInvalidError", kind="hyper", input=dict(k=kind, cls=cls, hp=hp), observed=err))
    cases.append(f"{'CRadial' if kind == 'radial' else 'CMulti'} {C.listlit(hp, xlit)} {C.blit(acc)} {C.listlit(rb, xlit)}")
    meta.append((kind, cls, hp, acc, rb))
    key = ("acc" if acc else "rej") + ":" + kind
    dist[key] = dist.get(key, 0) + 1
    h = C.canon_hash([kind, cls, [repr(x) for x in hp]])
    if h not in seen:
      nontriv += 1
    seen.add(h)
  nlive = 0
  for kind, cls, hp0, ops in LIVE_FIXED + [gen_live(rng) for _ in range(ctx.n(250, 3000))]:
    linp = dict(k=kind, cls=list(cls) if kind == "multi" else cls, hp=[repr(float(x)) for x in hp0], ops=[[o[0]] + ([[repr(float(v)) for v in o[1]]] if o[0] == "set" else []) for o in ops])
    try:
      outs = run_live(kind, cls, hp0, ops)
    except Exception as e:
      dis.append(dict(what=f"C03 live kernel object: a sequence of hyperparameter assignments raised {type(e).__name__}: {e}", kind="hyper", input=linp, observed=repr(e)))
      continue
    cases.append(live_term(kind, hp0, ops, outs))
    meta.append((kind, cls, linp, None, outs))
    nlive += 1
    rej = sum(1 for o in outs if o[0] == "set" and not o[1])
    key = f"live:{kind}:" + ("rejected-sets" if rej else "accepted-only")
    dist[key] = dist.get(key, 0) + 1
    h = C.canon_hash([kind, cls, linp])
    if h not in seen and rej:
      nontriv += 1
    seen.add(h)
  bad = C.run_cases("C03", "From Coq Require Import List QArith Bool.\nFrom LV Require Import Model.Hyper.\nOpen Scope Q_scope.", "case", "check", cases)
  for i in bad:
    k, cls, hp, acc, rb = meta[i]
    if isinstance(hp, dict):
      dis.append(dict(what=f"C03 live kernel object, case {i}: what the object showed after a sequence of assignments / read-backs / uses differs from Model.Hyper "
                           "(or a rejected vector was taken, a read-back is not what the kernel computes with)", kind="hyper", input=hp, observed=rb))
      continue
    dis.append(dict(what=f"C03 hyperparameter case {i}: accept/reject or read-back differs from Model.Hyper", kind="hyper",
                    input=dict(k=k, cls=cls, hp=[repr(x) for x in hp]), observed=dict(accepted=acc, readback=rb)))
  return dict(evaluations=n + nlive, distinct_nontrivial=nontriv,
              rule="hyperparameter vectors (radial 2-5 entries, multitask 3-5) over magnitudes 1e-3..1e3 with one entry replaced in 55% of cases by "
                   "0, negative, NaN, +-inf or +-1e-300; every vector goes through the real constructors; LIVE objects: 2-7 assignments (35% inadmissible, "
                   "error caught), read-backs and uses (k(x,x), all entry points against a freshly built kernel) on one kernel object, compared step by step with "
                   "Model.Hyper; distinct by hash (live cases count when at least one assignment was rejected)",
              samples=[dict(kind=m[0], cls=m[1], hp=[repr(x) for x in m[2]], accepted=m[3]) for m in meta[:3]], distribution=dist, disagreements=dis)


# ------------------------------------------------------------------------------------------ independent oracle


def phi(cls, r):
  if cls == "SquareExponential":
    return math.exp(-0.5 * r * r)
  if cls == "C0RadialMatern":
    return math.exp(-r)
  if cls == "C2RadialMatern":
    return (1 + r) * math.exp(-r)
  return (1 + r + r * r / 3.0) * math.exp(-r)


def oracle(inp):
  import libsigopt.compute.covariance as cv
  kind = inp["kind"]
  def fail(what, observed, expected):
    return dict(signature=f"C03:{kind}:{what}", what=f"{kind}: {what}", input=inp, observed=observed, expected=expected, oracle="scalar closed form in plain Python")
  if kind == "hyper" and inp.get("ops") is not None:
    return live_hyper_oracle(inp, fail)
  if kind == "hyper":
    acc, rb, err = run_hp(inp["k"], inp["cls"] if inp["k"] == "radial" else tuple(inp["cls"]), [float(x) for x in inp["hp"]])
    hp = [float(x) for x in inp["hp"]]
    bad = any((h != h) or math.isinf(h) or h <= 0 for h in hp)
    if err not in (None, "HyperparameterInvalidError"):
      return fail("wrong exception type for invalid hyperparameters", err, "HyperparameterInvalidError")
    if acc == bad:
      return fail("invalid hyperparameters accepted" if bad else "valid hyperparameters rejected", dict(accepted=acc), dict(accepted=not bad))
    if acc and any(abs(a - b) > 0 for a, b in zip(rb, hp)):
      return fail("hyperparameters do not read back as set", rb, hp)
    return None
  if kind == "multi":
    return multi_oracle(inp, fail)
  cls, hp = inp["cls"], [float(v) for v in inp["hp"]]
  from lib import gpgen
  k = gpgen.make_cov(dict(cls=cls, hp=hp, life=inp.get("life", "fresh")))   # fresh / re-assigned / overwritten in place and assigned again
  if [float(v) for v in k.hyperparameters] != [float(v) for v in hp]:
    return fail("hyperparameters do not read back as set", [float(v) for v in k.hyperparameters], hp)
  st = dict(x=numpy.array(inp["x"], dtype=float), z=numpy.array(inp["z"], dtype=float), hp=hp, last=[])
  st["noise"] = numpy.array(inp.get("noise", [0.0] * len(st["z"])), dtype=float)
  shift = numpy.array(inp.get("shift", [0.0] * (len(hp) - 1)))
  return live_object(inp, k, st, fail, lambda fl: radial_entry_points(k, cls, st["hp"], st["x"], st["z"], st["noise"], shift, fl, st["last"]))


MULTITASK_PARTIAL_SIG = "C03:hyper:multitask-rejected-assignment-partially-taken"


def live_hyper_oracle(inp, fail):
  """One live kernel object, plain-Python statement: an assignment is rejected (HyperparameterInvalidError) iff some entry is <= 0, NaN or infinite; an
  accepted vector reads back; a REJECTED one is not taken - what is read back afterwards is admissible and is the last accepted vector (for the
  tensor kernel too, since the repair 65c6caf; a tensor kernel that has taken PART of a rejected vector is reported under its own signature) -; and at every moment the kernel computes with what it reads back: k(x,x) = read-back process variance, covariance = alpha*phi(r)."""
  from libsigopt.compute.covariance_base import HyperparameterInvalidError
  kk, cls = inp["k"], (inp["cls"] if inp["k"] == "radial" else tuple(inp["cls"]))
  cur = [float(v) for v in inp["hp"]]
  k = build_kernel(kk, cls, cur)
  x, z = probe_points(len(cur) - 1)
  def use(when):
    rb = [float(v) for v in k.hyperparameters]
    if not admissible(rb):
      return fail(f"a live kernel holds inadmissible hyperparameters {when}", rb, "positive finite values")
    if rb != cur:
      return fail(f"hyperparameters do not read back as set {when}", rb, list(cur))
    kxx = float(k.covariance(x[:1], x[:1])[0])
    if kxx != cur[0]:
      return fail(f"k(x,x) != process variance read back {when}", kxx, cur[0])
    got = k.covariance(x, z)
    for i in range(len(x)):
      spec = dict(cls=cls, hp=cur) if kk == "radial" else dict(cls="multitask", phys=cls[0], task=cls[1], hp=cur)
      from lib import gpgen
      e = gpgen.kern(spec, [float(v) for v in x[i]], [float(v) for v in z[i]])
      if not abs(float(got[i]) - e) <= 1e-9 * cur[0]:
        return fail(f"covariance is not alpha*phi(r) of the hyperparameters read back {when}", float(got[i]), e)
    return None
  r = use("after construction")
  if r:
    return r
  for j, op in enumerate(inp["ops"]):
    if op[0] != "set":
      r = use(f"(step {j}: {op[0]})")
      if r:
        return r
      continue
    vec = [float(v) for v in op[1]]
    try:
      k.hyperparameters = numpy.array(vec, dtype=float)
      acc = True
    except HyperparameterInvalidError:
      acc = False
    except Exception as e:
      return fail("wrong exception type for invalid hyperparameters", type(e).__name__, "HyperparameterInvalidError")
    if acc != admissible(vec):
      return fail("invalid hyperparameters accepted" if acc else "valid hyperparameters rejected", dict(accepted=acc, vector=op[1]), dict(accepted=not acc))
    if acc:
      cur = vec
      r = use("after an accepted assignment on a live object")
    else:
      rb = [float(v) for v in k.hyperparameters]
      if kk == "multi" and admissible(rb) and rb != cur:      # neither the old vector nor the rejected one, but admissible: part of the rejected vector was taken
        return dict(signature=MULTITASK_PARTIAL_SIG, what="multitask kernel: a rejected hyperparameter assignment changed the object (part of the rejected vector was taken)",
                    input=inp, observed=rb, expected=list(cur), oracle="plain Python")
      r = use("after a REJECTED assignment (the error was caught, the object is used on)")
    if r:
      return r
  return None


EPS = 2.3e-16


def far_field_slack(cls, d2, scale2, dim, path):
  """Relative accuracy that rounding alone can cost alpha*phi(r) through the given entry point (the closed form is compared RELATIVELY wherever
  phi(r) is a normal double: an absolute tolerance of 1e-9*alpha says nothing about entries below 1e-9*alpha, i.e. beyond r ~ 6 for the
  square exponential and r ~ 27 for the Matern kernels).  delta2 bounds the absolute error of the computed squared distance:
    pairwise  ((x - z)/l)^2 summed:                            every term has a relative error of a few ulps
    symmetric pdist(z/l): the quotients are rounded first:      |d(diff)| <= eps*(|u|+|v|) per coordinate
    cross     |u|^2 + |v|^2 - 2 u.v (cancellation):             eps*(dim+3)*(|u|+|v|)^2
  and |d log phi / d(r^2)| = 1/2 (square exponential), |d log phi / d r| <= 1 (Matern C0, C2, C4)."""
  if path == "pairwise":
    delta2 = 4 * EPS * (dim + 4) * d2
  elif path == "symmetric":
    delta2 = 4 * EPS * (3 * math.sqrt(d2 * scale2) + (dim + 4) * d2) + 4 * EPS * EPS * scale2
  else:
    delta2 = 8 * EPS * (dim + 3) * scale2
  if cls == "SquareExponential":
    return math.expm1(min(0.5 * delta2, 50.0))
  return math.expm1(min(math.sqrt(d2 + delta2) - math.sqrt(max(d2 - delta2, 0.0)), 50.0))


FAR_NORMAL = 1e-280   # below this phi(r) approaches the subnormal range (exp underflow beyond r ~ 745 / r ~ 38 is legitimate): absolute comparison only


def far_field_bad(got, e, p, rel_slack):
  """entry `got` against the closed form e = alpha*p, relatively, where p = phi(r) is a normal double and rounding cannot explain a difference"""
  return p > FAR_NORMAL and rel_slack < 0.25 and not abs(got - e) <= e * (1e-9 + rel_slack)


def radial_entry_points(k, cls, hp, x, z, noise, shift, fail, last):
  """every entry point of the kernel object k, as it is now, against alpha*phi(r) of the points as they are now"""
  alpha, ls = hp[0], hp[1:]
  dim = len(ls)
  def r(a, b):
    return math.sqrt(sum(((a[d] - b[d]) / ls[d]) ** 2 for d in range(len(ls))))
  def sc2(a, b):
    return sum((a[d] / ls[d]) ** 2 + (b[d] / ls[d]) ** 2 for d in range(len(ls)))
  tol = 1e-9
  n = min(len(x), len(z))
  pair = k.covariance(x[:n], z[:n])
  last.append(pair)
  for i in range(n):
    rr = r(x[i], z[i])
    p = phi(cls, rr)
    e = alpha * p
    if abs(pair[i] - e) > tol * alpha or far_field_bad(pair[i], e, p, far_field_slack(cls, rr * rr, sc2(x[i], z[i]), dim, "pairwise")):
      return fail("pairwise covariance differs from alpha*phi(r)", float(pair[i]), e)
  cross = k.build_kernel_matrix(z, x)
  last.append(cross)
  cpairs = [(i, j) for i in range(len(x)) for j in range(len(z))]
  if len(cpairs) > 20000:   # a seeded sample of the entries of a big cross matrix
    rs2 = numpy.random.RandomState(len(cpairs) % 9973)
    cpairs = [(int(rs2.randint(len(x))), int(rs2.randint(len(z)))) for _ in range(3000)]
  for i, j in cpairs:
    if True:
      rr = r(x[i], z[j])
      p = phi(cls, rr)
      e = alpha * p
      # the expansion |x|^2+|z|^2-2xz loses ~eps*|x|^2 in d2; allow for it through phi'
      d2 = rr ** 2
      scale2 = sc2(x[i], z[j])
      slack = alpha * (math.sqrt(d2 + 8e-16 * scale2) - math.sqrt(d2)) + tol * alpha
      if abs(cross[i, j] - e) > slack or far_field_bad(cross[i, j], e, p, far_field_slack(cls, d2, scale2, dim, "cross")):
        return fail("cross-matrix entry differs from alpha*phi(r)", float(cross[i, j]), e)
  sym = k.build_kernel_matrix(z, noise_variance=noise)
  last.append(sym)
  pairs = [(a, b) for a in range(len(z)) for b in range(len(z))]
  if len(z) > 60:   # large point sets (the code may switch algorithms with the number of points): the diagonal and a seeded sample of entries
    rs = numpy.random.RandomState(len(z))
    pairs = [(a, a) for a in range(len(z))] + [(int(rs.randint(len(z))), int(rs.randint(len(z)))) for _ in range(600)]
  for a, b in pairs:
    if True:
      rr = r(z[a], z[b])
      p = phi(cls, rr)
      e = alpha * p + (noise[a] if a == b else 0.0)
      if abs(sym[a, b] - e) > tol * (alpha + noise[a]) or (a != b and far_field_bad(sym[a, b], e, p, far_field_slack(cls, rr * rr, sc2(z[a], z[b]), dim, "symmetric"))):
        return fail("symmetric-matrix entry differs from alpha*phi(r) + noise on the diagonal", float(sym[a, b]), e)
  # a noise variance common to all points, given as a Python scalar or a length-1 array, is added to the diagonal only as well
  for form in ("scalar", "len1"):
    s0 = float(noise[0]) if len(noise) else 0.0
    symc = k.build_kernel_matrix(z, noise_variance=(s0 if form == "scalar" else numpy.array([s0])))
    base = k.build_kernel_matrix(z)
    if numpy.abs(symc - (base + s0 * numpy.eye(len(z)))).max() > tol * (alpha + s0):
      return fail(f"common noise variance ({form}) is not added on the diagonal only", float(numpy.abs(symc - base - s0 * numpy.eye(len(z))).max()), 0.0)
  if abs(float(k.covariance(x[:1], x[:1])[0]) - alpha) > tol * alpha:
    return fail("k(x,x) != alpha", float(k.covariance(x[:1], x[:1])[0]), alpha)
  if n and abs(float(k.covariance(x[:n], z[:n])[0]) - float(k.covariance(z[:n], x[:n])[0])) > tol * alpha:
    return fail("kernel not symmetric", None, None)
  t = shift
  if n:
    a, b = float(k.covariance(x[:n] + t, z[:n] + t)[0]), float(pair[0])
    mag = max(1.0, float(numpy.abs(t).max()) / min(ls))
    if abs(a - b) > 1e-9 * alpha * mag * 1e3 + 1e-12:
      return fail("kernel not translation invariant", a, b)
  w = numpy.linalg.eigvalsh(sym)
  if w.min() < -1e-10 * len(z) * (alpha + noise.max()):
    return fail("Gram matrix not positive semi-definite", float(w.min()), ">= 0")
  return None


HISTORY_OPS = ("move", "refill", "scale", "dup", "hp", "badhp", "scribble", "again")


def live_object(inp, k, st, fail, entry_points):
  """The kernel object and the caller's point buffers have a life: the property speaks of every evaluation, so after each step of
  inp["history"] all entry points are stated again on the SAME kernel object and the SAME array objects as they are then.
    ["move", buf, i, delta]   one row of the caller's buffer moved in place        ["refill", buf, points]  the buffer refilled with a new point set
    ["scale", buf, s]         the buffer rescaled in place                        ["dup", buf, i, j]       row i overwritten with row j
    ["hp", values]            hyperparameters assigned on the live object         ["again"]                nothing changed, asked again
    ["scribble"]              the caller overwrites the arrays the kernel returned last (they are the caller's)
    ["badhp", values]         an inadmissible vector assigned on the live object: HyperparameterInvalidError (caught), the object is used on"""
  r = entry_points(fail)
  if r:
    return r
  for step in inp.get("history", []):
    op = step[0]
    if op == "move":
      st[step[1]][step[2]] += numpy.array(step[3], dtype=float)
    elif op == "refill":
      st[step[1]][:] = numpy.array(step[2], dtype=float)
    elif op == "scale":
      st[step[1]] *= float(step[2])
    elif op == "dup":
      st[step[1]][step[2]] = st[step[1]][step[3]]
    elif op == "hp":
      sent = numpy.array(step[1], dtype=float)
      k.hyperparameters = sent
      if [float(v) for v in sent] != [float(v) for v in step[1]]:     # the vector is the caller's (an optimiser's iterate, a row of its table of starts)
        return fail("the setter wrote to the hyperparameter vector it was handed", [float(v) for v in sent], [float(v) for v in step[1]])
      st["hp"][:] = [float(v) for v in step[1]]
      if [float(v) for v in k.hyperparameters] != st["hp"]:
        return fail("hyperparameters do not read back as set", [float(v) for v in k.hyperparameters], list(st["hp"]))
    elif op == "badhp":
      from libsigopt.compute.covariance_base import HyperparameterInvalidError
      try:
        k.hyperparameters = numpy.array([float(v) for v in step[1]], dtype=float)
        return fail("invalid hyperparameters accepted", dict(accepted=True, vector=step[1]), dict(accepted=False))
      except HyperparameterInvalidError:
        pass
      rb = [float(v) for v in k.hyperparameters]
      if not admissible(rb):
        return fail("a live kernel holds inadmissible hyperparameters after a rejected assignment", rb, list(st["hp"]))
      if rb != st["hp"]:
        if inp["kind"] != "multi":
          return fail("a rejected assignment changed the hyperparameters read back", rb, list(st["hp"]))
        return dict(signature=MULTITASK_PARTIAL_SIG, what="multitask kernel: a rejected hyperparameter assignment changed the object (part of the rejected vector was taken)",
                    input=inp, observed=rb, expected=list(st["hp"]), oracle="plain Python")
    elif op == "scribble":
      for arr in st["last"]:
        try:
          arr[...] = -7.0
        except (TypeError, ValueError):
          pass
    del st["last"][:]
    r = entry_points(lambda what, observed, expected, op=op: fail(f"{what} [live object, after: {op}]", observed, expected))
    if r:
      return r
  return None


def multi_oracle(inp, fail):
  """multitask kernel on the running code: alpha * phi_phys(r_phys) * phi_task(r_task) for every pairing of component classes, through the
  pairwise, cross-matrix and symmetric-matrix entry points; noise on the diagonal only; hyperparameters read back; Gram matrix PSD"""
  import libsigopt.compute.covariance as cv
  from libsigopt.compute.multitask_covariance import MultitaskTensorCovariance
  pc, tc = inp["cls"]
  hp = [float(v) for v in inp["hp"]]
  k = MultitaskTensorCovariance(numpy.array(hp), getattr(cv, pc), getattr(cv, tc))
  if inp.get("life") == "reassigned":   # constructed with other values, then assigned
    k = MultitaskTensorCovariance(numpy.array([1.0] * len(hp)), getattr(cv, pc), getattr(cv, tc))
    k.hyperparameters = numpy.array(hp)
  if inp.get("life") == "rejected":     # a vector with an inadmissible process variance was offered to the live object and refused
    from lib import gpgen
    k = gpgen.make_cov(dict(cls="multitask", phys=pc, task=tc, hp=hp, life="rejected"))
  if [float(v) for v in k.hyperparameters] != hp:
    return fail("hyperparameters do not read back as set", [float(v) for v in k.hyperparameters], hp)
  st = dict(x=numpy.array(inp["x"], dtype=float), z=numpy.array(inp["z"], dtype=float), noise=numpy.array(inp["noise"], dtype=float), hp=hp, last=[])
  return live_object(inp, k, st, fail, lambda fl: multi_entry_points(k, pc, tc, st["hp"], st["x"], st["z"], st["noise"], fl, st["last"]))


def multi_entry_points(k, pc, tc, hp, x, z, noise, fail, last):
  alpha, ls, lt = hp[0], hp[1:-1], hp[-1]
  dim = len(ls)
  def parts(a, b, path):
    """closed form, phi_phys*phi_task, and the relative error rounding can cause through `path` (sum of the two factors' slacks)"""
    d2p = sum(((a[d] - b[d]) / ls[d]) ** 2 for d in range(dim))
    s2p = sum((a[d] / ls[d]) ** 2 + (b[d] / ls[d]) ** 2 for d in range(dim))
    rt = abs(a[-1] - b[-1]) / lt
    s2t = (a[-1] / lt) ** 2 + (b[-1] / lt) ** 2
    p = phi(pc, math.sqrt(d2p)) * phi(tc, rt)
    return alpha * p, p, far_field_slack(pc, d2p, s2p, dim, path) + far_field_slack(tc, rt * rt, s2t, 1, path)
  def want(a, b):
    return parts(a, b, "pairwise")[0]
  tol = 1e-9 * alpha
  n = min(len(x), len(z))
  pair = k.covariance(x[:n], z[:n])
  last.append(pair)
  for i in range(n):
    e, p, rs = parts(x[i], z[i], "pairwise")
    if abs(pair[i] - e) > tol or far_field_bad(pair[i], e, p, rs):
      return fail("pairwise covariance differs from alpha*phi_phys(r_phys)*phi_task(r_task)", float(pair[i]), e)
  cross = k.build_kernel_matrix(z, x)
  last.append(cross)
  for i in range(len(x)):
    for j in range(len(z)):
      e, p, rs = parts(x[i], z[j], "cross")
      if (abs(cross[i, j] - e) > tol * (1 + 1e3 * float(numpy.abs(x[i]).max() + numpy.abs(z[j]).max()) ** 2 / min(ls + [lt]) ** 2 * 1e-6)
          or far_field_bad(cross[i, j], e, p, rs)):
        return fail("cross-matrix entry differs from alpha*phi_phys*phi_task", float(cross[i, j]), e)
  sym = k.build_kernel_matrix(z, noise_variance=noise)
  last.append(sym)
  for a in range(len(z)):
    for b in range(len(z)):
      e, p, rs = parts(z[a], z[b], "symmetric")
      e += noise[a] if a == b else 0.0
      if abs(sym[a, b] - e) > 1e-9 * (alpha + noise[a]) or (a != b and far_field_bad(sym[a, b], e, p, rs)):
        return fail("symmetric-matrix entry differs from alpha*phi_phys*phi_task + noise on the diagonal", float(sym[a, b]), e)
  if abs(float(k.covariance(x[:1], x[:1])[0]) - alpha) > tol:
    return fail("k(x,x) != alpha", float(k.covariance(x[:1], x[:1])[0]), alpha)
  w = numpy.linalg.eigvalsh(sym)
  if w.min() < -1e-10 * len(z) * (alpha + noise.max()):
    return fail("Gram matrix not positive semi-definite", float(w.min()), ">= 0")
  return None


def far_ladder(rng, cls, ls, base, count):
  """points at prescribed length-scale-weighted distances from `base`, from nearly identical to beyond the underflow of exp: kernel values of
  every magnitude a double can hold (uniform in r means uniform in the exponent of phi)"""
  top = 38.6 if cls == "SquareExponential" else 745.0
  out = []
  for _ in range(count):
    c = rng.random()
    if c < 0.35:
      r = rng.uniform(0, top)                  # anywhere in the representable range
    elif c < 0.5:
      r = top * rng.uniform(0.9, 1.1)          # around the edge of underflow
    elif c < 0.7:
      r = 10.0 ** rng.uniform(-9, 0)           # nearly identical .. one length scale
    else:
      r = rng.uniform(3, 60)                   # small values that all four profiles still resolve (SE up to 38)
    u = [rng.gauss(0, 1) for _ in ls]
    nu = math.sqrt(sum(v * v for v in u)) or 1.0
    out.append([base[d] + r * u[d] / nu * ls[d] for d in range(len(ls))])
  return out


def gen_history(rng, n, m, newpt, newhp, phys_dim, delta_scale):
  """a life of the kernel object and of the caller's two point buffers (see live_object)"""
  steps = []
  for _ in range(rng.randint(1, 4)):
    op = rng.choice(["move", "move", "refill", "refill", "scale", "dup", "hp", "badhp", "badhp", "scribble", "again"])
    buf = rng.choice(["z", "z", "x"])
    cnt = m if buf == "z" else n
    if op == "move":
      steps.append(["move", buf, rng.randrange(cnt), [rng.uniform(-1, 1) * delta_scale[d] if d < phys_dim else 0.0 for d in range(len(delta_scale))]])
    elif op == "refill":
      steps.append(["refill", buf, [newpt() for _ in range(cnt)]])
    elif op == "scale":
      steps.append(["scale", buf, rng.choice([0.5, 2.0, 0.75, 1.0 + 2.0 ** -20])])
    elif op == "dup":
      steps.append(["dup", buf, rng.randrange(cnt), rng.randrange(cnt)])
    elif op == "hp":
      steps.append(["hp", newhp()])
    elif op == "badhp":
      v = newhp()
      v[rng.choice([0, rng.randrange(len(v)), len(v) - 1])] = rng.choice([0.0, -1.0, -v[0], float("nan"), float("inf"), float("-inf")])
      steps.append(["badhp", [repr(float(t)) for t in v]])
    else:
      steps.append([op])
  return steps


def gen_multi(rng):
  dim = rng.randint(1, 5)
  cls = [rng.choice(DIFF), rng.choice(DIFF)]
  def newhp():
    return [10.0 ** rng.uniform(-3, 3)] + [10.0 ** rng.uniform(-1, 1) for _ in range(dim)] + [10.0 ** rng.uniform(-1, 1)]
  hp = newhp()
  tasks = rng.choice([[0.1, 0.3, 1.0], [0.25, 1.0], [0.1, 0.2, 0.5, 0.7, 1.0]])
  def pt():
    return [rng.uniform(-1, 1) for _ in range(dim)] + [rng.choice(tasks)]
  n, m = rng.randint(1, 6), rng.randint(2, 8)
  x, z = [pt() for _ in range(n)], [pt() for _ in range(m)]
  r = rng.random()
  if r < 0.3:
    z[1] = z[0][:-1] + [rng.choice(tasks)]      # the same physical point at (possibly) another task
  elif r < 0.45:
    z[1] = [rng.uniform(-1, 1) for _ in range(dim)] + [z[0][-1]]   # another physical point at the same task
  if rng.random() < 0.3:
    x[0] = list(z[0])
  if rng.random() < 0.3:   # physical distances of every size, up to the underflow of the physical profile
    base = x[0][:-1]
    z = [q + [rng.choice(tasks)] for q in far_ladder(rng, cls[0], hp[1:-1], base, m)]
    x = [x[0]] + [q + [rng.choice(tasks)] for q in far_ladder(rng, cls[0], hp[1:-1], base, n - 1)]
  inp = dict(kind="multi", cls=cls, hp=hp, x=x, z=z, life=rng.choice(["fresh", "reassigned", "rejected"]),
             noise=[rng.choice([0.0, 1e-12, 1e-3, 1.0]) * hp[0] for _ in range(m)])
  if rng.random() < 0.4:
    inp["history"] = gen_history(rng, n, m, pt, newhp, dim, [1.0] * dim + [0.0])
  return inp


def gen_input(rng):
  if rng.random() < 0.15:
    return gen_multi(rng)
  if rng.random() < 0.25:
    kind = rng.choice(["radial", "multi"])
    cls = rng.choice(KERNELS) if kind == "radial" else [rng.choice(DIFF), rng.choice(DIFF)]
    hp = gen_hp(rng, rng.randint(3, 5))
    if rng.random() < 0.5:      # a live object: assignments (accepted and rejected), read-backs, uses
      kind, cls, hp0, ops = gen_live(rng)
      return dict(kind="hyper", k=kind, cls=list(cls) if kind == "multi" else cls, hp=[repr(float(x)) for x in hp0],
                  ops=[[o[0]] + ([[repr(float(v)) for v in o[1]]] if o[0] == "set" else []) for o in ops])
    return dict(kind="hyper", k=kind, cls=cls, hp=[repr(x) for x in hp])
  dim = rng.randint(1, 12)
  cls = rng.choice(KERNELS)
  hp = [10.0 ** rng.uniform(-6, 6)] + [10.0 ** rng.uniform(-3, 3) for _ in range(dim)]
  n, m = rng.randint(1, 7), rng.randint(1, 9)
  big = False
  if rng.random() < 0.03:   # many sampled points in few dimensions
    dim, m, big = rng.randint(1, 3), rng.choice([999, 1000, 1001, 1500]), True
    hp = [10.0 ** rng.uniform(-1, 1)] + [10.0 ** rng.uniform(-1, 1) for _ in range(dim)]
  elif rng.random() < 0.02:  # a big rectangular batch: >= 1e5 point pairs in one cross-matrix call
    dim, m, big = rng.randint(1, 3), rng.randint(35, 60), True
    n = -(-100000 // m) + rng.randint(1, 300)
    hp = [10.0 ** rng.uniform(-1, 1)] + [10.0 ** rng.uniform(-1, 1) for _ in range(dim)]
  sc = 10.0 ** rng.uniform(-2, 2)
  def newpt():
    return [rng.uniform(-1, 1) * sc for _ in range(dim)]
  x = [newpt() for _ in range(n)]
  z = [newpt() for _ in range(m)]
  r = rng.random()
  if r < 0.3 and m > 1:
    z[1] = list(z[0])                       # identical points
  elif r < 0.5 and m > 1:
    z[1] = [v * (1 + 1e-9) for v in z[0]]   # nearly identical
  elif r < 0.6:
    z[0] = [v + 1e4 * sc for v in z[0]]     # very distant
  if rng.random() < 0.3:
    x[0] = list(z[0])
  if not big and rng.random() < 0.3:
    # weighted distances of every size between "nearly identical" and "beyond underflow" (the two corner classes above are r ~ 1e-9 and,
    # for most length scales, r far beyond 745: nothing in between was ever produced, and that is where alpha*phi(r) is tiny but not 0)
    base = [hp[1 + d] * rng.uniform(-3, 3) for d in range(dim)]
    x = [base] + far_ladder(rng, cls, hp[1:], base, n - 1)
    z = far_ladder(rng, cls, hp[1:], base, m)
  inp = dict(kind="kernel", cls=cls, hp=hp, x=x, z=z, life=rng.choice(["fresh", "fresh", "reassigned", "inplace", "readmod", "rejected", "buffer_written", "assigned_written"]), noise=[rng.choice([0.0, 1e-12, 1e-3, 1.0]) * hp[0] for _ in range(m)],
             shift=[rng.uniform(-1, 1) * sc for _ in range(dim)])
  if not big and rng.random() < 0.4:
    inp["history"] = gen_history(rng, n, m, newpt, lambda: [10.0 ** rng.uniform(-6, 6)] + [10.0 ** rng.uniform(-3, 3) for _ in range(dim)], dim, [sc] * dim)
  return inp


def search(ctx, hints, broken):
  fails, n = [], 0
  for h in hints:
    if isinstance(h.get("input"), dict) and "hp" in h["input"]:
      n += 1
      r = oracle(dict(kind="hyper", **h["input"]))
      if r:
        fails.append(r)
  for _ in range(ctx.n(500, 8000) * (3 if broken else 1)):
    inp = gen_input(ctx.rng)
    n += 1
    try:
      r = oracle(inp)
    except Exception as e:
      r = dict(signature=f"C03:{inp['kind']}:raises:{type(e).__name__}", what=f"{inp['kind']} raised {type(e).__name__}: {e}", input=inp,
               observed=repr(e), expected="a value", oracle="no exception on valid input")
    if r:
      fails.append(r)
      if len(fails) >= 3:
        break
  return dict(evaluations=n, failures=fails, oracle="scalar closed forms, eigvalsh for PSD")


def replay(ctx, payload):
  return oracle(payload["input"])

# --- second build round: additions to the claimed level
LEVEL_TEXT += ("; the multitask Gram matrix is PSD whenever the physical Gram matrix has a factor and the task Gram matrix is PSD (Schur product "
               "theorem on the regenerated product formula); kernel objects that were re-assigned or overwritten in place before use, point sets "
               "of >= 1000 points, scalar / length-1 noise in the searcher")

# --- gap round (seeded C03_m7, C03_m10): additions to the claimed level
LEVEL_TEXT += ("; the searcher states the closed form entry-wise RELATIVELY in the far field (weighted distances of every size between nearly identical and the "
               "underflow of exp, generated as ladders r in [1e-9, 820] around a base point, also for the physical part of the multitask kernel), and states all "
               "entry points again after every step of a life history of the kernel object and of the caller's two point buffers (a row moved / the buffer refilled / "
               "rescaled / a row duplicated IN PLACE and the same array object handed over again, hyperparameters re-assigned, the returned matrices overwritten by the caller, "
               "the same question asked twice)")

# --- gap round B (seeded C03_m12): a rejected assignment on a LIVE kernel object
LEVEL_TEXT += ("; live kernel objects (Model.Hyper: radial_assign / multitask_assign follow set_hyperparameters statement by statement, including what has been "
               "assigned by the time HyperparameterInvalidError is raised): an assignment is accepted iff every entry is admissible, an accepted vector reads back, a "
               "rejected assignment leaves a radial kernel and a tensor kernel unchanged in every field, after ANY sequence of assignments / read-backs / uses the kernel reads back exactly what "
               "it computes with, that is admissible, and it is the last accepted vector - radial and tensor kernel alike (theorems C03_hyper_live_*; op-sequence correspondence on "
               "the running classes; searcher: inadmissible assignments inside the life histories, every entry point stated again afterwards)")
LEVEL_NOTE += ("; 'a rejected assignment leaves the object unchanged' is a theorem for the tensor kernel too since the repair 65c6caf (its setter builds the component kernels "
               "before it assigns anything; on the parent tree the process variance / physical length scales of a vector rejected for a later entry had already been assigned - found "
               "while stating the theorem, witness corpus/C03/multitask_rejected_partially_taken.json)")
