"""C07 — acquisition optimizers stay in the domain and return the best point they saw."""
import contextlib
import math
import types
from fractions import Fraction as Fr

import numpy

from lib import common as C

PROP = "C07"
PROPS_FILES = ["Props/C07.v", "Props/C07_scipy.v"]
ASSUMPTIONS = [
  "exact arithmetic over Q: starts, bounds, optimiser parameters and scripted draws are dyadic, the recorded acquisition function is an "
  "integer-coefficient quadratic (of the point snapped to a power-of-two grid when the run leaves the dyadics), so every value is exact",
  "the acquisition function is deterministic; it may be UNDEFINED (NaN) at some points - the code's own numpy.nanargmax anticipates that, and "
  "'all deterministic acquisition functions' does not exclude partial ones: 'the evaluated point of highest value' ranges over the evaluated points "
  "that have a value, the reported value is a value (never NaN), starting points without a value impose nothing, a trial without a value never "
  "replaces a member.  A batch without a single defined value makes numpy.nanargmax raise ValueError: nothing is returned, the clauses are then "
  "void (modelled as an error value, compared by the correspondence).  Infinite values are not modelled",
  "restriction contract (proved for the box / fixed-index case here, C08's subject under linear constraints): every returned point is in the domain "
  "and the batch keeps its length; in the constrained correspondence the model replays the recorded restriction outputs",
  "quasi-random start generation returns the requested number of points (C08/C10); the harness scripts it",
  "differential evolution is used with len(selected_starts) <= num_multistarts >= 2 (otherwise ValueError, modelled as an error value)",
  "Adam: the square roots are an oracle certified inside Coq by |s^2 - v| <= 1e-12 max(1, v); 'small steps do not decrease a smooth objective' is read "
  "as: a step has a non-negative inner product with the gradient (first step, and every step while gradient signs are constant)",
  "SciPy SLSQP / L-BFGS-B enter the multistart model only through (raised, success, x, fun) of each run; 'a constrained SLSQP run started inside "
  "ends inside' is a property of SciPy exercised by the searcher only",
]
ASSUMPTIONS += [
  "'return exactly the evaluated point of highest value; its reported value is reproducible' is also read on the optimiser OBJECT after the library's own next step "
  "(anchor mechanism 'ES result seeds the gradient stage': generate_random_points_near_point around the returned point, the rest of "
  "vectorized_acquisition_optimization): best_location / best_value - the property's state - and the array optimize() returned still are that evaluated point",
]
TRUSTED = ["tools/props/C07.py: case generator, numpy.random scripting layer, recording wrappers, Q-literal printer",
           "Model/OptimCorr.v check function"]

DYADIC_U = [k / 16.0 for k in range(16)]


# ------------------------------------------------------------------------------------------ implementation harness


def _lib():
  from libsigopt.compute import optimization as opt
  from libsigopt.compute import vectorized_optimizers as vo
  from libsigopt.compute.acquisition_function import AcquisitionFunction
  from libsigopt.compute.domain import ContinuousDomain, FixedIndicesOnContinuousDomain
  from libsigopt.compute.optimization_auxiliary import AdamParameters, DEParameters
  return types.SimpleNamespace(opt=opt, vo=vo, AF=AcquisitionFunction, CD=ContinuousDomain, FD=FixedIndicesOnContinuousDomain,
                               AdamP=AdamParameters, DEP=DEParameters)


def fr(x):
  return Fr(float(x))


def af_undefined(spec, p):
  """the recorded function is undefined (NaN) on a union of half-spaces [k, t, above]: x_k > t resp. x_k < t (exact comparison of doubles)"""
  return any((float(p[k]) > t) if above else (float(p[k]) < t) for k, t, above in spec.get("und") or [])


def af_exact(spec, p):
  """The recorded acquisition function in exact rational arithmetic; returns (value or None where it is undefined, gradient-like vector)."""
  v, g = af_exact_total(spec, p)
  return (None if af_undefined(spec, p) else v), g


def af_exact_total(spec, p):
  s = spec["snap"]
  y = [Fr(math.floor(fr(c) * s), s) if s else fr(c) for c in p]
  v = sum(a * yi * yi + b * yi for a, b, yi in zip(spec["a"], spec["b"], y)) + spec["cc"] * y[0] * y[-1]
  g = [2 * a * yi + b for a, b, yi in zip(spec["a"], spec["b"], y)]
  g[0] += spec["cc"] * y[-1]
  g[-1] += spec["cc"] * y[0]
  return v, g


def make_af(L, spec, dim, rec):
  class RecAF(L.AF):
    def __init__(self):  # no predictor: the optimisers only use dim, differentiable, num_points_to_sample and the evaluators
      self.predictor = types.SimpleNamespace(dim=dim, differentiable=True)
      self.num_points_to_sample = 1
      self.best_value = None

    def _vals(self, pts):
      out = []
      for p in pts:
        v, _ = af_exact(spec, p)
        if v is None:
          out.append(float("nan"))
          continue
        if Fr(float(v)) != v:
          rec["inexact"] = True
        out.append(float(v))
      return numpy.array(out)

    def _evaluate_at_point_list(self, pts):
      rec["evals"].append(numpy.array(pts, dtype=float).copy())
      rec["pop_at_eval"].append(None if rec.get("pop") is None else rec["pop"].copy())
      return self._vals(pts)

    def joint_function_gradient_eval(self, pts):
      rec["evals"].append(numpy.array(pts, dtype=float).copy())
      rec["pop_at_eval"].append(None)
      g = numpy.array([[float(x) for x in af_exact(spec, p)[1]] for p in pts])
      rec["grads"].append(g.copy())
      return self._vals(pts), g
  return RecAF()


def make_domain(L, inp, rec):
  bounds = numpy.array([[lo, hi] for lo, hi in zip(inp["lb"], inp["ub"])], dtype=float)
  dom = L.CD(bounds)
  if inp["cons"]:
    dom.set_constraint_list([dict(weights=numpy.array(c[:-1], dtype=float), rhs=float(c[-1])) for c in inp["cons"]])
  inner = dom
  if inp["fixed"]:
    dom = L.FD(dom, {int(k): float(v) for k, v in inp["fixed"]})
  pool = numpy.array(inp["pool"], dtype=float)

  def gen(num_points, log_sample=False):
    rec["gen_calls"].append(int(num_points))
    return numpy.array([pool[i % len(pool)] for i in range(num_points)], dtype=float).reshape(num_points, len(inp["lb"]))
  dom.generate_quasi_random_points_in_domain = gen
  real_restrict = dom.restrict_points_to_domain

  def restrict(points, *a, **k):
    rec["rins"].append(numpy.array(points, dtype=float).copy())
    out = real_restrict(points, *a, **k)
    rec["routs"].append(numpy.array(out, dtype=float).copy())
    if rec.get("pop") is None:
      rec["pop"] = out      # the array DE mutates in place: the population
    return out
  dom.restrict_points_to_domain = restrict
  return dom, inner


@contextlib.contextmanager
def scripted_random(inp, rec):
  """numpy.random.randint / random scripted from the case (DE's (n,3) and (n,dim) draws, restriction's 1-d draws)."""
  sel, us, ru = list(inp.get("sel", [])), list(inp.get("us", [])), list(inp.get("ru", []))
  old = numpy.random.randint, numpy.random.random

  def randint(low, high=None, size=None):
    rec["randint_calls"].append((int(low), int(high), tuple(size)))
    if low >= high:
      raise ValueError("low >= high")
    if not sel:
      raise IndexError("scripted randint stream exhausted")
    return numpy.array(sel.pop(0), dtype=int).reshape(size)

  def random(size=None):
    if isinstance(size, tuple):
      if not us:
        raise IndexError("scripted random stream exhausted")
      return numpy.array(us.pop(0), dtype=float).reshape(size)
    k = int(size)
    out = [ru[(len(rec["ru_used"]) + i) % len(ru)] for i in range(k)]
    rec["ru_used"].extend(out)
    return numpy.array(out, dtype=float)
  numpy.random.randint, numpy.random.random = randint, random
  try:
    yield
  finally:
    numpy.random.randint, numpy.random.random = old


def new_rec():
  return dict(evals=[], rins=[], routs=[], grads=[], pop_at_eval=[], gen_calls=[], randint_calls=[], ru_used=[], pop=None, inexact=False)


def run_vec(inp):
  """Run DEOptimizer / AdamOptimizer on one scripted input; returns the recorded observables."""
  L = _lib()
  rec = new_rec()
  dim = len(inp["lb"])
  dom, _ = make_domain(L, inp, rec)
  af = make_af(L, inp["af"], dim, rec)
  sel0 = None if inp["selected"] is None else numpy.array(inp["selected"], dtype=float).reshape(len(inp["selected"]), dim)
  sel_copy = None if sel0 is None else sel0.copy()
  if inp["kind"] == "de":
    par = L.DEP(crossover_probability=inp["CR"], mutation=inp["F"], strategy="best1bin" if inp["best1"] else "rand1bin")
    opt = L.vo.DEOptimizer(dom, af, inp["n"], optimizer_parameters=par, maxiter=inp["maxiter"])
  else:
    par = L.AdamP(beta_1=inp["b1"], beta_2=inp["b2"], epsilon=inp["eps"], learning_rate=inp["lr"])
    opt = L.vo.AdamOptimizer(dom, af, inp["n"], optimizer_parameters=par, maxiter=inp["maxiter"])
  prior = None
  if inp.get("reuse"):
    # the same optimiser object has already been used once (searcher only): a call with the domain's own quasi-random starts and NumPy's own
    # draws; what it evaluated is kept aside (the object's best-so-far legitimately carries over), the recorder is reset for the measured call
    state = numpy.random.get_state()
    numpy.random.seed(int(inp["reuse"]))
    try:
      real_dom, _ = make_domain(L, inp, new_rec())
      warm = real_dom.generate_quasi_random_points_in_domain(max(inp["n"], 2)) if hasattr(real_dom, "generate_quasi_random_points_in_domain") else None
      opt.optimize(selected_starts=warm)
    except Exception:
      pass
    finally:
      numpy.random.set_state(state)
    prior = [numpy.array(b).copy() for b in rec["evals"]]
    fresh = new_rec()
    for k in list(rec.keys()):
      rec[k] = fresh[k]
  with scripted_random(inp, rec):
    try:
      best, res = opt.optimize(selected_starts=sel0)
    except ValueError as e:
      return dict(error="ValueError", msg=str(e)[:80], rec=rec)
  rec["prior_evals"] = prior
  if sel0 is not None and not numpy.array_equal(sel0, sel_copy):
    rec["selected_modified"] = True
  out = dict(error=None, best=numpy.array(best, dtype=float), best_value=float(opt.best_value), start=numpy.array(res.starting_points),
             end=numpy.array(res.ending_points), vals=numpy.array(res.function_values), rec=rec)
  out["after_next_step"] = next_step(L, dom, opt, best, inp.get("post_seed", 0), rec)
  return out


def next_step(L, dom, opt, best, seed, rec=None):
  """What the library does next with an optimiser's result (vectorized_acquisition_optimization: 'ES result seeds the gradient stage'): it asks the
  domain for points near the returned point.  Returns the optimiser's best_location / best_value and the returned array as they stand AFTERWARDS
  (the recorders of the harness are put back as they were: the step is not part of the run that the model replays)."""
  from libsigopt.compute.misc.constant import AF_OPT_NEAR_BEST_STD_DEV
  keep = None if rec is None else {k: len(rec[k]) for k in ("rins", "routs", "gen_calls", "ru_used")}
  state = numpy.random.get_state()
  numpy.random.seed(int(seed) % (2 ** 32))
  try:
    near = dom.generate_random_points_near_point(8, best, AF_OPT_NEAR_BEST_STD_DEV)
  finally:
    numpy.random.set_state(state)
    if keep:
      for k, n in keep.items():
        del rec[k][n:]
  return dict(best_location=numpy.array(opt.best_location, dtype=float), best_value=float(opt.best_value), returned=numpy.array(best, dtype=float),
              near=numpy.array(near, dtype=float))


def run_ms(inp):
  """MultistartOptimizer over a real _ScipyOptimizerWrapper subclass whose SciPy call is a scripted outcome table."""
  L = _lib()
  rec = new_rec()
  dim = len(inp["lb"])
  dom, _ = make_domain(L, dict(inp, fixed=[]), rec)
  dom.restrict_points_to_domain = None  # the multistart loop must not need it

  class Obj(L.opt.ScipyOptimizable):
    differentiable = True

    def __init__(self):
      self._p = None

    def get_current_point(self):
      return self._p

    def set_current_point(self, p):
      self._p = numpy.array(p, dtype=float)
    current_point = property(get_current_point, set_current_point)
  base = L.opt.SLSQPOptimizer if inp.get("slsqp", True) else L.opt.LBFGSBOptimizer
  table = inp["table"]
  calls = []

  class Scripted(base):
    def _optimize(self, **kwargs):
      k = len(calls)
      calls.append(numpy.array(self.objective_function.current_point).copy())
      o = table[k] if k < len(table) else dict(raised=False, success=False, end=list(calls[-1]), fun=None)   # table exhausted: x0 comes back, no success
      if o["raised"]:
        raise numpy.linalg.LinAlgError("scripted")
      x = numpy.array(o["end"], dtype=float)
      return types.SimpleNamespace(x=x, success=bool(o["success"]), fun=float("nan") if o["fun"] is None else -float(o["fun"]))
  inner = Scripted(dom, Obj())
  ms = L.opt.MultistartOptimizer(inner, num_multistarts=inp["nm"])
  sel0 = None if inp["selected"] is None else numpy.array(inp["selected"], dtype=float).reshape(len(inp["selected"]), dim)
  try:
    bp, res = ms.optimize(selected_starts=sel0)
  except (ValueError, RuntimeError, AssertionError) as e:
    return dict(error=type(e).__name__, msg=str(e)[:80], calls=len(calls), gen_calls=rec["gen_calls"])
  return dict(error=None, best=numpy.array(bp, dtype=float), start=numpy.array(res.starting_points), end=[numpy.array(e) for e in res.ending_points],
              vals=numpy.array(res.function_values, dtype=float), calls=len(calls), gen_calls=rec["gen_calls"])


def run_impl(inp):
  return run_ms(inp) if inp["kind"] == "ms" else run_vec(inp)


# ------------------------------------------------------------------------------------------ case generation


def dy(rng, lo, hi, den=8):
  return rng.randint(int(lo * den), int(hi * den)) / float(den)


def gen_domain(rng, dim, constrained, fixed):
  lb = [float(rng.randint(-4, 0)) for _ in range(dim)]
  ub = [l + rng.choice([1.0, 2.0, 4.0]) for l in lb]
  cons, fx = [], []
  free = list(range(dim))
  if fixed and dim >= 2:
    for k in rng.sample(range(dim), rng.randint(1, dim - 1 if not constrained else max(1, dim - 2))):
      fx.append([k, rng.choice([lb[k], ub[k], dy(rng, lb[k], ub[k])])])
      free.remove(k)
  if constrained and len(free) >= 2:
    for _ in range(rng.randint(1, 2)):
      w = [0.0] * dim
      idx = rng.sample(free, rng.randint(2, len(free)))
      frac = rng.random() < 0.5     # a weighted average / small coefficients: absolute weights sum to at most 1 (still >= 2 non-zero weights)
      for k in idx:
        w[k] = float(rng.choice([-1, 1]) * rng.choice([0.125, 0.25] if len(idx) > 2 else [0.125, 0.25, 0.5])) if frac else float(rng.choice([-2, -1, 1, 2]))
      mid = sum(w[k] * (lb[k] + ub[k]) / 2 for k in range(dim))
      half = sum(abs(w[k]) * (ub[k] - lb[k]) / 2 for k in range(dim))
      cons.append(w + [mid - half * rng.choice([0.25, 0.5, 0.75])])   # w.x >= rhs cuts a corner, keeps the centre strictly inside
  return lb, ub, fx, cons


def gen_point(rng, lb, ub, where):
  p = []
  for l, u in zip(lb, ub):
    r = rng.random()
    if where == "in" or r < 0.4:
      p.append(dy(rng, l, u))
    elif r < 0.6:
      p.append(rng.choice([l, u]))
    else:
      p.append(rng.choice([l - dy(rng, 0, 3), u + dy(rng, 0, 3)]))
  return p


def gen_af(rng, dim, snap):
  return dict(a=[rng.randint(-3, 1) for _ in range(dim)], b=[rng.randint(-4, 4) for _ in range(dim)], cc=rng.randint(-1, 1), snap=snap, und=[])


def gen_undefined(rng, lb, ub, starts, fixed_idx=()):
  """half-spaces on which the acquisition function has no value: a slab at one side of one coordinate, sometimes two.  Half of the time the
  slab begins just beyond the (clipped) starting points, so that every start has a value and only later candidates fall into it; otherwise
  the threshold is anywhere inside the box, on its boundary or (rarely) beyond it - then a start, a whole batch or everything is undefined."""
  und = []
  for _ in range(rng.choice([1, 1, 1, 2])):
    k = rng.randrange(len(lb))
    above = rng.random() < 0.5
    if starts and rng.random() < 0.6:
      clipped = [[min(max(x, l), u) for x, l, u in zip(p, lb, ub)] for p in starts]
      room = [(j, a) for j in range(len(lb)) if j not in fixed_idx for a in (True, False)
              if (max(c[j] for c in clipped) < ub[j] if a else min(c[j] for c in clipped) > lb[j])]    # a non-empty slab beyond the starts
      if room:
        k, above = rng.choice(room)
      cs = [c[k] for c in clipped]
      t = max(cs) if above else min(cs)
    else:
      t = rng.choice([dy(rng, lb[k], ub[k])] * 6 + [lb[k], ub[k], lb[k] - 1.0, ub[k] + 1.0])
    und.append([k, float(t), above])
  return und


def gen_vec(rng, kind):
  dim = rng.randint(1, 4)
  constrained = dim >= 2 and rng.random() < 0.3
  fixed = dim >= 2 and rng.random() < 0.4
  lb, ub, fx, cons = gen_domain(rng, dim, constrained, fixed)
  n = rng.randint(2, 6) if kind == "de" else rng.randint(1, 5)
  maxiter = rng.randint(0, 5)
  style = rng.choice(["none", "fewer", "fewer", "equal", "more", "ties"])
  where = rng.choice(["in", "mixed", "mixed"])
  if style == "none":
    selected = None
  else:
    m = dict(fewer=rng.randint(1, max(1, n - 1)), equal=n, more=n + rng.randint(1, 2), ties=rng.randint(1, n))[style]
    selected = [gen_point(rng, lb, ub, where) for _ in range(m)]
    if style == "ties" and m >= 2:
      selected[-1] = list(selected[0])
  pool = [gen_point(rng, lb, ub, rng.choice(["in", "mixed"])) for _ in range(rng.randint(1, 4))]
  snap = 8 if (cons or kind == "adam") else 0
  inp = dict(kind=kind, lb=lb, ub=ub, fixed=fx, cons=cons, af=gen_af(rng, dim, snap), n=n, maxiter=maxiter, selected=selected, pool=pool,
             ru=[rng.choice(DYADIC_U) for _ in range(7)])
  if rng.random() < 0.15:   # flat acquisition function: every value ties
    inp["af"].update(a=[0] * dim, b=[0] * dim, cc=0)
  if rng.random() < 0.4:    # partial acquisition function: undefined (NaN) on part of the space
    inp["af"]["und"] = gen_undefined(rng, lb, ub, (selected or []) + (pool if selected is None or len(selected) < n else []), [k for k, _ in fx])
  if kind == "de":
    inp.update(best1=rng.random() < 0.6, F=rng.choice([0.25, 0.5, 0.75, 1.0]), CR=rng.choice([0.0, 0.25, 0.5, 0.75, 1.0]),
               sel=[[[rng.randrange(max(1, n - 1)) for _ in range(3)] for _ in range(n)] for _ in range(maxiter)],
               us=[[[rng.choice(DYADIC_U) for _ in range(dim)] for _ in range(n)] for _ in range(maxiter)])
    if n == 2 and rng.random() < 0.1:
      inp["n"] = 1   # randint(0, 0) raises ValueError as soon as an iteration runs
      inp["sel"] = [[[0, 0, 0]] for _ in range(maxiter)]
      inp["us"] = [u[:1] for u in inp["us"]]
      if selected is not None and len(selected) > 1 and rng.random() < 0.5:
        inp["selected"] = selected[:1]
  else:
    inp.update(b1=rng.choice([0.5, 0.75, 0.9]), b2=rng.choice([0.5, 0.875, 0.9, 0.999]), lr=rng.choice([0.0, 0.125, 0.5, 1.0, 0.01]),
               eps=rng.choice([0.0, 2.0 ** -20, 1e-8, 0.25]))
    if inp["eps"] == 0.0 and rng.random() < 0.8:
      inp["eps"] = 2.0 ** -20    # eps = 0 with a zero gradient divides 0 by 0; keep a few such cases only when gradients cannot vanish
    if inp["eps"] == 0.0:
      inp["af"].update(a=[0] * dim, b=[rng.choice([-3, -1, 1, 2]) for _ in range(dim)], cc=0)
  return inp


def gen_ms(rng):
  dim = rng.randint(1, 3)
  lb, ub, _, cons = gen_domain(rng, dim, dim >= 2 and rng.random() < 0.5, False)
  nm = rng.choice([0, 0, 1, 1, 2, 3, 4])
  nsel = rng.randint(0, 4)
  selected = None if (nsel == 0 and rng.random() < 0.7) else [gen_point(rng, lb, ub, rng.choice(["in", "mixed"])) for _ in range(nsel)]
  pool = [gen_point(rng, lb, ub, "in") for _ in range(rng.randint(1, 3))]
  pfail = rng.choice([0.0, 0.3, 0.6, 1.0])
  table = []
  for _ in range(max(nm, nsel) + 3):
    r = rng.random()
    o = dict(raised=r < 0.1, success=rng.random() >= pfail, end=gen_point(rng, lb, ub, rng.choice(["in", "in", "mixed"])),
             fun=None if rng.random() < 0.1 else float(rng.randint(-3, 3)))
    table.append(o)
  if rng.random() < 0.08:
    table = table[:1]   # the table runs out: every later run fails (exercises the backup starts and the for-else branch)
  return dict(kind="ms", lb=lb, ub=ub, cons=cons, nm=nm, selected=selected, pool=pool, table=table, slsqp=rng.random() < 0.6)


def gen_case(rng):
  kind = rng.choice(["de", "de", "de", "adam", "adam", "ms", "ms"])
  return gen_ms(rng) if kind == "ms" else gen_vec(rng, kind)


# ------------------------------------------------------------------------------------------ Coq case printer


def qpt(p):
  return C.listlit([float(x) for x in p], C.qlit)


def qbatch(b):
  return C.listlit(list(b), qpt)


def domlit(inp):
  fx = C.listlit(inp.get("fixed", []), lambda kv: f"({C.nlit(kv[0])}, {C.qlit(float(kv[1]))})")
  cons = C.listlit(inp["cons"], lambda c: f"({qpt(c[:-1])}, {C.qlit(float(c[-1]))})")
  return f"(mkdom {qpt(inp['lb'])} {qpt(inp['ub'])} {fx} {cons})"


def aflit(spec):
  q = lambda l: C.listlit(l, C.qlit)
  und = C.listlit(spec.get("und") or [], lambda u: f"({C.nlit(u[0])}, {C.qlit(float(u[1]))}, {C.blit(u[2])})")
  return f"(mkaf {q(spec['a'])} {q(spec['b'])} {C.qlit(spec['cc'])} {C.qlit(spec['snap'])} {und})"


def obslit(out):
  rec = out["rec"]
  lb = lambda bs: C.listlit(bs, qbatch)
  oq = lambda v: C.optlit(None if v != v else float(v), C.qlit)     # NaN -> None
  return (f"(mkobs {lb(rec['evals'])} {lb(rec['rins'])} {lb(rec['routs'])} {qpt(out['best'])} {oq(out['best_value'])} "
          f"{qbatch(out['start'])} {qbatch(out['end'])} {C.listlit([float(v) for v in out['vals']], oq)})")


def adam_tracks(inp, out):
  """Per (member, coordinate): gradients, harness square roots of the unbiased second moment, observed updates (exact differences)."""
  rec = out["rec"]
  iters = len(rec["rins"]) - 1     # the final evaluation in optimize() also asks for gradients; it is not followed by a step
  if iters <= 0:
    return []
  b1, b2 = fr(inp["b1"]), fr(inp["b2"])
  n, dim = rec["grads"][0].shape
  tracks = []
  for j in range(n):
    for k in range(dim):
      m = v = Fr(0)
      gs, ss, us = [], [], []
      for i in range(1, iters + 1):
        g = fr(rec["grads"][i - 1][j][k])
        m = b1 * m + (1 - b1) * (-g)
        v = b2 * v + (1 - b2) * g * g
        vh = v / (1 - b2 ** i)
        gs.append(g)
        ss.append(Fr(math.sqrt(float(vh))))
        us.append(fr(rec["rins"][i][j][k]) - fr(rec["evals"][i - 1][j][k]))
      tracks.append((gs, ss, us))
  return tracks


def coq_case(inp, out):
  sel = C.optlit(inp["selected"], qbatch)
  if inp["kind"] == "ms":
    tab = C.listlit(inp["table"], lambda o: f"(mkoc {C.blit(o['raised'])} {C.blit(o['success'])} {qpt(o['end'])} {C.optlit(o['fun'], C.qlit)})")
    if out["error"]:
      ob = f"(MsErr {out['error']})"
    else:
      vals = C.listlit([None if v != v else float(v) for v in out["vals"]], lambda v: C.optlit(v, C.qlit))
      ob = f"(MsOk {qpt(out['best'])} {qbatch(out['start'])} {qbatch(out['end'])} {vals})"
    return f"CMs {domlit(dict(inp, fixed=[]))} {C.nlit(inp['nm'])} {sel} {qbatch(inp['pool'])} {tab} {ob}"
  rec = out["rec"]
  routs = C.listlit(rec["routs"], qbatch)     # the recorded restriction outputs (replayed by the model under linear constraints), also of a run that raised
  if inp["kind"] == "de":
    P = f"(mkde {C.nlit(inp['n'])} {C.nlit(len(inp['lb']))} {C.blit(inp['best1'])} {C.qlit(inp['F'])} {C.qlit(inp['CR'])})"
    ds = C.listlit(list(zip(inp["sel"], inp["us"])),
                   lambda d: "(" + C.listlit(d[0], lambda t: f"({C.nlit(t[0])}, {C.nlit(t[1])}, {C.nlit(t[2])})") + ", " + qbatch(d[1]) + ")")
    ob = "None" if out["error"] else f"(Some {obslit(out)})"
    return f"CDE {domlit(inp)} {aflit(inp['af'])} {P} {C.nlit(inp['maxiter'])} {sel} {qbatch(inp['pool'])} {ds} {routs} {ob}"
  ups = [[[fr(a) - fr(b) for a, b in zip(ra, rb)] for ra, rb in zip(rec["rins"][i + 1], rec["evals"][i])] for i in range(min(len(rec["rins"]) - 1, len(rec["evals"])))]
  qb = lambda b: C.listlit(b, lambda p: C.listlit(p, C.qlit))
  if out["error"]:
    # the run stopped inside evaluate_and_monitor: the updates made so far are recorded, the rest of the script is padding the model never reaches
    # (it must stop at the same batch, with the same error class)
    shape = rec["evals"][0] if rec["evals"] else []
    ups += [[[Fr(0)] * len(row) for row in shape]] * max(0, inp["maxiter"] - 1 - len(ups))
    return (f"CAdam {domlit(inp)} {aflit(inp['af'])} {C.nlit(inp['n'])} {C.nlit(inp['maxiter'])} {sel} {qbatch(inp['pool'])} {C.listlit(ups, qb)} "
            f"{routs} None {C.qlit(inp['b1'])} {C.qlit(inp['b2'])} {C.qlit(inp['lr'])} {C.qlit(inp['eps'])} nil")
  tr = C.listlit(adam_tracks(inp, out), lambda t: "(mktr " + " ".join(C.listlit(x, C.qlit) for x in t) + ")")
  return (f"CAdam {domlit(inp)} {aflit(inp['af'])} {C.nlit(inp['n'])} {C.nlit(inp['maxiter'])} {sel} {qbatch(inp['pool'])} {C.listlit(ups, qb)} "
          f"{routs} (Some {obslit(out)}) {C.qlit(inp['b1'])} {C.qlit(inp['b2'])} {C.qlit(inp['lr'])} {C.qlit(inp['eps'])} {tr}")


HEADER = ("From Coq Require Import List QArith Bool.\nFrom LV Require Import Model.Optim Model.Multistart Model.OptimCorr.\n"
          "Open Scope Q_scope.")


def branch(inp, out):
  tags = [inp["kind"]]
  if out.get("error"):
    tags.append("err:" + out["error"])
  if inp["kind"] != "ms":
    tags.append("constrained" if inp["cons"] else "box")
    if inp["fixed"]:
      tags.append("fixed")
    tags.append("sel:" + ("none" if inp["selected"] is None else "more" if len(inp["selected"]) > inp["n"] else "le"))
    if inp["kind"] == "de":
      tags.append("best1" if inp["best1"] else "rand1")
    if inp["af"].get("und"):
      und = [[af_undefined(inp["af"], p) for p in b] for b in out["rec"]["evals"]]
      flat = [u for b in und for u in b]
      tags.append("af:undefined-nowhere-visited" if not any(flat) else "af:undefined-at-some-evaluated-points")
      if und and any(und[0]):
        tags.append("af:undefined-at-a-start")
      if any(b and all(b) for b in und):
        tags.append("af:a-batch-undefined-throughout")
      if out.get("error") is None and any(v != v for v in out["vals"]):
        tags.append("af:undefined-at-an-ending-point")
  else:
    tags.append(f"nm{min(inp['nm'], 2)}")
    if not out.get("error") and out["calls"] > max(inp["nm"], len(inp["selected"] or [])):
      tags.append("backup-used")
  return tags


def harness_checks(inp, out):
  """Glue facts the Coq case does not carry; returns a description of the first one that fails, or None."""
  if inp["kind"] == "ms":
    from libsigopt.compute import optimization as opt
    if (opt.NUM_BACKUP_MULTISTARTS, opt.MINIMUM_SUCCESSFUL_MULTISTARTS_NUMBER, opt.MINIMUM_SUCCESSFUL_MULTISTARTS_FRACTION) != (1000, 0, 0):
      raise C.TieBroken("multistart constants changed: the model fixes NUM_BACKUP_MULTISTARTS = 1000 and both minimum-success constants = 0")
    nsel = len(inp["selected"] or [])
    exp = ([inp["nm"] - nsel] if inp["nm"] > nsel else []) + [1000]
    if not (out["error"] == "ValueError") and out["gen_calls"] != exp:
      return f"quasi-random generator asked for {out['gen_calls']}, model expects {exp}"
    return None
  rec = out["rec"]
  nsel = len(inp["selected"]) if inp["selected"] is not None else 0
  exp = [inp["n"] - nsel] if (inp["selected"] is None or inp["n"] > nsel) else []
  if rec["gen_calls"] != exp:
    return f"quasi-random generator asked for {rec['gen_calls']}, model expects {exp}"
  if rec.get("selected_modified"):
    return "selected_starts was modified in place"
  if inp["kind"] == "de" and not out["error"]:
    want = [(0, inp["n"] - 1, (inp["n"], 3))] * inp["maxiter"]
    if rec["randint_calls"] != want:
      return f"randint called with {rec['randint_calls'][:2]}, model expects {want[:1]}"
  return None


def correspondence(ctx):
  n = ctx.n(420, 6000)
  cases, meta, seen, dist, dis = [], [], set(), {}, []
  nontriv = skipped = 0
  for _ in range(n):
    inp = gen_case(ctx.rng)
    try:
      out = run_impl(inp)
    except Exception as e:  # the harness or the implementation crashed on a valid scripted input
      dis.append(dict(what=f"C07 harness: implementation raised {type(e).__name__}: {e}", kind=inp["kind"], input=inp, observed=repr(e)))
      continue
    if inp["kind"] != "ms" and out["rec"]["inexact"]:
      skipped += 1
      continue
    msg = harness_checks(inp, out)
    if msg:
      dis.append(dict(what=f"C07 correspondence ({inp['kind']}): {msg}", kind=inp["kind"], input=inp, observed=msg))
    cases.append(coq_case(inp, out))
    meta.append((inp, out))
    for t in branch(inp, out):
      dist[t] = dist.get(t, 0) + 1
    h = C.canon_hash(inp)
    if h not in seen and nontrivial(inp, out):
      nontriv += 1
    seen.add(h)
  dist["skipped_inexact"] = skipped
  bad = C.run_cases("C07", HEADER, "case", "check", cases, shard=40)
  for i in bad:
    inp, out = meta[i]
    obs = {k: v for k, v in out.items() if k != "rec"}
    dis.append(dict(what=f"C07 correspondence case {i} ({inp['kind']}): implementation differs from Model.Optim/Multistart or from the specification",
                    kind=inp["kind"], input=inp, observed=obs))
  sc = scipy_cons_correspondence(ctx)
  dist.update(sc["distribution"])
  dis += sc["disagreements"]
  return dict(evaluations=len(cases) + sc["evaluations"], distinct_nontrivial=nontriv + sc["distinct"],
              rule="SciPy constraint functions: fun and jac of every constraint of get_constraints_for_scipy() at a dyadic point, right-hand sides "
                   "of both signs / zero / 1e-3 ... 1e6 (non-trivial = at least one constraint); "
                   "DE / Adam / multistart runs on boxes of dim 1-4 with and without linear constraints and fixed coordinates, 1-6 multistarts, 0-5 "
                   "iterations, starts none / fewer / equal / more than num_multistarts and inside / on / outside the box, scripted draws; non-trivial = "
                   "at least one iteration ran with >= 2 members (DE, Adam) or >= 2 inner runs (multistart); distinct by hash of the canonical input",
              samples=[dict(kind=i["kind"], input=i, impl_output={k: v for k, v in o.items() if k != "rec"}) for i, o in meta[:2]] + sc["samples"],
              distribution=dist, disagreements=dis)


SC_HEADER = ("From Coq Require Import List QArith Bool.\nFrom LV Require Import Model.Restrict Model.ScipyCons Model.ScipyConsCorr.\n"
             "Open Scope Q_scope.")


def gen_scipy_case(rng):
  """A constrained box with right-hand sides of both signs, zero, tiny and large, and a dyadic evaluation point (anywhere)."""
  dim = rng.randint(1, 4)
  lb = [float(rng.randint(-4, 0)) for _ in range(dim)]
  ub = [l + rng.choice([1.0, 2.0, 4.0]) for l in lb]
  cons = []
  for _ in range(rng.randint(0, 3) if rng.random() < 0.9 else 0):
    w = [float(rng.choice([-2, -1, 0, 0.5, 1, 3])) for _ in range(dim)]
    if not any(w):
      w[rng.randrange(dim)] = 1.0
    rhs = rng.choice([0.0, -0.0, 1.0, -1.0, -2.5, 3.25, -1e-3, 1e-3, -1e6, 1e6, float(rng.randint(-40, 40)) / 8, -float(2 ** rng.randint(-20, 20))])
    cons.append(w + [rhs])
  x = [dy(rng, l - 2, u + 2) for l, u in zip(lb, ub)]
  return dict(kind="scipycons", lb=lb, ub=ub, cons=cons, x=x)


def run_scipy_case(inp):
  """The real get_constraints_for_scipy() of a domain carrying these constraints (set directly: the feasibility assertion of
  set_constraint_list is about the Chebyshev centre, C08, not about the functions built here)."""
  L = _lib()
  dom = L.CD(numpy.array([[l, u] for l, u in zip(inp["lb"], inp["ub"])], dtype=float))
  if inp["cons"]:
    dom._constraint_list = [dict(weights=numpy.array(c[:-1], dtype=float), rhs=float(c[-1])) for c in inp["cons"]]
    dom._halfspaces = dom.convert_func_list_to_halfspaces()
  cs = dom.get_constraints_for_scipy()
  x = numpy.array(inp["x"], dtype=float)
  if any(c["type"] != "ineq" for c in cs):
    raise C.TieBroken("get_constraints_for_scipy produced a constraint that is not of type 'ineq'")
  return dict(funs=[float(c["fun"](x)) for c in cs], jacs=[[float(v) for v in numpy.asarray(c["jac"](x), dtype=float).ravel()] for c in cs])


def scipy_cons_correspondence(ctx):
  cases, meta, seen, dist, dis = [], [], set(), {}, []
  for _ in range(ctx.n(300, 4000)):
    inp = gen_scipy_case(ctx.rng)
    try:
      out = run_scipy_case(inp)
    except C.TieBroken:
      raise
    except Exception as e:
      dis.append(dict(what=f"C07 scipy constraints: implementation raised {type(e).__name__}: {e}", kind="scipycons", input=inp, observed=repr(e)))
      continue
    dom = f"(Dom {C.listlit([f'({C.qlit(l)}, {C.qlit(u)})' for l, u in zip(inp['lb'], inp['ub'])])} " + \
          C.listlit([f"({qpt(c[:-1])}, {C.qlit(c[-1])})" for c in inp["cons"]]) + ")"
    cases.append(f"mkcase {dom} {qpt(inp['x'])} {C.listlit(out['funs'], C.qlit)} {C.listlit(out['jacs'], qpt)}")
    meta.append((inp, out))
    for c in inp["cons"]:
      t = "rhs>0" if c[-1] > 0 else "rhs<0" if c[-1] < 0 else "rhs=0"
      dist["scipycons:" + t] = dist.get("scipycons:" + t, 0) + 1
    if not inp["cons"]:
      dist["scipycons:unconstrained"] = dist.get("scipycons:unconstrained", 0) + 1
    seen.add(C.canon_hash(inp) if inp["cons"] else "none")
  bad = C.run_cases("C07sc", SC_HEADER, "case", "check", cases, shard=150)
  for i in bad:
    inp, out = meta[i]
    dis.append(dict(what=f"C07 correspondence (scipy constraints) case {i}: fun / jac of get_constraints_for_scipy differ from Model.ScipyCons",
                    kind="scipycons", input=inp, observed=out))
  return dict(evaluations=len(cases), distinct=len(seen), distribution=dist, disagreements=dis,
              samples=[dict(kind="scipycons", input=i, impl_output=o) for i, o in meta[:1]])


def nontrivial(inp, out):
  if inp["kind"] == "ms":
    return out.get("calls", 0) >= 2
  return not out["error"] and len(out["rec"]["evals"]) >= 3 and len(out["rec"]["evals"][0]) >= 2


# ------------------------------------------------------------------------------------------ independent oracle


def in_domain(p, lb, ub, fixed, cons, tol=1e-9):
  """Own membership routine: box, fixed coordinates (exactly), linear constraints w.x >= rhs (relative tolerance)."""
  if len(p) != len(lb):
    return False
  for x, l, u in zip(p, lb, ub):
    if not (l <= x <= u):
      return False
  for k, v in fixed:
    if p[int(k)] != v:
      return False
  for c in cons:
    if sum(w * x for w, x in zip(c[:-1], p)) < c[-1] - tol * max(1.0, abs(c[-1])):
      return False
  return True


def smooth_af(coef, p):
  """a smooth real-valued objective; NaN (no value) on the half-spaces coef["und"] = [[k, t, above], ...] when that key is present"""
  if any((p[k] > t) if above else (p[k] < t) for k, t, above in coef.get("und") or []):
    return float("nan")
  return -sum(a * (x - c) ** 2 for a, c, x in zip(coef["a"], coef["c"], p)) + coef["s"] * math.sin(sum(p))


NEXT_STEP_WHAT = ("after the library's own next step - points near the returned best point, as vectorized_acquisition_optimization seeds the gradient stage - "
                  "the optimiser's best_location (and the array optimize() returned) is no longer the evaluated point of highest value")


def oracle_vec(inp):
  """Real DEOptimizer / AdamOptimizer with NumPy's own generator (seeded), a smooth real-valued objective and real
  quasi-random starts; the property is checked directly on the recorded evaluations."""
  L = _lib()
  rec = new_rec()
  dim = len(inp["lb"])
  lb, ub, fixed, cons = inp["lb"], inp["ub"], inp["fixed"], inp["cons"]
  bounds = numpy.array([[l, u] for l, u in zip(lb, ub)], dtype=float)
  dom = L.CD(bounds)
  if cons:
    dom.set_constraint_list([dict(weights=numpy.array(c[:-1], dtype=float), rhs=float(c[-1])) for c in cons])
  if fixed:
    dom = L.FD(dom, {int(k): float(v) for k, v in fixed})
  real_restrict = dom.restrict_points_to_domain

  def restrict(points, *a, **k):
    out = real_restrict(points, *a, **k)
    rec["routs"].append(numpy.array(out).copy())
    if rec["pop"] is None:
      rec["pop"] = out
    return out
  dom.restrict_points_to_domain = restrict
  coef = inp["coef"]

  class AF(L.AF):
    def __init__(self):
      self.predictor = types.SimpleNamespace(dim=dim, differentiable=True)
      self.num_points_to_sample = 1
      self.best_value = None

    def _evaluate_at_point_list(self, pts):
      rec["evals"].append(numpy.array(pts).copy())
      rec["pop_at_eval"].append(rec["pop"].copy())
      return numpy.array([smooth_af(coef, p) for p in pts])

    def joint_function_gradient_eval(self, pts):
      rec["evals"].append(numpy.array(pts).copy())
      g = numpy.array([[-2 * a * (x - c) + coef["s"] * math.cos(sum(p)) for a, c, x in zip(coef["a"], coef["c"], p)] for p in pts])
      return numpy.array([smooth_af(coef, p) for p in pts]), g
  af = AF()
  if inp["kind"] == "de":
    par = L.DEP(crossover_probability=inp["CR"], mutation=inp["F"], strategy="best1bin" if inp["best1"] else "rand1bin")
    opt = L.vo.DEOptimizer(dom, af, inp["n"], optimizer_parameters=par, maxiter=inp["maxiter"])
  else:
    par = L.AdamP(learning_rate=inp["lr"])
    opt = L.vo.AdamOptimizer(dom, af, inp["n"], optimizer_parameters=par, maxiter=inp["maxiter"])
  sel = None if inp["selected"] is None else numpy.array(inp["selected"], dtype=float).reshape(len(inp["selected"]), dim)
  def fail(sig, what, observed=None, expected=None):
    return dict(signature=f"C07:{inp['kind']}:{sig}", what=f"{inp['kind']}: {what}", input=inp, observed=observed, expected=expected,
                oracle="recording wrapper + direct statement of the property")
  state = numpy.random.get_state()
  numpy.random.seed(inp["seed"])
  try:
    best, res = opt.optimize(selected_starts=sel)
    returned = numpy.array(best, dtype=float)
    post = next_step(L, dom, opt, best, inp["seed"], rec)
  except ValueError as e:
    # numpy.nanargmax raises when the batch just evaluated has no value at all (the function is undefined at every point of it): nothing is
    # returned, the clauses are void (reading in ASSUMPTIONS); any other ValueError on a valid input is a failure
    if rec["evals"] and all(smooth_af(coef, p) != smooth_af(coef, p) for p in rec["evals"][-1]):
      return None
    return fail("raises:ValueError", f"raised ValueError: {e}", repr(e), "a result")
  finally:
    numpy.random.set_state(state)
  best = returned          # the point as optimize() returned it (the array itself has been through the next step since)
  allpts = [p for b in rec["evals"] for p in b]
  for p in allpts:
    if not in_domain(list(p), lb, ub, fixed, cons):
      return fail("evaluated-outside-domain", "the acquisition function was evaluated outside the domain", [float(x) for x in p])
  vals = [smooth_af(coef, p) for p in allpts]
  have = [i for i in range(len(vals)) if vals[i] == vals[i]]     # the evaluated points that have a value (not NaN)
  if not have:
    return fail("returns-without-a-value", "optimize() returned although no evaluated point has a value", float(opt.best_value))
  imax = max(have, key=lambda i: (vals[i], -i))
  if not any(numpy.array_equal(best, allpts[i]) and vals[i] == vals[imax] for i in have):   # ties: any evaluated maximiser satisfies the property
    return fail("best-not-argmax", "the returned point is not an evaluated point of highest value (among the evaluated points that have a value)",
                [float(x) for x in best], [float(x) for x in allpts[imax]])
  if not (opt.best_value == smooth_af(coef, best) and opt.best_value == vals[imax]):
    return fail("best-value-not-reproducible", "best_value differs from the acquisition function at best_location", float(opt.best_value), vals[imax])
  if not numpy.array_equal(returned, post["returned"]) or not numpy.array_equal(returned, post["best_location"]) or post["best_value"] != vals[imax]:
    return fail("best-location-changed-by-the-next-step", NEXT_STEP_WHAT, dict(best_location=post["best_location"].tolist(), returned_array=post["returned"].tolist()),
                [float(x) for x in returned])
  for p in rec["routs"][0]:
    if smooth_af(coef, p) > opt.best_value:
      return fail("below-restricted-start", "best_value is lower than the value at a restricted starting point", float(opt.best_value))
  if not numpy.array_equal(res.function_values, numpy.array([smooth_af(coef, p) for p in res.ending_points]), equal_nan=True):
    return fail("results-not-reproducible", "reported function_values differ from re-evaluation at ending_points")
  if len(rec["evals"]) != (inp["maxiter"] + 2 if inp["kind"] == "de" else max(inp["maxiter"] - 1, 0) + 1):
    return fail("iteration-count", "number of evaluated batches differs from the iteration count", len(rec["evals"]))
  if inp["kind"] == "de":
    pops = rec["pop_at_eval"][1:] + [numpy.array(res.ending_points)]   # population when trial t is evaluated, ..., final one
    for t in range(inp["maxiter"]):
      before, trial = pops[t], rec["evals"][t + 1]
      after = pops[t + 1] if t + 1 < len(pops) else numpy.array(res.ending_points)
      for j in range(len(before)):
        if numpy.array_equal(after[j], before[j]):
          continue
        if not numpy.array_equal(after[j], trial[j]) or smooth_af(coef, after[j]) < smooth_af(coef, before[j]):
          return fail("replaced-by-worse", "a population member was replaced by a worse point (or by something that is not its trial)",
                      dict(iteration=t, member=j))
      for p in after:
        if not in_domain(list(p), lb, ub, fixed, cons):
          return fail("population-outside-domain", "a population member left the domain", [float(x) for x in p])
  return None


def gen_twostage(rng):
  """Input of the real two-stage optimisation: a box / constrained / partially fixed domain at one of several scales, a smooth objective whose
  maximiser lies outside the box in most coordinates (the DE winner then sits on a face of the domain), small optimiser sizes."""
  dim = rng.randint(2, 5)
  constrained = rng.random() < 0.65
  fixed = rng.random() < 0.3
  scale = 10.0 ** rng.randint(-2, 2)
  lb, ub, fx, cons = gen_domain(rng, dim, constrained, fixed)
  lb, ub = [l * scale for l in lb], [u * scale for u in ub]
  fx = [[k, v * scale] for k, v in fx]
  cons = [[w for w in c[:-1]] + [c[-1] * scale] for c in cons]
  coef = dict(a=[rng.uniform(0.1, 2.0) / scale ** 2 for _ in range(dim)], c=[rng.uniform(l - (u - l), u + (u - l)) for l, u in zip(lb, ub)],
              s=rng.choice([0.0, 0.3]))
  nrs = rng.randint(2, 6)
  n_es = rng.randint(max(nrs, 4), 14)
  return dict(kind="twostage", lb=lb, ub=ub, fixed=fx, cons=cons, coef=coef, n_es=n_es, nrs=nrs, n_gd=2 * nrs + rng.randint(0, 4), es_maxiter=rng.randint(0, 8),
              gd_maxiter=rng.randint(0, 5), best1=rng.random() < 0.5, F=rng.uniform(0.1, 1.5), CR=rng.uniform(0.0, 1.0), lr=rng.choice([0.001, 0.01, 0.1]) * scale,
              npre=rng.randint(1, 20), seed=rng.randrange(2 ** 31))


def oracle_twostage(inp):
  """The real vectorized_acquisition_optimization: pretest evaluation, DE stage, points near the DE result plus a sample of its ending points as
  starts of the Adam stage.  Each optimiser gets its own recording objective.  AFTER the whole routine both optimiser objects must hold, as
  best_location / best_value, an evaluated point of highest value among the points they evaluated with a reproducible value (the state
  _best_location / _best_value of the property); the routine returns the gradient stage's best point; nothing is evaluated outside the domain."""
  import dataclasses
  import libsigopt.compute.acquisition_function_optimization as afo
  L = _lib()
  dim = len(inp["lb"])
  lb, ub, fixed, cons, coef = inp["lb"], inp["ub"], inp["fixed"], inp["cons"], inp["coef"]
  dom = L.CD(numpy.array([[l, u] for l, u in zip(lb, ub)], dtype=float))
  if cons:
    dom.set_constraint_list([dict(weights=numpy.array(c[:-1], dtype=float), rhs=float(c[-1])) for c in cons])
  if fixed:
    dom = L.FD(dom, {int(k): float(v) for k, v in fixed})
  mid = [(l + u) / 2 for l, u in zip(lb, ub)]
  for k, v in fixed:
    mid[int(k)] = float(v)

  class AF(L.AF):
    def __init__(self, log):
      self.predictor = types.SimpleNamespace(dim=dim, differentiable=True)
      self.num_points_to_sample = 1
      self.best_value = None
      self.best_location = numpy.array(mid, dtype=float)     # the best observed location (a feasible point of the domain)
      self.log = log

    def _evaluate_at_point_list(self, pts):
      self.log.append(numpy.array(pts, dtype=float).copy())
      return numpy.array([smooth_af(coef, p) for p in pts])

    def joint_function_gradient_eval(self, pts):
      self.log.append(numpy.array(pts, dtype=float).copy())
      g = numpy.array([[-2 * a * (x - c) + coef["s"] * math.cos(sum(p)) for a, c, x in zip(coef["a"], coef["c"], p)] for p in pts])
      return numpy.array([smooth_af(coef, p) for p in pts]), g
  es_log, gd_log = [], []
  es = L.vo.DEOptimizer(dom, AF(es_log), inp["n_es"], maxiter=inp["es_maxiter"],
                        optimizer_parameters=L.DEP(crossover_probability=inp["CR"], mutation=inp["F"], strategy="best1bin" if inp["best1"] else "rand1bin"))
  gd = L.vo.AdamOptimizer(dom, AF(gd_log), inp["n_gd"], optimizer_parameters=L.AdamP(learning_rate=inp["lr"]), maxiter=inp["gd_maxiter"])

  def fail(sig, what, observed=None, expected=None):
    return dict(signature=f"C07:twostage:{sig}", what=f"two-stage optimisation: {what}", input=inp, observed=observed, expected=expected,
                oracle="recording objectives around the real vectorized_acquisition_optimization + direct statement of the property")
  info = afo.DEFAULT_NEXT_POINTS_GB_OPTIMIZER_INFO
  small = info._replace(num_random_samples=inp["nrs"]) if hasattr(info, "_replace") else dataclasses.replace(info, num_random_samples=inp["nrs"])
  state = numpy.random.get_state()
  numpy.random.seed(inp["seed"])
  afo.DEFAULT_NEXT_POINTS_GB_OPTIMIZER_INFO = small
  try:
    pretest = dom.generate_quasi_random_points_in_domain(inp["npre"])
    best_point = afo.vectorized_acquisition_optimization(es, gd, pretest)
  finally:
    afo.DEFAULT_NEXT_POINTS_GB_OPTIMIZER_INFO = info
    numpy.random.set_state(state)
  for name, opt, batches in (("DE stage", es, es_log[1:]), ("Adam stage", gd, gd_log)):     # es_log[0] is the pretest batch (not evaluated by the optimiser)
    pts = [p for b in batches for p in b]
    for p in pts:
      if not in_domain(list(p), lb, ub, fixed, cons):
        return fail("evaluated-outside-domain", f"{name}: the acquisition function was evaluated outside the domain", [float(x) for x in p])
    vals = [smooth_af(coef, p) for p in pts]
    top = max(vals)
    loc = numpy.array(opt.best_location, dtype=float)
    if not any(numpy.array_equal(loc, p) and v == top for p, v in zip(pts, vals)):
      return fail("best-location-is-not-an-evaluated-maximiser", f"{name}: after the routine the optimiser's best_location is not an evaluated point of highest value",
                  dict(stage=name, best_location=loc.tolist()), [float(x) for x in pts[vals.index(top)]])
    if not (opt.best_value == top and smooth_af(coef, loc) == opt.best_value):
      return fail("best-value-not-reproducible", f"{name}: best_value differs from the acquisition function at best_location", float(opt.best_value), top)
  if not numpy.array_equal(numpy.array(best_point, dtype=float), numpy.array(gd.best_location, dtype=float)):
    return fail("result-is-not-the-gradient-stage-best", "the routine does not return the gradient stage's best point", [float(x) for x in best_point])
  return None


def oracle_scipy(inp):
  """Real SLSQP / L-BFGS-B through MultistartOptimizer on a concave quadratic."""
  L = _lib()
  dim = len(inp["lb"])
  lb, ub, cons = inp["lb"], inp["ub"], inp["cons"]
  dom = L.CD(numpy.array([[l, u] for l, u in zip(lb, ub)], dtype=float))
  coef = inp["coef"]
  if inp.get("earlier_cons"):
    dom.set_constraint_list([dict(weights=numpy.array(c[:-1], dtype=float), rhs=float(c[-1])) for c in inp["earlier_cons"]])

    class Plain(L.opt.ScipyOptimizable):
      differentiable = True
      current_point = numpy.array([(l + u) / 2 for l, u in zip(lb, ub)], dtype=float)

      def compute_objective_function(self):
        return smooth_af(coef, self.current_point)

      def compute_grad_objective_function(self):
        return numpy.array([-2 * a * (x - c) for a, c, x in zip(coef["a"], coef["c"], self.current_point)])
    try:
      L.opt.SLSQPOptimizer(dom, Plain()).optimize()      # the earlier run (its outcome is not this case's subject)
    except Exception:  # noqa: BLE001
      pass
  if cons:
    dom.set_constraint_list([dict(weights=numpy.array(c[:-1], dtype=float), rhs=float(c[-1])) for c in cons])

  class Obj(L.opt.ScipyOptimizable):
    differentiable = True

    def __init__(self):
      self._p = numpy.zeros(dim)

    def get_current_point(self):
      return self._p

    def set_current_point(self, p):
      self._p = numpy.array(p, dtype=float)
    current_point = property(get_current_point, set_current_point)

    def compute_objective_function(self):
      return smooth_af(coef, self._p)

    def compute_grad_objective_function(self):
      return numpy.array([-2 * a * (x - c) + coef["s"] * math.cos(sum(self._p)) for a, c, x in zip(coef["a"], coef["c"], self._p)])
  inner = (L.opt.SLSQPOptimizer if inp["slsqp"] else L.opt.LBFGSBOptimizer)(dom, Obj())
  ms = L.opt.MultistartOptimizer(inner, num_multistarts=inp["nm"])
  sel = None if inp["selected"] is None else numpy.array(inp["selected"], dtype=float).reshape(len(inp["selected"]), dim)
  state = numpy.random.get_state()
  numpy.random.seed(inp["seed"])
  try:
    bp, res = ms.optimize(selected_starts=sel)
  except RuntimeError as e:
    return dict(signature="C07:ms:runtime-error", what=f"multistart raised RuntimeError: {str(e)[:100]}", input=inp, observed=str(e)[:200],
                expected="a point", oracle="direct run")
  finally:
    numpy.random.set_state(state)

  def fail(sig, what, observed=None, expected=None):
    return dict(signature=f"C07:ms:{sig}", what=f"multistart: {what}", input=inp, observed=observed, expected=expected,
                oracle="direct statement of the property on real SciPy runs")
  ok = [i for i, v in enumerate(res.function_values) if v == v]
  if ok:
    if not in_domain(list(bp), lb, ub, [], cons, tol=0.0 if not cons else 1e-9):
      return fail("result-outside-domain", "the returned point is outside the domain although a run succeeded", [float(x) for x in bp])
  for i in ok:
    e = res.ending_points[i]
    if abs(smooth_af(coef, e) - res.function_values[i]) > 1e-9 * max(1.0, abs(res.function_values[i])):
      return fail("values-do-not-match-reevaluation", "a reported value differs from re-evaluation at the end point",
                  float(res.function_values[i]), smooth_af(coef, e))
  if inp["slsqp"] and cons:
    # clause (h): a single constrained SLSQP run started inside the domain ends inside it.  The library's part is the tightened
    # inequality (Props/C07_scipy.v, tied to the code by the correspondence on the constraint functions).  SLSQP's part is its documented
    # accuracy: it stops when the summed constraint violation is below acc = ftol (1e-4 here, absolute), so a "successful" end point may
    # sit up to that far outside - observed on the unchanged tree: 3.3e-9 outside with a margin of 6e-10 (rhs -0.0625), 1e-15 at rhs = 0.
    # The run-based clause is therefore stated with SciPy's accuracy and only catches gross errors (a constraint of the wrong sign,
    # a missing constraint); a loosened margin is caught by the correspondence and by oracle_scipycons.
    for s in res.starting_points:
      if not in_domain(list(s), lb, ub, [], cons, 0.0):
        continue
      from libsigopt.compute.optimization_auxiliary import SLSQPParameters
      # both ways of supplying the gradient (analytic, or SciPy's finite differences: approx_grad=True) hand the same constraints to SLSQP
      single = L.opt.SLSQPOptimizer(dom, Obj(), SLSQPParameters(approx_grad=True) if inp.get("approx_grad") else None)
      single.objective_function.current_point = numpy.array(s, dtype=float)
      single.optimize()
      r = single.optimization_results
      e = numpy.asarray(r.x, dtype=float)
      if not r.success or not numpy.all(numpy.isfinite(e)):
        continue
      for c in cons:
        mag = sum(abs(w * x) for w, x in zip(c[:-1], e)) + abs(c[-1]) + 1e-300
        slack = sum(w * x for w, x in zip(c[:-1], e)) - c[-1]
        if slack < -(1e-4 + 1e-9 * mag):
          return fail("slsqp-run-from-inside-ends-outside", "a successful single SLSQP run started inside the domain ended outside a linear constraint",
                      dict(start=[float(x) for x in s], end=[float(x) for x in e], constraint=c, slack=slack), "w . x >= rhs (to SLSQP's accuracy acc = ftol = 1e-4)")
      if any(x < l - 1e-9 * (abs(l) + 1) or x > u + 1e-9 * (abs(u) + 1) for x, l, u in zip(e, lb, ub)):
        return fail("slsqp-run-from-inside-ends-outside-box", "a successful single SLSQP run started inside the domain ended outside the box",
                    dict(start=[float(x) for x in s], end=[float(x) for x in e]), "lb <= x <= ub")
  # successes are exactly the acceptable end points whose run reported success; the result is the best of them
  return None


def oracle_scipycons(inp):
  """Independent statement for the SciPy constraint functions: the inequality fun(x) >= 0 is never looser than w . x >= rhs,
  i.e. fun(x) <= w . x - rhs (exact rational arithmetic, 1e-15 of the magnitudes for the rounding of the library's doubles)."""
  out = run_scipy_case(inp)
  x = [fr(v) for v in inp["x"]]
  for c, f, j in zip(inp["cons"], out["funs"], out["jacs"]):
    w, rhs = [fr(v) for v in c[:-1]], fr(c[-1])
    slack = sum(a * b for a, b in zip(w, x)) - rhs
    mag = sum(abs(a * b) for a, b in zip(w, x)) + abs(rhs) + 1
    if fr(f) > slack + mag / 10 ** 15:
      return dict(signature="C07:scipycons:constraint-loosened", what="the inequality handed to SciPy is looser than the user's constraint",
                  input=inp, observed=dict(fun=f, true_slack=float(slack), constraint=c), expected="fun(x) <= w . x - rhs",
                  oracle="exact rational re-evaluation")
    if [fr(v) for v in j] != w:
      return dict(signature="C07:scipycons:jacobian", what="the Jacobian handed to SciPy is not the weight vector", input=inp,
                  observed=j, expected=c[:-1], oracle="direct comparison")
  if len(out["funs"]) != len(inp["cons"]):
    return dict(signature="C07:scipycons:count", what="number of SciPy constraints differs from the number of user constraints", input=inp,
                observed=len(out["funs"]), expected=len(inp["cons"]), oracle="direct comparison")
  return None


_CL_LOG = []   # module-level: survives the deepcopy constant_liar_acquisition_function_optimization makes of the acquisition function


def oracle_clrounds(inp):
  """The two-stage vectorised optimisation inside the constant-liar loop (real DE + Adam, small budgets, real EI on a small GP): in every
  round the point the loop takes (the one it appends as a lie) is a point the optimisers evaluated IN THAT ROUND - under the acquisition
  function as it stands after the previous lies - and no point evaluated in that round by the final (gradient) stage has a higher value."""
  import libsigopt.compute.acquisition_function_optimization as afo
  from libsigopt.compute.domain import CategoricalDomain
  from libsigopt.compute.expected_improvement import ExpectedImprovement
  from lib import c01_util, gpgen
  c01_util.shrink_optimisers()
  gp = gpgen.make_gp(inp["gp"])
  dim = gp.dim
  dom = CategoricalDomain([dict(var_type="double", elements=[-0.2, 1.2]) for _ in range(dim)])

  class RecEI(ExpectedImprovement):
    def evaluate_at_point_list(self, pts, batch_size=None):
      v = super().evaluate_at_point_list(pts, batch_size=batch_size)
      _CL_LOG[-1]["evals"].append((numpy.array(pts, dtype=float).reshape(len(v), -1).copy(), numpy.array(v, dtype=float).copy(), "value"))
      return v

    def joint_function_gradient_eval(self, pts):
      v, g = super().joint_function_gradient_eval(pts)
      _CL_LOG[-1]["evals"].append((numpy.array(pts, dtype=float).reshape(len(v), -1).copy(), numpy.array(v, dtype=float).copy(), "grad"))
      return v, g

    def append_lie_locations(self, lie):
      _CL_LOG[-1]["taken"] = numpy.array(lie, dtype=float).reshape(-1).copy()
      _CL_LOG[-1]["value_taken"] = float(ExpectedImprovement.evaluate_at_point_list(self, numpy.atleast_2d(lie))[0])
      super().append_lie_locations(lie)
      _CL_LOG.append(dict(evals=[], taken=None))
  del _CL_LOG[:]
  _CL_LOG.append(dict(evals=[], taken=None))
  state = numpy.random.get_state()
  numpy.random.seed(inp["seed"])
  try:
    afo.constant_liar_acquisition_function_optimization(dom.one_hot_domain, RecEI(gp), inp["k"])
  finally:
    numpy.random.set_state(state)
  for rnd, rec in enumerate(_CL_LOG[:-1]):
    allp = numpy.vstack([p for p, _, _ in rec["evals"]]) if rec["evals"] else numpy.empty((0, dim))
    if not len(allp) or float(numpy.abs(allp - rec["taken"][None, :]).max(axis=1).min()) > 0:
      return dict(signature="C07:clrounds:point-not-evaluated-in-its-round", what=f"constant-liar round {rnd}: the point taken was not evaluated in that round (it is the best of an "
                  "earlier round, found under an acquisition function that has since changed)", input=inp, observed=dict(round=rnd, taken=rec["taken"].tolist()),
                  expected="a point evaluated in this round", oracle="recording acquisition function")
    gv = [float(v.max()) for _, v, kind in rec["evals"] if kind == "grad" and len(v)]
    if gv and rec["value_taken"] < max(gv) - 1e-12 * max(1.0, abs(max(gv))):
      return dict(signature="C07:clrounds:taken-point-is-not-the-best-evaluated", what=f"constant-liar round {rnd}: the gradient stage evaluated a point of higher value than the one taken",
                  input=inp, observed=dict(round=rnd, value_taken=rec["value_taken"], best_evaluated=max(gv)), expected="the evaluated point of highest value", oracle="recording acquisition function")
  return None


def oracle(inp):
  try:
    if inp["kind"] == "clrounds":
      return oracle_clrounds(inp)
    if inp["kind"] == "twostage":
      return oracle_twostage(inp)
    if inp["kind"] == "scipycons":
      return oracle_scipycons(inp)
    if inp["kind"] == "ms":
      if "table" in inp:
        return oracle_ms_scripted(inp)
      return oracle_scipy(inp)
    if "coef" in inp:
      return oracle_vec(inp)
    return oracle_scripted(inp)
  except Exception as e:
    return dict(signature=f"C07:{inp['kind']}:raises:{type(e).__name__}", what=f"{inp['kind']} raised {type(e).__name__}: {e}", input=inp,
                observed=repr(e), expected="a result", oracle="no exception on valid input")


def oracle_scripted(inp):
  """Property on a scripted (correspondence-style) DE / Adam case, with plain-Python re-evaluation."""
  out = run_vec(inp)

  def fail(sig, what, observed=None, expected=None):
    return dict(signature=f"C07:{inp['kind']}:{sig}", what=f"{inp['kind']} (scripted draws): {what}", input=inp, observed=observed, expected=expected,
                oracle="recording wrapper + exact rational re-evaluation")
  rec = out["rec"]
  for p in [p for b in rec["evals"] for p in b]:
    if not in_domain(list(p), inp["lb"], inp["ub"], inp["fixed"], inp["cons"]):
      return fail("evaluated-outside-domain", "the acquisition function was evaluated outside the domain", [float(x) for x in p])
  if out["error"]:
    if inp["kind"] == "de" and inp["maxiter"] >= 1 and (inp["n"] < 2 or (inp["selected"] is not None and len(inp["selected"]) > inp["n"])):
      return None   # documented precondition
    if rec["evals"] and all(af_undefined(inp["af"], p) for p in rec["evals"][-1]):
      return None   # the batch just evaluated has no value at all: numpy.nanargmax raises, nothing is returned (reading in ASSUMPTIONS)
    return fail("raises:ValueError", f"raised ValueError: {out['msg']}")
  allpts = [p for b in rec["evals"] for p in b]
  if rec.get("prior_evals"):   # a re-used optimiser keeps its best-so-far: the best is taken over everything the object ever evaluated
    allpts = [p for b in rec["prior_evals"] for p in b] + allpts
  vals = [af_exact(inp["af"], p)[0] for p in allpts]      # None where the function is undefined (NaN): such a point has no value
  have = [i for i in range(len(vals)) if vals[i] is not None]
  if not have:
    return fail("returns-without-a-value", "optimize() returned although no evaluated point has a value", out["best_value"])
  imax = max(have, key=lambda i: (vals[i], -i))
  if not any(numpy.array_equal(out["best"], allpts[i]) and vals[i] == vals[imax] for i in have):
    return fail("best-not-argmax", "the returned point is not an evaluated point of highest value (among the evaluated points that have a value)",
                [float(x) for x in out["best"]], [float(x) for x in allpts[imax]])
  if out["best_value"] != out["best_value"] or fr(out["best_value"]) != vals[imax]:
    return fail("best-value-not-reproducible", "best_value differs from the acquisition function at best_location", out["best_value"], float(vals[imax]))
  post = out.get("after_next_step")
  if post is not None and (not numpy.array_equal(out["best"], post["returned"]) or not numpy.array_equal(out["best"], post["best_location"])
                           or post["best_value"] != out["best_value"]):
    return fail("best-location-changed-by-the-next-step", NEXT_STEP_WHAT, dict(best_location=post["best_location"].tolist(), returned_array=post["returned"].tolist()),
                [float(x) for x in out["best"]])
  if any(v is not None and v > vals[imax] for v in (af_exact(inp["af"], p)[0] for p in rec["routs"][0])):
    return fail("below-restricted-start", "best_value is lower than the value at a restricted starting point")
  if inp["selected"] is not None and not inp["cons"] and not (inp["kind"] == "de" and inp["maxiter"] >= 1 and len(inp["selected"]) > inp["n"]):
    # every SUPPLIED start counts, however many there are: on a box the restriction is the coordinate-wise clip followed by the fixed coordinates
    fx = {int(k): v for k, v in inp["fixed"]}
    for st in inp["selected"]:
      q = [fx[j] if j in fx else min(max(x, l), u) for j, (x, l, u) in enumerate(zip(st, inp["lb"], inp["ub"]))]
      vq = af_exact(inp["af"], q)[0]
      if vq is not None and vq > vals[imax]:
        return fail("below-supplied-start", "best_value is lower than the value at a supplied starting point restricted to the box", [float(x) for x in q], float(vals[imax]))
  want = inp["maxiter"] + 2 if inp["kind"] == "de" else max(inp["maxiter"] - 1, 0) + 1
  if len(rec["evals"]) != want:
    return fail("iteration-count", "number of evaluated batches differs from the iteration count", len(rec["evals"]), want)
  if [None if v != v else fr(v) for v in out["vals"]] != [af_exact(inp["af"], p)[0] for p in out["end"]]:
    return fail("results-not-reproducible", "reported function_values differ from re-evaluation at ending_points")
  if inp["kind"] == "de":
    pops = [p for p in rec["pop_at_eval"][1:]] + [out["end"]]
    for t in range(inp["maxiter"]):
      before, trial, after = pops[t], rec["evals"][t + 1], pops[t + 1]
      for j in range(len(before)):
        if numpy.array_equal(after[j], before[j]):
          continue
        va, vb = af_exact(inp["af"], after[j])[0], af_exact(inp["af"], before[j])[0]
        if not numpy.array_equal(after[j], trial[j]) or (va is not None and vb is not None and va < vb):
          return fail("replaced-by-worse", "a population member was replaced by a worse point (or by something that is not its trial)",
                      dict(iteration=t, member=j))
  else:
    # first Adam step: lr * g / (|g| + eps) per coordinate, never against the gradient
    if len(rec["rins"]) >= 2:
      g0, p0, nx = rec["grads"][0], rec["evals"][0], rec["rins"][1]
      for j in range(len(g0)):
        for k in range(len(g0[j])):
          g, u = float(g0[j][k]), float(nx[j][k]) - float(p0[j][k])
          den = abs(g) + inp["eps"]
          if den > 0 and abs(u - inp["lr"] * g / den) > 1e-12 * max(1.0, abs(u)):
            return fail("adam-first-step", "the first Adam step is not lr * g / (|g| + eps)", u, inp["lr"] * g / den)
          if den > 0 and u * g < -1e-15:
            return fail("adam-descends", "the first Adam step points against the gradient", u, g)
  return None


def oracle_ms_scripted(inp):
  out = run_ms(inp)

  def fail(sig, what, observed=None, expected=None):
    return dict(signature=f"C07:ms:{sig}", what=f"multistart (scripted inner optimiser): {what}", input=inp, observed=observed, expected=expected,
                oracle="plain-Python restatement over the outcome table")
  nsel = len(inp["selected"] or [])
  if out["error"]:
    if out["error"] == "ValueError" and inp["selected"] is None and inp["nm"] < 1:
      return None
    if out["error"] == "RuntimeError" and inp["nm"] == 0 and nsel == 0:
      return None   # documented: num_multistarts == 0 needs selected starts
    if out["error"] == "RuntimeError" and inp["nm"] == 0 and nsel == 1:
      return fail("single-start-failure-raises-RuntimeError",
                  "num_multistarts=0 with one selected start whose run fails: the stopping test is skipped by `continue`, all 1000 backup starts are "
                  "run and RuntimeError is raised instead of returning the start", out["msg"], "the supplied start")
    return fail(f"raises:{out['error']}", f"raised {out['error']}: {out['msg']}")
  k = out["calls"]
  starts = [list(map(float, s)) for s in out["start"]]
  eff = []
  for i in range(k):
    o = inp["table"][i] if i < len(inp["table"]) else dict(raised=False, success=False, end=starts[i], fun=None)
    end = starts[i] if o["raised"] else [float(x) for x in o["end"]]
    okpt = (not o["raised"]) and len(end) == len(inp["lb"]) and in_domain(end, inp["lb"], inp["ub"], [], inp["cons"], 0.0)
    eff.append((okpt and o["success"], end, o["fun"] if okpt else None))   # (successful in-domain run, end point, reported value or NaN)
  real = [(i, e) for i, e in enumerate(eff) if e[0] and e[2] is not None]
  if real:
    top = max(v[2] for _, v in real)
    first = next(v for _, v in real if v[2] == top)
    if [float(x) for x in out["best"]] != first[1]:
      return fail("best-not-first-best-success", "the result is not the first successful in-domain end point of highest value",
                  [float(x) for x in out["best"]], first[1])
  elif not any(e[0] for e in eff):
    if [float(x) for x in out["best"]] != starts[0]:
      return fail("no-success-not-first-start", "no run succeeded but the result is not the first start", [float(x) for x in out["best"]], starts[0])
  for i, e in enumerate(eff):
    v = out["vals"][i]
    if (e[2] is None) != (v != v) or (e[2] is not None and v != e[2]):
      return fail("reported-values", "function_values differ from the per-start outcomes", float(v), e[2])
    if [float(x) for x in out["end"][i]] != e[1]:
      return fail("reported-ends", "ending_points differ from the per-start outcomes")
  return None


def gen_search(rng):
  kind = rng.choice(["de", "de", "adam", "ms"])
  dim = rng.randint(1, 5)
  constrained = dim >= 2 and rng.random() < 0.45
  fixed = dim >= 2 and rng.random() < 0.4 and kind != "ms"
  scale = 10.0 ** rng.randint(-2, 2)
  lb, ub, fx, cons = gen_domain(rng, dim, constrained, fixed)
  lb, ub = [l * scale for l in lb], [u * scale for u in ub]
  fx = [[k, v * scale] for k, v in fx]
  cons = [[w for w in c[:-1]] + [c[-1] * scale] for c in cons]
  coef = dict(a=[rng.uniform(0.1, 2.0) / scale ** 2 for _ in range(dim)], c=[rng.uniform(l - (u - l), u + (u - l)) for l, u in zip(lb, ub)],
              s=rng.choice([0.0, 0.3]))
  n = rng.randint(2, 12)
  m = rng.choice([None, 0, 1, n // 2, n])
  sel = None if m is None else [[rng.uniform(l - (u - l), u + (u - l)) if rng.random() < 0.5 else rng.choice([l, u, (l + u) / 2])
                                  for l, u in zip(lb, ub)] for _ in range(m)]
  if sel is not None and len(sel) == 0:
    sel = None
  inp = dict(kind=kind, lb=lb, ub=ub, fixed=fx, cons=cons, coef=coef, n=n, maxiter=rng.randint(0, 12), selected=sel, seed=rng.randrange(2 ** 31))
  if kind != "ms" and rng.random() < 0.35:
    # a partial objective: no value (NaN) beyond a threshold in one coordinate - often right next to the maximiser, so that good candidates
    # and undefined ones share a batch - at the lower or the upper side
    k = rng.randrange(dim)
    t = rng.choice([coef["c"][k] + rng.choice([-1, 1]) * 0.05 * (ub[k] - lb[k]), rng.uniform(lb[k], ub[k])])
    coef["und"] = [[k, float(min(max(t, lb[k]), ub[k])), rng.random() < 0.5]]
  if kind == "de":
    inp.update(best1=rng.random() < 0.5, F=rng.uniform(0.1, 1.5), CR=rng.uniform(0.0, 1.0))
  elif kind == "adam":
    inp.update(lr=rng.choice([0.001, 0.01, 0.1, 1.0]) * scale, n=rng.randint(1, 10))
  else:
    inp.update(nm=rng.randint(1, 4), slsqp=bool(cons) or rng.random() < 0.5, fixed=[], approx_grad=rng.random() < 0.4)
    if cons and rng.random() < 0.5:
      # the domain object has a life before this optimisation: it was given OTHER constraints first (same box), served a constrained SLSQP run,
      # and was then handed the present constraints through the public setter - "the domain" of the clause is the one it is now (C07_m14)
      inp["earlier_cons"] = [[w for w in c[:-1]] + [c[-1] * scale] for c in gen_domain(rng, dim, True, False)[3]]
      inp["earlier_cons"] = [[w for w in c[:-1]] + [sum(w * (l + u) / 2 for w, l, u in zip(c[:-1], lb, ub))
                                                    - rng.choice([0.25, 0.5, 0.75]) * sum(abs(w) * (u - l) / 2 for w, l, u in zip(c[:-1], lb, ub))]
                             for c in inp["earlier_cons"]]
  return inp


def search(ctx, hints, broken):
  fails, n = [], 0

  def add(r):
    if r and r["signature"] not in {f["signature"] for f in fails}:
      fails.append(r)
  for h in hints:
    if isinstance(h.get("input"), dict) and "kind" in h["input"]:
      n += 1
      add(oracle(h["input"]))
  rng = ctx.rng
  # structured: the corner of the multistart loop (one start, criteria deactivated) and scripted cases
  for _ in range(ctx.n(250, 3000) * (2 if broken else 1)):
    inp = gen_case(rng)
    if inp["kind"] in ("de", "adam") and rng.random() < 0.3:
      inp["reuse"] = rng.randrange(1, 10 ** 6)   # second call on an optimiser object that has been used before
    n += 1
    add(oracle(inp))
  for _ in range(ctx.n(200, 3000)):
    n += 1
    add(oracle(gen_scipy_case(rng)))
  from lib import gpgen
  for _ in range(ctx.n(6, 60)):   # the real two-stage optimisation inside the constant-liar loop
    n += 1
    add(oracle(dict(kind="clrounds", gp=gpgen.gen_gp_input(rng, differentiable=True, well_conditioned=True, allow_multitask=False, max_n=7, max_dim=2), k=rng.choice([2, 3]),
                    seed=rng.randrange(2 ** 31))))
  for _ in range(ctx.n(60, 900) * (2 if broken else 1)):   # the real two-stage routine on box / constrained / fixed domains, winners on faces
    n += 1
    add(oracle(gen_twostage(rng)))
  for _ in range(ctx.n(120, 2500) * (2 if broken else 1)):
    inp = gen_search(rng)
    n += 1
    add(oracle(inp))
    if inp["kind"] == "ms" and inp["cons"] and inp["slsqp"]:
      # "all optimizer parameters": the same constrained runs with the other way of supplying the gradient to SLSQP (analytic / finite differences)
      n += 1
      add(oracle(dict(inp, approx_grad=not inp.get("approx_grad"))))
    if len(fails) >= 4:
      break
  return dict(evaluations=n, failures=fails,
              oracle="recording wrapper; own domain membership; plain-Python argmax / replacement / multistart restatement; real NumPy draws and real SciPy runs")


def replay(ctx, payload):
  return oracle(payload["input"])


LEVEL_TEXT = ("Coq theorems (invariants by induction over iterations, for all parameters, starting sets, draws and acquisition functions) on an "
              "executable model of VectorizedOptimizer.optimize / evaluate_and_monitor, DEOptimizer._optimize, AdamOptimizer._optimize and "
              "MultistartOptimizer.optimize: every evaluated batch is a restriction output or a population of such, the returned point is the first "
              "evaluated point of maximal value, its value dominates every restricted start, DE replaces a member only by a trial of value >= the "
              "best so far, the box / fixed-index restriction lands in the domain with the fixed coordinates re-imposed, the first Adam step is "
              "lr*g/(|g|+eps) and steps under constant gradient signs keep the sign of the gradient, the multistart result is the first successful "
              "in-domain end point of maximal value; the model is tied to the code by exact differential runs evaluated inside Coq")
LEVEL_NOTE = ("Exact arithmetic over Q; restriction under linear constraints and quasi-random generation enter by contract (C08); the Adam square "
              "root is an oracle certified per case inside Coq; SLSQP/L-BFGS-B enter by their per-run outcome; the multistart clause (per-start outcome lists, first successful end point of maximal value, fallback) is proved in full "
              "(C07_multistart_best_successful; the literal 'first start' fallback is refuted for a NaN-valued successful first run); harness and case printer trusted; no axioms")
TECHNIQUE = "Coq proof (invariants, induction) on executable model + in-Coq differential correspondence with scripted NumPy draws"
DESIGN_REF = "DESIGN.md section 7, C07"

# --- second build round: additions to the claimed level
LEVEL_TEXT += ("; the multistart clause in full (per-start outcome lists, first successful end point of maximal value, fallback); the inequality handed to "
               "SLSQP is the user constraint tightened by 1e-8 |rhs| with the weight vector as Jacobian (Model/ScipyCons.v, exact correspondence on "
               "get_constraints_for_scipy)")
LEVEL_NOTE += "; SLSQP itself is a contract (its accuracy acc = ftol), see DESIGN 11.5"

# --- gap round A: acquisition functions that are undefined (NaN) at some points
LEVEL_TEXT += ("; the acquisition function of the model is partial (point -> option Q, None = NaN): numpy.nanargmax is modelled as the first maximum of the "
               "defined values, a batch without a defined value is the error value ValueError (C07_monitor_raises_only_without_a_value), the theorems "
               "range over every partial function: the result has a value and it is the highest evaluated one, starts and members without a value "
               "impose nothing, a trial without a value never replaces a member; the correspondence scripts functions undefined on half-spaces")
LEVEL_TEXT += ("; searcher: constraint weights are small integers or dyadic fractions whose absolute values sum to at most 1; after every run the library's next step "
               "(points near the returned best point) is taken and the optimiser's state re-examined; the real two-stage routine vectorized_acquisition_optimization is run on "
               "box / constrained / partially fixed domains with recording objectives per stage (winners on faces) and both optimiser objects are examined afterwards")
LEVEL_NOTE += ("; reading: 'all deterministic acquisition functions' includes functions undefined (NaN) at some points (the code's nanargmax anticipates "
               "them); a batch that is undefined throughout raises ValueError (void case); infinite values are not modelled")
